import LnModel.Ascii
/-! Model of the three serde adapter modules emitted into generated crates
(`codegen_rust/src/serde/option_*.rs`) over mathematical integers with explicit machine
ranges and `as`-cast wrap-around, driven through a model of serde_json's number dispatch. -/
namespace Ln

/-- a JSON value on the wire, as far as the adapters can tell values apart -/
inductive Wire where
  | int (n : Int)      -- a JSON number without fraction / exponent
  | float              -- any other JSON number
  | str (s : Text)
  | null
  | other              -- bool, array, object
  deriving DecidableEq, Repr

inductive DeErr where
  | invalidType
  | invalidValue
  deriving DecidableEq, Repr

def inI64 (n : Int) : Bool := decide (-9223372036854775808 ≤ n) && decide (n < 9223372036854775808)

/-- Rust `u64 as i64` -/
def wrapI64 (n : Int) : Int := (n + 9223372036854775808) % 18446744073709551616 - 9223372036854775808
/-- Rust `u64 as i32` -/
def wrapI32 (n : Int) : Int := (n + 2147483648) % 4294967296 - 2147483648

/-- which visitor method serde_json calls for an integer literal -/
inductive NumVisit where
  | u64 (n : Int)
  | i64 (n : Int)
  | f64
  deriving DecidableEq

def dispatch (n : Int) : NumVisit :=
  if 0 ≤ n then (if n < 18446744073709551616 then .u64 n else .f64)
  else (if -9223372036854775808 ≤ n then .i64 n else .f64)

/-! ### option_i64_null_as_zero -/

def nzDe : Wire → Except DeErr (Option Int)
  | .int n =>
    match dispatch n with
    | .u64 v => if v = 0 then .ok none
        else if v < 9223372036854775808 then .ok (some v) else .error .invalidValue   -- i64::try_from
    | .i64 v => if v = 0 then .ok none else .ok (some v)
    | .f64 => .error .invalidType
  | .null => .ok none                 -- `deserialize_option`: JSON null is absent
  | _ => .error .invalidType

def nzSer : Option Int → Wire
  | some i => .int i
  | none => .int 0

/-- zero stands for absent -/
def nzNorm : Option Int → Option Int
  | some 0 => none
  | v => v

/-! ### decimal text -/

def digitChar (k : Nat) : Char := Char.ofNat (48 + k)

def natToDec (n : Nat) : Text :=
  if h : n < 10 then [digitChar n] else natToDec (n / 10) ++ [digitChar (n % 10)]
termination_by n
decreasing_by omega

def decStep (acc : Option Nat) (c : Char) : Option Nat :=
  match acc with
  | none => none
  | some a => if c.isDigit then some (a * 10 + (c.toNat - 48)) else none

/-- digits only, at least one -/
def decToNat (t : Text) : Option Nat :=
  if t.isEmpty then none else t.foldl decStep (some 0)

/-- Rust `i64::to_string` -/
def i64ToString (i : Int) : Text :=
  if i < 0 then '-' :: natToDec i.natAbs else natToDec i.natAbs

def rangeCheck (n : Int) : Option Int := if inI64 n then some n else none

def signed (neg : Bool) (o : Option Nat) : Option Int :=
  match o with
  | some n => rangeCheck (if neg then -(n : Int) else (n : Int))
  | none => none

/-- Rust `str::parse::<i64>`: optional sign, digits, range check -/
def parseI64 (t : Text) : Option Int :=
  match t with
  | '-' :: ds => signed true (decToNat ds)
  | '+' :: ds => signed false (decToNat ds)
  | ds => signed false (decToNat ds)

/-! ### option_i64_str -/

def strDe : Wire → Except DeErr (Option Int)
  | .str s => if s.isEmpty then .ok none else
      match parseI64 s with
      | some i => .ok (some i)
      | none => .error .invalidValue
  | .null => .ok none
  | _ => .error .invalidType

def strSer : Option Int → Wire
  | some i => .str (i64ToString i)
  | none => .str []

/-! ### option_chrono_naive_date_as_int -/

structure Date where
  y : Int
  m : Int
  d : Int
  deriving DecidableEq, Repr

def isLeap (y : Int) : Bool := (y % 4 == 0 && y % 100 != 0) || y % 400 == 0

def daysIn (y m : Int) : Int :=
  if m == 2 then (if isLeap y then 29 else 28)
  else if m == 4 || m == 6 || m == 9 || m == 11 then 30 else 31

/-- `chrono::NaiveDate::from_ymd_opt` -/
def fromYmdOpt (y m d : Int) : Option Date :=
  if -262143 ≤ y ∧ y ≤ 262142 ∧ 1 ≤ m ∧ m ≤ 12 ∧ 1 ≤ d ∧ d ≤ daysIn y m then some ⟨y, m, d⟩ else none

def Date.valid (dt : Date) : Bool := (fromYmdOpt dt.y dt.m dt.d).isSome

def dateDe : Wire → Except DeErr (Option Date)
  | .int n =>
    match dispatch n with
    | .u64 v => if v = 0 then .ok none else
        -- i32::try_from(year).ok().and_then(from_ymd_opt): a year beyond i32 is beyond chrono's range too
        .ok (fromYmdOpt (v / 10000) ((v / 100) % 100) (v % 100))
    | _ => .error .invalidType
  | .null => .ok none
  | _ => .error .invalidType

def dateSer : Option Date → Wire
  | some dt => .int (dt.y * 10000 + dt.m * 100 + dt.d)
  | none => .int 0

end Ln
