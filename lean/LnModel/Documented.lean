import LnModel.Extract
/-! The *documented* type mapping of property C08, transcribed from the property's table —
a specification, written independently of how the extractor computes types:

string→String, integer→i64, number→f64, boolean→bool, date→NaiveDate, date-time→DateTime<Utc>,
decimal string→Decimal, array→Vec<T>, free-form/oneOf/anyOf→JSON value, map→HashMap<String,T>,
`$ref` to object/enum (anything that is not a primitive)→that model, `$ref` to a primitive→the primitive. -/
namespace Ln

/-- a *map*: object schema with `additionalProperties` and no `properties` (DESIGN 6.0) -/
def isMapKind : Kind → Bool
  | .obj props _ addl => props.isEmpty && (match addl with | .absent => false | _ => true)
  | _ => false

mutual
/-- the documented type of an inline schema -/
def docTyItem (spec : Spec) : Nat → Schema → X Ty
  | 0, _ => .error .diverged
  | fuel + 1, s =>
    match s.kind with
    | .str format _ => .ok (strTy format)
    | .num => .ok .float
    | .int => .ok (intTy s.data.ext)
    | .bool => .ok .boolean
    | .arr (.some it) => match docTy spec fuel it with | .error e => .error e | .ok t => .ok (.array t)
    | .arr .none => .ok (.array .any)
    | .obj props _ addl =>
      if props.isEmpty then
        match addl with
        | .absent => .ok .any                                  -- free-form
        | .any _ => .ok (.hashMap .any)                         -- map of anything
        | .schema r => match docTy spec fuel r with | .error e => .error e | .ok t => .ok (.hashMap t)
      else .ok .any                                             -- inline object: JSON value
    | .allOf members =>
      if members.length == 1 then
        match members.head? with
        | some m => docTy spec fuel m
        | none => .ok .any
      else .ok .any
    | .oneOf => .ok .any
    | .anyOf => .ok .any
    | .not_ => .ok .any
    | .any _ _ => .ok .any
/-- the documented type of a schema occurrence (inline or `$ref`) -/
def docTy (spec : Spec) : Nat → SRef → X Ty
  | 0, _ => .error .diverged
  | fuel + 1, .item s => docTyItem spec fuel s
  | fuel + 1, .ref reference =>
    match resolve spec (.ref reference) with
    | .error e => .error e
    | .ok s =>
      match isPrimitive spec (fuel + 1) s with
      | .error e => .error e
      | .ok true => docTyItem spec fuel s          -- `$ref` to a primitive → the primitive
      | .ok false =>
        match parseRef reference with
        | .error e => .error e
        | .ok (.schema n) => mkModel n              -- `$ref` to anything else → that model
        | .ok (.property _ _) => .error .propertyRef
end

/-- does an inline map occur at or below this schema occurrence (through inline structure only)? -/
def hasInlineMap : Nat → SRef → Bool
  | 0, _ => false
  | _ + 1, .ref _ => false
  | fuel + 1, .item s =>
    isMapKind s.kind ||
    (match s.kind with
     | .arr (.some it) => hasInlineMap fuel it
     | .allOf members => if members.length == 1 then (match members.head? with | some m => hasInlineMap fuel m | none => false) else false
     | _ => false)

/-- the borrowed (argument) form differs from the owned one only for strings and lists of strings -/
def isRefTy : Ty → Bool
  | .string => true
  | .array t => isRefTy t
  | _ => false

end Ln
