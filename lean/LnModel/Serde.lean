import LnModel.Emit.Model
import LnModel.Adapters
/-! Semantics of the serde derives on the generated model types, for exactly the shapes libninja
emits: what `serde_json::to_value(serde_json::from_value::<T>(j)?)` yields.

The two steps are fused into one function per type (`rt…`): each clause reads the wire value into
the Rust value the derive would build and prints that value again. Values of leaf types are
identified with their canonical JSON form. serde itself is not verified: this file *is* the
assumption about serde, validated against compiled generated models on every run (stage K04). -/
namespace Ln

mutual
inductive Json where
  | null
  | bool (b : Bool)
  | int (i : Int)
  /-- a number with a fraction or exponent, as its canonical lexeme -/
  | float (t : Text)
  | str (s : Text)
  | arr (items : Jsons)
  | obj (members : Members)
inductive Jsons where
  | nil
  | cons (j : Json) (rest : Jsons)
inductive Members where
  | nil
  | cons (k : Text) (v : Json) (rest : Members)
end

def Members.get (k : Text) : Members → Option Json
  | .nil => none
  | .cons k' v rest => if k == k' then some v else rest.get k

def Members.append : Members → Members → Members
  | .nil, b => b
  | .cons k v r, b => .cons k v (r.append b)

def Members.keys : Members → List Text
  | .nil => []
  | .cons k _ r => k :: r.keys

inductive SerdeErr where
  | typeMismatch
  | missingField (k : Text)
  | unknownVariant
  | modelNotFound
  | invalidValue
  | ident (p : Panic)
  | diverged
  | unmodelled
  deriving DecidableEq, Repr

def Json.toWire : Json → Wire
  | .int n => .int n
  | .float _ => .float
  | .str s => .str s
  | .null => .null
  | _ => .other

def Wire.toJson : Wire → Json
  | .int n => .int n
  | .str s => .str s
  | .null => .null
  | _ => .null

def isDigits (t : Text) : Bool := !t.isEmpty && t.all Char.isDigit

def twoDigits (t : Text) : Option Int :=
  match t with
  | [a, b] => if a.isDigit && b.isDigit then some (((a.toNat - 48) * 10 + (b.toNat - 48) : Nat) : Int) else none
  | _ => none

/-- `YYYY-MM-DD` of a real calendar day (the canonical form chrono prints) -/
def isIsoDate (s : Text) : Bool :=
  match s with
  | [y1, y2, y3, y4, '-', m1, m2, '-', d1, d2] =>
    if y1.isDigit && y2.isDigit && y3.isDigit && y4.isDigit then
      match twoDigits [m1, m2], twoDigits [d1, d2] with
      | some m, some d =>
        let y : Int := (((y1.toNat - 48) * 1000 + (y2.toNat - 48) * 100 + (y3.toNat - 48) * 10 + (y4.toNat - 48) : Nat) : Int)
        (fromYmdOpt y m d).isSome
      | _, _ => false
    else false
  | _ => false

/-- `YYYY-MM-DDTHH:MM:SSZ` (the canonical form chrono prints for `DateTime<Utc>` without fraction) -/
def isIsoDateTime (s : Text) : Bool :=
  match s.splitAt 10 with
  | (d, ['T', h1, h2, ':', m1, m2, ':', s1, s2, 'Z']) =>
    isIsoDate d &&
    (match twoDigits [h1, h2], twoDigits [m1, m2], twoDigits [s1, s2] with
     | some h, some m, some sec => decide (h < 24) && decide (m < 60) && decide (sec < 60)
     | _, _, _ => false)
  | _ => false

/-- sign, digits, optional fraction; no leading zeros except a lone `0` (the text the decimal type prints back) -/
def isDecimal (s : Text) : Bool :=
  let body := match s with | '-' :: r => r | r => r
  match splitOnce ['.'] body with
  | some (i, f) => isDigits i && isDigits f && (i.length == 1 || i.head? != some '0') && decide (i.length + f.length ≤ 28)
  | none => isDigits body && (body.length == 1 || body.head? != some '0') && decide (body.length ≤ 28)

def renameOf : SerdeAttr → Option Text
  | .rename w => some w
  | _ => none

def wireKey (ident : Text) (attrs : List SerdeAttr) : Text :=
  match attrs.findSome? renameOf with
  | some w => w
  | none => ident

def hasFlatten (attrs : List SerdeAttr) : Bool := attrs.any fun a => match a with | .flatten => true | _ => false
def skipPred (attrs : List SerdeAttr) : Option Text := attrs.findSome? fun a => match a with | .defaultSkip p => some p | _ => none
def withPath (attrs : List SerdeAttr) : Option Text := attrs.findSome? fun a => match a with | .with_ p => some p | _ => none

/-- does the value meet the `skip_serializing_if` predicate? (`none`-valued options print as `null`) -/
def skipped (pred : Text) (v : Json) : Bool :=
  if pred == cs!"Option::is_none" then (match v with | .null => true | _ => false)
  else if pred == cs!"Vec::is_empty" then (match v with | .arr .nil => true | _ => false)
  else if pred == cs!"serde_json::Value::is_null" then (match v with | .null => true | _ => false)
  else false

/-- what `Default::default()` of the field prints as, when the member is absent and `#[serde(default)]` is present -/
def defaultJson (optionWrapped : Bool) (t : Ty) : Json :=
  if optionWrapped then .null
  else match t with
    | .array _ => .arr .nil
    | _ => .null

def liftE {α : Type} : Except DeErr α → Except SerdeErr α
  | .ok a => .ok a
  | .error .invalidType => .error .typeMismatch
  | .error .invalidValue => .error .invalidValue

/-- the `with = ".."` adapters: read and print back -/
def rtAdapter (path : Text) (v : Json) : Except SerdeErr Json :=
  if path == cs!"crate::serde::option_i64_str" then
    match liftE (strDe v.toWire) with | .ok x => .ok (strSer x).toJson | .error e => .error e
  else if path == cs!"crate::serde::option_i64_null_as_zero" then
    match liftE (nzDe v.toWire) with | .ok x => .ok (nzSer x).toJson | .error e => .error e
  else if path == cs!"crate::serde::option_chrono_naive_date_as_int" then
    match liftE (dateDe v.toWire) with | .ok x => .ok (dateSer x).toJson | .error e => .error e
  else if path == cs!"rust_decimal::serde::str" then
    match v with | .str s => if isDecimal s then .ok (.str s) else .error .invalidValue | _ => .error .typeMismatch
  else if path == cs!"rust_decimal::serde::str_option" then
    match v with | .null => .ok .null | .str s => if isDecimal s then .ok (.str s) else .error .invalidValue | _ => .error .typeMismatch
  else .error .unmodelled

/-- for adapters that read into an `Option`: is the value they built `None`? (decides `skip_serializing_if`) -/
def adapterIsNone (path : Text) (v : Json) : Bool :=
  if path == cs!"crate::serde::option_i64_str" then (match strDe v.toWire with | .ok none => true | _ => false)
  else if path == cs!"crate::serde::option_i64_null_as_zero" then (match nzDe v.toWire with | .ok none => true | _ => false)
  else if path == cs!"crate::serde::option_chrono_naive_date_as_int" then (match dateDe v.toWire with | .ok none => true | _ => false)
  else if path == cs!"rust_decimal::serde::str_option" then (match v with | .null => true | _ => false)
  else false

def inF64Exact (i : Int) : Bool := decide (-9007199254740992 ≤ i) && decide (i ≤ 9007199254740992)

structure FieldShape where
  ident : Text
  attrs : List SerdeAttr
  optionWrapped : Bool
  ty : Ty

def fieldShape (name : Text) (f : HirField) : Except Panic FieldShape :=
  match sanitize name with
  | .ok ident => .ok { ident := ident, attrs := fieldAttributes f name ident, optionWrapped := f.optional || forcedOptional f.ty, ty := f.ty }
  | .error e => .error e

def mapJsons (g : Json → Except SerdeErr Json) : Jsons → Except SerdeErr Jsons
  | .nil => .ok .nil
  | .cons j r => match g j, mapJsons g r with
    | .ok a, .ok b => .ok (.cons a b)
    | .error e, _ => .error e
    | _, .error e => .error e

def mapMembers (g : Json → Except SerdeErr Json) : Members → Except SerdeErr Members
  | .nil => .ok .nil
  | .cons k j r => match g j, mapMembers g r with
    | .ok a, .ok b => .ok (.cons k a b)
    | .error e, _ => .error e
    | _, .error e => .error e

/-- the variant a wire string selects, printed back -/
def rtEnum (enumName : Text) (variants : List Variant) (s : Text) : Except SerdeErr Json :=
  match variants with
  | [] => .error .unknownVariant
  | v :: rest =>
    match enumVariant enumName v with
    | .error (.ident p) => .error (.ident p)
    | .error _ => .error .unmodelled
    | .ok (ident, rename) =>
      let wire := rename.getD ident
      if wire == s then .ok (.str wire) else rtEnum enumName rest s

/-- one struct field, given the walk for its type; yields the members it prints -/
def rtFieldWith (rt : Ty → Json → Except SerdeErr Json) (sh : FieldShape) (m : Members) : Except SerdeErr Members :=
  if hasFlatten sh.attrs then
    -- the field is read from, and printed into, the object itself
    match rt sh.ty (.obj m) with
    | .ok (.obj inner) => .ok inner
    | .ok _ => .error .unmodelled
    | .error e => if sh.optionWrapped then .ok .nil else .error e
  else
    let key := wireKey sh.ident sh.attrs
    let emit (v : Json) (isNone : Bool) : Members :=
      match skipPred sh.attrs with
      | some p => if (if p == cs!"Option::is_none" then isNone else skipped p v) then .nil else .cons key v .nil
      | none => .cons key v .nil
    match m.get key, withPath sh.attrs with
    | some v, some path =>
      (match rtAdapter path v with
       | .ok out => .ok (emit out (adapterIsNone path v))
       | .error e => .error e)
    | some v, none =>
      if sh.optionWrapped then
        (match v with
         | .null => .ok (emit .null true)
         | _ => match rt sh.ty v with | .ok out => .ok (emit out false) | .error e => .error e)
      else (match rt sh.ty v with | .ok out => .ok (emit out false) | .error e => .error e)
    | none, wp =>
      match skipPred sh.attrs with
      | some _ =>
        -- `#[serde(default)]`: the default value is built and, meeting the skip predicate, not printed
        let _ := wp
        .ok (emit (defaultJson sh.optionWrapped sh.ty) sh.optionWrapped)
      | none =>
        match wp with
        | some _ => .error (.missingField key)       -- `with` switches off serde's leniency for a missing `Option`
        | none => if sh.optionWrapped then .ok (emit .null true) else .error (.missingField key)

def Members.without (ks : List Text) : Members → Members
  | .nil => .nil
  | .cons k v r => if ks.contains k then r.without ks else .cons k v (r.without ks)

/-- `m` is the object as the named fields see it, `rest` what is left for `#[serde(flatten)]` fields: the
members no named field of the struct claims -/
def rtFieldsWith (rt : Ty → Json → Except SerdeErr Json) (m rest : Members) : List FieldShape → Except SerdeErr Members
  | [] => .ok .nil
  | sh :: more =>
    match rtFieldWith rt sh (if hasFlatten sh.attrs then rest else m), rtFieldsWith rt m rest more with
    | .ok a, .ok b => .ok (a.append b)
    | .error e, _ => .error e
    | _, .error e => .error e

def namedKeys (shapes : List FieldShape) : List Text :=
  (shapes.filter fun sh => !hasFlatten sh.attrs).map fun sh => wireKey sh.ident sh.attrs

def shapesOf : List (Text × HirField) → Except Panic (List FieldShape)
  | [] => .ok []
  | (n, f) :: rest =>
    match fieldShape n f, shapesOf rest with
    | .ok a, .ok b => .ok (a :: b)
    | .error e, _ => .error e
    | _, .error e => .error e

/-- `from_value::<T>` followed by `to_value`, `T` the Rust type of `ty` -/
def rtTy (schemas : SchemaTable) : Nat → Ty → Json → Except SerdeErr Json
  | 0, _, _ => .error .diverged
  | fuel + 1, ty, j =>
    match ty with
    | .string => (match j with | .str s => .ok (.str s) | _ => .error .typeMismatch)
    | .integer _ => (match j with | .int i => if inI64 i then .ok (.int i) else .error .typeMismatch | _ => .error .typeMismatch)
    | .float => (match j with
        | .int i => if inF64Exact i then .ok (.float (i64ToString i ++ cs!".0")) else .error .unmodelled
        | .float t => .ok (.float t)
        | _ => .error .typeMismatch)
    | .boolean => (match j with | .bool b => .ok (.bool b) | _ => .error .typeMismatch)
    | .array t => (match j with
        | .arr items => (match mapJsons (rtTy schemas fuel t) items with | .ok r => .ok (.arr r) | .error e => .error e)
        | _ => .error .typeMismatch)
    | .hashMap t => (match j with
        | .obj m => (match mapMembers (rtTy schemas fuel t) m with | .ok r => .ok (.obj r) | .error e => .error e)
        | _ => .error .typeMismatch)
    | .unit => (match j with | .null => .ok .null | _ => .error .typeMismatch)
    | .any => .ok j
    | .date _ => (match j with | .str s => if isIsoDate s then .ok (.str s) else .error .invalidValue | _ => .error .typeMismatch)
    | .dateTime => (match j with | .str s => if isIsoDateTime s then .ok (.str s) else .error .invalidValue | _ => .error .typeMismatch)
    | .currency => (match j with | .str s => if isDecimal s then .ok (.str s) else .error .invalidValue | _ => .error .typeMismatch)
    | .model n =>
      match btGet n schemas with
      | none => .error .modelNotFound
      | some r =>
        match r with
        | .struct _ _ fields _ =>
          (match j with
           | .obj m =>
             (match shapesOf fields with
              | .error p => .error (.ident p)
              | .ok shapes => match rtFieldsWith (rtTy schemas fuel) m (m.without (namedKeys shapes)) shapes with | .ok out => .ok (.obj out) | .error e => .error e)
           | _ => .error .typeMismatch)
        | .newtype _ fields _ =>
          (match fields with
           | [f] => rtTy schemas fuel f.ty j
           | _ => .error .unmodelled)
        | .enum nm variants _ => (match j with | .str s => rtEnum nm variants s | _ => .error .typeMismatch)
        | .alias _ f =>
          if f.optional then (match j with | .null => .ok .null | _ => rtTy schemas fuel f.ty j)
          else rtTy schemas fuel f.ty j

def rtFuel (schemas : SchemaTable) : Nat := 64 + schemas.length

end Ln
