import LnModel.Ascii
/-! S-expressions for the line protocol between the Rust harness and the model driver.
`(head "string" atom (nested ...))`; strings use `\"`, `\\`, `\n`, `\r`, `\t`, `\u{HEX}`. -/
namespace Ln

inductive Sexp where
  | atom (s : String)
  | str (t : Text)
  | list (l : List Sexp)
  deriving Inhabited, BEq

namespace Sexp

def hexVal (c : Char) : Nat :=
  if c.isDigit then c.toNat - '0'.toNat
  else if 'a' ≤ c ∧ c ≤ 'f' then c.toNat - 'a'.toNat + 10
  else if 'A' ≤ c ∧ c ≤ 'F' then c.toNat - 'A'.toNat + 10
  else 0

partial def readStr : Text → Text → Option (Text × Text)
  | [], _ => none
  | '"' :: rest, acc => some (acc.reverse, rest)
  | '\\' :: 'n' :: rest, acc => readStr rest ('\n' :: acc)
  | '\\' :: 'r' :: rest, acc => readStr rest ('\r' :: acc)
  | '\\' :: 't' :: rest, acc => readStr rest ('\t' :: acc)
  | '\\' :: '"' :: rest, acc => readStr rest ('"' :: acc)
  | '\\' :: '\\' :: rest, acc => readStr rest ('\\' :: acc)
  | '\\' :: 'u' :: '{' :: rest, acc =>
    let hex := rest.takeWhile (· != '}')
    let rest' := (rest.dropWhile (· != '}')).drop 1
    let n := hex.foldl (fun a c => a * 16 + hexVal c) 0
    readStr rest' (Char.ofNat n :: acc)
  | c :: rest, acc => readStr rest (c :: acc)

def isAtomChar (c : Char) : Bool := !(c == '(' || c == ')' || c == '"' || c.isWhitespace)

mutual
partial def readOne : Text → Option (Sexp × Text)
  | [] => none
  | c :: rest =>
    if c.isWhitespace then readOne rest
    else if c == '(' then readList rest []
    else if c == ')' then none
    else if c == '"' then (readStr rest []).map fun (s, r) => (Sexp.str s, r)
    else
      let a := (c :: rest).takeWhile isAtomChar
      some (Sexp.atom (String.ofList a), (c :: rest).dropWhile isAtomChar)
partial def readList : Text → List Sexp → Option (Sexp × Text)
  | [], _ => none
  | c :: rest, acc =>
    if c.isWhitespace then readList rest acc
    else if c == ')' then some (Sexp.list acc.reverse, rest)
    else match readOne (c :: rest) with
      | some (x, r) => readList r (x :: acc)
      | none => none
end

def parse (s : String) : Option Sexp := (readOne s.toList).map (·.1)

def hexDigit (n : Nat) : Char :=
  if n < 10 then Char.ofNat ('0'.toNat + n) else Char.ofNat ('a'.toNat + n - 10)

def toHex (n : Nat) : Text :=
  if n < 16 then [hexDigit n] else
  let rec go (fuel n : Nat) (acc : Text) : Text :=
    match fuel with
    | 0 => acc
    | fuel + 1 => if n == 0 then acc else go fuel (n / 16) (hexDigit (n % 16) :: acc)
  go 8 n []

def escChar (c : Char) : Text :=
  if c == '"' then ['\\', '"']
  else if c == '\\' then ['\\', '\\']
  else if c == '\n' then ['\\', 'n']
  else if c == '\r' then ['\\', 'r']
  else if c == '\t' then ['\\', 't']
  else if c.toNat < 32 || c.toNat ≥ 127 then ['\\', 'u', '{'] ++ toHex c.toNat ++ ['}']
  else [c]

def quote (t : Text) : String := String.ofList (['"'] ++ t.flatMap escChar ++ ['"'])

partial def render : Sexp → String
  | atom s => s
  | str t => quote t
  | list l => "(" ++ " ".intercalate (l.map render) ++ ")"

end Sexp
end Ln
