import LnModel.Case
/-! Model of the identifier sanitiser (`mir_rust/src/lib.rs`): `rewrite_names`, the
`[a-z]_[0-9]` regex fix, `is_restricted`, `sanitize`, `sanitize_struct`, `assert_valid_ident`,
and the judgement `validIdent` = "what `syn::parse_str::<syn::Ident>` accepts" on ASCII. -/
namespace Ln

inductive Panic where
  | emptyIdent        -- `s.chars().next().unwrap()` on an empty string
  | parenInIdent
  | numericIdent
  | dotInIdent
  deriving DecidableEq, Repr

def rewriteChar (c : Char) : Text :=
  if c == '/' then ['_']
  else if c == '@' || c == '\'' || c == '+' then []
  else if c == ':' then [' ']
  else if c == '.' then ['_']
  else [c]

def rewriteNames (s : Text) : Text :=
  if s == cs!"+1" then cs!"PlusOne"
  else if s == cs!"-1" then cs!"MinusOne"
  else s.flatMap rewriteChar

/-- `Regex::new("[a-z]_[0-9]").replace_all(s, |c| remove the underscore)`: leftmost,
non-overlapping. -/
def regexFix : Text → Text
  | a :: b :: d :: rest =>
    if a.isLower && b == '_' && d.isDigit then a :: d :: regexFix rest
    else a :: regexFix (b :: d :: rest)
  | s => s

/-- The words `syn` refuses as `Ident` (syn 2.0.77 `accept_as_ident`), except `_`. -/
def keywords : List Text := [
  cs!"abstract", cs!"as", cs!"async", cs!"await", cs!"become", cs!"box", cs!"break",
  cs!"const", cs!"continue", cs!"crate", cs!"do", cs!"dyn", cs!"else", cs!"enum",
  cs!"extern", cs!"false", cs!"final", cs!"fn", cs!"for", cs!"if", cs!"impl", cs!"in",
  cs!"let", cs!"loop", cs!"macro", cs!"match", cs!"mod", cs!"move", cs!"mut",
  cs!"override", cs!"priv", cs!"pub", cs!"ref", cs!"return", cs!"Self", cs!"self",
  cs!"static", cs!"struct", cs!"super", cs!"trait", cs!"true", cs!"try", cs!"type",
  cs!"typeof", cs!"unsafe", cs!"unsized", cs!"virtual", cs!"where",
  cs!"while", cs!"yield", cs!"use"]

/-- `is_restricted` of the repaired tree: every lower-case keyword. -/
def restricted : List Text := keywords.filter (fun k => k != cs!"Self")

def isRestricted (s : Text) : Bool := restricted.contains s

def assertValidIdent (s : Text) : Except Panic Text :=
  if s.contains '(' then .error .parenInIdent
  else if (s.head?.map Char.isDigit).getD false then .error .numericIdent
  else if s.contains '.' then .error .dotInIdent
  else if s.isEmpty then .error .emptyIdent
  else .ok s

def digitPrefix (s : Text) : Except Panic Text :=
  match s with
  | [] => .error .emptyIdent
  | c :: _ => .ok (if c.isDigit then '_' :: s else s)

def sanitize (s : Text) : Except Panic Text :=
  let s2 := regexFix (toSnake (rewriteNames s))
  let s3 := if isRestricted s2 then s2 ++ ['_'] else s2
  match digitPrefix s3 with
  | .error e => .error e
  | .ok s4 => assertValidIdent s4

def sanitizeStruct (s : Text) : Except Panic Text :=
  let s1 := toPascal (rewriteNames s)
  let s2 := if isRestricted s1 then s1 ++ cs!"Struct" else s1
  let s3 := if s2 == cs!"Self" then s2 ++ ['_'] else s2
  match digitPrefix s3 with
  | .error e => .error e
  | .ok s4 => assertValidIdent s4

/-- Lexically valid, non-reserved Rust identifier (ASCII). -/
def validIdent (s : Text) : Bool :=
  match s with
  | [] => false
  | c :: cs => (c.isUpper || c.isLower || c == '_') && cs.all isIdentChar
               && s != ['_'] && !keywords.contains s

/-- The alphabet of the name domain: `[A-Za-z0-9_.- /:@'+]`. -/
def isNameChar (c : Char) : Bool :=
  isAlnum c || c == '_' || c == '.' || c == '-' || c == ' ' || c == '/' || c == ':' ||
  c == '@' || c == '\'' || c == '+'

def inNameDomain (s : Text) : Bool := s.all isNameChar && s.any isAlnum

end Ln
