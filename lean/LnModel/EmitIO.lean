import LnModel.SpecIO
import LnModel.Emit.Model
import LnModel.Emit.Lib
import LnModel.Emit.Interface
import LnModel.Emit.Request
import LnModel.Emit.Example
/-! Reading a dumped (real) HirSpec and a configuration; printing the emitter model's summaries. -/
namespace Ln.EmitIO
open Ln Sexp SpecIO

def docOf' : Sexp → Option (Option Text)
  | .list [.atom "doc", .str d] => some (some d)
  | .list [.atom "nodoc"] => some none
  | _ => none

def fieldOf : Sexp → Option HirField
  | .list [.atom "f", t, o, fl, d] => do
    pure { ty := ← tyOfS t, optional := ← boolOf o, flatten := ← boolOf fl, doc := ← docOf' d }
  | _ => none

def recordOf : Sexp → Option Record
  | .list [.atom "struct", .str n, nu, d, .list (.atom "fields" :: fs)] => do
    let fields ← fs.mapM fun e => match e with | .list [.str k, f] => (fieldOf f).map fun x => (k, x) | _ => none
    pure (.struct n (← boolOf nu) fields (← docOf' d))
  | .list [.atom "newtype", .str n, d, .list (.atom "fields" :: fs)] => do pure (.newtype n (← fs.mapM fieldOf) (← docOf' d))
  | .list [.atom "alias", .str n, f] => (fieldOf f).map fun x => .alias n x
  | .list [.atom "enum", .str n, d, .list (.atom "variants" :: vs)] => do
    let variants ← vs.mapM fun v => match v with
      | .list [.str value, .list [.atom "alias", .str a]] => some ({ value := value, alias := some a } : Variant)
      | .list [.str value, .list [.atom "noalias"]] => some { value := value, alias := none }
      | _ => none
    pure (.enum n variants (← docOf' d))
  | _ => none

def hirLocOf : Sexp → Option Loc := locOf

def opOfH : Sexp → Option Operation
  | .list [.atom "op", .str name, .str method, .str path, d, ret, .list (.atom "params" :: ps)] => do
    let params ← ps.mapM fun p => match p with
      | .list [.atom "p", .str n, t, l, o] => do pure ({ name := n, ty := ← tyOfS t, loc := ← hirLocOf l, optional := ← boolOf o } : Param)
      | _ => none
    pure { name := name, doc := ← docOf' d, params := params, ret := ← tyOfS ret, path := path, method := method }
  | _ => none

def authLocOf : Sexp → Option AuthLoc
  | .list [.atom "header", .str k] => some (.header k)
  | .atom "basic" => some .basic | .atom "bearer" => some .bearer | .atom "token" => some .token
  | .list [.atom "query", .str k] => some (.query k)
  | .list [.atom "cookie", .str k] => some (.cookie k)
  | _ => none

def authOf : Sexp → Option AuthStrategy
  | .list [.atom "token", .str n, .list (.atom "fields" :: fs)] => do
    let fields ← fs.mapM fun f => match f with | .list [.str k, l] => (authLocOf l).map fun x => ({ name := k, loc := x } : AuthParam) | _ => none
    pure (.token n fields)
  | .list [.atom "oauth2", .str a, .str e, .str r, .list (.atom "scopes" :: sc)] => do pure (.oauth2 a e r (← pairs sc))
  | .list [.atom "noauth"] => some .noAuth
  | _ => none

def hirOf : Sexp → Option HirSpec
  | .list [.atom "hir", .list (.atom "schemas" :: ss), .list (.atom "ops" :: os), .list (.atom "servers" :: sv), .list (.atom "security" :: sec), docs] => do
    let schemas ← ss.mapM fun e => match e with | .list [.str k, r] => (recordOf r).map fun x => (k, x) | _ => none
    let docsUrl ← match docs with | .list [.atom "docs", .str u] => some (some u) | .list [.atom "nodocs"] => some none | _ => none
    pure { operations := ← os.mapM opOfH, schemas := schemas, servers := ← pairs sv, security := ← sec.mapM authOf, apiDocsUrl := docsUrl }
  | _ => none

/-- `(cfg "Name" (derives (some "x")|(none) ...) examples)` -/
def cfgOf : Sexp → Option Cfg
  | .list [.atom "cfg", .str name, .list (.atom "derives" :: ds), ex] => do
    let derives ← ds.mapM fun d => match d with | .list [.atom "some", .str t] => some (some t) | .list [.atom "none"] => some none | _ => none
    pure { name := name, derives := derives, examples := ← boolOf ex }
  | _ => none

/-! ### printing summaries -/

def strsTo (tag : String) (l : List Text) : Sexp := .list (.atom tag :: l.map .str)

def attrTo : SerdeAttr → Sexp
  | .flatten => .list [.atom "flatten"]
  | .rename w => .list [.atom "rename", .str w]
  | .defaultSkip p => .list [.atom "defaultskip", .str p]
  | .with_ p => .list [.atom "with", .str p]

def fieldSumTo (f : FieldSum) : Sexp :=
  .list [.atom "field", .str f.ident, .list (.atom "attrs" :: f.attrs.map attrTo), .str f.ty, docTo f.doc]

def itemTo : ItemSum → Sexp
  | .struct n ds d fs deref =>
    .list [.atom "struct", .str n, strsTo "derives" ds, docTo d, .list (.atom "fields" :: fs.map fieldSumTo),
      match deref with | some (a, t) => .list [.atom "deref", .str a, .str t] | none => .list [.atom "noderef"]]
  | .newtype n ds d ts => .list [.atom "newtype", .str n, strsTo "derives" ds, docTo d, strsTo "types" ts]
  | .enum n ds d vs =>
    .list [.atom "enum", .str n, strsTo "derives" ds, docTo d, .list (.atom "variants" :: vs.map fun (i, r) =>
      .list [.str i, match r with | some w => .list [.atom "rename", .str w] | none => .list [.atom "norename"]])]
  | .alias n t => .list [.atom "alias", .str n, .str t]

def emitXName : EmitX → String
  | .ident p => "ident:" ++ identPanic p
  | .default .modelNotFound => "modelNotFound"
  | .default .diverged => "diverged"
  | .noVariant => "noVariant"

def modelFileTo (m : ModelFile) : Sexp :=
  .list [.atom "modelfile", .str m.stem, b m.serdeImport, strsTo "super" m.superImports, itemTo m.item]

def eTo {α : Type} (f : α → Sexp) : Except EmitX α → Sexp
  | .ok v => f v
  | .error e => .list [.atom "panic", .atom (emitXName e)]

def urlTo : UrlExpr → Sexp
  | .literal u => .list [.atom "literal", .str u]
  | .envVar v => .list [.atom "env", .str v]

def authStmtTo : AuthStmt → Sexp
  | .header k f => .list [.atom "header", .str k, .str f]
  | .query k f => .list [.atom "query", .str k, .str f]
  | .cookie k f => .list [.atom "cookie", .str k, .str f]
  | .bearerAuth f => .list [.atom "bearer_auth", .str f]
  | .basicAuth f => .list [.atom "basic_auth", .str f]
  | .tokenAuth f => .list [.atom "token_auth", .str f]
  | .oauth2Middleware => .list [.atom "oauth2_middleware"]

def armTo : Except Panic AuthArm → Sexp
  | .ok a => .list [.atom "arm", .str a.variant, strsTo "fields" a.fields, .list (.atom "stmts" :: a.stmts.map authStmtTo)]
  | .error e => .list [.atom "panic", .atom (identPanic e)]

def fromEnvTo : Except Panic (Option FromEnv) → Sexp
  | .error e => .list [.atom "panic", .atom (identPanic e)]
  | .ok none => .list [.atom "nofromenv"]
  | .ok (some fe) => .list [.atom "fromenv", .str fe.variant, .list (.atom "fields" :: fe.fields.map fun f =>
      .list [.str f.field, .str f.envVar, b f.base64])]

def valTo : ValSrc → Sexp
  | .item => .atom "item"
  | .unwrapped => .atom "unwrapped"
  | .param f => .list [.atom "param", .str f]

def stmtTo : ReqStmt → Sexp
  | .setQueryAll => .list [.atom "set_query_all"]
  | .json k v => .list [.atom "json", .str k, valTo v]
  | .query k v => .list [.atom "query", .str k, valTo v]
  | .header k v => .list [.atom "header", .str k, valTo v]
  | .cookie k v => .list [.atom "cookie", .str k, valTo v]
  | .forEach c body => .list [.atom "for", valTo c, stmtTo body]
  | .ifSome f body => .list [.atom "if_some", .str f, stmtTo body]
  | .authenticate => .list [.atom "authenticate"]

def pairsTo (tag : String) (l : List (Text × Text)) : Sexp := .list (.atom tag :: l.map fun (a, x) => .list [.str a, .str x])

def requestFileTo (r : RequestFile) : Sexp :=
  .list [.atom "requestfile", .str r.stem,
    .list [.atom "struct", .str r.structName, strsTo "derives" r.derives, .list [.atom "doc", .str r.doc], pairsTo "fields" r.fields],
    strsTo "imports" r.imports,
    (match r.required with
     | some (n, lts, fs) => .list [.atom "required", .str n, strsTo "lifetimes" lts, pairsTo "fields" fs]
     | none => .list [.atom "norequired"]),
    .list (.atom "setters" :: r.setters.map fun s => .list [.atom "setter", .str s.name, .str s.argTy, .str s.store]),
    .list [.atom "output", .str r.output],
    .list [.atom "url", match r.url with
      | .literal p => .list [.atom "literal", .str p]
      | .format f args => .list [.atom "format", .str f, pairsTo "args" args]],
    .list [.atom "verb", .str r.verb],
    .list (.atom "program" :: r.program.map stmtTo),
    .list [.atom "method", .str r.method.name, docTo r.method.doc, pairsTo "args" r.method.args, pairsTo "literal" r.method.literal]]

def pTo {α : Type} (f : α → Sexp) : Except Panic α → Sexp
  | .ok v => f v
  | .error e => .list [.atom "panic", .atom (identPanic e)]

def exXName : ExX → String
  | .importPath => "importPath" | .recordNotFound => "recordNotFound" | .noVariant => "noVariant" | .diverged => "diverged"
  | .ident p => "ident:" ++ identPanic p

def exampleTo (e : ExampleSum) : Sexp :=
  .list [.atom "example", .str e.stem, strsTo "imports" e.imports, .list [.atom "client", .str e.client],
    .list (.atom "decls" :: e.decls.map fun (i, v) => .list [.str i, .str v.render]),
    .list [.atom "method", .str e.method],
    (match e.args with
     | .positional ids => strsTo "positional" ids
     | .requiredStruct n ids => .list (.atom "struct" :: .str n :: ids.map Sexp.str)),
    .list (.atom "setters" :: e.setters.map fun (i, v) => .list [.str i, .str v.render])]

def step (req : Sexp) : Option Sexp :=
  match req with
  | .list [.atom "emit_examples", h, c] => do
      let hir ← hirOf h
      let cfg ← cfgOf c
      pure (.list (.atom "examples" :: hir.operations.map fun op =>
        match makeExample hir.schemas cfg op with
        | .ok e => exampleTo e
        | .error x => .list [.atom "panic", .atom (exXName x)]))
  | .list [.atom "emit_requests", h, c] => do
      let hir ← hirOf h
      let cfg ← cfgOf c
      pure (.list (.atom "requests" :: hir.operations.map fun op => pTo requestFileTo (makeRequestFile (!hir.security.isEmpty) cfg op)))
  | .list [.atom "emit_models", h, c] => do
      let hir ← hirOf h
      let cfg ← cfgOf c
      pure (.list (.atom "models" :: hir.schemas.map fun (k, r) => eTo modelFileTo (makeModelFile hir.schemas cfg k r)))
  | .list [.atom "emit_lib", h, c] => do
      let hir ← hirOf h
      let cfg ← cfgOf c
      pure (.list [.atom "lib", .list [.atom "base_url", urlTo (serverUrl hir.servers cfg.name)],
        .list (.atom "authenticate" :: hir.security.map fun s => armTo (authArm s)), fromEnvTo (fromEnv hir.security cfg.name)])
  | _ => none

end Ln.EmitIO
