import LnModel.Sexp
import LnModel.Macro
/-! Driver commands for the macro model. -/
namespace Ln.MacroIO
open Ln Sexp

mutual
partial def ttOf : Sexp → Option TT
  | .list [.atom "i", .str s] => some (.ident s)
  | .list [.atom "p", .str [c]] => some (.punct c)
  | .list [.atom "l", .str s] => some (.lit s)
  | .list (.atom "g" :: .atom d :: rest) => do
    let delim ← match d with | "paren" => some Delim.paren | "brace" => some .brace | "bracket" => some .bracket | _ => none
    pure (.group delim (← ttsOf rest))
  | _ => none
partial def ttsOf : List Sexp → Option TTs
  | [] => some .nil
  | x :: rest => do pure (.cons (← ttOf x) (← ttsOf rest))
end

def envOf : Sexp → Option (Text → Text)
  | .list (.atom "env" :: es) => do
    let kvs ← es.mapM fun e => match e with | .list [.str k, .str v] => some (k, v) | _ => none
    pure fun x => ((kvs.find? fun e => e.1 == x).map (·.2)).getD []
  | _ => none

mutual
partial def ttText (env : Text → Text) : TT → Text
  | .ident s => if s.head? == some '#' then env (s.drop 1) else s
  | .punct c => [c]
  | .lit s => s
  | .group d ts => (match d with | .paren => ['('] | .brace => ['{'] | .bracket => ['[']) ++ ttsText env ts.toList ++
      (match d with | .paren => [')'] | .brace => ['}'] | .bracket => [']'])
/-- token text with every space removed; `# v` is replaced by the tokens of `v` -/
partial def ttsText (env : Text → Text) : List TT → Text
  | [] => []
  | .punct '#' :: .ident v :: rest => env v ++ ttsText env rest
  | t :: rest => ttText env t ++ ttsText env rest
end

def strSrc (env : Text → Text) : StrSrc → Text
  | .text t => t
  | .interp v => env v

def nameSrc (env : Text → Text) : NameSrc → Text
  | .ident s => s
  | .interp v => env v

def step (req : Sexp) : Option Sexp :=
  match req with
  | .list [.atom "body_render", .list (.atom "tts" :: ts), e] => do
      let tts ← ttsOf ts
      let env ← envOf e
      pure (match bodyRender tts env with | some t => .list [.atom "ok", .str t] | none => .list [.atom "none"])
  | .list [.atom "rfunction", .list (.atom "tts" :: ts), e] => do
      let tts ← ttsOf ts
      let env ← envOf e
      pure (match rfunctionParse tts.toList with
        | .ok parts => .list [.atom "ok", .str (ttsText env (renderFn parts))]
        | .error _ => .list [.atom "panic"])
  | .list [.atom "function", .list (.atom "tts" :: ts), e] => do
      let tts ← ttsOf ts
      let env ← envOf e
      pure (match functionParse tts.toList with
        | .error _ => .list [.atom "panic"]
        | .ok f =>
          let body : Sexp := match f.body with
            | none => .list [.atom "default"]
            | some b => (match bodyRender b env with | some t => .list [.atom "body", .str t] | none => .list [.atom "none"])
          .list [.atom "fn", .str (nameSrc env f.name), .atom (if f.isAsync then "async" else "sync"), .atom (if f.isPub then "pub" else "private"),
            .list (.atom "args" :: f.args.map fun a => .list [.str a.name, .str (strSrc env a.ty), match a.default with | some d => .list [.atom "default", .str d] | none => .list [.atom "nodefault"]]),
            .list [.atom "ret", .str (strSrc env f.ret)], body])
  | _ => none

end Ln.MacroIO
