import LnModel.Sexp
import LnModel.Treeshake
import LnModel.Domain
import LnModel.Domain2
import LnModel.Documented
import LnModel.RustTy
/-! Reading an OpenAPI document (as dumped by the harness from the *parsed* `openapiv3::OpenAPI`)
and printing a `HirSpec`, for the driver. Not part of any proof. -/
namespace Ln.SpecIO
open Ln Sexp

def boolOf : Sexp → Option Bool
  | .atom "true" => some true
  | .atom "false" => some false
  | _ => none

def optStr (tag : String) : Sexp → Option (Option Text)
  | .list [.atom t, .str s] => if t == tag then some (some s) else none
  | .list [.atom _] => some none
  | _ => none

def strs (l : List Sexp) : Option (List Text) := l.mapM fun x => match x with | .str s => some s | _ => none

def pairs (l : List Sexp) : Option (List (Text × Text)) :=
  l.mapM fun x => match x with | .list [.str a, .str b] => some (a, b) | _ => none

def extOf : Sexp → Option Ext
  | .list [.atom "ext", naz, xf, .list (.atom "rename" :: rn)] => do
    pure { nullAsZero := ← boolOf naz, xFormat := ← optStr "xformat" xf, rename := ← pairs rn }
  | _ => none

mutual
partial def srefOf : Sexp → Option SRef
  | .list [.atom "ref", .str r] => some (.ref r)
  | s => (schemaOf s).map .item
partial def schemaOf : Sexp → Option Schema
  | .list [.atom "s", nullable, desc, ext, kind] => do
    let d : SData := { nullable := ← boolOf nullable, desc := ← optStr "desc" desc, ext := ← extOf ext }
    pure (.mk d (← kindOf kind))
  | _ => none
partial def propsOf' : List Sexp → Option Props
  | [] => some .nil
  | .list [.str n, s] :: rest => do pure (.cons n (← srefOf s) (← propsOf' rest))
  | _ => none
partial def refsOf : List Sexp → Option Refs
  | [] => some .nil
  | s :: rest => do pure (.cons (← srefOf s) (← refsOf rest))
partial def kindOf : Sexp → Option Kind
  | .list [.atom "str", .str fmt, .list en] => do pure (.str fmt (← strs en))
  | .list [.atom "num"] => some .num
  | .list [.atom "int"] => some .int
  | .list [.atom "bool"] => some .bool
  | .list [.atom "obj", .list (.atom "props" :: ps), .list (.atom "req" :: rq), .list [.atom "addl", a]] => do
    let addl ← match a with
      | .atom "absent" => some Addl.absent
      | .list [.atom "any", b] => (boolOf b).map Addl.any
      | s => (srefOf s).map Addl.schema
    pure (.obj (← propsOf' ps) (← strs rq) addl)
  | .list [.atom "arr"] => some (.arr .none)
  | .list [.atom "arr", it] => do pure (.arr (.some (← srefOf it)))
  | .list (.atom "allof" :: ms) => do pure (.allOf (← refsOf ms))
  | .list [.atom "oneof"] => some .oneOf
  | .list [.atom "anyof"] => some .anyOf
  | .list [.atom "not"] => some .not_
  | .list [.atom "anyk", .list (.atom "props" :: ps), .list (.atom "req" :: rq)] => do
    pure (.any (← propsOf' ps) (← strs rq))
  | _ => none
end

def locOf : Sexp → Option Loc
  | .atom "path" => some .path | .atom "query" => some .query | .atom "header" => some .header
  | .atom "cookie" => some .cookie | .atom "body" => some .body | _ => none

def paramOf : Sexp → Option ParamRef
  | .list [.atom "ref", .str r] => some (.ref r)
  | .list [.atom "p", .str n, loc, req, sch] => do
    let schema ← match sch with
      | .list [.atom "noschema"] => some none
      | s => (srefOf s).map some
    pure (.item { name := n, loc := ← locOf loc, required := ← boolOf req, schema := schema })
  | _ => none

def respOf : Sexp → Option OaResponse
  | .list [.atom "ref", .str r] => some (.ref r)
  | .list [.atom "resp"] => some (.item none)
  | .list [.atom "resp", s] => (srefOf s).map fun x => .item (some x)
  | _ => none

def bodyOf : Sexp → Option OaBody
  | .list [.atom "ref", .str r] => some (.ref r)
  | .list [.atom "body"] => some (.item none)
  | .list [.atom "body", s] => (srefOf s).map fun x => .item (some x)
  | _ => none

def opOf : Sexp → Option OaOperation
  | .list [.atom "op", .str method, id, summary, desc, ext, .list (.atom "params" :: ps), body, .list (.atom "responses" :: rs)] => do
    let b ← match body with
      | .list [.atom "nobody"] => some none
      | x => (bodyOf x).map some
    let responses ← rs.mapM fun r => match r with
      | .list [.atom code, resp] => (respOf resp).map fun x => (code.toNat?, x)
      | _ => none
    pure { method := method, opId := ← optStr "id" id, summary := ← optStr "summary" summary, desc := ← optStr "desc" desc,
           extDocs := ← optStr "extdocs" ext, params := ← ps.mapM paramOf, body := b, responses := responses }
  | _ => none

def schemeOf : Sexp → Option SecScheme
  | .list [.atom "apikey", .atom l, .str k] =>
    (match l with | "header" => some ApiKeyLoc.header | "query" => some .query | "cookie" => some .cookie | _ => none).map fun l => .apiKey l k
  | .list [.atom "http", .str s] => some (.http s)
  | .list [.atom "oauth2", .str a, .str t, r, .list (.atom "scopes" :: sc)] => do
    pure (.oauth2 (some (a, t, ← optStr "refresh" r, ← pairs sc)))
  | .list [.atom "oauth2none"] => some (.oauth2 none)
  | .list [.atom "openid"] => some .openId
  | .list [.atom "ref", .str r] => some (.ref r)
  | _ => none

def named {α : Type} (f : Sexp → Option α) (l : List Sexp) : Option (List (Text × α)) :=
  l.mapM fun x => match x with | .list [.str n, v] => (f v).map fun y => (n, y) | _ => none

def specOf : Sexp → Option Spec
  | .list [.atom "spec", .list (.atom "servers" :: sv), .list (.atom "security" :: sec), .list (.atom "schemes" :: sch), ext,
           .list (.atom "components" :: comps), .list (.atom "cparams" :: cps), .list (.atom "cresponses" :: crs),
           .list (.atom "cbodies" :: cbs), .list (.atom "paths" :: ps)] => do
    let servers ← sv.mapM fun s => match s with
      | .list [.atom "server", .str u] => some { url := u, desc := none : OaServer }
      | .list [.atom "server", .str u, .str d] => some { url := u, desc := some d }
      | _ => none
    let security ← sec.mapM fun r => match r with | .list (.atom "req" :: ns) => strs ns | _ => none
    let paths ← ps.mapM fun p => match p with
      | .list [.atom "path", .str t, .list (.atom "params" :: pps), .list (.atom "ops" :: ops)] => do
        pure ({ template := t, params := ← pps.mapM paramOf, ops := ← ops.mapM opOf } : OaPath)
      | _ => none
    pure { servers := servers, security := security, schemes := ← named schemeOf sch, extDocs := ← optStr "extdocs" ext,
           components := ← named srefOf comps, componentParams := ← named paramOf cps,
           componentResponses := ← named respOf crs, componentBodies := ← named bodyOf cbs, paths := paths }
  | _ => none

/-! ### printing -/

def docTo : Option Text → Sexp
  | some d => .list [.atom "doc", .str d]
  | none => .list [.atom "nodoc"]

def b (x : Bool) : Sexp := .atom (if x then "true" else "false")

def tyTo : Ty → Sexp
  | .string => .atom "string"
  | .integer .simple => .list [.atom "integer", .atom "simple"]
  | .integer .string => .list [.atom "integer", .atom "string"]
  | .integer .nullAsZero => .list [.atom "integer", .atom "nullAsZero"]
  | .float => .atom "float"
  | .boolean => .atom "boolean"
  | .array t => .list [.atom "array", tyTo t]
  | .hashMap t => .list [.atom "map", tyTo t]
  | .model n => .list [.atom "model", .str n]
  | .unit => .atom "unit"
  | .date .iso8601 => .list [.atom "date", .atom "iso8601"]
  | .date .integer => .list [.atom "date", .atom "integer"]
  | .dateTime => .atom "datetime"
  | .currency => .atom "currency"
  | .any => .atom "any"

def fieldTo (f : HirField) : Sexp := .list [.atom "f", tyTo f.ty, b f.optional, b f.flatten, docTo f.doc]

def recordTo : Record → Sexp
  | .struct n nu fs d => .list [.atom "struct", .str n, b nu, docTo d, .list (.atom "fields" :: fs.map fun (k, f) => .list [.str k, fieldTo f])]
  | .newtype n fs d => .list [.atom "newtype", .str n, docTo d, .list (.atom "fields" :: fs.map fieldTo)]
  | .alias n f => .list [.atom "alias", .str n, fieldTo f]
  | .enum n vs d => .list [.atom "enum", .str n, docTo d, .list (.atom "variants" :: vs.map fun v =>
      .list [.str v.value, match v.alias with | some a => .list [.atom "alias", .str a] | none => .list [.atom "noalias"]])]

def locTo : Loc → Sexp
  | .path => .atom "path" | .query => .atom "query" | .header => .atom "header" | .cookie => .atom "cookie" | .body => .atom "body"

def opTo (o : Operation) : Sexp :=
  .list [.atom "op", .str o.name, .str o.method, .str o.path, docTo o.doc, tyTo o.ret,
    .list (.atom "params" :: o.params.map fun p => .list [.atom "p", .str p.name, tyTo p.ty, locTo p.loc, b p.optional])]

def authLocTo : AuthLoc → Sexp
  | .header k => .list [.atom "header", .str k] | .basic => .atom "basic" | .bearer => .atom "bearer" | .token => .atom "token"
  | .query k => .list [.atom "query", .str k] | .cookie k => .list [.atom "cookie", .str k]

def authTo : AuthStrategy → Sexp
  | .token n fs => .list [.atom "token", .str n, .list (.atom "fields" :: fs.map fun f => .list [.str f.name, authLocTo f.loc])]
  | .oauth2 a e r sc => .list [.atom "oauth2", .str a, .str e, .str r, .list (.atom "scopes" :: sc.map fun (k, v) => .list [.str k, .str v])]
  | .noAuth => .list [.atom "noauth"]

def hirTo (h : HirSpec) : Sexp :=
  .list [.atom "hir",
    .list (.atom "schemas" :: h.schemas.map fun (k, r) => .list [.str k, recordTo r]),
    .list (.atom "ops" :: h.operations.map opTo),
    .list (.atom "servers" :: h.servers.map fun (k, u) => .list [.str k, .str u]),
    .list (.atom "security" :: h.security.map authTo),
    match h.apiDocsUrl with | some u => .list [.atom "docs", .str u] | none => .list [.atom "nodocs"]]

def panicName : XPanic → String
  | .componentIsRef => "componentIsRef" | .schemaNameNotUpper => "schemaNameNotUpper" | .emptyName => "emptyName"
  | .modelNameParen => "modelNameParen" | .propertyRef => "propertyRef" | .schemaNotFound => "schemaNotFound"
  | .unknownReference => "unknownReference" | .noSuccessResponse => "noSuccessResponse"
  | .responseRefUnresolved => "responseRefUnresolved" | .sliceOutOfRange => "sliceOutOfRange"
  | .paramNoSchema => "paramNoSchema" | .paramRefUnresolved => "paramRefUnresolved" | .bodyRefUnresolved => "bodyRefUnresolved"
  | .schemeNotFound => "schemeNotFound" | .schemeIsRef => "schemeIsRef" | .emptyAllOf => "emptyAllOf" | .diverged => "diverged"

def xTo {α : Type} (f : α → Sexp) : X α → Sexp
  | .ok v => f v
  | .error e => .list [.atom "panic", .atom (panicName e)]

partial def tyOfS : Sexp → Option Ty
  | .atom "string" => some .string
  | .list [.atom "integer", .atom "simple"] => some (.integer .simple)
  | .list [.atom "integer", .atom "string"] => some (.integer .string)
  | .list [.atom "integer", .atom "nullAsZero"] => some (.integer .nullAsZero)
  | .atom "float" => some .float
  | .atom "boolean" => some .boolean
  | .list [.atom "array", t] => (tyOfS t).map .array
  | .list [.atom "map", t] => (tyOfS t).map .hashMap
  | .list [.atom "model", .str n] => some (.model n)
  | .atom "unit" => some .unit
  | .list [.atom "date", .atom "iso8601"] => some (.date .iso8601)
  | .list [.atom "date", .atom "integer"] => some (.date .integer)
  | .atom "datetime" => some .dateTime
  | .atom "currency" => some .currency
  | .atom "any" => some .any
  | _ => none

def identPanic : Panic → String
  | .emptyIdent => "emptyIdent" | .parenInIdent => "parenInIdent" | .numericIdent => "numericIdent" | .dotInIdent => "dotInIdent"

def textX : Except Panic Text → Sexp
  | .ok t => .list [.atom "ok", .str t]
  | .error e => .list [.atom "panic", .atom (identPanic e)]

def step (req : Sexp) : Option Sexp :=
  match req with
  | .list [.atom "doc_ty", s, r] => do
      let spec ← specOf s
      let r ← srefOf r
      pure (xTo tyTo (docTy spec FUEL r))
  | .list [.atom "impl_ty", s, r] => do
      let spec ← specOf s
      let r ← srefOf r
      pure (xTo tyTo (tyOfRef spec r))
  | .list [.atom "rust_type", t] => (tyOfS t).map fun t => textX (toRustType t)
  | .list [.atom "ref_type", .str sp, t] => (tyOfS t).map fun t => textX (toReferenceType sp t)
  | .list [.atom "is_ref_type", t] => (tyOfS t).map fun t => b (isReferenceType t)
  | .list [.atom "extract", s] => (specOf s).map fun spec => xTo hirTo (extractSpec spec)
  | .list [.atom "in_d", s] => (specOf s).map fun spec => b (inD spec)
  | .list [.atom "in_d2", s] => (specOf s).map fun spec => b (inD2 spec)
  | .list [.atom "extract_raw", s] => (specOf s).map fun spec => xTo hirTo (extractWithoutTreeshake spec)
  | _ => none

end Ln.SpecIO
