import LnModel.Ascii
/-! The OpenAPI document *after* parsing by openapiv3-extended, as far as libninja looks at it.
Mutual inductives with explicit list types so that functions over schemas are structurally
recursive. -/
namespace Ln

/-- `x-*` extensions libninja reads -/
structure Ext where
  nullAsZero : Bool := false        -- `x-null-as-zero: true`
  xFormat : Option Text := none      -- `x-format: "<string>"`
  rename : List (Text × Text) := [] -- `x-rename: {value: alias}` (string-valued entries)
  deriving DecidableEq, Repr, Inhabited

structure SData where
  nullable : Bool := false
  desc : Option Text := none
  ext : Ext := {}
  deriving DecidableEq, Repr, Inhabited

mutual
inductive Schema where
  | mk (data : SData) (kind : Kind)
inductive Kind where
  | str (format : Text) (enumeration : List Text)
  | num
  | int
  | bool
  | obj (props : Props) (required : List Text) (addl : Addl)
  | arr (items : OptRef)
  | allOf (members : Refs)
  | oneOf
  | anyOf
  | not_
  /-- `SchemaKind::Any`: no recognised `type`, e.g. `properties` without `type` -/
  | any (props : Props) (required : List Text)
inductive SRef where
  | ref (reference : Text)
  | item (s : Schema)
inductive Props where
  | nil
  | cons (name : Text) (s : SRef) (rest : Props)
inductive Refs where
  | nil
  | cons (s : SRef) (rest : Refs)
inductive OptRef where
  | none
  | some (s : SRef)
inductive Addl where
  | absent
  | any (b : Bool)
  | schema (s : SRef)
end

instance : Inhabited Schema := ⟨.mk {} .oneOf⟩
instance : Inhabited SRef := ⟨.ref []⟩

def Schema.data : Schema → SData | .mk d _ => d
def Schema.kind : Schema → Kind | .mk _ k => k

def Props.toList : Props → List (Text × SRef)
  | .nil => []
  | .cons n s r => (n, s) :: r.toList
def Refs.toList : Refs → List SRef
  | .nil => []
  | .cons s r => s :: r.toList
def Props.ofList : List (Text × SRef) → Props
  | [] => .nil
  | (n, s) :: r => .cons n s (Props.ofList r)
def Refs.ofList : List SRef → Refs
  | [] => .nil
  | s :: r => .cons s (Refs.ofList r)
def Props.isEmpty : Props → Bool | .nil => true | _ => false
def Props.length : Props → Nat | .nil => 0 | .cons _ _ r => r.length + 1
def Refs.length : Refs → Nat | .nil => 0 | .cons _ r => r.length + 1

inductive Loc where | path | query | header | cookie | body
  deriving DecidableEq, Repr, Inhabited

structure OaParam where
  name : Text
  loc : Loc
  required : Bool
  schema : Option SRef     -- `ParameterData::schema()`; `none` for `content`-style parameters
  deriving Inhabited

inductive ParamRef where
  | ref (reference : Text)
  | item (p : OaParam)
  deriving Inhabited

/-- a response (or `$ref` to `components.responses`); `json` is the `application/json` schema if any -/
inductive OaResponse where
  | ref (reference : Text)
  | item (json : Option SRef)
  deriving Inhabited

inductive OaBody where
  | ref (reference : Text)
  | item (json : Option SRef)
  deriving Inhabited

structure OaOperation where
  method : Text
  opId : Option Text
  summary : Option Text
  desc : Option Text
  extDocs : Option Text
  params : List ParamRef
  body : Option OaBody
  /-- status code (`none` = `default` / range) ↦ response, in document order -/
  responses : List (Option Nat × OaResponse)
  deriving Inhabited

structure OaPath where
  template : Text
  params : List ParamRef
  ops : List OaOperation   -- already in the fixed verb order get put post delete options head patch trace
  deriving Inhabited

inductive ApiKeyLoc where | query | header | cookie
  deriving DecidableEq, Repr, Inhabited

inductive SecScheme where
  | apiKey (loc : ApiKeyLoc) (name : Text)
  | http (scheme : Text)
  | oauth2 (authCode : Option (Text × Text × Option Text × List (Text × Text)))  -- auth url, token url, refresh url, scopes
  | openId
  | ref (reference : Text)
  deriving Inhabited

structure OaServer where
  url : Text
  desc : Option Text
  deriving Inhabited, DecidableEq, Repr

structure Spec where
  servers : List OaServer
  /-- each requirement: scheme names in document order -/
  security : List (List Text)
  schemes : List (Text × SecScheme)
  extDocs : Option Text
  /-- `components.schemas`, document order; `none` content = a `$ref` entry -/
  components : List (Text × SRef)
  componentParams : List (Text × ParamRef)
  componentResponses : List (Text × OaResponse)
  componentBodies : List (Text × OaBody)
  paths : List OaPath
  deriving Inhabited

end Ln
