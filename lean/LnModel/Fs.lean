import LnModel.Ascii
/-! Model of the effectful tail of generation (`codegen_rust/src/lib.rs`, `hir::write_file`):
the target directory as a map from relative paths to contents, `write_with_content`,
`write_lib_rs`, `remove_old_files`, one generation, sequences of generations and the
intermediate states an interrupted run can leave behind.

Everything is *pointwise*: what a generation does to a path depends only on that path's prior
content and on the writes addressed to it (cleanup decides per file as well). -/
namespace Ln

abbrev Path := Text

inductive Content where
  | text (t : Text)
  /-- not valid UTF-8: `read_to_string` fails on it -/
  | binary (bytes : List Nat)
  deriving DecidableEq, Repr

def STATIC : Text := cs!"libninja: static"
def AFTER : Text := cs!"libninja: after"
def DHC : Text := cs!"default_http_client"

/-- ASCII bytes of a text (for directives inside non-UTF-8 files) -/
def bytesOf (t : Text) : List Nat := t.map Char.toNat

/-- the file *contains the directive* `m`, whatever its encoding -/
def Content.contains (m : Text) : Content → Bool
  | .text t => isSub m t
  | .binary b => isSub (bytesOf m) b

/-- `is_static(path)`: the directive is looked for in the file's bytes, so a file that is not valid UTF-8 counts too -/
def isStaticC : Option Content → Bool
  | some c => c.contains STATIC
  | none => false

/-- `fs::read_to_string(path).unwrap_or_default()` -/
def readText : Option Content → Text
  | some (.text t) => t
  | _ => []

/-- What a writer wants to put into a file. Only `lib.rs` looks at what is already there. -/
inductive CodeSpec where
  | plain (code : Text)
  /-- lib.rs: `full` normally, `suppressed` (without the generated `default_http_client`)
  when the text before the `after` directive mentions `default_http_client` -/
  | lib (full suppressed : Text)
  deriving DecidableEq, Repr

/-- `write_lib_rs`'s decision, on the content read from disk -/
def suppresses (t : Text) : Bool :=
  match splitOnce AFTER t with
  | some (pre, _) => isSub DHC pre
  | none => false

def CodeSpec.render (cs : CodeSpec) (t : Text) : Text :=
  match cs with
  | .plain c => c
  | .lib full sup => if suppresses t then sup else full

/-- The code a generation into an empty directory would write. -/
def CodeSpec.fresh (cs : CodeSpec) : Text := cs.render []

/-- `write_with_content` on one path: `prior` is what is on disk. -/
def writeOne (cs : CodeSpec) (prior : Option Content) : Option Content :=
  let t := readText prior
  if isStaticC prior then prior
  else match splitOnce AFTER t with
    | some (pre, _) => some (.text (pre ++ AFTER ++ ['\n'] ++ cs.render t))
    | none => some (.text (cs.render t))

/-- One generation seen from one path: `outs` are the writes addressed to the path, in order;
`scope` says whether cleanup looks at it (a `.rs` file under `src/` or `examples/`). -/
def genAt (outs : List CodeSpec) (scope : Bool) (prior : Option Content) : Option Content :=
  let written := outs.foldl (fun c cs => writeOne cs c) prior
  if outs.isEmpty && scope && !(isStaticC written) then none else written

/-! ### whole trees -/

abbrev Fs := Path → Option Content

abbrev Write := Path × CodeSpec

def hasExtRs (p : Path) : Bool :=
  -- `Path::extension() == "rs"`: text after the last '.' of the last component, which must
  -- not be the component's first character
  let comp := (p.reverse.takeWhile (· != '/')).reverse
  match splitOnce ['.'] comp.reverse with
  | some (extRev, stemRev) => extRev == ['s', 'r'] && !stemRev.isEmpty
  | none => false

def inScope (p : Path) : Bool :=
  (cs!"src/".isPrefixOf p || cs!"examples/".isPrefixOf p) && hasExtRs p

def outsFor (outs : List Write) (p : Path) : List CodeSpec :=
  (outs.filter (fun w => w.1 == p)).map (·.2)

/-- One generation: all writes in order, then cleanup. -/
def gen (outs : List Write) (fs : Fs) : Fs :=
  fun p => genAt (outsFor outs p) (inScope p) (fs p)

/-- A sequence of generations (changing specs = changing write lists). -/
def runAll : List (List Write) → Fs → Fs
  | [], fs => fs
  | outs :: rest, fs => runAll rest (gen outs fs)

/-! ### interrupted runs

`hir::write_file` is `File::create` (truncates) followed by `write_all`: a crash during the
write of a file leaves a prefix of the new content (possibly cut inside a multi-byte
character, which makes the file invalid UTF-8). -/

/-- States an interrupted run can leave at a path whose only write is `cs`: untouched, fully
written, or torn (the write had started: the file holds a prefix of the new content, or —
when the cut falls inside a multi-byte character — bytes that are no longer UTF-8). A write
that `write_with_content` skips (static file) cannot tear anything. -/
inductive Partial1 (cs : CodeSpec) (c0 : Option Content) : Option Content → Prop where
  | untouched : Partial1 cs c0 c0
  | written : Partial1 cs c0 (writeOne cs c0)
  | tornText (new : Text) (n : Nat) (h : writeOne cs c0 = some (.text new))
      (hs : isStaticC c0 = false) : Partial1 cs c0 (some (.text (new.take n)))
  | tornBinary (bytes : List Nat) (hs : isStaticC c0 = false) (hb : isSub (bytesOf STATIC) bytes = false) :
      Partial1 cs c0 (some (.binary bytes))

/-- States an interrupted run can leave at a path nobody writes: untouched, or already
removed by a cleanup that had started (only if cleanup removes it). -/
inductive Partial0 (scope : Bool) (c0 : Option Content) : Option Content → Prop where
  | untouched : Partial0 scope c0 c0
  | deleted (h : genAt [] scope c0 = none) : Partial0 scope c0 none

/-- `fs'` is a tree an interrupted generation `outs` can leave behind when started on `fs`
(every path independently in one of its intermediate states — a superset of the real crash
states, which are prefixes of the write order). Paths with several writes are not torn. -/
def CrashState (outs : List Write) (fs fs' : Fs) : Prop :=
  ∀ p, match outsFor outs p with
    | [] => Partial0 (inScope p) (fs p) (fs' p)
    | [cs] => Partial1 cs (fs p) (fs' p)
    | _ => fs' p = fs p

end Ln
