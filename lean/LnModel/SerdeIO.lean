import LnModel.Serde
import LnModel.EmitIO
/-! Line-protocol commands for the serde semantics: `(serde_rt <hir> (cases (<type> <json>) ...))`. -/
namespace Ln.SerdeIO
open Ln Sexp

def intOfAtom (t : Text) : Option Int :=
  match t with
  | '-' :: ds => (decToNat ds).map fun n => -(n : Int)
  | ds => (decToNat ds).map fun n => (n : Int)

mutual
partial def jsonOf : Sexp → Option Json
  | .list [.atom "jnull"] => some .null
  | .list [.atom "jbool", .atom b] => some (.bool (b == "true"))
  | .list [.atom "jint", .str t] => (intOfAtom t).map .int
  | .list [.atom "jfloat", .str t] => some (.float t)
  | .list [.atom "jstr", .str t] => some (.str t)
  | .list (.atom "jarr" :: items) => (jsonsOf items).map .arr
  | .list (.atom "jobj" :: ms) => (membersOf ms).map .obj
  | _ => none
partial def jsonsOf : List Sexp → Option Jsons
  | [] => some .nil
  | x :: rest => do pure (.cons (← jsonOf x) (← jsonsOf rest))
partial def membersOf : List Sexp → Option Members
  | [] => some .nil
  | .list [.str k, v] :: rest => do pure (.cons k (← jsonOf v) (← membersOf rest))
  | _ => none
end

mutual
partial def jsonTo : Json → Sexp
  | .null => .list [.atom "jnull"]
  | .bool b => .list [.atom "jbool", .atom (if b then "true" else "false")]
  | .int i => .list [.atom "jint", .str (i64ToString i)]
  | .float t => .list [.atom "jfloat", .str t]
  | .str s => .list [.atom "jstr", .str s]
  | .arr items => .list (.atom "jarr" :: jsonsTo items)
  | .obj ms => .list (.atom "jobj" :: membersTo ms)
partial def jsonsTo : Jsons → List Sexp
  | .nil => []
  | .cons j r => jsonTo j :: jsonsTo r
partial def membersTo : Members → List Sexp
  | .nil => []
  | .cons k v r => .list [.str k, jsonTo v] :: membersTo r
end

def errName : SerdeErr → String
  | .typeMismatch => "typeMismatch" | .missingField _ => "missingField" | .unknownVariant => "unknownVariant"
  | .modelNotFound => "modelNotFound" | .invalidValue => "invalidValue" | .ident _ => "ident" | .diverged => "diverged" | .unmodelled => "unmodelled"

def step (req : Sexp) : Option Sexp :=
  match req with
  | .list [.atom "serde_rt", h, .list (.atom "cases" :: cs)] => do
      let hir ← EmitIO.hirOf h
      let outs ← cs.mapM fun c => match c with
        | .list [.str ty, j] => do
            let json ← jsonOf j
            pure (match rtTy hir.schemas (rtFuel hir.schemas) (.model ty) json with
              | .ok out => Sexp.list [.atom "ok", jsonTo out]
              | .error e => Sexp.list [.atom "err", .atom (errName e)])
        | _ => none
      pure (.list (.atom "results" :: outs))
  | _ => none

end Ln.SerdeIO
