import LnModel.Fs
/-! Executable, list-based view of the `Fs` model for the driver. The list functions are
*defined through* the pointwise `gen`, so no refinement argument is needed. -/
namespace Ln

abbrev FsL := List (Path × Content)

def FsL.toFs (l : FsL) : Fs := fun p => (l.find? (fun e => e.1 == p)).map (·.2)

def ltText : Text → Text → Bool
  | [], [] => false
  | [], _ :: _ => true
  | _ :: _, [] => false
  | a :: as, b :: bs => if a.toNat < b.toNat then true else if b.toNat < a.toNat then false else ltText as bs

def insertSorted (e : Path × Content) : FsL → FsL
  | [] => [e]
  | x :: xs => if ltText e.1 x.1 then e :: x :: xs else x :: insertSorted e xs

def sortFs (l : FsL) : FsL := l.foldl (fun acc e => insertSorted e acc) []

def allPaths (l : FsL) (outs : List Write) : List Path := (l.map (·.1) ++ outs.map (·.1)).eraseDups

def genL (outs : List Write) (l : FsL) : FsL :=
  sortFs ((allPaths l outs).filterMap fun p => (gen outs l.toFs p).map (fun c => (p, c)))

def runAllL : List (List Write) → FsL → FsL
  | [], l => sortFs l
  | outs :: rest, l => runAllL rest (genL outs l)

/-- decidable over-approximation test: is `l1` a tree an interrupted `outs` can leave from `l0`? -/
def isPartial1 (cs : CodeSpec) (c0 c1 : Option Content) : Bool :=
  c1 == c0 || c1 == writeOne cs c0 ||
  (!(isStaticC c0) &&
    match c1, writeOne cs c0 with
    | some (.text x), some (.text new) => x.isPrefixOf new
    | some (.binary b), _ => !(isSub (bytesOf STATIC) b)
    | _, _ => false)

def isPartial0 (scope : Bool) (c0 c1 : Option Content) : Bool :=
  c1 == c0 || (c1 == none && genAt [] scope c0 == none)

def isCrashState (outs : List Write) (l0 l1 : FsL) : Bool :=
  ((l0.map (·.1) ++ l1.map (·.1) ++ outs.map (·.1)).eraseDups).all fun p =>
    match outsFor outs p with
    | [] => isPartial0 (inScope p) (l0.toFs p) (l1.toFs p)
    | [cs] => isPartial1 cs (l0.toFs p) (l1.toFs p)
    | _ => l1.toFs p == l0.toFs p

/-- the paths on which `isCrashState` fails (diagnostics) -/
def crashStateFailures (outs : List Write) (l0 l1 : FsL) : List Path :=
  ((l0.map (·.1) ++ l1.map (·.1) ++ outs.map (·.1)).eraseDups).filter fun p =>
    !(match outsFor outs p with
    | [] => isPartial0 (inScope p) (l0.toFs p) (l1.toFs p)
    | [cs] => isPartial1 cs (l0.toFs p) (l1.toFs p)
    | _ => l1.toFs p == l0.toFs p)

end Ln
