import LnModel.Domain
/-! Helper lemmas for `Thm/C01Extract.lean`: on documents in D the extractor's functions return. -/
namespace Ln

theorem resolve_of_target {spec : Spec} {r : SRef} {s : Schema} (h : target spec r = some s) :
    resolve spec r = .ok s := by
  cases r with
  | item s' => simp only [target, Option.some.injEq] at h; simp only [resolve, h]
  | ref t =>
    simp only [target] at h
    simp only [resolve]
    split at h
    · rename_i n hp
      rw [hp]
      simp only
      split at h
      · rename_i s' hl
        simp only [Option.some.injEq] at h
        rw [hl, h]
      · exact absurd h (by simp)
    · exact absurd h (by simp)

/-- `is_primitive` returns the chain's answer with any fuel of at least the chain's depth -/
theorem isPrimitive_of_chain (spec : Spec) :
    ∀ (d : Nat) (s : Schema) (b : Bool), chain spec d s = some b → ∀ f, d ≤ f → isPrimitive spec f s = .ok b := by
  intro d
  induction d with
  | zero => intro s b h; simp [chain] at h
  | succ d ih =>
    intro s b h f hf
    obtain ⟨f', rfl⟩ : ∃ f', f = f' + 1 := ⟨f - 1, by omega⟩
    have hf' : d ≤ f' := by omega
    obtain ⟨data, kind⟩ := s
    cases kind with
    | arr items =>
      cases items with
      | none => simp only [chain, Schema.kind, Option.some.injEq] at h; simp only [isPrimitive, Schema.kind, h]
      | some it =>
        simp only [chain, Schema.kind] at h
        simp only [isPrimitive, Schema.kind]
        split at h
        · exact absurd h (by simp)
        · rename_i inner ht
          rw [resolve_of_target ht]
          exact ih inner b h f' hf'
    | allOf members =>
      simp only [chain, Schema.kind] at h
      simp only [isPrimitive, Schema.kind]
      by_cases hlen : (members.length == 1) = true
      · rw [if_pos hlen] at h ⊢
        cases hm : members.head? with
        | none => rw [hm] at h; simp only [Option.some.injEq] at h; simp only [h]
        | some m =>
          rw [hm] at h
          simp only at h ⊢
          cases ht : target spec m with
          | none => rw [ht] at h; exact absurd h (by simp)
          | some inner =>
            rw [ht] at h
            rw [resolve_of_target ht]
            exact ih inner b h f' hf'
      · rw [if_neg hlen] at h ⊢
        simp only [Option.some.injEq] at h; rw [h]
    | _ => simp only [chain, Schema.kind, Option.some.injEq] at h; simp only [isPrimitive, Schema.kind, h]

theorem parseRef_of_refName {t n : Text} (h : refName t = some n) : parseRef t = .ok (.schema n) := by
  unfold refName at h
  split at h
  · rename_i n' hp; simp only [Option.some.injEq] at h; rw [hp, h]
  · exact absurd h (by simp)

theorem mkModel_ok {n : Text} (h : (!n.contains '(') = true) : mkModel n = .ok (.model n) := by
  unfold mkModel
  simp only [Bool.not_eq_true'] at h
  rw [h]; rfl

/-- typing a schema (or schema reference) returns with any fuel of at least the checked depth -/
theorem ty_total (spec : Spec) : ∀ d,
    (∀ s, tyOk spec d s = true → ∀ f, d ≤ f → ∃ t, schemaToTy spec f s = .ok t) ∧
    (∀ r, refTyOk spec d r = true → ∀ f, d ≤ f → ∃ t, schemaRefToTy spec f r = .ok t) := by
  intro d
  induction d with
  | zero => exact ⟨fun s h => by simp [tyOk] at h, fun r h => by simp [refTyOk] at h⟩
  | succ d ih =>
    obtain ⟨ihT, ihR⟩ := ih
    constructor
    · intro s h f hf
      obtain ⟨f', rfl⟩ : ∃ f', f = f' + 1 := ⟨f - 1, by omega⟩
      have hf' : d ≤ f' := by omega
      obtain ⟨data, kind⟩ := s
      cases kind with
      | obj props req addl =>
        simp only [tyOk, Schema.kind] at h
        simp only [schemaToTy, Schema.kind]
        by_cases hp : props.isEmpty = true
        · rw [if_pos hp] at h ⊢
          cases addl with
          | absent => exact ⟨_, rfl⟩
          | any b => exact ⟨_, rfl⟩
          | schema r =>
            simp only at h ⊢
            obtain ⟨t, ht⟩ := ihR r h f' hf'
            rw [ht]; exact ⟨_, rfl⟩
        · rw [if_neg hp]; exact ⟨_, rfl⟩
      | arr items =>
        cases items with
        | none => simp only [schemaToTy, Schema.kind]; exact ⟨_, rfl⟩
        | some it =>
          simp only [tyOk, Schema.kind] at h
          simp only [schemaToTy, Schema.kind]
          obtain ⟨t, ht⟩ := ihR it h f' hf'
          rw [ht]; exact ⟨_, rfl⟩
      | allOf members =>
        simp only [tyOk, Schema.kind] at h
        simp only [schemaToTy, Schema.kind]
        by_cases hlen : (members.length == 1) = true
        · rw [if_pos hlen] at h ⊢
          cases hm : members.head? with
          | none => exact ⟨_, rfl⟩
          | some m =>
            rw [hm] at h
            simp only at h ⊢
            exact ihR m h f' hf'
        · rw [if_neg hlen]; exact ⟨_, rfl⟩
      | _ => simp only [schemaToTy, Schema.kind]; exact ⟨_, rfl⟩
    · intro r h f hf
      obtain ⟨f', rfl⟩ : ∃ f', f = f' + 1 := ⟨f - 1, by omega⟩
      have hf' : d ≤ f' := by omega
      simp only [refTyOk] at h
      simp only [schemaRefToTy]
      cases ht : target spec r with
      | none => rw [ht] at h; exact absurd h (by simp)
      | some s =>
        rw [ht] at h
        simp only at h
        rw [resolve_of_target ht]
        simp only
        cases hc : chain spec (d + 1) s with
        | none => rw [hc] at h; exact absurd h (by simp)
        | some b =>
          rw [hc] at h
          rw [isPrimitive_of_chain spec (d + 1) s b hc (f' + 1) hf]
          cases b with
          | true => simp only at h ⊢; exact ihT s h f' hf'
          | false =>
            simp only at h ⊢
            cases r with
            | ref t =>
              simp only at h ⊢
              cases hn : refName t with
              | none => rw [hn] at h; exact absurd h (by simp)
              | some n =>
                rw [hn] at h
                simp only at h
                rw [parseRef_of_refName hn]
                simp only
                rw [mkModel_ok h]; exact ⟨_, rfl⟩
            | item s' => simp only at h ⊢; exact ihT s' h f' hf'

theorem depth_le_fuel : DEPTH ≤ FUEL := by decide

theorem tyOfRef_total {spec : Spec} {r : SRef} (h : refTyOk spec DEPTH r = true) : ∃ t, tyOfRef spec r = .ok t :=
  (ty_total spec DEPTH).2 r h FUEL depth_le_fuel

theorem tyOf_total {spec : Spec} {s : Schema} (h : tyOk spec DEPTH s = true) : ∃ t, tyOf spec s = .ok t :=
  (ty_total spec DEPTH).1 s h FUEL depth_le_fuel

/-- a schema reference that types also resolves -/
theorem resolve_of_refTyOk {spec : Spec} {d : Nat} {r : SRef} (h : refTyOk spec d r = true) : ∃ s, resolve spec r = .ok s := by
  cases d with
  | zero => simp [refTyOk] at h
  | succ d =>
    simp only [refTyOk] at h
    cases ht : target spec r with
    | none => rw [ht] at h; exact absurd h (by simp)
    | some s => exact ⟨s, resolve_of_target ht⟩

/-- names under which records are inserted: non-empty, not starting with a lower-case letter -/
def InsertName (n : Text) : Prop := ∃ c rest, n = c :: rest ∧ c.isLower = false

theorem insertSchema_total (hir : HirSpec) (r : Record) (h : InsertName r.name) : ∃ h', insertSchema hir r = .ok h' := by
  obtain ⟨c, rest, hn, hc⟩ := h
  unfold insertSchema
  rw [hn]
  simp only [hc, Bool.not_false, if_true]
  exact ⟨_, rfl⟩

theorem extractFields_total {spec : Spec} (parent : Schema) :
    ∀ ps : List (Text × SRef), propsTyOk spec ps = true → ∃ fs, extractFields spec parent ps = .ok fs := by
  intro ps
  induction ps with
  | nil => intro _; exact ⟨_, rfl⟩
  | cons p rest ih =>
    obtain ⟨n, r⟩ := p
    intro h
    simp only [propsTyOk, Bool.and_eq_true] at h
    obtain ⟨s, hs⟩ := resolve_of_refTyOk h.1
    obtain ⟨t, ht⟩ := tyOfRef_total h.1
    obtain ⟨fs, hfs⟩ := ih h.2
    simp only [extractFields, hs, ht, hfs]
    exact ⟨_, rfl⟩

theorem createField_total {spec : Spec} {r : SRef} (h : refTyOk spec DEPTH r = true) : ∃ f, createField spec r = .ok f := by
  obtain ⟨s, hs⟩ := resolve_of_refTyOk h
  obtain ⟨t, ht⟩ := tyOfRef_total h
  simp only [createField, hs, ht]
  exact ⟨_, rfl⟩

theorem allOfInlineFields_total {spec : Spec} (required : List Text) :
    ∀ (ps : List (Text × SRef)) (acc : List (Text × HirField)), propsTyOk spec ps = true →
      ∃ fs, allOfInlineFields spec required ps acc = .ok fs := by
  intro ps
  induction ps with
  | nil => intro acc _; exact ⟨_, rfl⟩
  | cons p rest ih =>
    obtain ⟨n, r⟩ := p
    intro acc h
    simp only [propsTyOk, Bool.and_eq_true] at h
    obtain ⟨f, hf⟩ := createField_total h.1
    simp only [allOfInlineFields, hf]
    exact ih _ h.2

theorem parseRef_ok_of_refTyOk {spec : Spec} {d : Nat} {t : Text} (h : refTyOk spec d (.ref t) = true) :
    ∃ tgt, parseRef t = .ok tgt := by
  cases d with
  | zero => simp [refTyOk] at h
  | succ d =>
    simp only [refTyOk, target] at h
    cases hp : parseRef t with
    | error e => rw [hp] at h; exact absurd h (by simp)
    | ok tgt => exact ⟨tgt, rfl⟩

theorem allOfFields_total {spec : Spec} :
    ∀ (ms : List SRef) (acc : List (Text × HirField)), allOfMembersOk spec ms = true →
      ∃ fs, allOfFields spec ms acc = .ok fs := by
  intro ms
  induction ms with
  | nil => intro acc _; exact ⟨_, rfl⟩
  | cons m rest ih =>
    intro acc h
    simp only [allOfMembersOk, Bool.and_eq_true] at h
    cases m with
    | ref t =>
      simp only [allOfMemberOk] at h
      obtain ⟨tgt, htgt⟩ := parseRef_ok_of_refTyOk h.1
      obtain ⟨f, hf⟩ := createField_total h.1
      simp only [allOfFields, htgt, hf]
      exact ih _ h.2
    | item s =>
      simp only [allOfMemberOk] at h
      simp only [allOfFields]
      cases hp : propsOf s with
      | none => simp only; exact ih _ h.2
      | some props =>
        rw [hp] at h
        simp only at h ⊢
        obtain ⟨acc', hacc⟩ := allOfInlineFields_total ((requiredOf s).getD []) props.toList acc h.1
        rw [hacc]
        exact ih _ h.2

end Ln
