import LnModel.Case
import Batteries.Data.Char.AsciiCasing
/-! Lemmas about the `convert_case` model: words are non-empty, delimiter-free, made of
input characters; at least one word when the input has a non-delimiter character. -/
namespace Ln

/-- every word is non-empty and all its characters satisfy `P` -/
def GoodWords (P : Char → Prop) (ws : List Text) : Prop :=
  ∀ x ∈ ws, x ≠ [] ∧ ∀ c ∈ x, P c

theorem pushWord_good {P : Char → Prop} (w : Text) (acc : List Text)
    (hw : ∀ c ∈ w, P c) (hacc : GoodWords P acc) : GoodWords P (pushWord w acc) := by
  unfold pushWord
  split
  · exact hacc
  · intro x hx
    rcases List.mem_cons.mp hx with h | h
    · subst h
      refine ⟨?_, ?_⟩
      · intro h0; simp_all
      · intro c hc; exact hw c (List.mem_reverse.mp hc)
    · exact hacc x h

theorem splitGo_good {P : Char → Prop} (prev : Option Char) (s w : Text) (acc : List Text)
    (hs : ∀ c ∈ s, isDelim c = false → P c)
    (hw : ∀ c ∈ w, P c) (hacc : GoodWords P acc) :
    GoodWords P (splitGo prev s w acc) := by
  induction s generalizing prev w acc with
  | nil =>
    intro x hx
    simp only [splitGo] at hx
    exact pushWord_good w acc hw hacc x (List.mem_reverse.mp hx)
  | cons c rest ih =>
    have hrest : ∀ c' ∈ rest, isDelim c' = false → P c' :=
      fun c' h => hs c' (List.mem_cons_of_mem _ h)
    intro x hx
    simp only [splitGo] at hx
    split at hx
    · exact ih _ [] _ hrest (by simp) (pushWord_good w acc hw hacc) x hx
    · rename_i hd
      have hd' : isDelim c = false := by simpa using hd
      have hPc : P c := hs c (List.mem_cons_self) hd'
      split at hx
      · exact ih _ [c] _ hrest (by simpa using hPc) (pushWord_good w acc hw hacc) x hx
      · exact ih _ (c :: w) _ hrest (by
          intro c' hc'
          rcases List.mem_cons.mp hc' with h | h
          · subst h; exact hPc
          · exact hw c' h) hacc x hx

theorem split_good {P : Char → Prop} (s : Text) (hs : ∀ c ∈ s, isDelim c = false → P c) :
    GoodWords P (split s) :=
  splitGo_good none s [] [] hs (by simp) (by intro x hx; simp at hx)

theorem pushWord_ne_nil (w : Text) (acc : List Text) (h : w ≠ [] ∨ acc ≠ []) :
    pushWord w acc ≠ [] := by
  unfold pushWord
  split
  · rename_i hw
    rcases h with h | h
    · simp_all
    · exact h
  · simp

theorem splitGo_ne_nil (prev : Option Char) (s w : Text) (acc : List Text)
    (h : (∃ c ∈ s, isDelim c = false) ∨ w ≠ [] ∨ acc ≠ []) :
    splitGo prev s w acc ≠ [] := by
  induction s generalizing prev w acc with
  | nil =>
    simp only [splitGo]
    rcases h with ⟨c, hc, _⟩ | h
    · simp at hc
    · simpa using pushWord_ne_nil w acc h
  | cons c rest ih =>
    simp only [splitGo]
    split
    · rename_i hd
      apply ih
      rcases h with ⟨c', hc', hd'⟩ | h
      · rcases List.mem_cons.mp hc' with e | e
        · subst e; simp_all
        · exact Or.inl ⟨c', e, hd'⟩
      · exact Or.inr (Or.inr (pushWord_ne_nil w acc h))
    · split
      · apply ih; exact Or.inr (Or.inl (by simp))
      · apply ih; exact Or.inr (Or.inl (by simp))

theorem split_ne_nil (s : Text) (h : ∃ c ∈ s, isDelim c = false) : split s ≠ [] :=
  splitGo_ne_nil none s [] [] (Or.inl h)

/-! ### intercalate / flatten of good words -/

theorem intercalate_mem {sep : Text} {ws : List Text} {c : Char}
    (h : c ∈ intercalate sep ws) : c ∈ sep ∨ ∃ w ∈ ws, c ∈ w := by
  induction ws with
  | nil => simp [intercalate] at h
  | cons w rest ih =>
    cases rest with
    | nil => simp only [intercalate] at h; exact Or.inr ⟨w, by simp, h⟩
    | cons w' ws =>
      simp only [intercalate, List.mem_append] at h
      rcases h with (h | h) | h
      · exact Or.inr ⟨w, by simp, h⟩
      · exact Or.inl h
      · rcases ih h with h | ⟨x, hx, hc⟩
        · exact Or.inl h
        · exact Or.inr ⟨x, List.mem_cons_of_mem _ hx, hc⟩

theorem intercalate_head? {sep : Text} {w : Text} {ws : List Text} (hw : w ≠ []) :
    (intercalate sep (w :: ws)).head? = w.head? := by
  cases ws with
  | nil => simp [intercalate]
  | cons w' ws =>
    simp only [intercalate]
    cases w with
    | nil => exact absurd rfl hw
    | cons a as => simp

theorem flatten_head? {w : Text} {ws : List Text} (hw : w ≠ []) :
    (w :: ws).flatten.head? = w.head? := by
  cases w with
  | nil => exact absurd rfl hw
  | cons a as => simp

/-! ### character facts -/

theorem isAlnum_cases {c : Char} (h : isAlnum c = true) :
    c.isUpper = true ∨ c.isLower = true ∨ c.isDigit = true := by
  unfold isAlnum at h
  simp only [Bool.or_eq_true] at h
  rcases h with (h | h) | h
  · exact Or.inl h
  · exact Or.inr (Or.inl h)
  · exact Or.inr (Or.inr h)

theorem isDigit_not_isUpper {c : Char} (h : c.isDigit = true) : c.isUpper = false := by
  have h1 : c.val ≤ '9'.val := by
    simp only [Char.isDigit, Bool.and_eq_true, decide_eq_true_eq, ge_iff_le] at h; exact h.2
  unfold Char.isUpper
  apply decide_eq_false
  rintro ⟨h2, _⟩
  exact absurd (UInt32.le_trans h2 h1) (by decide)

theorem isDigit_not_isLower {c : Char} (h : c.isDigit = true) : c.isLower = false := by
  have h1 : c.val ≤ '9'.val := by
    simp only [Char.isDigit, Bool.and_eq_true, decide_eq_true_eq, ge_iff_le] at h; exact h.2
  unfold Char.isLower
  rw [Bool.and_eq_false_iff]
  left
  apply decide_eq_false
  intro h2
  exact absurd (UInt32.le_trans h2 h1) (by decide)

/-- lower-casing an alphanumeric gives a lower-case letter or a digit -/
theorem toLower_alnum {c : Char} (h : isAlnum c = true) :
    c.toLower.isLower = true ∨ c.toLower.isDigit = true := by
  rcases isAlnum_cases h with h | h | h
  · left; rw [Char.isLower_toLower_eq_isAlpha]; simp [Char.isAlpha, h]
  · left; rw [Char.isLower_toLower_eq_isAlpha]; simp [Char.isAlpha, h]
  · right
    have := isDigit_not_isUpper h
    rw [Char.toLower_eq_of_not_isUpper (by simp [this])]; exact h

theorem toUpper_alnum {c : Char} (h : isAlnum c = true) :
    c.toUpper.isUpper = true ∨ c.toUpper.isDigit = true := by
  rcases isAlnum_cases h with h | h | h
  · left; rw [Char.isUpper_toUpper_eq_isAlpha]; simp [Char.isAlpha, h]
  · left; rw [Char.isUpper_toUpper_eq_isAlpha]; simp [Char.isAlpha, h]
  · right
    have := isDigit_not_isLower h
    rw [Char.toUpper_eq_of_not_isLower (by simp [this])]; exact h

end Ln
