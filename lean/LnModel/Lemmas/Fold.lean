import LnModel.Lemmas.Ident
/-! `fold` (drop non-alphanumerics, lower-case) is invariant under every case conversion and
under the sanitiser: names that differ after folding stay different. -/
namespace Ln

def fold (s : Text) : Text := (s.filter isAlnum).map Char.toLower

theorem isAlnum_toLower (c : Char) : isAlnum c.toLower = isAlnum c := by
  cases hu : c.isUpper with
  | true =>
    have h1 : c.toLower.isLower = true := by rw [Char.isLower_toLower_eq_isAlpha]; simp [Char.isAlpha, hu]
    simp [isAlnum, hu, h1]
  | false => rw [Char.toLower_eq_of_not_isUpper (by simp [hu])]

theorem isAlnum_toUpper (c : Char) : isAlnum c.toUpper = isAlnum c := by
  cases hl : c.isLower with
  | true =>
    have h1 : c.toUpper.isUpper = true := by rw [Char.isUpper_toUpper_eq_isAlpha]; simp [Char.isAlpha, hl]
    simp [isAlnum, hl, h1]
  | false => rw [Char.toUpper_eq_of_not_isLower (by simp [hl])]

theorem fold_append (a b : Text) : fold (a ++ b) = fold a ++ fold b := by simp [fold]

theorem fold_flatten (ws : List Text) : fold ws.flatten = (ws.map fold).flatten := by
  induction ws with
  | nil => rfl
  | cons w ws ih => simp [fold_append, ih]

theorem fold_lowerW (w : Text) : fold (lowerW w) = fold w := by
  induction w with
  | nil => rfl
  | cons c cs ih =>
    simp only [lowerW, List.map_cons, fold, List.filter_cons, isAlnum_toLower] at ih ⊢
    split <;> simp_all [Char.toLower_toLower_eq_toLower]

theorem fold_upperW (w : Text) : fold (upperW w) = fold w := by
  induction w with
  | nil => rfl
  | cons c cs ih =>
    simp only [upperW, List.map_cons, fold, List.filter_cons, isAlnum_toUpper] at ih ⊢
    split <;> simp_all [Char.toLower_toUpper_eq_toLower]

theorem fold_capitalW (w : Text) : fold (capitalW w) = fold w := by
  cases w with
  | nil => rfl
  | cons c cs =>
    have h := fold_lowerW cs
    simp only [lowerW] at h
    simp only [capitalW, fold, List.filter_cons, isAlnum_toUpper] at h ⊢
    split <;> simp_all [Char.toLower_toUpper_eq_toLower]

theorem fold_sep (sep : Text) (h : ∀ c ∈ sep, isAlnum c = false) : fold sep = [] := by
  simp only [fold, List.map_eq_nil_iff, List.filter_eq_nil_iff]
  intro c hc; simp [h c hc]

theorem fold_intercalate (sep : Text) (h : ∀ c ∈ sep, isAlnum c = false) (ws : List Text) :
    fold (intercalate sep ws) = fold ws.flatten := by
  induction ws with
  | nil => rfl
  | cons w rest ih =>
    cases rest with
    | nil => simp [intercalate]
    | cons w' ws =>
      simp only [intercalate, fold_append, fold_sep sep h, List.append_nil, ih, List.flatten_cons]

/-! ### the words of `split` concatenate to the input without its delimiters -/

theorem pushWord_flatten (w : Text) (acc : List Text) :
    (pushWord w acc).reverse.flatten = acc.reverse.flatten ++ w.reverse := by
  unfold pushWord
  split
  · rename_i h; simp [List.isEmpty_iff.mp h]
  · simp

theorem splitGo_flatten (prev : Option Char) (s w : Text) (acc : List Text) :
    (splitGo prev s w acc).flatten = acc.reverse.flatten ++ w.reverse ++ s.filter (fun c => !isDelim c) := by
  induction s generalizing prev w acc with
  | nil => simp [splitGo, pushWord_flatten]
  | cons c rest ih =>
    simp only [splitGo]
    split
    · rename_i hd
      rw [ih, pushWord_flatten]
      simp [hd]
    · rename_i hd
      have hd' : isDelim c = false := by simpa using hd
      split
      · rw [ih, pushWord_flatten]; simp [hd']
      · rw [ih]; simp [hd']

theorem split_flatten (s : Text) : (split s).flatten = s.filter (fun c => !isDelim c) := by
  simp [split, splitGo_flatten]

theorem fold_filter_nondelim (s : Text) : fold (s.filter (fun c => !isDelim c)) = fold s := by
  simp only [fold, List.filter_filter]
  congr 1
  apply List.filter_congr
  intro c _
  cases h : isAlnum c with
  | false => simp
  | true => simp [isAlnum_not_delim h]

theorem fold_map_words (f : Text → Text) (hf : ∀ w, fold (f w) = fold w) (ws : List Text) :
    fold (ws.map f).flatten = fold ws.flatten := by
  rw [fold_flatten, fold_flatten, List.map_map]
  congr 1
  apply List.map_congr_left
  intro w _; exact hf w

theorem fold_toSnake (s : Text) : fold (toSnake s) = fold s := by
  unfold toSnake
  rw [fold_intercalate ['_'] (by intro c hc; simp at hc; subst hc; decide),
    fold_map_words lowerW fold_lowerW, split_flatten, fold_filter_nondelim]

theorem fold_toScreamingSnake (s : Text) : fold (toScreamingSnake s) = fold s := by
  unfold toScreamingSnake
  rw [fold_intercalate ['_'] (by intro c hc; simp at hc; subst hc; decide),
    fold_map_words upperW fold_upperW, split_flatten, fold_filter_nondelim]

theorem fold_toPascal (s : Text) : fold (toPascal s) = fold s := by
  unfold toPascal
  rw [fold_map_words capitalW fold_capitalW, split_flatten, fold_filter_nondelim]

/-! ### the sanitiser -/

theorem fold_rewriteChar (c : Char) : fold (rewriteChar c) = fold [c] := by
  cases h : isAlnum c with
  | true => rw [rewriteChar_alnum h]
  | false =>
    have hc : fold [c] = [] := by simp [fold, h]
    rw [hc]
    unfold rewriteChar
    split
    · decide
    · split
      · rfl
      · split
        · decide
        · split
          · decide
          · exact hc

theorem fold_flatMap_rewriteChar (s : Text) : fold (s.flatMap rewriteChar) = fold s := by
  induction s with
  | nil => rfl
  | cons c cs ih =>
    simp only [List.flatMap_cons, fold_append, ih, fold_rewriteChar]
    rw [← fold_append]; rfl

/-- `rewrite_names` keeps the fold of every name except the two GitHub special cases -/
theorem fold_rewriteNames (s : Text) (h1 : s ≠ cs!"+1") (h2 : s ≠ cs!"-1") : fold (rewriteNames s) = fold s := by
  unfold rewriteNames
  have e1 : (s == cs!"+1") = false := by simpa using h1
  have e2 : (s == cs!"-1") = false := by simpa using h2
  simp only [e1, e2, Bool.false_eq_true, if_false]
  exact fold_flatMap_rewriteChar s

theorem filter_alnum_regexFix (t : Text) : (regexFix t).filter isAlnum = t.filter isAlnum := by
  fun_induction regexFix t with
  | case1 a b d rest hcond ih =>
    simp only [Bool.and_eq_true, beq_iff_eq] at hcond
    obtain ⟨⟨_, hb⟩, _⟩ := hcond
    subst hb
    simp only [List.filter_cons, ih]
    have : isAlnum '_' = false := by decide
    simp [this]
  | case2 a b d rest hcond ih => simp only [List.filter_cons, ih]
  | case3 s hs => rfl

theorem fold_regexFix (t : Text) : fold (regexFix t) = fold t := by
  simp [fold, filter_alnum_regexFix]

theorem fold_snoc_us (t : Text) : fold (t ++ ['_']) = fold t := by
  rw [fold_append]; simp [fold]; decide

theorem fold_cons_us (t : Text) : fold ('_' :: t) = fold t := by
  have : isAlnum '_' = false := by decide
  simp [fold, this]

/-- the identifier produced for a name has the same fold as the name -/
theorem fold_sanitize (s r : Text) (h1 : s ≠ cs!"+1") (h2 : s ≠ cs!"-1") (h : sanitize s = .ok r) : fold r = fold s := by
  unfold sanitize at h
  simp only at h
  split at h
  · simp at h
  · rename_i s4 hdp
    have hr : r = s4 := by
      unfold assertValidIdent at h
      split at h
      · simp at h
      · split at h
        · simp at h
        · split at h
          · simp at h
          · split at h
            · simp at h
            · simp at h; exact h.symm
    subst hr
    unfold digitPrefix at hdp
    split at hdp
    · simp at hdp
    · rename_i c cs hs3
      simp only [Except.ok.injEq] at hdp
      have hfold3 : fold (c :: cs) = fold s := by
        rw [← hs3]
        split
        · rw [fold_snoc_us, fold_regexFix, fold_toSnake, fold_rewriteNames s h1 h2]
        · rw [fold_regexFix, fold_toSnake, fold_rewriteNames s h1 h2]
      rw [← hdp]
      split
      · rw [fold_cons_us, hs3]; exact hfold3
      · rw [hs3]; exact hfold3

end Ln

namespace Ln

theorem restricted_head_lower : ∀ k ∈ restricted, (k.head?.map Char.isLower).getD false = true := by
  decide +kernel

theorem pascalLike_not_restricted {t : Text} (h : PascalLike t) : isRestricted t = false := by
  cases hr : isRestricted t with
  | false => rfl
  | true =>
    have hm : t ∈ restricted := by simpa [isRestricted] using hr
    have hl := restricted_head_lower t hm
    obtain ⟨⟨a, ha, hau⟩, _⟩ := h
    rw [ha] at hl
    simp only [Option.map_some, Option.getD_some] at hl
    rcases hau with hu | hd
    · exact absurd hl (by simp [Char.not_isLower_of_isUpper hu])
    · rw [isDigit_not_isLower hd] at hl; simp at hl

/-- the type identifier produced for a name of the name domain has the same fold as the name -/
theorem fold_sanitizeStruct (s r : Text) (hdom : inNameDomain s = true) (h1 : s ≠ cs!"+1") (h2 : s ≠ cs!"-1")
    (h : sanitizeStruct s = .ok r) : fold r = fold s := by
  obtain ⟨hd1, hd2⟩ := rewriteNames_spec hdom
  have hp := toPascal_like hd1 hd2
  have hnr := pascalLike_not_restricted hp
  unfold sanitizeStruct at h
  simp only [hnr, Bool.false_eq_true, if_false] at h
  split at h
  · simp at h
  · rename_i s4 hdp
    have hr : r = s4 := by
      unfold assertValidIdent at h
      split at h
      · simp at h
      · split at h
        · simp at h
        · split at h
          · simp at h
          · split at h
            · simp at h
            · simp at h; exact h.symm
    subst hr
    unfold digitPrefix at hdp
    split at hdp
    · simp at hdp
    · rename_i c cs hs3
      simp only [Except.ok.injEq] at hdp
      have hfold3 : fold (c :: cs) = fold s := by
        rw [← hs3]
        split
        · rw [fold_snoc_us, fold_toPascal, fold_rewriteNames s h1 h2]
        · rw [fold_toPascal, fold_rewriteNames s h1 h2]
      rw [← hdp]
      split
      · rw [fold_cons_us, hs3]; exact hfold3
      · rw [hs3]; exact hfold3

end Ln
