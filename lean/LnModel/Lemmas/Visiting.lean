import LnModel.Emit.Model
/-! Walks over the schema graph that keep a `visiting` list terminate: every descent into a model adds a
schema key that was not yet on the list, so the number of keys not on it is a bound on the depth. -/
namespace Ln

/-- number of schema keys not yet on the visiting list -/
def unvisited (keys visiting : List Text) : Nat := (keys.filter fun k => !visiting.contains k).length

theorem filter_length_mono {α : Type} (p q : α → Bool) (l : List α) (h : ∀ x, p x = true → q x = true) :
    (l.filter p).length ≤ (l.filter q).length := by
  induction l with
  | nil => simp
  | cons a as ih =>
    simp only [List.filter_cons]
    cases hp : p a with
    | true => rw [h a hp]; simp only [if_true, List.length_cons]; omega
    | false =>
      simp only [Bool.false_eq_true, if_false]
      split
      · simp only [List.length_cons]; omega
      · exact ih

theorem unvisited_cons_lt (keys visiting : List Text) (m : Text) (hk : m ∈ keys) (hv : visiting.contains m = false) :
    unvisited keys (m :: visiting) < unvisited keys visiting := by
  unfold unvisited
  have hmono : ∀ x, (!(m :: visiting).contains x) = true → (!visiting.contains x) = true := by
    intro x hx
    simp only [List.contains_cons, Bool.not_or, Bool.and_eq_true] at hx
    exact hx.2
  induction keys with
  | nil => cases hk
  | cons k ks ih =>
    simp only [List.filter_cons]
    by_cases hkm : k = m
    · subst hkm
      have h1 : (k :: visiting).contains k = true := by simp
      have := filter_length_mono (fun x => !(k :: visiting).contains x) (fun x => !visiting.contains x) ks hmono
      simp only [h1, hv, Bool.not_true, Bool.not_false, if_true, List.length_cons, Bool.false_eq_true, if_false]
      omega
    · have hk' : m ∈ ks := by
        rcases List.mem_cons.mp hk with h | h
        · exact absurd h.symm hkm
        · exact h
      have ih' := ih hk'
      have hc : (m :: visiting).contains k = visiting.contains k := by
        have : (k == m) = false := by simpa using hkm
        rw [List.contains_cons, this, Bool.false_or]
      rw [hc]
      cases hvk : visiting.contains k with
      | true => simp only [Bool.not_true, Bool.false_eq_true, if_false]; exact ih'
      | false => simp only [Bool.not_false, if_true, List.length_cons]; omega

theorem btGet_mem {α : Type} (k : Text) (l : List (Text × α)) (v : α) (h : btGet k l = some v) : k ∈ l.map (·.1) := by
  induction l with
  | nil => simp [btGet] at h
  | cons kv rest ih =>
    obtain ⟨k', v'⟩ := kv
    simp only [btGet] at h
    split at h
    · rename_i hk; simp at hk; subst hk; simp
    · simp only [List.map_cons]; exact List.mem_cons_of_mem _ (ih h)

theorem allM_not_diverged (f : Ty → Except DefaultX Bool) (fs : List HirField)
    (h : ∀ x ∈ fs, f x.ty ≠ .error .diverged) : allM f fs ≠ .error .diverged := by
  induction fs with
  | nil => simp [allM]
  | cons x rest ih =>
    simp only [allM]
    have hx := h x (List.mem_cons_self ..)
    split
    · rename_i e he; intro hh; simp at hh; subst hh; exact hx he
    · simp
    · exact ih (fun y hy => h y (List.mem_cons_of_mem _ hy))

/-- `model_implements_default` never runs out of fuel when given more fuel than there are schemas that
are not being visited — on every schema table, however its models refer to each other -/
theorem modelImplementsDefault_fuel (schemas : SchemaTable) (fuel : Nat) (visiting : List Text) (name : Text)
    (hf : unvisited (schemas.map (·.1)) visiting < fuel) :
    modelImplementsDefault schemas fuel visiting name ≠ .error .diverged := by
  induction fuel generalizing visiting name with
  | zero => omega
  | succ fuel ih =>
    simp only [modelImplementsDefault]
    split
    · simp
    · rename_i hv
      have hv' : visiting.contains name = false := by simpa using hv
      split
      · simp
      · rename_i r hr
        have hmem := btGet_mem name schemas r hr
        have hlt := unvisited_cons_lt _ visiting name hmem hv'
        split
        · simp
        · apply allM_not_diverged
          intro x _
          split
          · exact ih (name :: visiting) _ (by omega)
          · simp

/-- `Ty::implements_default` terminates on every schema table (the fuel the model runs with suffices) -/
theorem implementsDefault_terminates (schemas : SchemaTable) (t : Ty) :
    tyImplementsDefault schemas t ≠ .error .diverged := by
  unfold tyImplementsDefault
  split
  · apply modelImplementsDefault_fuel
    unfold defaultFuel unvisited
    have := List.length_filter_le (fun k => !([] : List Text).contains k) (schemas.map (·.1))
    simp only [List.length_map] at this
    omega
  · simp

end Ln
