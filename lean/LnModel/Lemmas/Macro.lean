import LnModel.Macro
/-! The printer state only ever appends token text and adds / removes whitespace. -/
namespace Ln

/-- delete all whitespace -/
def nw (t : Text) : Text := t.filter fun c => !c.isWhitespace

theorem nw_append (a b : Text) : nw (a ++ b) = nw a ++ nw b := by simp [nw]

theorem nw_spaces (n : Nat) : nw (spaces n) = [] := by
  simp only [nw, spaces, List.filter_eq_nil_iff]
  intro c hc
  have := List.eq_of_mem_replicate hc
  subst this; decide

theorem nw_blank {t : Text} (h : isBlank t = true) : nw t = [] := by
  simp only [nw, List.filter_eq_nil_iff]
  simp only [isBlank, List.all_eq_true] at h
  intro c hc; simp [h c hc]

theorem isBlank_take {t : Text} (h : isBlank t = true) (n : Nat) : isBlank (t.take n) = true := by
  simp only [isBlank, List.all_eq_true] at h ⊢
  intro c hc; exact h c (List.mem_of_mem_take hc)

def PSt.flat (st : PSt) : Text := nw st.lines.flatten

theorem lines_snoc (st : PSt) (l : Text) (rest : List Text) (h : st.lines.reverse = l :: rest) :
    st.lines = rest.reverse ++ [l] := by
  have := congrArg List.reverse h
  simpa using this

theorem flat_append (st : PSt) (s : Text) : (st.append s).flat = st.flat ++ nw s ∧ (st.append s).captured = st.captured := by
  unfold PSt.append
  cases hr : st.lines.reverse with
  | nil =>
    have : st.lines = [] := by simpa using hr
    simp [PSt.flat, this, nw]
  | cons l rest =>
    have := lines_snoc st l rest hr
    simp [PSt.flat, this, nw_append]

theorem flat_push_spaces (st : PSt) (n : Nat) : (st.push (spaces n)).flat = st.flat ∧ (st.push (spaces n)).captured = st.captured := by
  simp [PSt.push, PSt.flat, nw_append, nw_spaces]

theorem flat_truncate_blank (st : PSt) (n : Nat) (h : isBlank st.last = true) :
    (st.truncate n).flat = st.flat ∧ (st.truncate n).captured = st.captured := by
  unfold PSt.truncate
  cases hr : st.lines.reverse with
  | nil => exact ⟨rfl, rfl⟩
  | cons l rest =>
    have hl := lines_snoc st l rest hr
    have hlast : st.last = l := by simp [PSt.last, hl]
    rw [hlast] at h
    simp [PSt.flat, hl, nw_append, nw_blank h, nw_blank (isBlank_take h n)]

theorem nw_intercalate_nl (ls : List Text) : nw (intercalate ['\n'] ls) = nw ls.flatten := by
  induction ls with
  | nil => rfl
  | cons l rest ih =>
    cases rest with
    | nil => simp [intercalate]
    | cons l' ls =>
      simp only [intercalate, nw_append, ih, List.flatten_cons]
      have : nw ['\n'] = [] := by decide
      simp [this]

theorem flatten_filter_nonempty (ls : List Text) : (ls.filter fun l => !l.isEmpty).flatten = ls.flatten := by
  induction ls with
  | nil => rfl
  | cons l rest ih =>
    cases l with
    | nil => simp [ih]
    | cons c cs => simp [ih]

end Ln
