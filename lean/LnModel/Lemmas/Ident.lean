import LnModel.Ident
import LnModel.Lemmas.Case
/-! Lemmas for C13: the snake/pascal output has identifier shape; the tail of the
sanitiser (restricted suffix, digit prefix, assertion) turns that shape into a valid,
non-reserved identifier. -/
namespace Ln

/-! ### keyword table facts (finite, by kernel evaluation) -/

set_option maxRecDepth 8000

theorem getLast?_snoc (l : Text) (x : Char) : (l ++ [x]).getLast? = some x := by simp

theorem kw_no_trailing_us : ∀ k ∈ keywords, k.getLast? ≠ some '_' := by decide
theorem kw_no_leading_us : ∀ k ∈ keywords, k.head? ≠ some '_' := by decide
theorem kw_restricted_or_Self : ∀ k ∈ keywords, k ∈ restricted ∨ k = cs!"Self" := by decide
theorem kw_head_upper_is_Self :
    ∀ k ∈ keywords, (k.head?.map Char.isUpper).getD false = true → k = cs!"Self" := by
  decide +kernel
theorem kw_Self_ : (cs!"Self" ++ ['_']) ∉ keywords := by decide

/-! ### alphabet facts -/

theorem isAlnum_not_delim {c : Char} (h : isAlnum c = true) : isDelim c = false := by
  rcases isAlnum_cases h with h | h | h
  all_goals
    unfold isDelim
    simp only [Bool.or_eq_false_iff, beq_eq_false_iff_ne, ne_eq]
    refine ⟨⟨?_, ?_⟩, ?_⟩ <;> (intro e; subst e; revert h; decide)

theorem nameChar_cases {c : Char} (hc : isNameChar c = true) :
    isAlnum c = true ∨ c = '_' ∨ c = '.' ∨ c = '-' ∨ c = ' ' ∨ c = '/' ∨ c = ':' ∨
    c = '@' ∨ c = '\'' ∨ c = '+' := by
  unfold isNameChar at hc
  simp only [Bool.or_eq_true, beq_iff_eq] at hc
  rcases hc with ((((((((h | h) | h) | h) | h) | h) | h) | h) | h) | h <;> simp [h]

theorem rewriteChar_alnum {c : Char} (h : isAlnum c = true) : rewriteChar c = [c] := by
  have hne : ∀ x : Char, isAlnum x = false → c ≠ x := by
    intro x hx e; subst e; simp [h] at hx
  unfold rewriteChar
  have h1 := hne '/' (by decide)
  have h2 := hne '@' (by decide)
  have h3 := hne '\'' (by decide)
  have h4 := hne '+' (by decide)
  have h5 := hne ':' (by decide)
  have h6 := hne '.' (by decide)
  simp [h1, h2, h3, h4, h5, h6]

theorem rewriteChar_spec {c : Char} (hc : isNameChar c = true) :
    ∀ d ∈ rewriteChar c, isAlnum d = true ∨ isDelim d = true := by
  rcases nameChar_cases hc with h | h | h | h | h | h | h | h | h | h
  · intro d hd; rw [rewriteChar_alnum h] at hd; simp at hd; subst hd; exact Or.inl h
  all_goals (subst h; simp [rewriteChar, isDelim])

theorem plusOne_spec : ∀ c ∈ cs!"PlusOne", isAlnum c = true := by
  intro c hc
  simp only [List.mem_cons, List.not_mem_nil, or_false] at hc
  rcases hc with h | h | h | h | h | h | h <;> subst h <;> decide

theorem minusOne_spec : ∀ c ∈ cs!"MinusOne", isAlnum c = true := by
  intro c hc
  simp only [List.mem_cons, List.not_mem_nil, or_false] at hc
  rcases hc with h | h | h | h | h | h | h | h <;> subst h <;> decide

/-- after `rewrite_names`, every non-delimiter is alphanumeric, and one exists -/
theorem rewriteNames_spec {s : Text} (h : inNameDomain s = true) :
    (∀ c ∈ rewriteNames s, isDelim c = false → isAlnum c = true) ∧
    (∃ c ∈ rewriteNames s, isDelim c = false) := by
  unfold rewriteNames
  split
  · exact ⟨fun c hc _ => plusOne_spec c hc, ⟨'P', by simp, by decide⟩⟩
  · split
    · exact ⟨fun c hc _ => minusOne_spec c hc, ⟨'M', by simp, by decide⟩⟩
    · unfold inNameDomain at h
      simp only [Bool.and_eq_true, List.all_eq_true, List.any_eq_true] at h
      obtain ⟨hall, ⟨a, ha, haa⟩⟩ := h
      constructor
      · intro c hc hd
        simp only [List.mem_flatMap] at hc
        obtain ⟨x, hx, hcx⟩ := hc
        rcases rewriteChar_spec (hall x hx) c hcx with h | h
        · exact h
        · simp [h] at hd
      · refine ⟨a, ?_, isAlnum_not_delim haa⟩
        simp only [List.mem_flatMap]
        exact ⟨a, ha, by simp [rewriteChar_alnum haa]⟩

/-! ### shape of the snake output -/

def SnakeChar (c : Char) : Prop := c.isLower = true ∨ c.isDigit = true ∨ c = '_'

/-- non-empty, starts with a lower-case letter or digit, only `[a-z0-9_]` -/
def SnakeLike (t : Text) : Prop :=
  (∃ h, t.head? = some h ∧ (h.isLower = true ∨ h.isDigit = true)) ∧ ∀ c ∈ t, SnakeChar c

theorem lowerW_good {ws : List Text} (h : GoodWords (fun c => isAlnum c = true) ws) :
    GoodWords (fun c => c.isLower = true ∨ c.isDigit = true) (ws.map lowerW) := by
  intro x hx
  simp only [List.mem_map] at hx
  obtain ⟨w, hw, rfl⟩ := hx
  obtain ⟨hne, hall⟩ := h w hw
  refine ⟨by simpa [lowerW] using hne, ?_⟩
  intro c hc
  simp only [lowerW, List.mem_map] at hc
  obtain ⟨d, hd, rfl⟩ := hc
  exact toLower_alnum (hall d hd)

theorem toSnake_like {r : Text}
    (h1 : ∀ c ∈ r, isDelim c = false → isAlnum c = true) (h2 : ∃ c ∈ r, isDelim c = false) :
    SnakeLike (toSnake r) := by
  have hg := lowerW_good (split_good r h1)
  have hne := split_ne_nil r h2
  unfold toSnake
  cases hs : split r with
  | nil => exact absurd hs hne
  | cons w ws =>
    rw [hs] at hg
    simp only [List.map_cons] at hg ⊢
    obtain ⟨hwne, hwall⟩ := hg (lowerW w) (by simp)
    constructor
    · rw [intercalate_head? hwne]
      cases hlw : lowerW w with
      | nil => exact absurd hlw hwne
      | cons a as => exact ⟨a, rfl, hwall a (by simp [hlw])⟩
    · intro c hc
      rcases intercalate_mem hc with h | ⟨x, hx, hcx⟩
      · simp at h; exact Or.inr (Or.inr h)
      · rcases (hg x hx).2 c hcx with h | h
        · exact Or.inl h
        · exact Or.inr (Or.inl h)

theorem regexFix_mem {t : Text} : ∀ c ∈ regexFix t, c ∈ t := by
  fun_induction regexFix t with
  | case1 a b d rest hcond ih =>
    intro c hc
    simp only [List.mem_cons] at hc ⊢
    rcases hc with h | h | h
    · exact Or.inl h
    · exact Or.inr (Or.inr (Or.inl h))
    · exact Or.inr (Or.inr (Or.inr (ih c h)))
  | case2 a b d rest hcond ih =>
    intro c hc
    simp only [List.mem_cons] at hc ⊢
    rcases hc with h | h
    · exact Or.inl h
    · have := ih c h
      simp only [List.mem_cons] at this
      exact Or.inr this
  | case3 s hs => intro c hc; exact hc

theorem regexFix_head? (t : Text) : (regexFix t).head? = t.head? := by
  fun_induction regexFix t with
  | case1 => simp
  | case2 => simp
  | case3 => rfl

theorem regexFix_like {t : Text} (h : SnakeLike t) : SnakeLike (regexFix t) :=
  ⟨by rw [regexFix_head?]; exact h.1, fun c hc => h.2 c (regexFix_mem c hc)⟩

/-! ### the tail of `sanitize` -/

theorem snakeChar_identChar {c : Char} (h : SnakeChar c) : isIdentChar c = true := by
  rcases h with h | h | h
  · simp [isIdentChar, isAlnum, h]
  · simp [isIdentChar, isAlnum, h]
  · subst h; decide

theorem snakeChar_ne {c : Char} (h : SnakeChar c) (x : Char)
    (hx : x.isLower = false ∧ x.isDigit = false ∧ x ≠ '_') : c ≠ x := by
  intro e; subst e
  rcases h with h | h | h
  · simp [hx.1] at h
  · simp [hx.2.1] at h
  · exact hx.2.2 h

theorem not_contains_of_all {t : Text} {x : Char} (h : ∀ c ∈ t, c ≠ x) : t.contains x = false := by
  cases hc : t.contains x with
  | false => rfl
  | true =>
    have := List.contains_iff_mem.mp hc
    exact absurd rfl (h x this)

theorem assertValidIdent_ok {t : Text} {a : Char} {as : Text} (ht : t = a :: as)
    (hhead : a.isDigit = false) (hall : ∀ c ∈ t, SnakeChar c ∨ c.isUpper = true) :
    assertValidIdent t = .ok t := by
  have hne : ∀ x : Char, (x.isLower = false ∧ x.isDigit = false ∧ x ≠ '_' ∧ x.isUpper = false) →
      ∀ c ∈ t, c ≠ x := by
    intro x hx c hc e
    subst e
    rcases hall c hc with h | h
    · exact snakeChar_ne h c ⟨hx.1, hx.2.1, hx.2.2.1⟩ rfl
    · simp [hx.2.2.2] at h
  have h1 := not_contains_of_all (hne '(' (by decide))
  have h2 := not_contains_of_all (hne '.' (by decide))
  unfold assertValidIdent
  rw [h1, h2]
  subst ht
  simp [hhead]

theorem mem_keywords_of_contains {t : Text} (h : keywords.contains t = true) : t ∈ keywords :=
  List.contains_iff_mem.mp h

/-- What the tail of `sanitize` does to a snake-shaped string. -/
theorem sanitize_tail_valid {t : Text} (h : SnakeLike t) :
    ∃ r, (match digitPrefix (if isRestricted t then t ++ ['_'] else t) with
          | .error e => Except.error e
          | .ok s4 => assertValidIdent s4) = .ok r ∧ validIdent r = true := by
  obtain ⟨⟨a, hhead, ha⟩, hall⟩ := h
  cases t with
  | nil => simp at hhead
  | cons a' as =>
    simp only [List.head?_cons, Option.some.injEq] at hhead
    subst hhead
    -- s3 and its properties
    let s3 : Text := if isRestricted (a' :: as) then (a' :: as) ++ ['_'] else (a' :: as)
    have hs3cons : ∃ bs, s3 = a' :: bs := by
      simp only [s3]; split
      · exact ⟨as ++ ['_'], rfl⟩
      · exact ⟨as, rfl⟩
    have hs3all : ∀ c ∈ s3, SnakeChar c := by
      simp only [s3]; split
      · intro c hc
        rcases List.mem_append.mp hc with h | h
        · exact hall c h
        · simp at h; exact Or.inr (Or.inr h)
      · exact hall
    have hs3kw : s3 ∉ keywords := by
      simp only [s3]; split
      · intro hk
        exact kw_no_trailing_us _ hk (getLast?_snoc _ _)
      · rename_i hnr
        intro hk
        rcases kw_restricted_or_Self _ hk with h | h
        · exact hnr (by simpa [isRestricted] using h)
        · have : a' = 'S' := by
            have := congrArg List.head? h; simpa using this
          subst this
          rcases ha with h | h <;> revert h <;> decide
    obtain ⟨bs, hbs⟩ := hs3cons
    show ∃ r, (match digitPrefix s3 with
          | .error e => Except.error e
          | .ok s4 => assertValidIdent s4) = .ok r ∧ validIdent r = true
    rw [hbs] at hs3all hs3kw ⊢
    simp only [digitPrefix]
    by_cases hd : a'.isDigit = true
    · -- digit first: prefix an underscore
      simp only [hd, if_true]
      have hall' : ∀ c ∈ '_' :: a' :: bs, SnakeChar c ∨ c.isUpper = true := by
        intro c hc
        rcases List.mem_cons.mp hc with h | h
        · exact Or.inl (Or.inr (Or.inr h))
        · exact Or.inl (hs3all c h)
      refine ⟨_, assertValidIdent_ok rfl (by decide) hall', ?_⟩
      have hkw : ('_' :: a' :: bs) ∉ keywords := by
        intro hk
        have := kw_no_leading_us _ hk
        simp at this
      have hkw' : keywords.contains ('_' :: a' :: bs) = false := by
        cases hc : keywords.contains ('_' :: a' :: bs) with
        | false => rfl
        | true => exact absurd (mem_keywords_of_contains hc) hkw
      simp only [validIdent, hkw']
      have : (a' :: bs).all isIdentChar = true := by
        simp only [List.all_eq_true]
        intro c hc; exact snakeChar_identChar (hs3all c hc)
      simp [this]
    · have hd' : a'.isDigit = false := by simpa using hd
      have hl : a'.isLower = true := by
        rcases ha with h | h
        · exact h
        · exact absurd h hd
      simp only [hd', Bool.false_eq_true, if_false]
      have hall' : ∀ c ∈ a' :: bs, SnakeChar c ∨ c.isUpper = true :=
        fun c hc => Or.inl (hs3all c hc)
      refine ⟨_, assertValidIdent_ok rfl hd' hall', ?_⟩
      have hkw' : keywords.contains (a' :: bs) = false := by
        cases hc : keywords.contains (a' :: bs) with
        | false => rfl
        | true => exact absurd (mem_keywords_of_contains hc) hs3kw
      simp only [validIdent, hkw']
      have : bs.all isIdentChar = true := by
        simp only [List.all_eq_true]
        intro c hc; exact snakeChar_identChar (hs3all c (List.mem_cons_of_mem _ hc))
      have hne : (a' :: bs) ≠ ['_'] := by
        intro e
        have : a' = '_' := by simpa using congrArg List.head? e
        subst this; revert hl; decide
      simp [this, hl, hne]

end Ln

namespace Ln

/-! ### shape of the pascal output and the tail of `sanitize_struct` -/

def AlnumChar (c : Char) : Prop := c.isUpper = true ∨ c.isLower = true ∨ c.isDigit = true

/-- non-empty, starts with an upper-case letter or digit, only `[A-Za-z0-9]` -/
def PascalLike (t : Text) : Prop :=
  (∃ h, t.head? = some h ∧ (h.isUpper = true ∨ h.isDigit = true)) ∧ ∀ c ∈ t, AlnumChar c

theorem capitalW_good {ws : List Text} (h : GoodWords (fun c => isAlnum c = true) ws) :
    ∀ x ∈ ws.map capitalW, PascalLike x := by
  intro x hx
  simp only [List.mem_map] at hx
  obtain ⟨w, hw, rfl⟩ := hx
  obtain ⟨hne, hall⟩ := h w hw
  cases w with
  | nil => exact absurd rfl hne
  | cons a as =>
    simp only [capitalW]
    constructor
    · exact ⟨a.toUpper, rfl, toUpper_alnum (hall a (by simp))⟩
    · intro c hc
      rcases List.mem_cons.mp hc with h | h
      · subst h
        rcases toUpper_alnum (hall a (by simp)) with h | h
        · exact Or.inl h
        · exact Or.inr (Or.inr h)
      · simp only [List.mem_map] at h
        obtain ⟨d, hd, rfl⟩ := h
        rcases toLower_alnum (hall d (List.mem_cons_of_mem _ hd)) with h | h
        · exact Or.inr (Or.inl h)
        · exact Or.inr (Or.inr h)

theorem toPascal_like {r : Text}
    (h1 : ∀ c ∈ r, isDelim c = false → isAlnum c = true) (h2 : ∃ c ∈ r, isDelim c = false) :
    PascalLike (toPascal r) := by
  have hg := capitalW_good (split_good r h1)
  have hne := split_ne_nil r h2
  unfold toPascal
  cases hs : split r with
  | nil => exact absurd hs hne
  | cons w ws =>
    rw [hs] at hg
    simp only [List.map_cons] at hg ⊢
    obtain ⟨⟨a, hha, haa⟩, _⟩ := hg (capitalW w) (by simp)
    have hwne : capitalW w ≠ [] := by intro e; rw [e] at hha; simp at hha
    constructor
    · rw [flatten_head? hwne]; exact ⟨a, hha, haa⟩
    · intro c hc
      simp only [List.mem_flatten] at hc
      obtain ⟨x, hx, hcx⟩ := hc
      exact (hg x hx).2 c hcx

theorem alnumChar_identChar {c : Char} (h : AlnumChar c) : isIdentChar c = true := by
  rcases h with h | h | h <;> simp [isIdentChar, isAlnum, h]

theorem struct_alnum : ∀ c ∈ cs!"Struct", AlnumChar c := by
  intro c hc
  simp only [List.mem_cons, List.not_mem_nil, or_false] at hc
  rcases hc with h | h | h | h | h | h <;> subst h
  · exact Or.inl (by decide)
  all_goals exact Or.inr (Or.inl (by decide))

theorem sanitizeStruct_tail_valid {t : Text} (h : PascalLike t) :
    ∃ r, (match digitPrefix
            (let s2 := if isRestricted t then t ++ cs!"Struct" else t
             if s2 == cs!"Self" then s2 ++ ['_'] else s2) with
          | .error e => Except.error e
          | .ok s4 => assertValidIdent s4) = .ok r ∧ validIdent r = true := by
  obtain ⟨⟨a, hhead, ha⟩, hall⟩ := h
  cases t with
  | nil => simp at hhead
  | cons a' as =>
    simp only [List.head?_cons, Option.some.injEq] at hhead
    subst hhead
    let s2 : Text := if isRestricted (a' :: as) then (a' :: as) ++ cs!"Struct" else (a' :: as)
    have hs2cons : ∃ bs, s2 = a' :: bs := by
      simp only [s2]; split
      · exact ⟨as ++ cs!"Struct", rfl⟩
      · exact ⟨as, rfl⟩
    have hs2all : ∀ c ∈ s2, AlnumChar c := by
      simp only [s2]; split
      · intro c hc
        rcases List.mem_append.mp hc with h | h
        · exact hall c h
        · exact struct_alnum c h
      · exact hall
    obtain ⟨bs, hbs⟩ := hs2cons
    show ∃ r, (match digitPrefix (if s2 == cs!"Self" then s2 ++ ['_'] else s2) with
          | .error e => Except.error e
          | .ok s4 => assertValidIdent s4) = .ok r ∧ validIdent r = true
    rw [hbs] at hs2all ⊢
    -- s3
    let s3 : Text := if (a' :: bs) == cs!"Self" then (a' :: bs) ++ ['_'] else (a' :: bs)
    have hs3cons : ∃ ds, s3 = a' :: ds := by
      simp only [s3]; split
      · exact ⟨bs ++ ['_'], rfl⟩
      · exact ⟨bs, rfl⟩
    have hs3all : ∀ c ∈ s3, AlnumChar c ∨ c = '_' := by
      simp only [s3]; split
      · intro c hc
        rcases List.mem_append.mp hc with h | h
        · exact Or.inl (hs2all c h)
        · simp at h; exact Or.inr h
      · exact fun c hc => Or.inl (hs2all c hc)
    have hs3kw : a'.isUpper = true → s3 ∉ keywords := by
      intro hu
      simp only [s3]; split
      · rename_i he
        have he' : (a' :: bs) = cs!"Self" := by simpa using he
        rw [he']; exact kw_Self_
      · rename_i hne
        intro hk
        have := kw_head_upper_is_Self _ hk (by simp [hu])
        exact hne (by simp [this])
    obtain ⟨ds, hds⟩ := hs3cons
    show ∃ r, (match digitPrefix s3 with
          | .error e => Except.error e
          | .ok s4 => assertValidIdent s4) = .ok r ∧ validIdent r = true
    rw [hds] at hs3all hs3kw ⊢
    simp only [digitPrefix]
    have hident : ∀ c ∈ a' :: ds, isIdentChar c = true := by
      intro c hc
      rcases hs3all c hc with h | h
      · exact alnumChar_identChar h
      · subst h; decide
    have hsnake : ∀ c ∈ a' :: ds, SnakeChar c ∨ c.isUpper = true := by
      intro c hc
      rcases hs3all c hc with (h | h | h) | h
      · exact Or.inr h
      · exact Or.inl (Or.inl h)
      · exact Or.inl (Or.inr (Or.inl h))
      · exact Or.inl (Or.inr (Or.inr h))
    by_cases hd : a'.isDigit = true
    · simp only [hd, if_true]
      have hall' : ∀ c ∈ '_' :: a' :: ds, SnakeChar c ∨ c.isUpper = true := by
        intro c hc
        rcases List.mem_cons.mp hc with h | h
        · exact Or.inl (Or.inr (Or.inr h))
        · exact hsnake c h
      refine ⟨_, assertValidIdent_ok rfl (by decide) hall', ?_⟩
      have hkw : ('_' :: a' :: ds) ∉ keywords := by
        intro hk
        have := kw_no_leading_us _ hk
        simp at this
      have hkw' : keywords.contains ('_' :: a' :: ds) = false := by
        cases hc : keywords.contains ('_' :: a' :: ds) with
        | false => rfl
        | true => exact absurd (mem_keywords_of_contains hc) hkw
      simp only [validIdent, hkw']
      have : (a' :: ds).all isIdentChar = true := by
        simp only [List.all_eq_true]; exact hident
      simp [this]
    · have hd' : a'.isDigit = false := by simpa using hd
      have hu : a'.isUpper = true := by
        rcases ha with h | h
        · exact h
        · exact absurd h hd
      simp only [hd', Bool.false_eq_true, if_false]
      refine ⟨_, assertValidIdent_ok rfl hd' hsnake, ?_⟩
      have hkw' : keywords.contains (a' :: ds) = false := by
        cases hc : keywords.contains (a' :: ds) with
        | false => rfl
        | true => exact absurd (mem_keywords_of_contains hc) (hs3kw hu)
      simp only [validIdent, hkw']
      have : ds.all isIdentChar = true := by
        simp only [List.all_eq_true]
        intro c hc; exact hident c (List.mem_cons_of_mem _ hc)
      have hne : (a' :: ds) ≠ ['_'] := by
        intro e
        have : a' = '_' := by simpa using congrArg List.head? e
        subst this; revert hu; decide
      simp [this, hu, hne]

end Ln
