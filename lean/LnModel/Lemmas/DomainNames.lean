import LnModel.Lemmas.Domain
import LnModel.Lemmas.Ident
/-! Names under which the extractor inserts records stay insertable: closure of the schema-name
alphabet under `create_unique_name` and `<Operation>Response`. -/
namespace Ln

theorem isUpper_not_isLower {c : Char} (h : c.isUpper = true) : c.isLower = false := by
  have h1 : c.val ≤ 'Z'.val := by
    simp only [Char.isUpper, decide_eq_true_eq, ge_iff_le] at h; exact h.2
  unfold Char.isLower
  rw [Bool.and_eq_false_iff]
  left
  apply decide_eq_false
  intro h2
  exact absurd (UInt32.le_trans h2 h1) (by decide)

/-- the schema-name alphabet: letters and digits only, not starting with a lower-case letter -/
def NameP (n : Text) : Prop := (∀ c ∈ n, isAlnum c = true) ∧ InsertName n

theorem alnumChar_isAlnum {c : Char} (h : AlnumChar c) : isAlnum c = true := by
  unfold isAlnum
  rcases h with h | h | h <;> simp [h]

theorem pascalLike_nameP {t : Text} (h : PascalLike t) : NameP t := by
  obtain ⟨⟨a, ha, hau⟩, hall⟩ := h
  refine ⟨fun c hc => alnumChar_isAlnum (hall c hc), ?_⟩
  cases t with
  | nil => simp at ha
  | cons x xs =>
    simp only [List.head?_cons, Option.some.injEq] at ha
    subst ha
    refine ⟨x, xs, rfl, ?_⟩
    rcases hau with h | h
    · exact isUpper_not_isLower h
    · exact isDigit_not_isLower h

theorem nameP_append {a b : Text} (ha : NameP a) (hb : ∀ c ∈ b, isAlnum c = true) : NameP (a ++ b) := by
  obtain ⟨h1, c, rest, hn, hc⟩ := ha
  refine ⟨?_, c, rest ++ b, by rw [hn]; rfl, hc⟩
  intro x hx
  rcases List.mem_append.mp hx with h | h
  · exact h1 x h
  · exact hb x h

theorem toPascal_nameP {r : Text} (h1 : ∀ c ∈ r, isAlnum c = true) (h2 : r ≠ []) : NameP (toPascal r) := by
  apply pascalLike_nameP
  apply toPascal_like
  · intro c hc _; exact h1 c hc
  · cases r with
    | nil => exact absurd rfl h2
    | cons a as => exact ⟨a, by simp, isAlnum_not_delim (h1 a (by simp))⟩

theorem singular_alnum {n : Text} (h : ∀ c ∈ n, isAlnum c = true) : ∀ c ∈ singular n, isAlnum c = true := by
  intro c hc
  unfold singular at hc
  split at hc
  · rcases List.mem_append.mp hc with h' | h'
    · exact h c (List.mem_of_mem_take h')
    · simp only [List.mem_singleton] at h'; subst h'; decide
  · split at hc
    · exact h c (List.mem_of_mem_take hc)
    · split at hc
      · exact h c (List.mem_of_mem_take hc)
      · exact h c hc

theorem singular_ne_nil {n : Text} (h : InsertName n) : singular n ≠ [] := by
  obtain ⟨c, rest, hn, hc⟩ := h
  subst hn
  unfold singular
  split
  · simp
  · split
    · rename_i _ hes
      cases rest with
      | nil => simp [hasSuffix, List.isPrefixOf] at hes
      | cons d rest' =>
        cases rest' with
        | nil =>
          simp only [hasSuffix, List.reverse_cons, List.reverse_nil, List.nil_append, List.cons_append, List.isPrefixOf, Bool.and_eq_true, beq_iff_eq, Bool.and_true] at hes
          obtain ⟨_, hce⟩ := hes
          rw [← hce] at hc
          exact absurd hc (by decide)
        | cons e r => simp
    · split
      · rename_i _ _ hs
        cases rest with
        | nil =>
          simp only [hasSuffix, List.reverse_cons, List.reverse_nil, List.nil_append, List.isPrefixOf, Bool.and_eq_true, beq_iff_eq, Bool.and_true] at hs
          obtain ⟨_, hcs⟩ := hs
          rw [← hcs] at hc
          exact absurd hc (by decide)
        | cons d r => simp
      · simp

theorem createUniqueName_nameP {cur : List Text} {name n : Text} (h : NameP name)
    (hn : createUniqueName cur name name = some n) : NameP n := by
  have hne : name ≠ [] := by obtain ⟨_, c, rest, e, _⟩ := h; rw [e]; simp
  have hP : NameP (toPascal name) := toPascal_nameP h.1 hne
  have hS : NameP (toPascal (singular name)) := toPascal_nameP (singular_alnum h.1) (singular_ne_nil h.2)
  have hItem : ∀ c ∈ cs!"Item", isAlnum c = true := by
    intro c hc
    simp only [List.mem_cons, List.not_mem_nil, or_false] at hc
    rcases hc with h | h | h | h <;> subst h <;> decide
  unfold createUniqueName at hn
  simp only at hn
  split at hn
  · rename_i n' hv
    simp only [Option.some.injEq] at hn
    subst hn
    split at hv
    · split at hv
      · simp only [Option.some.injEq] at hv; rw [← hv]; exact hS
      · split at hv
        · simp only [Option.some.injEq] at hv; rw [← hv]; exact nameP_append hP hS.1
        · exact absurd hv (by simp)
    · exact absurd hv (by simp)
  · split at hn
    · simp only [Option.some.injEq] at hn; rw [← hn]; exact nameP_append hP hItem
    · split at hn
      · simp only [Option.some.injEq] at hn; rw [← hn]
        exact nameP_append hP (fun c hc => (nameP_append hP hItem).1 c hc)
      · exact absurd hn (by simp)

theorem extractNewtype_total {spec : Spec} {name : Text} {s : Schema} (hir : HirSpec)
    (hn : InsertName name) (h : tyOk spec DEPTH s = true) : ∃ h', extractNewtype spec name s hir = .ok h' := by
  obtain ⟨t, ht⟩ := tyOf_total h
  simp only [extractNewtype, ht]
  exact insertSchema_total _ _ hn

theorem extractAllOf_total {spec : Spec} {name : Text} {members : List SRef} (data : SData) (hir : HirSpec)
    (hn : InsertName name)
    (h : (if effectiveLength members == 1 then
            (match members with | [] => false | m :: _ => refTyOk spec DEPTH m)
          else allOfMembersOk spec members) = true) :
    ∃ h', extractAllOf spec name members data hir = .ok h' := by
  unfold extractAllOf
  by_cases he : (effectiveLength members == 1) = true
  · rw [if_pos he] at h ⊢
    cases members with
    | nil => exact absurd h (by simp)
    | cons m rest =>
      simp only at h ⊢
      obtain ⟨t, ht⟩ := tyOfRef_total h
      rw [ht]
      exact insertSchema_total _ _ hn
  · rw [if_neg he] at h ⊢
    obtain ⟨fs, hfs⟩ := allOfFields_total members [] h
    rw [hfs]
    exact insertSchema_total _ _ hn

/-- `extract_schema` returns on every schema that passes `schemaOk`, under any insertable name of the alphabet -/
theorem extractSchema_total (spec : Spec) : (s : Schema) → (name : Text) → (hir : HirSpec) →
    NameP name → schemaOk spec s = true → ∃ h', extractSchema spec name s hir = .ok h'
  | .mk data kind, name, hir, hn, h => by
    cases kind with
    | obj props required addl =>
      simp only [schemaOk] at h
      simp only [extractSchema]
      have hfields : propsTyOk spec props.toList = true → ∃ h',
          (match extractFields spec (Schema.mk data (Kind.obj props required addl)) props.toList with
            | Except.error e => Except.error e
            | Except.ok fields => insertSchema hir (Record.struct name data.nullable fields (Option.map trim data.desc))) = Except.ok h' := by
        intro hp
        obtain ⟨fs, hfs⟩ := extractFields_total (.mk data (.obj props required addl)) props.toList hp
        rw [hfs]
        exact insertSchema_total _ _ hn.2
      cases hp : props.isEmpty <;> cases addl <;>
        simp only [hp, Bool.and_true, Bool.and_false, if_true, if_false, Bool.false_eq_true] at h ⊢
      all_goals first
        | exact hfields h
        | exact insertSchema_total _ _ hn.2
        | (obtain ⟨t, ht⟩ := tyOfRef_total h; rw [ht]; exact insertSchema_total _ _ hn.2)
    | str format enumeration =>
      simp only [schemaOk, Bool.or_eq_true] at h
      simp only [extractSchema]
      split
      · exact insertSchema_total _ _ hn.2
      · rename_i hc
        rcases h with h | h
        · exact absurd h hc
        · exact extractNewtype_total hir hn.2 h
    | allOf members =>
      simp only [schemaOk] at h
      simp only [extractSchema]
      exact extractAllOf_total data hir hn.2 h
    | arr items =>
      cases items with
      | none => simp only [schemaOk] at h; simp only [extractSchema]; exact extractNewtype_total hir hn.2 h
      | some r =>
        cases r with
        | ref t => simp only [schemaOk] at h; simp only [extractSchema]; exact extractNewtype_total hir hn.2 h
        | item it =>
          simp only [schemaOk, Bool.and_eq_true] at h
          simp only [extractSchema]
          split
          · rename_i n hcu
            exact extractSchema_total spec it n hir (createUniqueName_nameP hn hcu) h.2
          · exact extractNewtype_total hir hn.2 h.1
    | num => simp only [schemaOk] at h; simp only [extractSchema]; exact extractNewtype_total hir hn.2 h
    | int => simp only [schemaOk] at h; simp only [extractSchema]; exact extractNewtype_total hir hn.2 h
    | bool => simp only [schemaOk] at h; simp only [extractSchema]; exact extractNewtype_total hir hn.2 h
    | oneOf => simp only [schemaOk] at h; simp only [extractSchema]; exact extractNewtype_total hir hn.2 h
    | anyOf => simp only [schemaOk] at h; simp only [extractSchema]; exact extractNewtype_total hir hn.2 h
    | not_ => simp only [schemaOk] at h; simp only [extractSchema]; exact extractNewtype_total hir hn.2 h
    | any props required => simp only [schemaOk] at h; simp only [extractSchema]; exact extractNewtype_total hir hn.2 h

theorem nameP_of_schemaNameOk {n : Text} (h : schemaNameOk n = true) : NameP n := by
  unfold schemaNameOk at h
  simp only [Bool.and_eq_true, List.all_eq_true] at h
  refine ⟨h.1, ?_⟩
  cases n with
  | nil => exact absurd h.2 (by simp)
  | cons c rest => exact ⟨c, rest, rfl, by simpa using h.2⟩

theorem extractComponents_total (spec : Spec) : ∀ (cs : List (Text × SRef)) (hir : HirSpec),
    componentsOk spec cs = true → ∃ h', extractComponents spec cs hir = .ok h' := by
  intro cs
  induction cs with
  | nil => intro hir _; exact ⟨_, rfl⟩
  | cons c rest ih =>
    obtain ⟨n, r⟩ := c
    intro hir h
    cases r with
    | ref t => simp [componentsOk] at h
    | item s =>
      simp only [componentsOk, Bool.and_eq_true] at h
      obtain ⟨h1, hs1⟩ := extractSchema_total spec s n hir (nameP_of_schemaNameOk h.1.1) h.1.2
      simp only [extractComponents, hs1]
      exact ih h1 h.2

/-! ### operations -/

theorem extractParam_total {spec : Spec} {p : ParamRef} (h : paramOk spec p = true) : ∃ q, extractParam spec p = .ok q := by
  unfold extractParam
  cases p with
  | item p =>
    simp only [paramOk] at h
    simp only [resolveParam]
    cases hs : p.schema with
    | none => rw [hs] at h; exact absurd h (by simp)
    | some r =>
      rw [hs] at h
      simp only at h ⊢
      obtain ⟨t, ht⟩ := tyOfRef_total h
      rw [ht]; exact ⟨_, rfl⟩
  | ref r =>
    simp only [paramOk] at h
    simp only [resolveParam]
    split at h
    · rename_i x p hf
      rw [hf]
      simp only
      cases hs : p.schema with
      | none => rw [hs] at h; exact absurd h (by simp)
      | some r =>
        rw [hs] at h
        simp only at h ⊢
        obtain ⟨t, ht⟩ := tyOfRef_total h
        rw [ht]; exact ⟨_, rfl⟩
    · exact absurd h (by simp)

theorem extractParams_total {spec : Spec} : ∀ ps : List ParamRef, paramsOk spec ps = true → ∃ qs, extractParams spec ps = .ok qs := by
  intro ps
  induction ps with
  | nil => intro _; exact ⟨_, rfl⟩
  | cons p rest ih =>
    intro h
    simp only [paramsOk, Bool.and_eq_true] at h
    obtain ⟨q, hq⟩ := extractParam_total h.1
    obtain ⟨qs, hqs⟩ := ih h.2
    simp only [extractParams, hq, hqs]
    exact ⟨_, rfl⟩

/-- listing the properties of a (possibly nested allOf) schema returns with any fuel of at least the checked depth -/
theorem propertiesIter_total (spec : Spec) : ∀ d,
    (∀ s, membersListed spec d s = true → ∀ f, d ≤ f → ∃ ps, propertiesIter spec f s = .ok ps) ∧
    (∀ ms, membersListedL spec d ms = true → ∀ f, d ≤ f → ∃ ps, propertiesIterList spec f ms = .ok ps) := by
  intro d
  induction d with
  | zero => exact ⟨fun s h => by simp [membersListed] at h, fun ms h => by simp [membersListedL] at h⟩
  | succ d ih =>
    obtain ⟨ihS, ihL⟩ := ih
    constructor
    · intro s h f hf
      obtain ⟨f', rfl⟩ : ∃ f', f = f' + 1 := ⟨f - 1, by omega⟩
      have hf' : d ≤ f' := by omega
      obtain ⟨data, kind⟩ := s
      cases kind with
      | allOf members =>
        simp only [membersListed, Schema.kind] at h
        simp only [propertiesIter, Schema.kind]
        exact ihL _ h f' hf'
      | _ => simp only [propertiesIter, Schema.kind]; exact ⟨_, rfl⟩
    · intro ms h f hf
      obtain ⟨f', rfl⟩ : ∃ f', f = f' + 1 := ⟨f - 1, by omega⟩
      have hf' : d ≤ f' := by omega
      cases ms with
      | nil => simp only [propertiesIterList]; exact ⟨_, rfl⟩
      | cons m rest =>
        simp only [membersListedL] at h
        simp only [propertiesIterList]
        cases ht : target spec m with
        | none => rw [ht] at h; exact absurd h (by simp)
        | some s =>
          rw [ht] at h
          simp only [Bool.and_eq_true] at h
          rw [resolve_of_target ht]
          obtain ⟨a, ha⟩ := ihS s h.1 f' hf'
          obtain ⟨b, hb⟩ := ihL rest h.2 f' hf'
          simp only [ha, hb]
          exact ⟨_, rfl⟩

/-- `declaring_schema` returns likewise -/
theorem declaringSchema_total (spec : Spec) (name : Text) : ∀ d,
    (∀ s, membersListed spec d s = true → ∀ f, d ≤ f → ∃ r, declaringSchema spec name f s = .ok r) ∧
    (∀ whole ms, membersListedL spec d ms = true → ∀ f, d ≤ f → ∃ r, declaringIn spec name f whole ms = .ok r) := by
  intro d
  induction d with
  | zero => exact ⟨fun s h => by simp [membersListed] at h, fun w ms h => by simp [membersListedL] at h⟩
  | succ d ih =>
    obtain ⟨ihS, ihL⟩ := ih
    constructor
    · intro s h f hf
      obtain ⟨f', rfl⟩ : ∃ f', f = f' + 1 := ⟨f - 1, by omega⟩
      have hf' : d ≤ f' := by omega
      obtain ⟨data, kind⟩ := s
      cases kind with
      | allOf members =>
        simp only [membersListed, Schema.kind] at h
        simp only [declaringSchema, Schema.kind]
        exact ihL _ _ h f' hf'
      | _ => simp only [declaringSchema, Schema.kind]; exact ⟨_, rfl⟩
    · intro whole ms h f hf
      obtain ⟨f', rfl⟩ : ∃ f', f = f' + 1 := ⟨f - 1, by omega⟩
      have hf' : d ≤ f' := by omega
      cases ms with
      | nil => simp only [declaringIn]; exact ⟨_, rfl⟩
      | cons m rest =>
        simp only [membersListedL] at h
        simp only [declaringIn]
        cases ht : target spec m with
        | none => rw [ht] at h; exact absurd h (by simp)
        | some s =>
          rw [ht] at h
          simp only [Bool.and_eq_true] at h
          rw [resolve_of_target ht]
          obtain ⟨ps, hps⟩ := (propertiesIter_total spec d).1 s h.1 f' hf'
          simp only [hps]
          split
          · exact ihS s h.1 f' hf'
          · exact ihL whole rest h.2 f' hf'

theorem bodyArgs_total {spec : Spec} {body : Schema} (hb : membersListed spec DEPTH body = true) :
    ∀ (ps : List (Text × SRef)) (inputs : List Param), bodyPropsOk spec ps = true → ∃ r, bodyArgs spec body ps inputs = .ok r := by
  intro ps
  induction ps with
  | nil => intro inputs _; exact ⟨_, rfl⟩
  | cons p rest ih =>
    obtain ⟨n, r⟩ := p
    intro inputs h
    simp only [bodyPropsOk, Bool.and_eq_true] at h
    obtain ⟨t, ht⟩ := tyOfRef_total h.1
    obtain ⟨s, hs⟩ := resolve_of_refTyOk h.1
    obtain ⟨dcl, hd⟩ := (declaringSchema_total spec n DEPTH).1 body hb FUEL depth_le_fuel
    simp only [bodyArgs, ht, hs, hd]
    exact ih _ h.2

theorem resolveBody_of_jsonOf {spec : Spec} {b : OaBody} {j : Option SRef} (h : jsonOf spec b = some j) :
    resolveBody spec b = .ok j := by
  cases b with
  | item j' => simp only [jsonOf, Option.some.injEq] at h; simp only [resolveBody, h]
  | ref r =>
    simp only [jsonOf] at h
    simp only [resolveBody]
    split at h
    · rename_i x j' hf
      simp only [Option.some.injEq] at h
      rw [hf, h]
    · exact absurd h (by simp)

theorem allProps_eq {spec : Spec} {body : Schema} (hb : membersListed spec DEPTH body = true) :
    propertiesIter spec FUEL body = .ok (allProps spec body) := by
  obtain ⟨ps, hps⟩ := (propertiesIter_total spec DEPTH).1 body hb FUEL depth_le_fuel
  simp only [allProps, hps]

theorem extractParameters_total {spec : Spec} {op : OaOperation} {item : OaPath}
    (h1 : paramsOk spec op.params = true) (h2 : paramsOk spec item.params = true) (h3 : bodyOk spec op.body = true) :
    ∃ ps, extractParameters spec op item = .ok ps := by
  obtain ⟨own, hown⟩ := extractParams_total op.params h1
  obtain ⟨inh, hinh⟩ := extractParams_total item.params h2
  simp only [extractParameters, hown, hinh]
  cases hb : op.body with
  | none => exact ⟨_, rfl⟩
  | some b =>
    rw [hb] at h3
    simp only [bodyOk] at h3
    simp only
    cases hj : jsonOf spec b with
    | none => rw [hj] at h3; exact absurd h3 (by simp)
    | some j =>
      rw [hj] at h3
      rw [resolveBody_of_jsonOf hj]
      cases j with
      | none => exact ⟨_, rfl⟩
      | some r =>
        simp only at h3 ⊢
        cases ht : target spec r with
        | none => rw [ht] at h3; exact absurd h3 (by simp)
        | some body =>
          rw [ht] at h3
          rw [resolve_of_target ht]
          simp only at h3 ⊢
          obtain ⟨data, kind⟩ := body
          cases kind with
          | arr items =>
            cases items with
            | none => simp only [Schema.kind]; exact ⟨_, rfl⟩
            | some it =>
              simp only [Schema.kind] at h3 ⊢
              obtain ⟨t, ht'⟩ := tyOfRef_total h3
              rw [ht']; exact ⟨_, rfl⟩
          | _ =>
            simp only [Schema.kind, Bool.and_eq_true] at h3 ⊢
            rw [allProps_eq h3.1]
            cases hps : allProps spec _ with
            | nil => exact ⟨_, rfl⟩
            | cons p rest =>
              rw [hps] at h3
              exact bodyArgs_total h3.1 _ _ h3.2

theorem resolveResponse_of_json {spec : Spec} {r : OaResponse} {j : Option SRef} (h : responseJson spec r = some j) :
    resolveResponse spec r = .ok j := by
  cases r with
  | item j' => simp only [responseJson, Option.some.injEq] at h; simp only [resolveResponse, h]
  | ref t =>
    simp only [responseJson] at h
    simp only [resolveResponse]
    split at h
    · rename_i x j' hf
      simp only [Option.some.injEq] at h
      rw [hf, h]
    · exact absurd h (by simp)

theorem getRes_eq {spec : Spec} {op : OaOperation} {resp : OaResponse} {j : Option SRef}
    (h1 : successOf op = some resp) (h2 : responseJson spec resp = some j) : getRes spec op = .ok j := by
  unfold getRes
  unfold successOf at h1
  simp only [h1]
  exact resolveResponse_of_json h2

end Ln
