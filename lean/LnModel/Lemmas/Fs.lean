import LnModel.Fs
/-! String lemmas (`isSub`, `splitOnce`) and the pointwise lemmas behind C10–C12. -/
namespace Ln

/-! ### substrings -/

theorem isPrefixOf_append_of_le (m a x y : Text) (h : m.length ≤ a.length) :
    m.isPrefixOf (a ++ x) = m.isPrefixOf (a ++ y) := by
  induction m generalizing a with
  | nil => simp
  | cons c cs ih =>
    cases a with
    | nil => simp at h
    | cons d ds =>
      simp only [List.cons_append, List.isPrefixOf]
      rw [ih ds (by simpa using h)]

theorem splitOnce_spec (m s pre rest : Text)
    (h : splitOnce m s = some (pre, rest)) : s = pre ++ m ++ rest := by
  induction s generalizing pre rest with
  | nil =>
    simp only [splitOnce] at h
    split at h
    · rename_i hm
      simp at h; obtain ⟨rfl, rfl⟩ := h
      simp [List.isEmpty_iff.mp hm]
    · simp at h
  | cons c t ih =>
    simp only [splitOnce] at h
    split at h
    · rename_i hp
      simp at h; obtain ⟨rfl, rfl⟩ := h
      have := List.isPrefixOf_iff_prefix.mp hp
      obtain ⟨r, hr⟩ := this
      rw [← hr]; simp
    · split at h
      · rename_i a b heq
        simp at h; obtain ⟨rfl, rfl⟩ := h
        rw [ih a b heq]; simp
      · simp at h

/-- the first occurrence stays the first occurrence when the text after it is replaced -/
theorem splitOnce_stable (m : Text) (hm : m ≠ []) (s pre rest : Text)
    (h : splitOnce m s = some (pre, rest)) (x : Text) :
    splitOnce m (pre ++ m ++ x) = some (pre, x) := by
  induction s generalizing pre rest with
  | nil => simp [splitOnce, hm] at h
  | cons c t ih =>
    simp only [splitOnce] at h
    split at h
    · simp at h
      obtain ⟨rfl, _⟩ := h
      cases m with
      | nil => exact absurd rfl hm
      | cons a as =>
        simp only [List.nil_append, List.cons_append, splitOnce]
        have : (a :: as).isPrefixOf (a :: (as ++ x)) = true := by
          have := List.isPrefixOf_iff_prefix.mpr (List.prefix_append (a :: as) x)
          simpa using this
        simp [this]
    · rename_i hnp
      split at h
      · rename_i a b heq
        simp at h
        obtain ⟨rfl, rfl⟩ := h
        have ih' := ih a b heq
        have ht := splitOnce_spec m t a b heq
        have hnp' : m.isPrefixOf (c :: (a ++ m ++ x)) = false := by
          have e := isPrefixOf_append_of_le m (c :: (a ++ m)) x b (by simp; omega)
          simp only [List.cons_append, List.append_assoc] at e
          rw [ht] at hnp
          simp only [List.append_assoc] at hnp ⊢
          rw [e]
          cases hq : List.isPrefixOf m (c :: (a ++ (m ++ b))) with
          | false => rfl
          | true => exact absurd hq hnp
        simp only [List.cons_append, List.append_assoc, splitOnce] at hnp' ih' ⊢
        simp [hnp', ih']
      · simp at h

theorem splitOnce_none_iff (m : Text) (hm : m ≠ []) (s : Text) :
    splitOnce m s = none ↔ isSub m s = false := by
  induction s with
  | nil => simp [splitOnce, isSub, hm]
  | cons c t ih =>
    simp only [splitOnce, isSub]
    cases hp : m.isPrefixOf (c :: t) with
    | true => simp
    | false =>
      simp only [Bool.false_eq_true, if_false, Bool.false_or]
      rw [← ih]
      cases splitOnce m t with
      | none => simp
      | some ab => simp

theorem isSub_of_splitOnce {m s pre rest : Text} (hm : m ≠ [])
    (h : splitOnce m s = some (pre, rest)) : isSub m s = true := by
  cases hs : isSub m s with
  | true => rfl
  | false => rw [(splitOnce_none_iff m hm s).mpr hs] at h; simp at h

theorem isPrefixOf_take {m t : Text} {n : Nat} (h : m.isPrefixOf (t.take n) = true) :
    m.isPrefixOf t = true := by
  rw [List.isPrefixOf_iff_prefix] at h ⊢
  exact h.trans (List.take_prefix n t)

/-- a prefix of a text that does not contain `m` does not contain `m` -/
theorem isSub_take {m t : Text} {n : Nat} (hm : m ≠ []) (h : isSub m t = false) :
    isSub m (t.take n) = false := by
  induction t generalizing n with
  | nil => simpa using h
  | cons c t ih =>
    cases n with
    | zero => simp [isSub, hm]
    | succ n =>
      simp only [isSub, Bool.or_eq_false_iff] at h
      simp only [List.take_succ_cons, isSub, Bool.or_eq_false_iff]
      refine ⟨?_, ih h.2⟩
      cases hp : m.isPrefixOf (c :: List.take n t) with
      | false => rfl
      | true =>
        have : m.isPrefixOf ((c :: t).take (n + 1)) = true := by simpa using hp
        have := isPrefixOf_take this
        rw [this] at h; simp at h

theorem STATIC_ne_nil : STATIC ≠ [] := by decide
theorem AFTER_ne_nil : AFTER ≠ [] := by decide

/-! ### one write -/

@[simp] theorem readText_text (t : Text) : readText (some (.text t)) = t := rfl
@[simp] theorem readText_binary (b : List Nat) : readText (some (.binary b)) = [] := rfl
@[simp] theorem readText_none : readText none = [] := rfl

@[simp] theorem isStaticC_text (t : Text) : isStaticC (some (.text t)) = isSub STATIC t := rfl
@[simp] theorem isStaticC_none : isStaticC none = false := rfl

theorem writeOne_static {cs : CodeSpec} {c : Option Content} (h : isStaticC c = true) :
    writeOne cs c = c := by
  simp [writeOne, h]

theorem writeOne_after {cs : CodeSpec} {c : Option Content} {pre rest : Text}
    (hs : isStaticC c = false) (ha : splitOnce AFTER (readText c) = some (pre, rest)) :
    writeOne cs c = some (.text (pre ++ AFTER ++ ['\n'] ++ cs.render (readText c))) := by
  simp [writeOne, hs, ha]

theorem writeOne_plain {cs : CodeSpec} {c : Option Content}
    (hs : isStaticC c = false) (ha : isSub AFTER (readText c) = false) :
    writeOne cs c = some (.text (cs.render (readText c))) := by
  have := (splitOnce_none_iff AFTER AFTER_ne_nil _).mpr ha
  simp [writeOne, hs, this]

theorem foldl_static (outs : List CodeSpec) {c : Option Content} (h : isStaticC c = true) :
    outs.foldl (fun c cs => writeOne cs c) c = c := by
  induction outs with
  | nil => rfl
  | cons o os ih => simp [List.foldl, writeOne_static h, ih]

/-- C10 core: a file that carries the static directive — text or not — is a fixed point of generation at its path. -/
theorem genAt_static (outs : List CodeSpec) (scope : Bool) {c : Option Content} (h : isStaticC c = true) :
    genAt outs scope c = c := by
  simp [genAt, foldl_static outs h, h]

theorem suppresses_of_no_after {t : Text} (h : isSub AFTER t = false) : suppresses t = false := by
  have := (splitOnce_none_iff AFTER AFTER_ne_nil _).mpr h
  simp [suppresses, this]

theorem render_of_no_after (cs : CodeSpec) {t : Text} (h : isSub AFTER t = false) :
    cs.render t = cs.fresh := by
  cases cs with
  | plain c => rfl
  | lib f s =>
    simp [CodeSpec.render, CodeSpec.fresh, suppresses_of_no_after h,
      suppresses_of_no_after (t := []) (by decide)]

theorem suppresses_stable {t pre rest : Text} (h : splitOnce AFTER t = some (pre, rest)) (x : Text) :
    suppresses (pre ++ AFTER ++ x) = suppresses t := by
  have := splitOnce_stable AFTER AFTER_ne_nil t pre rest h x
  unfold suppresses
  rw [this, h]

theorem render_stable (cs : CodeSpec) {t pre rest : Text}
    (h : splitOnce AFTER t = some (pre, rest)) (x : Text) :
    cs.render (pre ++ AFTER ++ x) = cs.render t := by
  cases cs with
  | plain c => rfl
  | lib f s => simp only [CodeSpec.render]; rw [suppresses_stable h x]

end Ln

namespace Ln

/-! ### re-generation on top of intermediate states -/

/-- the texts a writer can produce contain neither directive -/
def MarkerFree (cs : CodeSpec) : Prop :=
  ∀ t, isSub STATIC (cs.render t) = false ∧ isSub AFTER (cs.render t) = false

theorem genAt_single (cs : CodeSpec) (scope : Bool) (c : Option Content) :
    genAt [cs] scope c = writeOne cs c := by
  simp [genAt]

theorem genAt_nil_none (scope : Bool) : genAt [] scope none = none := by
  simp [genAt]

/-- A second write on top of a completed write changes nothing. -/
theorem writeOne_idem (cs : CodeSpec) (c0 : Option Content) (hmf : MarkerFree cs)
    (hres : ∀ pre rest, splitOnce AFTER (readText c0) = some (pre, rest) →
      isSub STATIC (pre ++ AFTER ++ ['\n'] ++ cs.render (readText c0)) = false) :
    writeOne cs (writeOne cs c0) = writeOne cs c0 := by
  cases hs : isStaticC c0 with
  | true =>
    have : writeOne cs c0 = c0 := writeOne_static hs
    rw [this, this]
  | false =>
    cases ha : splitOnce AFTER (readText c0) with
    | some pr =>
      obtain ⟨pre, rest⟩ := pr
      rw [writeOne_after hs ha]
      have hns := hres pre rest ha
      have hst := splitOnce_stable AFTER AFTER_ne_nil _ pre rest ha (['\n'] ++ cs.render (readText c0))
      have hst' : splitOnce AFTER (readText (some (Content.text
          (pre ++ AFTER ++ ['\n'] ++ cs.render (readText c0))))) =
          some (pre, ['\n'] ++ cs.render (readText c0)) := by
        simpa [List.append_assoc] using hst
      rw [writeOne_after (by simpa using hns) hst']
      have := render_stable cs ha (['\n'] ++ cs.render (readText c0))
      simp only [readText_text, List.append_assoc] at this ⊢
      rw [this]
    | none =>
      have hna := (splitOnce_none_iff AFTER AFTER_ne_nil _).mp ha
      rw [writeOne_plain hs hna]
      have h1 := (hmf (readText c0)).1
      have h2 := (hmf (readText c0)).2
      rw [writeOne_plain (by simpa using h1) (by simpa using h2)]
      simp only [readText_text, readText_binary]
      rw [render_of_no_after cs h2, render_of_no_after cs hna]

/-- Re-generation on a path in any intermediate state of its single write gives what an
uninterrupted generation gives — provided a torn file did not carry an `after` directive. -/
theorem regen_partial1 (cs : CodeSpec) (c0 c1 : Option Content) (h : Partial1 cs c0 c1)
    (hmf : MarkerFree cs)
    (hres : ∀ pre rest, splitOnce AFTER (readText c0) = some (pre, rest) →
      isSub STATIC (pre ++ AFTER ++ ['\n'] ++ cs.render (readText c0)) = false)
    (hafter : isSub AFTER (readText c0) = true → (c1 = c0 ∨ c1 = writeOne cs c0)) :
    writeOne cs c1 = writeOne cs c0 := by
  cases ha : isSub AFTER (readText c0) with
  | true =>
    rcases hafter ha with rfl | rfl
    · rfl
    · exact writeOne_idem cs c0 hmf hres
  | false =>
    cases h with
    | untouched => rfl
    | written => exact writeOne_idem cs c0 hmf hres
    | tornText new n hw hs =>
      rw [writeOne_plain hs ha] at hw ⊢
      simp only [Option.some.injEq, Content.text.injEq] at hw
      subst hw
      have h1 := isSub_take (n := n) STATIC_ne_nil (hmf (readText c0)).1
      have h2 := isSub_take (n := n) AFTER_ne_nil (hmf (readText c0)).2
      rw [writeOne_plain (by simpa using h1) (by simpa using h2)]
      simp only [readText_text, readText_binary]
      rw [render_of_no_after cs h2, render_of_no_after cs ha]
    | tornBinary bytes hs hb =>
      rw [writeOne_plain hs ha]
      rw [writeOne_plain (by simpa [isStaticC, Content.contains] using hb) (by simp; decide)]
      simp only [readText_text, readText_binary]
      rw [render_of_no_after cs ha, render_of_no_after cs (t := []) (by decide)]

theorem regen_partial0 (scope : Bool) (c0 c1 : Option Content) (h : Partial0 scope c0 c1) :
    genAt [] scope c1 = genAt [] scope c0 := by
  cases h with
  | untouched => rfl
  | deleted h => rw [h, genAt_nil_none]

end Ln
