import LnModel.Adapters
/-! Decimal text round trip and arithmetic facts for C19. -/
namespace Ln

theorem digitChar_spec (k : Nat) (h : k < 10) :
    (digitChar k).isDigit = true ∧ (digitChar k).toNat - 48 = k ∧ digitChar k ≠ '-' ∧ digitChar k ≠ '+' := by
  have : k = 0 ∨ k = 1 ∨ k = 2 ∨ k = 3 ∨ k = 4 ∨ k = 5 ∨ k = 6 ∨ k = 7 ∨ k = 8 ∨ k = 9 := by omega
  rcases this with h | h | h | h | h | h | h | h | h | h <;> subst h <;> decide

theorem natToDec_ne_nil (n : Nat) : natToDec n ≠ [] := by
  unfold natToDec
  split <;> simp

theorem foldl_decStep_none (t : Text) : t.foldl decStep none = none := by
  induction t with
  | nil => rfl
  | cons c cs ih => simpa [List.foldl, decStep] using ih

theorem foldl_natToDec (n : Nat) : (natToDec n).foldl decStep (some 0) = some n := by
  induction n using Nat.strongRecOn with
  | _ n ih =>
    unfold natToDec
    split
    · rename_i h
      obtain ⟨h1, h2, _⟩ := digitChar_spec n h
      simp [List.foldl, decStep, h1, h2]
    · rename_i h
      have hlt : n / 10 < n := by omega
      obtain ⟨h1, h2, _⟩ := digitChar_spec (n % 10) (by omega)
      rw [List.foldl_append, ih (n / 10) hlt]
      simp only [List.foldl, decStep, h1, if_true, h2]
      congr 1
      omega

theorem decToNat_natToDec (n : Nat) : decToNat (natToDec n) = some n := by
  unfold decToNat
  have := natToDec_ne_nil n
  cases h : natToDec n with
  | nil => exact absurd h this
  | cons c cs => rw [← h]; simp only [h, List.isEmpty_cons, Bool.false_eq_true, if_false]; rw [← h]; exact foldl_natToDec n

/-- the first character of a decimal numeral is a digit, hence not a sign -/
theorem natToDec_head (n : Nat) : ∃ c cs, natToDec n = c :: cs ∧ c ≠ '-' ∧ c ≠ '+' := by
  induction n using Nat.strongRecOn with
  | _ n ih =>
    unfold natToDec
    split
    · rename_i h
      obtain ⟨_, _, h3, h4⟩ := digitChar_spec n h
      exact ⟨_, [], rfl, h3, h4⟩
    · rename_i h
      obtain ⟨c, cs, hc, h3, h4⟩ := ih (n / 10) (by omega)
      exact ⟨c, cs ++ [digitChar (n % 10)], by rw [hc]; rfl, h3, h4⟩

theorem parseI64_i64ToString (i : Int) (h : inI64 i = true) : parseI64 (i64ToString i) = some i := by
  unfold i64ToString
  split
  · rename_i hneg
    have e : -((i.natAbs : Nat) : Int) = i := by omega
    simp only [parseI64, decToNat_natToDec, signed, rangeCheck, if_true]
    rw [e, if_pos h]
  · rename_i hpos
    obtain ⟨c, cs, hc, h3, h4⟩ := natToDec_head i.natAbs
    have hp : parseI64 (natToDec i.natAbs) = signed false (decToNat (natToDec i.natAbs)) := by
      rw [hc]
      unfold parseI64
      split
      · rename_i ds heq; simp at heq; exact absurd heq.1 h3
      · rename_i ds heq; simp at heq; exact absurd heq.1 h4
      · rfl
    have e : ((i.natAbs : Nat) : Int) = i := by omega
    rw [hp, decToNat_natToDec]
    simp only [signed, rangeCheck, Bool.false_eq_true, if_false]
    rw [e, if_pos h]

theorem i64ToString_ne_nil (i : Int) : i64ToString i ≠ [] := by
  unfold i64ToString
  split
  · simp
  · exact natToDec_ne_nil _

end Ln
