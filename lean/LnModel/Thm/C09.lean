import LnModel.Treeshake
import LnModel.Thm.C12
/-! C09 — the output is a function of the document and the configuration only.

The model takes no clock, environment or working directory, and its file-system part works on paths
relative to the output directory: what has to be *proved* is that the places where the code uses
unordered containers or an unspecified order cannot make the result depend on that order:

* `C09_used_set_membership_only` — `remove_unused` keeps a schema according to membership in the `used`
  set only: any container with the same members (any iteration order, any duplicates) gives the same table;
* `C09_alias_map_lookup_only` — the alias short-circuit of `treeshake` depends on its `HashMap` through
  keyed lookup only: any ordering of the same key-unique entries rewrites every field the same way;
* `C09_write_order_irrelevant` — a generation depends on its writes only through the per-path sequences, so
  writes to different files commute (directory-walk and `Modified`-set order cannot matter);
* `C09_regenerate_in_place` — generating over a previous generation of the same spec yields that same tree
  (so "empty directory" and "already holds a previous generation" agree), from C12's idempotence. -/
namespace Ln

/-- `remove_unused` with an explicit container for `used` -/
def removeUnusedWith (used : List Text) (hir : HirSpec) : HirSpec :=
  { hir with schemas := hir.schemas.filter fun (name, _) => used.contains name || hasSuffix cs!"Webhook" name }

theorem C09_used_set_membership_only (hir : HirSpec) (used' : List Text)
    (h : ∀ x, used'.contains x = (usedNames hir).contains x) :
    removeUnusedWith used' hir = removeUnused hir := by
  unfold removeUnusedWith removeUnused
  simp only
  congr 1
  apply List.filter_congr
  intro kv _
  rw [h kv.1]

/-- lookup in an association list with unique keys does not depend on the order of its entries -/
theorem find_perm_unique (m m' : List (Text × Text)) (hp : m.Perm m') (hu : (m.map (·.1)).Nodup) (n : Text) :
    (m.find? (fun e => e.1 == n)).map (·.2) = (m'.find? (fun e => e.1 == n)).map (·.2) := by
  induction hp with
  | nil => rfl
  | cons x _ ih =>
    simp only [List.map_cons, List.nodup_cons] at hu
    simp only [List.find?_cons]
    split
    · rfl
    · exact ih hu.2
  | swap x y l =>
    simp only [List.map_cons, List.nodup_cons, List.mem_cons, not_or] at hu
    simp only [List.find?_cons]
    by_cases hx : (x.1 == n) = true
    · by_cases hy : (y.1 == n) = true
      · have : x.1 = y.1 := by rw [beq_iff_eq.mp hx, beq_iff_eq.mp hy]
        exact absurd this.symm hu.1.1
      · simp [hx, hy]
    · by_cases hy : (y.1 == n) = true
      · simp [hx, hy]
      · simp [hx, hy]
  | trans h1 _ ih1 ih2 =>
    have hu2 : ((_ : List (Text × Text)).map (·.1)).Nodup := (h1.map (·.1)).nodup_iff.mp hu
    exact (ih1 hu).trans (ih2 hu2)

theorem C09_alias_map_lookup_only (m m' : List (Text × Text)) (hp : m.Perm m') (hu : (m.map (·.1)).Nodup) (f : HirField) :
    rewriteField m f = rewriteField m' f := by
  unfold rewriteField
  cases hty : f.ty with
  | model n =>
    simp only
    have hr : m.reverse.Perm m'.reverse := (List.reverse_perm m).trans (hp.trans (List.reverse_perm m').symm)
    have hur : (m.reverse.map (·.1)).Nodup := by
      rw [List.map_reverse]; exact (List.reverse_perm _).nodup_iff.mpr hu
    have := find_perm_unique m.reverse m'.reverse hr hur n
    cases h1 : m.reverse.find? (fun e => e.1 == n) with
    | none =>
      rw [h1] at this
      cases h2 : m'.reverse.find? (fun e => e.1 == n) with
      | none => rfl
      | some e => rw [h2] at this; simp at this
    | some e =>
      rw [h1] at this
      cases h2 : m'.reverse.find? (fun e => e.1 == n) with
      | none => rw [h2] at this; simp at this
      | some e' =>
        rw [h2] at this
        simp at this
        obtain ⟨a, b⟩ := e
        obtain ⟨a', b'⟩ := e'
        simp at this
        subst this
        rfl
  | _ => rfl

/-- a generation sees its writes only through the per-path sequences -/
theorem C09_gen_per_path (outs outs' : List Write) (h : ∀ p, outsFor outs p = outsFor outs' p) : gen outs = gen outs' := by
  funext fs p
  simp only [gen, h p]

/-- writes addressed to different files commute -/
theorem C09_write_order_irrelevant (pre post : List Write) (a b : Write) (hab : a.1 ≠ b.1) :
    gen (pre ++ a :: b :: post) = gen (pre ++ b :: a :: post) := by
  apply C09_gen_per_path
  intro p
  simp only [outsFor, List.filter_append, List.filter_cons, List.map_append]
  congr 1
  by_cases ha : (a.1 == p) = true
  · have hb : (b.1 == p) = false := by
      have : a.1 = p := by simpa using ha
      simp only [beq_eq_false_iff_ne, ne_eq]
      intro h
      exact hab (this.trans h.symm)
    simp [ha, hb]
  · simp [ha]

/-- generating over a previous generation of the same spec yields that same tree -/
theorem C09_regenerate_in_place (outs : List Write) (fs : Fs)
    (hsw : SingleWriters outs) (hmf : AllMarkerFree outs) (hseam : SeamFree outs fs) :
    gen outs (gen outs fs) = gen outs fs := C12_idempotent outs fs hsw hmf hseam

/-- non-vacuity: the hypotheses of the regeneration theorem hold for a fresh directory and two distinct files -/
example : SingleWriters [(cs!"src/lib.rs", .plain cs!"fn a() {}"), (cs!"src/model/pet.rs", .plain cs!"struct Pet;")] := by
  intro p
  simp only [outsFor, List.filter_cons, List.filter_nil]
  by_cases h1 : (cs!"src/lib.rs" == p) = true
  · have : (cs!"src/model/pet.rs" == p) = false := by
      have e : cs!"src/lib.rs" = p := by simpa using h1
      subst e; decide
    simp [h1, this]
  · by_cases h2 : (cs!"src/model/pet.rs" == p) = true <;> simp [h1, h2]

end Ln
