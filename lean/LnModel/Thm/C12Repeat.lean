import LnModel.Thm.C12
/-! C12, continued — "running the same generation again changes nothing", for any number of repetitions, and
after an interrupted run.

* `C12_idempotent_n` — `n + 1` generations of the same outputs leave the tree one generation leaves;
* `C12_crash_then_any_number` — on top of a tree an interrupted run left (under the hypothesis of
  `C12_crash_partial`), any positive number of generations ends in the tree of one uninterrupted generation. -/
namespace Ln

theorem runAll_replicate_fixed (outs : List Write) (g : Fs) (hfix : gen outs g = g) :
    ∀ n, runAll (List.replicate n outs) g = g := by
  intro n
  induction n with
  | zero => rfl
  | succ n ih => simp only [List.replicate_succ, runAll, hfix, ih]

/-- **idempotence for any number of repetitions** -/
theorem C12_idempotent_n (outs : List Write) (fs : Fs) (n : Nat)
    (hsw : SingleWriters outs) (hmf : AllMarkerFree outs) (hseam : SeamFree outs fs) :
    runAll (List.replicate (n + 1) outs) fs = gen outs fs := by
  simp only [List.replicate_succ, runAll]
  exact runAll_replicate_fixed outs (gen outs fs) (C12_idempotent outs fs hsw hmf hseam) n

/-- **after an interrupted run, any positive number of generations converges** to the tree of one
uninterrupted generation (hypothesis on torn `after` files as in `C12_crash_partial`) -/
theorem C12_crash_then_any_number (outs : List Write) (fs fs' : Fs) (n : Nat)
    (hsw : SingleWriters outs) (hmf : AllMarkerFree outs) (hseam : SeamFree outs fs)
    (hcs : CrashState outs fs fs')
    (hafter : ∀ p cs, outsFor outs p = [cs] → isSub AFTER (readText (fs p)) = true →
      (fs' p = fs p ∨ fs' p = writeOne cs (fs p))) :
    runAll (List.replicate (n + 1) outs) fs' = gen outs fs := by
  simp only [List.replicate_succ, runAll]
  rw [C12_crash_partial outs fs fs' hsw hmf hseam hcs hafter]
  exact runAll_replicate_fixed outs (gen outs fs) (C12_idempotent outs fs hsw hmf hseam) n

end Ln
