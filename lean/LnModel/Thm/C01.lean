import LnModel.Pipeline
import LnModel.Lemmas.Visiting
import LnModel.Thm.C16
/-! C01 — generation is total on every supported spec.

The pipeline model (`LnModel/Pipeline.lean`) makes every panic site and every unbounded walk a value.
Proved here:

* `C01_implements_default_terminates`, `C01_example_value_terminates` — the two walks over the schema graph
  that carry no visited set in the pinned tree (and a `visiting` list after the repairs) never run out of
  fuel, for every schema table: recursive schemas through properties, arrays, newtypes and aliases included;
* `C01_complete` — a successful run leaves a complete crate: `src/lib.rs`, `src/model/mod.rs`,
  `src/request/mod.rs`, one model file per retained schema, one request module per operation and, with
  examples enabled, one example per operation;
* `C01_no_partial_success` — the run is all-or-nothing at the level of the model: it either reports a panic
  site or returns the full file list (no success with a file missing).

That no panic site is reached for documents in D is established by the correspondence stage (the real
generator in its own process per case, exit status and tree compared with this model) and by C13's
identifier theorems; it is not yet one closed theorem (partial). -/
namespace Ln

theorem C01_implements_default_terminates (schemas : SchemaTable) (t : Ty) :
    tyImplementsDefault schemas t ≠ .error .diverged := implementsDefault_terminates schemas t

theorem C01_example_value_terminates (schemas : SchemaTable) (t : Ty) (name : Text) :
    toRustExampleValue schemas t name ≠ .error .diverged := C16_example_value_terminates schemas t name

theorem mapE_ok_mem {α β ε : Type} (f : α → Except ε β) (l : List α) (r : List β) (h : mapE f l = .ok r)
    (a : α) (ha : a ∈ l) : ∃ b, f a = .ok b ∧ b ∈ r := by
  induction l generalizing r with
  | nil => cases ha
  | cons x xs ih =>
    simp only [mapE] at h
    cases hx : f x with
    | error e => rw [hx] at h; simp at h
    | ok y =>
      rw [hx] at h
      cases hr : mapE f xs with
      | error e => rw [hr] at h; simp at h
      | ok ys =>
        rw [hr] at h
        simp at h
        subst h
        rcases List.mem_cons.mp ha with rfl | h'
        · exact ⟨y, hx, List.mem_cons_self ..⟩
        · obtain ⟨b, hb, hm⟩ := ih ys hr h'
          exact ⟨b, hb, List.mem_cons_of_mem _ hm⟩

/-- **a successful run leaves a complete crate** -/
theorem C01_complete (hir : HirSpec) (cfg : Cfg) (files : List Text) (h : emitFiles hir cfg = .ok files) :
    cs!"src/lib.rs" ∈ files ∧ cs!"src/model/mod.rs" ∈ files ∧ cs!"src/request/mod.rs" ∈ files ∧
    (∀ kv ∈ hir.schemas, ∃ f, makeModelFile hir.schemas cfg kv.1 kv.2 = .ok f ∧ cs!"src/model/" ++ f.stem ++ cs!".rs" ∈ files) ∧
    (∀ op ∈ hir.operations, ∃ f, makeRequestFile (!hir.security.isEmpty) cfg op = .ok f ∧ cs!"src/request/" ++ f.stem ++ cs!".rs" ∈ files) ∧
    (cfg.examples = true → ∀ op ∈ hir.operations, ∃ e, makeExample hir.schemas cfg op = .ok e ∧ cs!"examples/" ++ e.stem ++ cs!".rs" ∈ files) := by
  unfold emitFiles at h
  split at h
  · simp at h
  · rename_i modelFiles hm
    split at h
    · simp at h
    · rename_i requestFiles hrq
      split at h
      · simp at h
      · simp at h
      · split at h
        · simp at h
        · rename_i exampleFiles hex
          simp at h
          subst h
          refine ⟨by simp, by simp, by simp, ?_, ?_, ?_⟩
          · intro kv hkv
            obtain ⟨b, hb, hmem⟩ := mapE_ok_mem _ _ _ hm kv hkv
            unfold modelPath at hb
            cases hf : makeModelFile hir.schemas cfg kv.1 kv.2 with
            | error e => rw [hf] at hb; simp at hb
            | ok f => rw [hf] at hb; simp at hb; subst hb; exact ⟨f, rfl, by simp [hmem]⟩
          · intro op hop
            obtain ⟨b, hb, hmem⟩ := mapE_ok_mem _ _ _ hrq op hop
            unfold requestPath at hb
            cases hf : makeRequestFile (!hir.security.isEmpty) cfg op with
            | error e => rw [hf] at hb; simp at hb
            | ok f => rw [hf] at hb; simp at hb; subst hb; exact ⟨f, rfl, by simp [hmem]⟩
          · intro hexs op hop
            simp only [hexs, if_true] at hex
            obtain ⟨b, hb, hmem⟩ := mapE_ok_mem _ _ _ hex op hop
            unfold examplePath at hb
            cases hf : makeExample hir.schemas cfg op with
            | error e => rw [hf] at hb; simp at hb
            | ok f => rw [hf] at hb; simp at hb; subst hb; exact ⟨f, rfl, by simp [hmem]⟩

/-- the model's run is all-or-nothing: a reported panic site, or the complete file list -/
theorem C01_no_partial_success (spec : Spec) (cfg : Cfg) :
    (∃ e, pipeline spec cfg = .error e) ∨
    (∃ hir files, extractSpec spec = .ok hir ∧ pipeline spec cfg = .ok files ∧ cs!"src/lib.rs" ∈ files ∧
      cs!"src/model/mod.rs" ∈ files ∧ cs!"src/request/mod.rs" ∈ files) := by
  unfold pipeline
  cases hx : extractSpec spec with
  | error e => exact Or.inl ⟨_, rfl⟩
  | ok hir =>
    simp only
    cases he : emitFiles hir cfg with
    | error e => exact Or.inl ⟨_, rfl⟩
    | ok files =>
      obtain ⟨h1, h2, h3, _⟩ := C01_complete hir cfg files he
      exact Or.inr ⟨hir, files, rfl, rfl, h1, h2, h3⟩

end Ln
