import LnModel.Thm.C01Extract
import LnModel.Thm.C01Total
import LnModel.Thm.C03Url
import LnModel.Thm.C05
import LnModel.Thm.C06
/-! C01, request modules: on documents of D whose input names are in the name domain and whose path templates
are well formed, every operation the extractor returns meets the obligations `OpOk` of the request-module
writer, so `makeRequestFile` (request struct, setters, `into_future`, client method) is total on it. -/
namespace Ln

/-! ### types returned by the typing functions name components only -/

theorem strTy_ok (f : Text) : TyOk (strTy f) := by
  unfold strTy
  split <;> (try trivial)
  split <;> (try trivial)
  split <;> (try trivial)
  split <;> trivial

theorem intTy_ok (e : Ext) : TyOk (intTy e) := by
  unfold intTy
  split <;> (try trivial)
  split <;> trivial

theorem resolve_ref_inv {spec : Spec} {t : Text} {s : Schema} (h : resolve spec (.ref t) = .ok s) :
    ∃ n, parseRef t = .ok (.schema n) ∧ lookupSchema spec n = .ok s := by
  simp only [resolve] at h
  split at h
  · simp at h
  · rename_i n hp; exact ⟨n, hp, h⟩
  · simp at h

/-- component names are type-identifier-able -/
def CompNamesOk (spec : Spec) : Prop := ∀ n s, lookupSchema spec n = .ok s → SanStructOk n

theorem ty_results_ok (spec : Spec) (hc : CompNamesOk spec) : ∀ f,
    (∀ s t, schemaToTy spec f s = .ok t → TyOk t) ∧ (∀ r t, schemaRefToTy spec f r = .ok t → TyOk t) := by
  intro f
  induction f with
  | zero => exact ⟨fun s t h => by simp [schemaToTy] at h, fun r t h => by simp [schemaRefToTy] at h⟩
  | succ f ih =>
    obtain ⟨ihT, ihR⟩ := ih
    constructor
    · intro s t h
      obtain ⟨data, kind⟩ := s
      cases kind with
      | str format en => simp only [schemaToTy, Schema.kind, Except.ok.injEq] at h; rw [← h]; exact strTy_ok _
      | int => simp only [schemaToTy, Schema.kind, Except.ok.injEq] at h; rw [← h]; exact intTy_ok _
      | obj props req addl =>
        simp only [schemaToTy, Schema.kind] at h
        split at h
        · cases addl with
          | absent => simp only [Except.ok.injEq] at h; rw [← h]; trivial
          | any b => simp only [Except.ok.injEq] at h; rw [← h]; trivial
          | schema r =>
            simp only at h
            split at h
            · simp at h
            · rename_i t' ht'
              simp only [Except.ok.injEq] at h; rw [← h]
              exact ihR r t' ht'
        · simp only [Except.ok.injEq] at h; rw [← h]; trivial
      | arr items =>
        cases items with
        | none => simp only [schemaToTy, Schema.kind, Except.ok.injEq] at h; rw [← h]; trivial
        | some it =>
          simp only [schemaToTy, Schema.kind] at h
          split at h
          · simp at h
          · rename_i t' ht'
            simp only [Except.ok.injEq] at h; rw [← h]
            exact ihR it t' ht'
      | allOf members =>
        simp only [schemaToTy, Schema.kind] at h
        split at h
        · split at h
          · rename_i m hm; exact ihR m t h
          · simp only [Except.ok.injEq] at h; rw [← h]; trivial
        · simp only [Except.ok.injEq] at h; rw [← h]; trivial
      | _ => simp only [schemaToTy, Schema.kind, Except.ok.injEq] at h; rw [← h]; trivial
    · intro r t h
      simp only [schemaRefToTy] at h
      split at h
      · simp at h
      · rename_i s hs
        split at h
        · simp at h
        · exact ihT s t h
        · cases r with
          | ref reference =>
            simp only at h
            obtain ⟨n, hp, hl⟩ := resolve_ref_inv hs
            rw [hp] at h
            simp only [mkModel] at h
            split at h
            · simp at h
            · simp only [Except.ok.injEq] at h; rw [← h]; exact hc n s hl
          | item s' => simp only at h; exact ihT s' t h

theorem tyOfRef_ok {spec : Spec} (hc : CompNamesOk spec) {r : SRef} {t : Ty} (h : tyOfRef spec r = .ok t) : TyOk t :=
  (ty_results_ok spec hc FUEL).2 r t h

theorem tyOf_ok {spec : Spec} (hc : CompNamesOk spec) {s : Schema} {t : Ty} (h : tyOf spec s = .ok t) : TyOk t :=
  (ty_results_ok spec hc FUEL).1 s t h

/-! ### inputs -/

def ParamGood (p : Param) : Prop := inNameDomain p.name = true ∧ TyOk p.ty

theorem extractParam_good {spec : Spec} (hc : CompNamesOk spec) {pr : ParamRef} {q : Param}
    (h : extractParam spec pr = .ok q) (hn : paramNameOk spec pr = true) : ParamGood q := by
  unfold extractParam at h
  unfold paramNameOk at hn
  split at h
  · simp at h
  · rename_i p hp
    rw [hp] at hn
    split at h
    · simp at h
    · split at h
      · simp at h
      · rename_i ty hty
        simp only [Except.ok.injEq] at h
        rw [← h]
        exact ⟨hn, tyOfRef_ok hc hty⟩

theorem extractParams_good {spec : Spec} (hc : CompNamesOk spec) : ∀ (prs : List ParamRef) (qs : List Param),
    extractParams spec prs = .ok qs → (∀ pr ∈ prs, paramNameOk spec pr = true) → ∀ q ∈ qs, ParamGood q := by
  intro prs
  induction prs with
  | nil => intro qs h _ q hq; simp [extractParams] at h; subst h; simp at hq
  | cons pr rest ih =>
    intro qs h hn q hq
    simp only [extractParams] at h
    split at h
    · rename_i a b ha hb
      simp only [Except.ok.injEq] at h
      subst h
      rcases List.mem_cons.mp hq with e | e
      · subst e; exact extractParam_good hc ha (hn pr (by simp))
      · exact ih b hb (fun x hx => hn x (List.mem_cons_of_mem _ hx)) q e
    · simp at h
    · simp at h

theorem addIfNew_mem {l : List Param} {p x : Param} (h : x ∈ addIfNew l p) : x ∈ l ∨ x = p := by
  unfold addIfNew at h
  split at h
  · exact Or.inl h
  · rcases List.mem_append.mp h with e | e
    · exact Or.inl e
    · simp at e; exact Or.inr e

theorem foldl_addIfNew_good (ps : List Param) : ∀ (own : List Param), (∀ x ∈ own, ParamGood x) → (∀ x ∈ ps, ParamGood x) →
    ∀ x ∈ ps.foldl addIfNew own, ParamGood x := by
  induction ps with
  | nil => intro own h1 _ x hx; exact h1 x hx
  | cons p rest ih =>
    intro own h1 h2 x hx
    simp only [List.foldl_cons] at hx
    refine ih (addIfNew own p) ?_ (fun y hy => h2 y (List.mem_cons_of_mem _ hy)) x hx
    intro y hy
    rcases addIfNew_mem hy with e | e
    · exact h1 y e
    · subst e; exact h2 y (by simp)

theorem bodyArgs_good {spec : Spec} (hc : CompNamesOk spec) {body : Schema} : ∀ (ps : List (Text × SRef)) (inputs r : List Param),
    bodyArgs spec body ps inputs = .ok r → (∀ x ∈ inputs, ParamGood x) → (∀ nr ∈ ps, inNameDomain nr.1 = true) →
    ∀ x ∈ r, ParamGood x := by
  intro ps
  induction ps with
  | nil => intro inputs r h h1 _ x hx; simp [bodyArgs] at h; subst h; exact h1 x hx
  | cons nr rest ih =>
    obtain ⟨n, sr⟩ := nr
    intro inputs r h h1 h2 x hx
    simp only [bodyArgs] at h
    split at h
    · rename_i ty ps' decl hty _ _
      refine ih _ r h ?_ (fun y hy => h2 y (List.mem_cons_of_mem _ hy)) x hx
      intro y hy
      rcases addIfNew_mem hy with e | e
      · exact h1 y e
      · subst e; exact ⟨h2 (n, sr) (by simp), tyOfRef_ok hc hty⟩
    · simp at h
    · simp at h
    · simp at h

theorem jsonOf_of_resolveBody {spec : Spec} {b : OaBody} {j : Option SRef} (h : resolveBody spec b = .ok j) :
    jsonOf spec b = some j := by
  cases b with
  | item j' => simp only [resolveBody, Except.ok.injEq] at h; simp only [jsonOf, h]
  | ref r =>
    simp only [resolveBody] at h
    simp only [jsonOf]
    split at h
    · rename_i x j' hf
      simp only [Except.ok.injEq] at h
      rw [hf, h]
    · simp at h

theorem target_of_resolve {spec : Spec} {r : SRef} {s : Schema} (h : resolve spec r = .ok s) : target spec r = some s := by
  cases r with
  | item s' => simp only [resolve, Except.ok.injEq] at h; simp only [target, h]
  | ref t =>
    obtain ⟨n, hp, hl⟩ := resolve_ref_inv h
    simp only [target, hp, hl]

theorem body_literal_domain : inNameDomain cs!"body" = true := by decide

theorem extractParameters_good {spec : Spec} (hc : CompNamesOk spec) {op : OaOperation} {item : OaPath} {ps : List Param}
    (h : extractParameters spec op item = .ok ps)
    (h1 : ∀ pr ∈ op.params, paramNameOk spec pr = true) (h2 : ∀ pr ∈ item.params, paramNameOk spec pr = true)
    (h3 : bodyNamesOk spec op.body = true) : ∀ x ∈ ps, ParamGood x := by
  unfold extractParameters at h
  split at h
  · simp at h
  · simp at h
  · rename_i own inherited hown hinh
    have hg : ∀ x ∈ inherited.foldl addIfNew own, ParamGood x :=
      foldl_addIfNew_good inherited own (extractParams_good hc _ _ hown h1) (extractParams_good hc _ _ hinh h2)
    simp only at h
    split at h
    · simp only [Except.ok.injEq] at h; subst h; exact hg
    · rename_i b hb
      rw [hb] at h3
      split at h
      · simp at h
      · simp only [Except.ok.injEq] at h; subst h; exact hg
      · rename_i r hrb
        simp only [bodyNamesOk, jsonOf_of_resolveBody hrb] at h3
        split at h
        · simp at h
        · rename_i body hres
          simp only [target_of_resolve hres] at h3
          split at h
          · -- array body
            split at h
            · simp at h
            · rename_i ty hty
              simp only [Except.ok.injEq] at h; subst h
              intro x hx
              rcases List.mem_append.mp hx with e | e
              · exact hg x e
              · simp only [List.mem_singleton] at e; subst e
                refine ⟨body_literal_domain, ?_⟩
                show TyOk ty
                split at hty
                · exact tyOfRef_ok hc hty
                · simp only [Except.ok.injEq] at hty; rw [← hty]; trivial
          · split at h
            · simp at h
            · simp only [Except.ok.injEq] at h; subst h
              intro x hx
              rcases List.mem_append.mp hx with e | e
              · exact hg x e
              · simp only [List.mem_singleton] at e; subst e; exact ⟨body_literal_domain, trivial⟩
            · rename_i props _ hprops
              have hall : allProps spec body = props := by simp only [allProps, hprops]
              rw [hall] at h3
              exact bodyArgs_good hc props _ ps h hg (fun nr hnr => List.all_eq_true.mp h3 nr hnr)

/-! ### names derived from the operation's name -/

theorem alnum_text_domain {t : Text} (h : ∀ c ∈ t, isAlnum c = true) (hne : t ≠ []) : inNameDomain t = true := by
  unfold inNameDomain
  simp only [Bool.and_eq_true, List.all_eq_true, List.any_eq_true]
  refine ⟨fun c hc => by simp [isNameChar, h c hc], ?_⟩
  cases t with
  | nil => exact absurd rfl hne
  | cons a as => exact ⟨a, by simp, h a (by simp)⟩

theorem nameP_domain {t : Text} (h : NameP t) : inNameDomain t = true := by
  obtain ⟨h1, c, rest, e, _⟩ := h
  exact alnum_text_domain h1 (by rw [e]; simp)

theorem snakeLike_domain {t : Text} (h : SnakeLike t) : inNameDomain t = true := by
  obtain ⟨⟨a, ha, haa⟩, hall⟩ := h
  unfold inNameDomain
  simp only [Bool.and_eq_true, List.all_eq_true, List.any_eq_true]
  constructor
  · intro c hc
    rcases hall c hc with h | h | h
    · simp [isNameChar, isAlnum, h]
    · simp [isNameChar, isAlnum, h]
    · subst h; decide
  · cases t with
    | nil => simp at ha
    | cons x xs =>
      simp only [List.head?_cons, Option.some.injEq] at ha
      subst ha
      refine ⟨x, by simp, ?_⟩
      rcases haa with h | h <;> simp [isAlnum, h]

theorem request_alnum : ∀ c ∈ cs!"Request", isAlnum c = true := by
  intro c hc
  simp only [List.mem_cons, List.not_mem_nil, or_false] at hc
  rcases hc with h | h | h | h | h | h | h <;> subst h <;> decide

theorem required_alnum : ∀ c ∈ cs!"Required", isAlnum c = true := by
  intro c hc
  simp only [List.mem_cons, List.not_mem_nil, or_false] at hc
  rcases hc with h | h | h | h | h | h | h | h <;> subst h <;> decide

/-- the four names derived from an operation name made of letters, digits and separators -/
theorem opNames_ok {n : Text} (h1 : n.all (fun c => isAlnum c || isDelim c) = true) (h2 : n.any isAlnum = true) :
    SanOk (toSnake (toPascal n)) ∧ SanOk (toPascal n) ∧ SanStructOk (toPascal n ++ cs!"Request") ∧
    SanStructOk (toPascal n ++ cs!"Required") := by
  have hP : NameP (toPascal n) := by
    apply pascalLike_nameP
    apply toPascal_like
    · intro c hc hd
      have := (List.all_eq_true.mp h1) c hc
      simpa [hd] using this
    · obtain ⟨c, hc, ha⟩ := List.any_eq_true.mp h2
      exact ⟨c, hc, isAlnum_not_delim ha⟩
  have hne : toPascal n ≠ [] := by obtain ⟨_, c, rest, e, _⟩ := hP; rw [e]; simp
  have hS : SnakeLike (toSnake (toPascal n)) := by
    apply toSnake_like
    · intro c hc _; exact hP.1 c hc
    · cases hp : toPascal n with
      | nil => exact absurd hp hne
      | cons a as => exact ⟨a, by simp, isAlnum_not_delim (hP.1 a (by rw [hp]; simp))⟩
  exact ⟨sanOk_of_domain _ (snakeLike_domain hS), sanOk_of_domain _ (nameP_domain hP),
    sanStructOk_of_domain _ (nameP_domain (nameP_append hP request_alnum)),
    sanStructOk_of_domain _ (nameP_domain (nameP_append hP required_alnum))⟩

/-! ### every extracted operation meets the request writer's obligations -/

theorem sortParams_mem {ps : List Param} {x : Param} (h : x ∈ sortParams ps) : x ∈ ps :=
  (C05_sort_perm ps).mem_iff.mp h

theorem response_domain {n : Text} (h1 : n.all (fun c => isAlnum c || isDelim c) = true) (h2 : n.any isAlnum = true) :
    SanStructOk (toPascal n ++ cs!"Response") :=
  sanStructOk_of_domain _ (nameP_domain (responseName_nameP h1 h2))

theorem extractOperation_good {spec : Spec} (hc : CompNamesOk spec) {item : OaPath} {op : OaOperation} {hir hir' : HirSpec}
    (h : extractOperation spec item op hir = .ok hir') (hD : opOk spec item op = true) (hN : opNamesOk spec item op = true)
    (hinv : ∀ o ∈ hir.operations, OpOk o) : ∀ o ∈ hir'.operations, OpOk o := by
  simp only [opOk, Bool.and_eq_true] at hD
  obtain ⟨⟨⟨⟨hname, _⟩, _⟩, _⟩, _⟩ := hD
  simp only [opNamesOk, Bool.and_eq_true, List.all_eq_true] at hN
  obtain ⟨⟨⟨hn1, hn2⟩, hn3⟩, hn4⟩ := hN
  unfold opNameOk at hname
  unfold extractOperation at h
  split at h
  · simp at h
  · rename_i name hm
    rw [hm] at hname
    simp only [Bool.and_eq_true] at hname
    split at h
    · simp at h
    · rename_i params hps
      have hparams := extractParameters_good hc hps hn1 hn2 hn3
      obtain ⟨hfile, hmeth, hreq, hrqd⟩ := opNames_ok hname.1 hname.2
      have mk : ∀ ret : Ty, TyOk ret → OpOk ⟨toPascal name, extractDoc op, sortParams params, ret, item.template, op.method⟩ := by
        intro ret hret
        exact { file := hfile, method := hmeth, request := hreq, required := hrqd,
                params := fun p hp => ⟨sanOk_of_domain _ (hparams p (sortParams_mem hp)).1, (hparams p (sortParams_mem hp)).2⟩,
                ret := hret,
                path := fixPlaceholders_total _ _ (by simp) hn4 }
      have fin : ∀ (hx : HirSpec) (ret : Ty), hx.operations = hir.operations → TyOk ret →
          ∀ o ∈ (hx.operations ++ [⟨toPascal name, extractDoc op, sortParams params, ret, item.template, op.method⟩]), OpOk o := by
        intro hx ret he hret o ho
        rcases List.mem_append.mp ho with e | e
        · rw [he] at e; exact hinv o e
        · simp only [List.mem_singleton] at e; subst e; exact mk ret hret
      simp only at h
      split at h
      · simp at h
      · simp only [Except.ok.injEq] at h; rw [← h]; exact fin hir .unit rfl trivial
      · split at h
        · simp at h
        · rename_i ty hty
          simp only [Except.ok.injEq] at h; rw [← h]; exact fin hir ty rfl (tyOfRef_ok hc hty)
      · split at h
        · simp at h
        · rename_i res hgr hir1 hs
          have hops := extractSchema_ops _ _ _ _ _ hs
          split at h
          · simp at h
          · split at h
            · simp at h
            · rename_i ty hty
              simp only [Except.ok.injEq] at h; rw [← h]; exact fin hir1 ty hops (tyOf_ok hc hty)
          · split at h
            · split at h
              · simp at h
              · rename_i ty hty
                simp only [Except.ok.injEq] at h; rw [← h]; exact fin hir1 ty hops (tyOf_ok hc hty)
            · simp only [Except.ok.injEq] at h; rw [← h]
              exact fin hir1 _ hops (response_domain hname.1 hname.2)

theorem extractOps_good {spec : Spec} (hc : CompNamesOk spec) {item : OaPath} : ∀ (ops : List OaOperation) (hir hir' : HirSpec),
    extractOps spec item ops hir = .ok hir' → opsOk spec item ops = true → opsNamesOk spec item ops = true →
    (∀ o ∈ hir.operations, OpOk o) → ∀ o ∈ hir'.operations, OpOk o := by
  intro ops
  induction ops with
  | nil => intro hir hir' h _ _ hinv; simp [extractOps] at h; subst h; exact hinv
  | cons op rest ih =>
    intro hir hir' h hD hN hinv
    simp only [extractOps] at h
    simp only [opsOk, Bool.and_eq_true] at hD
    simp only [opsNamesOk, Bool.and_eq_true] at hN
    split at h
    · simp at h
    · rename_i h1 ho
      exact ih h1 hir' h hD.2 hN.2 (extractOperation_good hc ho hD.1 hN.1 hinv)

theorem extractPaths_good {spec : Spec} (hc : CompNamesOk spec) : ∀ (ps : List OaPath) (hir hir' : HirSpec),
    extractPaths spec ps hir = .ok hir' → pathsOk spec ps = true → pathsNamesOk spec ps = true →
    (∀ o ∈ hir.operations, OpOk o) → ∀ o ∈ hir'.operations, OpOk o := by
  intro ps
  induction ps with
  | nil => intro hir hir' h _ _ hinv; simp [extractPaths] at h; subst h; exact hinv
  | cons p rest ih =>
    intro hir hir' h hD hN hinv
    simp only [extractPaths] at h
    simp only [pathsOk, Bool.and_eq_true] at hD
    simp only [pathsNamesOk, Bool.and_eq_true] at hN
    split at h
    · simp at h
    · rename_i h1 ho
      exact ih h1 hir' h hD.2 hN.2 (extractOps_good hc p.ops hir h1 ho hD.1 hN.1 hinv)

theorem componentsOk_names (spec : Spec) : ∀ cs : List (Text × SRef), componentsOk spec cs = true →
    ∀ n s, (n, SRef.item s) ∈ cs → schemaNameOk n = true := by
  intro cs
  induction cs with
  | nil => intro _ n s h; simp at h
  | cons c rest ih =>
    obtain ⟨m, r⟩ := c
    intro h n s hm
    cases r with
    | ref t => simp [componentsOk] at h
    | item s' =>
      simp only [componentsOk, Bool.and_eq_true] at h
      rcases List.mem_cons.mp hm with e | e
      · simp only [Prod.mk.injEq, SRef.item.injEq] at e; rw [e.1]; exact h.1.1
      · exact ih h.2 n s e

theorem compNamesOk_of_inD {spec : Spec} (h : componentsOk spec spec.components = true) : CompNamesOk spec := by
  intro n s hl
  unfold lookupSchema at hl
  split at hl
  · rename_i x s' hf
    simp only [Except.ok.injEq] at hl; subst hl
    have hm := List.mem_of_find?_eq_some hf
    have hk := List.find?_some hf
    simp only [beq_iff_eq] at hk
    subst hk
    exact sanStructOk_of_domain _ (nameP_domain (nameP_of_schemaNameOk (componentsOk_names spec _ h _ _ hm)))
  · simp at hl
  · simp at hl

/-- **C01 (request modules).** On every document of `inD2` the extractor returns a HIR all of whose operations
meet the obligations of the request-module writer; hence every request module is written. -/
theorem C01_requests_total (spec : Spec) (cfg : Cfg) (h : inD2 spec = true) :
    ∃ hir, extractSpec spec = .ok hir ∧ ∀ op ∈ hir.operations, ∃ rf, makeRequestFile (!hir.security.isEmpty) cfg op = .ok rf := by
  simp only [inD2, Bool.and_eq_true] at h
  obtain ⟨hD, hN⟩ := h
  obtain ⟨hir0, hh0⟩ := C01_extract_total spec hD
  refine ⟨treeshake hir0, by simp only [extractSpec, hh0], ?_⟩
  have hD' := hD
  simp only [inD, Bool.and_eq_true] at hD'
  obtain ⟨⟨hcomp, hpaths⟩, _⟩ := hD'
  have hc := compNamesOk_of_inD hcomp
  -- operations of the raw extraction are good
  have hgood : ∀ o ∈ hir0.operations, OpOk o := by
    unfold extractWithoutTreeshake at hh0
    split at hh0
    · simp at hh0
    · rename_i h1 hc1
      split at hh0
      · simp at hh0
      · rename_i h2 hp2
        split at hh0
        · simp at hh0
        · simp only [Except.ok.injEq] at hh0
          rw [← hh0]
          have hops1 := extractComponents_ops _ _ _ _ hc1
          exact extractPaths_good hc spec.paths h1 h2 hp2 hpaths hN (by rw [hops1]; intro o ho; simp at ho)
  intro op hop
  have : (treeshake hir0).operations = hir0.operations := by simp [treeshake, removeUnused]
  rw [this] at hop
  exact makeRequestFile_total _ cfg op (hgood op hop)

/-- non-vacuity: the witness document of `C01Extract` also meets the name conditions -/
example : inD2 C01_inD_witness = true := by decide +kernel

/-- a parameter name outside the name alphabet is outside `inD2` -/
example : inD2 { (default : Spec) with paths := [⟨cs!"/a", [], [⟨cs!"get", none, none, none, none,
    [.item ⟨cs!"p§", .query, false, some (.item (.mk {} .bool))⟩], none, [(some 200, .item none)]⟩]⟩] } = false := by decide +kernel

end Ln
