import LnModel.Lemmas.Fs
/-! # C12 — cleanup exact and confined; regeneration idempotent; convergence after a crash -/
namespace Ln

/-- exactly one writer per generated path (what C06 provides for specs in D) -/
def SingleWriters (outs : List Write) : Prop := ∀ p, (outsFor outs p).length ≤ 1

/-- generated code contains neither directive (the harness evaluates this on every real output) -/
def AllMarkerFree (outs : List Write) : Prop := ∀ w ∈ outs, MarkerFree w.2

/-- rewriting an `after` file never produces the static marker across the seam -/
def SeamFree (outs : List Write) (fs : Fs) : Prop :=
  ∀ p cs pre rest, outsFor outs p = [cs] → splitOnce AFTER (readText (fs p)) = some (pre, rest) →
    isSub STATIC (pre ++ AFTER ++ ['\n'] ++ cs.render (readText (fs p))) = false

/-- Exactness: after a generation, a path in cleanup's scope holds a file iff the generation
wrote there or the prior file carries the static directive (in any encoding). -/
theorem C12_exact (outs : List Write) (fs : Fs) (p : Path) (hscope : inScope p = true) :
    (gen outs fs p).isSome = true ↔ (outsFor outs p ≠ [] ∨ isStaticC (fs p) = true) := by
  simp only [gen, genAt, hscope]
  cases ho : outsFor outs p with
  | nil =>
    simp only [List.foldl_nil, List.isEmpty_nil, Bool.true_and, ne_eq, not_true_eq_false, false_or]
    cases hst : isStaticC (fs p) with
    | true =>
      simp
      cases hf : fs p with
      | none => simp [hf, isStaticC] at hst
      | some c => simp
    | false => simp
  | cons c cs =>
    simp only [List.isEmpty_cons, Bool.false_and, Bool.false_eq_true, if_false, ne_eq,
      reduceCtorEq, not_false_eq_true, true_or, iff_true]
    -- at least one write happened: the file exists
    have hw : ∀ (cs : CodeSpec) (x : Option Content), x.isSome = true → (writeOne cs x).isSome = true := by
      intro cs x hx
      unfold writeOne
      simp only
      split
      · exact hx
      · split <;> simp
    have h1 : ∀ (cs : CodeSpec) (x : Option Content), (writeOne cs x).isSome = true := by
      intro cs x
      unfold writeOne
      simp only
      split
      · rename_i h
        cases x with
        | none => simp at h
        | some _ => simp
      · split <;> simp
    have : ∀ (l : List CodeSpec) (x : Option Content), x.isSome = true →
        (l.foldl (fun c cs => writeOne cs c) x).isSome = true := by
      intro l
      induction l with
      | nil => intro x hx; exact hx
      | cons a as ih => intro x hx; exact ih _ (hw a x hx)
    simp only [List.foldl_cons]
    exact this cs _ (h1 c _)

/-- Confinement: a path outside cleanup's scope that nobody writes is untouched (not created,
not changed, not removed). -/
theorem C12_confined (outs : List Write) (fs : Fs) (p : Path)
    (hscope : inScope p = false) (hw : outsFor outs p = []) : gen outs fs p = fs p := by
  simp [gen, genAt, hscope, hw]

/-- … and nothing that is not a `.rs` file under `src/` or `examples/` is written, when every
generated path is in scope (checked on every real run; proved for the emitter in `Emit`). -/
theorem C12_confined' (outs : List Write) (fs : Fs) (p : Path)
    (hgen : ∀ w ∈ outs, inScope w.1 = true) (hscope : inScope p = false) : gen outs fs p = fs p := by
  apply C12_confined outs fs p hscope
  simp only [outsFor, List.map_eq_nil_iff, List.filter_eq_nil_iff]
  intro w hw heq
  have := hgen w hw
  simp only [beq_iff_eq] at heq
  rw [heq, hscope] at this
  exact absurd this (by simp)

/-- Pointwise core of idempotence and crash convergence. -/
theorem regen_crash_state (outs : List Write) (fs fs' : Fs)
    (hsw : SingleWriters outs) (hmf : AllMarkerFree outs) (hseam : SeamFree outs fs)
    (hcs : CrashState outs fs fs')
    (hafter : ∀ p cs, outsFor outs p = [cs] → isSub AFTER (readText (fs p)) = true →
      (fs' p = fs p ∨ fs' p = writeOne cs (fs p))) :
    gen outs fs' = gen outs fs := by
  funext p
  have hp := hcs p
  have hlen := hsw p
  simp only [gen]
  cases ho : outsFor outs p with
  | nil =>
    rw [ho] at hp
    exact regen_partial0 _ _ _ hp
  | cons c rest =>
    cases rest with
    | nil =>
      rw [ho] at hp
      simp only [genAt_single]
      have hmfc : MarkerFree c := by
        have : c ∈ outsFor outs p := by rw [ho]; simp
        simp only [outsFor, List.mem_map, List.mem_filter] at this
        obtain ⟨w, ⟨hw, _⟩, rfl⟩ := this
        exact hmf w hw
      exact regen_partial1 c _ _ hp hmfc (fun pre rest h => hseam p c pre rest ho h) (hafter p c ho)
    | cons d ds => rw [ho] at hlen; simp at hlen

/-- Idempotence: running the same generation again changes nothing. -/
theorem C12_idempotent (outs : List Write) (fs : Fs)
    (hsw : SingleWriters outs) (hmf : AllMarkerFree outs) (hseam : SeamFree outs fs) :
    gen outs (gen outs fs) = gen outs fs := by
  apply regen_crash_state outs fs (gen outs fs) hsw hmf hseam
  · intro p
    have hlen := hsw p
    cases ho : outsFor outs p with
    | nil =>
      simp only [gen, ho]
      cases hg : genAt [] (inScope p) (fs p) with
      | none => exact Partial0.deleted hg
      | some c =>
        have : genAt [] (inScope p) (fs p) = fs p := by
          simp only [genAt, List.foldl_nil, List.isEmpty_nil, Bool.true_and] at hg ⊢
          split at hg
          · simp at hg
          · rename_i h; simp [h]
        rw [← hg, this]; exact Partial0.untouched
    | cons c rest =>
      cases rest with
      | nil => simp only [gen, ho, genAt_single]; exact Partial1.written
      | cons d ds => rw [ho] at hlen; simp at hlen
  · intro p cs ho _
    right
    simp only [gen, ho, genAt_single]

/-- Full strength: a generation on top of *any* tree an interrupted run can leave ends in the
same tree as an uninterrupted one. -/
def C12_crash_statement : Prop :=
  ∀ (outs : List Write) (fs fs' : Fs), SingleWriters outs → AllMarkerFree outs → SeamFree outs fs →
    CrashState outs fs fs' → gen outs fs' = gen outs fs

/-- Proved part on the pinned tree: convergence when no torn file carried an `after`
directive (`File::create` truncates the hand-written prefix before it is rewritten). -/
theorem C12_crash_partial (outs : List Write) (fs fs' : Fs)
    (hsw : SingleWriters outs) (hmf : AllMarkerFree outs) (hseam : SeamFree outs fs)
    (hcs : CrashState outs fs fs')
    (hafter : ∀ p cs, outsFor outs p = [cs] → isSub AFTER (readText (fs p)) = true →
      (fs' p = fs p ∨ fs' p = writeOne cs (fs p))) :
    gen outs fs' = gen outs fs :=
  regen_crash_state outs fs fs' hsw hmf hseam hcs hafter

/-- The pointwise form of the full crash statement (no restriction on torn `after` files). -/
def C12_crash_pointwise_statement : Prop :=
  ∀ (cs : CodeSpec) (c0 c1 : Option Content), Partial1 cs c0 c1 → MarkerFree cs →
    (∀ pre rest, splitOnce AFTER (readText c0) = some (pre, rest) →
      isSub STATIC (pre ++ AFTER ++ ['\n'] ++ cs.render (readText c0)) = false) →
    writeOne cs c1 = writeOne cs c0

/-- The unchanged code does not satisfy it: a crash right after `File::create` on an
`after`-marked file leaves it empty; the next run no longer sees the directive and the
hand-written prefix is gone for good. -/
theorem C12_crash_counterexample : ¬ C12_crash_pointwise_statement := by
  intro h
  have hw : writeOne (.plain cs!"code") (some (.text cs!"x libninja: after y")) =
      some (.text cs!"x libninja: after\ncode") := by decide
  have := h (.plain cs!"code") (some (.text cs!"x libninja: after y")) (some (.text []))
    (Partial1.tornText cs!"x libninja: after\ncode" 0 hw (by decide))
    (by intro t; simp only [CodeSpec.render]; exact ⟨by decide, by decide⟩)
    (by
      intro pre rest hsp
      have : (pre, rest) = (cs!"x ", cs!" y") := by
        have e : splitOnce AFTER (readText (some (Content.text cs!"x libninja: after y"))) = some (cs!"x ", cs!" y") := by decide
        rw [e] at hsp
        exact (Option.some.inj hsp).symm
      obtain ⟨rfl, rfl⟩ := Prod.mk.inj this
      decide)
  revert this
  decide

end Ln
