import LnModel.Treeshake
import LnModel.Emit.Lib
/-! # C14 — credentials go where the security scheme says, read from documented env vars -/
namespace Ln

/-- what the OpenAPI scheme says about where a credential goes -/
def intendedAuth (scheme : SecScheme) (field : Text) : Option AuthStmt :=
  match scheme with
  | .apiKey .header key => some (.header key field)
  | .apiKey .query key => some (.query key field)
  | .apiKey .cookie key => some (.cookie key field)
  | .http scheme => if toLowerT scheme == cs!"basic" then some (.basicAuth field) else some (.bearerAuth field)
  | _ => none

/-- what the generated `authenticate` arm does for a single-scheme requirement -/
def emittedAuth (spec : Spec) (schemeName : Text) : Except XPanic (Option (Except Panic AuthArm)) :=
  match extractSecurity spec [[schemeName]] with
  | .error e => .error e
  | .ok [s] => .ok (some (authArm s))
  | .ok _ => .ok none

/-- apiKey in a query parameter or a cookie: the credential goes into exactly that parameter / cookie -/
theorem C14_apikey_query (spec : Spec) (n key : Text) (h : spec.schemes.find? (fun e => e.1 == n) = some (n, .apiKey .query key))
    (v id : Text) (hv : sanitizeStruct n = .ok v) (hid : sanitize key = .ok id) :
    emittedAuth spec n = .ok (some (.ok { variant := v, fields := [id], stmts := [.query key id] })) := by
  simp [emittedAuth, extractSecurity, h, keyLocation, authArm, mapM', hv, hid, authStmt]

theorem C14_apikey_cookie (spec : Spec) (n key : Text) (h : spec.schemes.find? (fun e => e.1 == n) = some (n, .apiKey .cookie key))
    (v id : Text) (hv : sanitizeStruct n = .ok v) (hid : sanitize key = .ok id) :
    emittedAuth spec n = .ok (some (.ok { variant := v, fields := [id], stmts := [.cookie key id] })) := by
  simp [emittedAuth, extractSecurity, h, keyLocation, authArm, mapM', hv, hid, authStmt]

/-- apiKey in a header: that header under its exact name — or bearer Authorization when the
header is literally named `bearer` / `bearer_auth` (documented special case) -/
theorem C14_apikey_header (spec : Spec) (n key : Text) (h : spec.schemes.find? (fun e => e.1 == n) = some (n, .apiKey .header key))
    (v id : Text) (hv : sanitizeStruct n = .ok v) (hid : sanitize key = .ok id) :
    emittedAuth spec n = .ok (some (.ok ⟨v, [id],
      [if toSnake key == cs!"bearer_auth" || toSnake key == cs!"bearer" then .bearerAuth id else .header key id]⟩)) := by
  simp only [emittedAuth, extractSecurity, h, keyLocation, authArm, mapM', hv, hid, authStmt]
  split <;> simp_all [authStmt]

/-- Full strength for http schemes: bearer goes out as bearer, basic as basic. -/
def C14_http_statement : Prop :=
  ∀ (spec : Spec) (n scheme : Text), spec.schemes.find? (fun e => e.1 == n) = some (n, .http scheme) →
    ∀ v id, sanitizeStruct n = .ok v → sanitize n = .ok id →
      emittedAuth spec n = .ok (some (.ok { variant := v, fields := [id], stmts := (intendedAuth (.http scheme) id).toList }))

/-- Proved part: every http scheme other than `basic` is sent as a bearer token. -/
theorem C14_http_partial (spec : Spec) (n scheme : Text) (h : spec.schemes.find? (fun e => e.1 == n) = some (n, .http scheme))
    (hnb : (toLowerT scheme == cs!"basic") = false)
    (v id : Text) (hv : sanitizeStruct n = .ok v) (hid : sanitize n = .ok id) :
    emittedAuth spec n = .ok (some (.ok { variant := v, fields := [id], stmts := (intendedAuth (.http scheme) id).toList })) := by
  simp [emittedAuth, extractSecurity, h, authArm, mapM', hv, hid, authStmt, intendedAuth, hnb]

/-- The unchanged code does not satisfy the full statement: http `basic` is emitted as `bearer_auth`. -/
theorem C14_http_counterexample : ¬ C14_http_statement := by
  intro h
  let spec : Spec := { (default : Spec) with schemes := [(cs!"basicAuth", .http cs!"basic")] }
  have := h spec cs!"basicAuth" cs!"basic" (by simp [spec]) cs!"BasicAuth" cs!"basic_auth" (by decide) (by decide)
  revert this
  decide

/-- every request of a spec with security passes through `authenticate` (request.rs emits
`r = self.client.authenticate(r);` iff `has_security`), and every arm places its credential: an arm
has one statement per field -/
theorem C14_arm_covers_fields (name : Text) (fields : List AuthParam) (arm : AuthArm)
    (h : authArm (.token name fields) = .ok arm) : arm.stmts.length = fields.length ∧ arm.fields.length = fields.length := by
  simp only [authArm] at h
  split at h
  · rename_i v ids hv hids
    simp at h
    rw [← h]
    have hl : ids.length = fields.length := by
      clear h hv
      induction fields generalizing ids with
      | nil => simp [mapM'] at hids; rw [hids]; rfl
      | cons f rest ih =>
        simp only [mapM'] at hids
        split at hids
        · rename_i b bs _ hbs; simp at hids; rw [← hids]; simp [ih bs hbs]
        · simp at hids
        · simp at hids
    simp [hl]
  · simp at h
  · simp at h

theorem zip_map_fst {α β γ : Type} (k : α → γ) : ∀ (fs : List α) (ids : List β), ids.length = fs.length →
    (fs.zip ids).map (fun x => k x.1) = fs.map k
  | [], _, _ => by simp
  | f :: rest, [], h => by simp at h
  | f :: rest, i :: is, h => by simp at h; simp [zip_map_fst k rest is h]

theorem zip_map_snd {α β : Type} : ∀ (fs : List α) (ids : List β), ids.length = fs.length →
    (fs.zip ids).map (fun x => x.2) = ids
  | [], [], _ => by simp
  | [], i :: is, h => by simp at h
  | f :: rest, [], h => by simp at h
  | f :: rest, i :: is, h => by simp at h; simp [zip_map_snd rest is h]

theorem mapM'_length {α β ε : Type} (g : α → Except ε β) : ∀ (l : List α) (r : List β), mapM' g l = .ok r → r.length = l.length
  | [], r, h => by simp [mapM'] at h; rw [h]; rfl
  | a :: as, r, h => by
    simp only [mapM'] at h
    split at h
    · rename_i b bs _ hbs; simp at h; rw [← h]; simp [mapM'_length g as bs hbs]
    · simp at h
    · simp at h

/-- `from_env` reads each credential of the first strategy from `<SERVICE>_<NAME>` in
SCREAMING_SNAKE_CASE, into the variant and fields the enum defines (the same sanitised names
as `authenticate`) -/
theorem C14_from_env_names (name : Text) (fields : List AuthParam) (rest : List AuthStrategy) (service : Text) (fe : FromEnv)
    (arm : AuthArm) (ha : authArm (.token name fields) = .ok arm)
    (h : fromEnv (.token name fields :: rest) service = .ok (some fe)) :
    fe.variant = arm.variant ∧ fe.fields.map (·.field) = arm.fields ∧
    fe.fields.map (·.envVar) = fields.map fun f => toScreamingSnake (service ++ [' '] ++ f.name) := by
  simp only [fromEnv] at h
  simp only [authArm] at ha
  split at h
  · rename_i v ids hv hids
    rw [hv, hids] at ha
    simp at h ha
    have hl := mapM'_length _ _ _ hids
    rw [← h, ← ha]
    refine ⟨rfl, ?_, ?_⟩
    · simp only [List.map_map]
      exact zip_map_snd fields ids hl
    · simp only [List.map_map, qualifiedEnvVar]
      exact zip_map_fst (fun f => toScreamingSnake (service ++ [' '] ++ f.name)) fields ids hl
  · simp at h
  · simp at h

end Ln
