import LnModel.Lemmas.Adapters
/-! # C19 — the emitted custom serde adapters round-trip their value space -/
namespace Ln

/-- the wire value denotes the integer / the date (what "malformed never becomes some other
present value" means) -/
def denotesInt : Wire → Int → Prop
  | .int n, x => n = x
  | .str s, x => parseI64 s = some x
  | _, _ => False

def denotesDate : Wire → Date → Prop
  | .int n, dt => n = dt.y * 10000 + dt.m * 100 + dt.d
  | _, _ => False

/-! ## integers where zero stands for absent -/

theorem C19_nz_roundtrip (v : Option Int) (h : ∀ i, v = some i → inI64 i = true) :
    nzDe (nzSer v) = .ok (nzNorm v) := by
  cases v with
  | none => simp [nzSer, nzDe, dispatch, nzNorm]
  | some i =>
    have hi := h i rfl
    simp only [inI64, Bool.and_eq_true, decide_eq_true_eq] at hi
    simp only [nzSer, nzDe, dispatch]
    by_cases h0 : 0 ≤ i
    · have h1 : i < 18446744073709551616 := by omega
      simp only [h0, h1, if_true]
      by_cases hz : i = 0
      · subst hz; rfl
      · have hlt : i < 9223372036854775808 := hi.2
        simp only [hz, if_false, hlt, if_true]
        unfold nzNorm
        split
        · rename_i heq; simp at heq; exact absurd heq hz
        · rfl
    · have h1 : -9223372036854775808 ≤ i := hi.1
      simp only [h0, h1, if_true, if_false]
      have hz : i ≠ 0 := by omega
      simp only [hz, if_false]
      unfold nzNorm
      split
      · rename_i heq; simp at heq; exact absurd heq hz
      · rfl

/-- A wire value that deserialises to a present integer denotes that integer (full strength:
every wire form, every integer of any size). -/
def C19_nz_safe_statement : Prop :=
  ∀ (w : Wire) (x : Int), nzDe w = .ok (some x) → denotesInt w x

theorem C19_nz_safe : C19_nz_safe_statement := by
  intro w x h
  cases w with
  | int n =>
    simp only [nzDe, dispatch] at h
    simp only [denotesInt]
    by_cases h0 : 0 ≤ n
    · by_cases h1 : n < 18446744073709551616
      · simp only [h0, h1, if_true] at h
        by_cases hz : n = 0
        · simp [hz] at h
        · simp only [hz, if_false] at h
          by_cases h2 : n < 9223372036854775808
          · simp only [h2, if_true, Except.ok.injEq, Option.some.injEq] at h; exact h
          · simp [h2] at h
      · simp [h0, h1] at h
    · simp only [h0, if_false] at h
      by_cases h1 : -9223372036854775808 ≤ n
      · simp only [h1, if_true] at h
        by_cases hz : n = 0
        · simp [hz] at h
        · simp only [hz, if_false, Except.ok.injEq, Option.some.injEq] at h; exact h
      · simp [h1] at h
  | float => simp [nzDe] at h
  | str s => simp [nzDe] at h
  | null => simp [nzDe] at h
  | other => simp [nzDe] at h

/-- present results are always `i64` values -/
theorem C19_nz_range (w : Wire) (x : Int) (h : nzDe w = .ok (some x)) : inI64 x = true := by
  have hd := C19_nz_safe w x h
  cases w with
  | int n =>
    simp only [denotesInt] at hd
    subst hd
    simp only [nzDe, dispatch] at h
    simp only [inI64, Bool.and_eq_true, decide_eq_true_eq]
    by_cases h0 : 0 ≤ n
    · by_cases h1 : n < 18446744073709551616
      · simp only [h0, h1, if_true] at h
        by_cases hz : n = 0
        · simp [hz] at h
        · simp only [hz, if_false] at h
          by_cases h2 : n < 9223372036854775808
          · omega
          · simp [h2] at h
      · simp [h0, h1] at h
    · simp only [h0, if_false] at h
      by_cases h1 : -9223372036854775808 ≤ n
      · omega
      · simp [h1] at h
  | float => simp [nzDe] at h
  | str s => simp [nzDe] at h
  | null => simp [nzDe] at h
  | other => simp [nzDe] at h

/-! ## integers carried as strings -/

theorem C19_str_roundtrip (v : Option Int) (h : ∀ i, v = some i → inI64 i = true) :
    strDe (strSer v) = .ok v := by
  cases v with
  | none => rfl
  | some i =>
    have hne := i64ToString_ne_nil i
    simp only [strSer, strDe]
    cases hs : i64ToString i with
    | nil => exact absurd hs hne
    | cons c cs =>
      rw [← hs, parseI64_i64ToString i (h i rfl)]
      simp [hs]

theorem C19_str_safe (w : Wire) (x : Int) (h : strDe w = .ok (some x)) : denotesInt w x := by
  cases w with
  | str s =>
    simp only [strDe] at h
    split at h
    · simp at h
    · split at h
      · rename_i i hp; simp at h; subst h; exact hp
      · simp at h
  | int n => simp [strDe] at h
  | float => simp [strDe] at h
  | null => simp [strDe] at h
  | other => simp [strDe] at h

/-! ## dates carried as YYYYMMDD integers -/

theorem C19_date_roundtrip (dt : Date) (hv : dt.valid = true) (hy : 1 ≤ dt.y ∧ dt.y ≤ 9999) :
    dateDe (dateSer (some dt)) = .ok (some dt) := by
  obtain ⟨y, m, d⟩ := dt
  simp only [Date.valid, fromYmdOpt] at hv
  split at hv
  · rename_i hc
    obtain ⟨_, _, hm1, hm2, hd1, hd2⟩ := hc
    have hd3 : d ≤ 31 := by
      have : daysIn y m ≤ 31 := by unfold daysIn; split <;> (try split) <;> omega
      omega
    simp only at hy
    simp only [dateSer, dateDe, dispatch]
    have hpos : 0 ≤ y * 10000 + m * 100 + d := by omega
    have hlt : y * 10000 + m * 100 + d < 18446744073709551616 := by omega
    have hnz : y * 10000 + m * 100 + d ≠ 0 := by omega
    simp only [hpos, hlt, if_true, hnz, if_false]
    have e1 : (y * 10000 + m * 100 + d) / 10000 = y := by omega
    have e2 : (y * 10000 + m * 100 + d) / 100 % 100 = m := by omega
    have e3 : (y * 10000 + m * 100 + d) % 100 = d := by omega
    rw [e1, e2, e3]
    simp only [fromYmdOpt]
    rw [if_pos ⟨by omega, by omega, hm1, hm2, hd1, hd2⟩]
  · simp at hv

theorem C19_date_none : dateDe (dateSer none) = .ok none := by simp [dateSer, dateDe, dispatch]

/-- A wire value that deserialises to a present date denotes that date (full strength). -/
def C19_date_safe_statement : Prop :=
  ∀ (w : Wire) (dt : Date), dateDe w = .ok (some dt) → denotesDate w dt

theorem C19_date_safe : C19_date_safe_statement := by
  intro w dt h
  cases w with
  | int n =>
    simp only [dateDe, dispatch] at h
    simp only [denotesDate]
    by_cases h0 : 0 ≤ n
    · by_cases h1 : n < 18446744073709551616
      · simp only [h0, h1, if_true] at h
        by_cases hz : n = 0
        · simp [hz] at h
        · simp only [hz, if_false, Except.ok.injEq] at h
          simp only [fromYmdOpt] at h
          split at h
          · simp only [Option.some.injEq] at h
            subst h
            simp only
            omega
          · simp at h
      · simp [h0, h1] at h
    · simp only [h0, if_false] at h
      split at h
      · rename_i heq; split at heq <;> simp at heq
      · simp at h
  | float => simp [dateDe] at h
  | str s => simp [dateDe] at h
  | null => simp [dateDe] at h
  | other => simp [dateDe] at h

/-- and the date is a valid calendar date -/
theorem C19_date_valid (w : Wire) (dt : Date) (h : dateDe w = .ok (some dt)) : dt.valid = true := by
  cases w with
  | int n =>
    simp only [dateDe, dispatch] at h
    by_cases h0 : 0 ≤ n
    · by_cases h1 : n < 18446744073709551616
      · simp only [h0, h1, if_true] at h
        by_cases hz : n = 0
        · simp [hz] at h
        · simp only [hz, if_false, Except.ok.injEq] at h
          simp only [Date.valid]
          simp only [fromYmdOpt] at h
          split at h
          · rename_i hc
            simp only [Option.some.injEq] at h
            subst h
            simp only [fromYmdOpt, if_pos hc, Option.isSome_some]
          · simp at h
      · simp [h0, h1] at h
    · simp only [h0, if_false] at h
      split at h
      · rename_i heq; split at heq <;> simp at heq
      · simp at h
  | float => simp [dateDe] at h
  | str s => simp [dateDe] at h
  | null => simp [dateDe] at h
  | other => simp [dateDe] at h

/-- non-vacuity -/
example : (Date.mk 2024 2 29).valid = true ∧ (Date.mk 2023 2 29).valid = false ∧ inI64 (-9223372036854775808) = true := by
  decide

end Ln
