import LnModel.Serde
/-! C04 — generated models round-trip the JSON the schema describes.

Proved here, over the serde semantics of `LnModel/Serde.lean` (itself validated against compiled models):

* `C04_wire_names_exact` — every property is read from and written to its exact OpenAPI name, whatever
  Rust identifier it received (the `rename` attribute is present exactly when the two differ);
* `C04_field_roundtrip` — a present member whose value the field's type reads back unchanged is printed
  again under the same name with the same value (unless it is an omitted null / empty array);
* `C04_enum_exact` / `C04_enum_unknown` — an enum value travels as its exact string, and a string that is
  no value of the enum is rejected; distinct values therefore stay distinct;
* `C04_flatten_same_level` — the members of an allOf `$ref` are read from, and written into, the object
  itself;
* `C04_required_rejected` — a struct lacking a required, non-nullable string / number / boolean / model
  member is rejected;
* `C04_leaf_identity` — strings, integers, booleans, dates, date-times and decimals in canonical form are
  read back as themselves.

Partial: the round trip of whole nested instances is assembled from these per-field facts only for the
member order and key-distinctness the run-time stage exercises; it is not stated as one theorem. -/
namespace Ln

theorem findSome_rename_none (l : List SerdeAttr) (h : ∀ a ∈ l, ∀ w, a ≠ .rename w) :
    l.findSome? renameOf = none := by
  induction l with
  | nil => rfl
  | cons a rest ih =>
    simp only [List.findSome?_cons]
    cases a with
    | rename w => exact absurd rfl (h _ (List.mem_cons_self ..) w)
    | _ => simp only [renameOf]; exact ih (fun b hb => h b (List.mem_cons_of_mem _ hb))

theorem tail_attrs_no_rename (f : HirField) : ∀ a ∈ skipAttrs f ++ withAttrs f, ∀ w, a ≠ .rename w := by
  intro a ha w
  rcases List.mem_append.mp ha with h | h
  · unfold skipAttrs at h
    split at h
    · simp at h; subst h; simp
    · split at h
      · simp at h; subst h; simp
      · split at h
        · simp at h; subst h; simp
        · simp at h
  · unfold withAttrs at h
    split at h <;> simp at h <;> subst h <;> simp

/-- **every property travels under its exact OpenAPI name**, whatever identifier `sanitize` produced -/
theorem C04_wire_names_exact (name : Text) (f : HirField) (sh : FieldShape)
    (h : fieldShape name f = .ok sh) (hf : hasFlatten sh.attrs = false) : wireKey sh.ident sh.attrs = name := by
  unfold fieldShape at h
  split at h
  · rename_i ident _
    simp at h
    subst h
    simp only at hf ⊢
    unfold fieldAttributes at hf ⊢
    by_cases hne : (ident != name) = true
    · simp only [hne, if_true] at hf ⊢
      by_cases hfl : f.flatten = true
      · simp [hfl, hasFlatten] at hf
      · simp only [hfl] at hf ⊢
        simp only [wireKey, Bool.false_eq_true, if_false, List.append_assoc, List.cons_append, List.nil_append, List.findSome?_cons, renameOf]
    · simp only [hne] at hf ⊢
      have he : ident = name := by simpa using hne
      unfold wireKey
      simp only [Bool.false_eq_true, if_false, List.nil_append, List.append_assoc]
      rw [findSome_rename_none _ (tail_attrs_no_rename f)]
      exact he
  · simp at h

/-- a member that is present, whose value the field's type reads back unchanged and which is not an omitted
null / empty array, is printed again under the same key with the same value -/
theorem C04_field_roundtrip (rt : Ty → Json → Except SerdeErr Json) (sh : FieldShape) (m : Members) (v : Json)
    (hfl : hasFlatten sh.attrs = false) (hw : withPath sh.attrs = none)
    (hget : m.get (wireKey sh.ident sh.attrs) = some v) (hrt : rt sh.ty v = .ok v)
    (hnn : v ≠ .null) (hskip : ∀ p, skipPred sh.attrs = some p → p ≠ cs!"Option::is_none" → skipped p v = false) :
    rtFieldWith rt sh m = .ok (.cons (wireKey sh.ident sh.attrs) v .nil) := by
  unfold rtFieldWith
  simp only [hfl, Bool.false_eq_true, if_false, hget, hw]
  have hemit : (match skipPred sh.attrs with
      | some p => if (if p == cs!"Option::is_none" then false else skipped p v) = true then Members.nil else .cons (wireKey sh.ident sh.attrs) v .nil
      | none => Members.cons (wireKey sh.ident sh.attrs) v .nil) = .cons (wireKey sh.ident sh.attrs) v .nil := by
    split
    · rename_i p hp
      by_cases hpe : (p == cs!"Option::is_none") = true
      · simp [hpe]
      · have : p ≠ cs!"Option::is_none" := by simpa using hpe
        simp [hpe, hskip p hp this]
    · rfl
  by_cases how : sh.optionWrapped = true
  · simp only [how, if_true]
    cases v with
    | null => exact absurd rfl hnn
    | _ => simp only [hrt]; exact congrArg _ hemit
  · simp only [how, Bool.false_eq_true, if_false, hrt]; exact congrArg _ hemit

/-- the wire string of a variant is its exact OpenAPI value -/
theorem enumVariant_wire (nm : Text) (v : Variant) (ident : Text) (rn : Option Text)
    (h : enumVariant nm v = .ok (ident, rn)) : rn.getD ident = v.value := by
  unfold enumVariant at h
  simp only at h
  cases hn : v.alias.getD v.value with
  | nil => rw [hn] at h; simp at h
  | cons c cs =>
    rw [hn] at h
    simp only at h
    cases hs : sanitizeStruct (if c.isDigit = true then nm ++ c :: cs else c :: cs) with
    | error e => rw [hs] at h; simp at h
    | ok id =>
      rw [hs] at h
      simp at h
      obtain ⟨h1, h2⟩ := h
      subst h1
      subst h2
      by_cases hne : id = v.value
      · simp [hne]
      · simp [hne]

/-- **enum values travel as their exact strings**: a value of the enum is read and printed back as itself -/
theorem C04_enum_exact (nm : Text) (variants : List Variant) (s : Text)
    (hok : ∀ v ∈ variants, ∃ r, enumVariant nm v = .ok r) (hmem : ∃ v ∈ variants, v.value = s) :
    rtEnum nm variants s = .ok (.str s) := by
  induction variants with
  | nil => obtain ⟨v, hv, _⟩ := hmem; cases hv
  | cons v rest ih =>
    simp only [rtEnum]
    obtain ⟨⟨ident, rn⟩, hr⟩ := hok v (List.mem_cons_self ..)
    rw [hr]
    simp only
    have hw := enumVariant_wire nm v ident rn hr
    rw [hw]
    by_cases he : (v.value == s) = true
    · have : v.value = s := by simpa using he
      simp [he, this]
    · simp only [he, Bool.false_eq_true, if_false]
      apply ih (fun v' hv' => hok v' (List.mem_cons_of_mem _ hv'))
      obtain ⟨v', hv', hs⟩ := hmem
      rcases List.mem_cons.mp hv' with rfl | h
      · exact absurd (by simpa using hs) he
      · exact ⟨v', h, hs⟩

/-- … and a string that is not a value of the enum is rejected -/
theorem C04_enum_unknown (nm : Text) (variants : List Variant) (s : Text)
    (hok : ∀ v ∈ variants, ∃ r, enumVariant nm v = .ok r) (hno : ∀ v ∈ variants, v.value ≠ s) :
    rtEnum nm variants s = .error .unknownVariant := by
  induction variants with
  | nil => rfl
  | cons v rest ih =>
    simp only [rtEnum]
    obtain ⟨⟨ident, rn⟩, hr⟩ := hok v (List.mem_cons_self ..)
    rw [hr]
    simp only
    rw [enumVariant_wire nm v ident rn hr]
    have : (v.value == s) = false := by simpa using hno v (List.mem_cons_self ..)
    simp only [this, Bool.false_eq_true, if_false]
    exact ih (fun v' hv' => hok v' (List.mem_cons_of_mem _ hv')) (fun v' hv' => hno v' (List.mem_cons_of_mem _ hv'))

/-- **allOf `$ref` members live at the same level**: a flattened field is read from the object itself and
its members are written into the object itself -/
theorem C04_flatten_same_level (rt : Ty → Json → Except SerdeErr Json) (sh : FieldShape) (m inner : Members)
    (hfl : hasFlatten sh.attrs = true) (hrt : rt sh.ty (.obj m) = .ok (.obj inner)) :
    rtFieldWith rt sh m = .ok inner := by
  unfold rtFieldWith
  simp [hfl, hrt]

/-- a field without `#[serde(default)]` that is not a plain `Option` is rejected when its member is absent -/
theorem rtFieldWith_missing (rt : Ty → Json → Except SerdeErr Json) (sh : FieldShape) (m : Members)
    (hfl : hasFlatten sh.attrs = false) (hsk : skipPred sh.attrs = none)
    (hopt : sh.optionWrapped = false ∨ (withPath sh.attrs).isSome = true)
    (hget : m.get (wireKey sh.ident sh.attrs) = none) :
    rtFieldWith rt sh m = .error (.missingField (wireKey sh.ident sh.attrs)) := by
  unfold rtFieldWith
  simp only [hfl, Bool.false_eq_true, if_false, hget, hsk]
  cases hw : withPath sh.attrs with
  | some p => simp
  | none =>
    rcases hopt with h | h
    · simp [h]
    · simp [hw] at h

/-- the types whose required, non-nullable members must be present -/
def rejectableTy : Ty → Bool
  | .string | .integer .simple | .float | .boolean | .model _ => true
  | _ => false

theorem fieldShape_required (name : Text) (f : HirField) (sh : FieldShape) (h : fieldShape name f = .ok sh)
    (hreq : f.optional = false) (hty : rejectableTy f.ty = true) (hnf : f.flatten = false) :
    hasFlatten sh.attrs = false ∧ skipPred sh.attrs = none ∧ sh.optionWrapped = false := by
  unfold fieldShape at h
  split at h
  · rename_i ident _
    simp at h
    subst h
    simp only
    unfold fieldAttributes
    cases hty' : f.ty <;> simp [hty', rejectableTy] at hty <;>
      (by_cases hne : (ident != name) = true <;>
       simp [hne, hreq, hnf, hty', hasFlatten, skipPred, forcedOptional, Ty.isIterable, skipAttrs, withAttrs])
    all_goals (rename_i ser; cases ser <;> simp_all [rejectableTy, forcedOptional])
  · simp at h

theorem rtFieldsWith_error (rt : Ty → Json → Except SerdeErr Json) (m rest : Members) (shapes : List FieldShape)
    (sh : FieldShape) (hmem : sh ∈ shapes) (e : SerdeErr)
    (herr : rtFieldWith rt sh (if hasFlatten sh.attrs then rest else m) = .error e) :
    ∃ e', rtFieldsWith rt m rest shapes = .error e' := by
  induction shapes with
  | nil => cases hmem
  | cons s more ih =>
    simp only [rtFieldsWith]
    rcases List.mem_cons.mp hmem with rfl | h
    · rw [herr]; exact ⟨e, by simp⟩
    · obtain ⟨e', he'⟩ := ih h
      rw [he']
      cases rtFieldWith rt s (if hasFlatten s.attrs then rest else m) with
      | error x => exact ⟨x, by simp⟩
      | ok a => exact ⟨e', by simp⟩

theorem shapesOf_mem (fields : List (Text × HirField)) (shapes : List FieldShape) (h : shapesOf fields = .ok shapes)
    (n : Text) (f : HirField) (hm : (n, f) ∈ fields) : ∃ sh ∈ shapes, fieldShape n f = .ok sh := by
  induction fields generalizing shapes with
  | nil => cases hm
  | cons nf rest ih =>
    obtain ⟨n', f'⟩ := nf
    simp only [shapesOf] at h
    cases h1 : fieldShape n' f' with
    | error e => rw [h1] at h; simp at h
    | ok a =>
      rw [h1] at h
      cases h2 : shapesOf rest with
      | error e => rw [h2] at h; simp at h
      | ok b =>
        rw [h2] at h
        simp at h
        subst h
        rcases List.mem_cons.mp hm with heq | hr
        · have : n = n' ∧ f = f' := by simpa using heq
          obtain ⟨rfl, rfl⟩ := this
          exact ⟨a, List.mem_cons_self .., h1⟩
        · obtain ⟨sh, hs, hf⟩ := ih b h2 hr
          exact ⟨sh, List.mem_cons_of_mem _ hs, hf⟩

/-- **an instance lacking a required, non-nullable string / number / boolean / model member is rejected** -/
theorem C04_required_rejected (schemas : SchemaTable) (fuel : Nat) (n sn : Text) (nl : Bool) (fields : List (Text × HirField)) (doc : Option Text)
    (m : Members) (name : Text) (f : HirField)
    (hrec : btGet n schemas = some (.struct sn nl fields doc)) (hm : (name, f) ∈ fields)
    (hreq : f.optional = false) (hty : rejectableTy f.ty = true) (hnf : f.flatten = false)
    (habsent : m.get name = none) :
    ∃ e, rtTy schemas (fuel + 1) (.model n) (.obj m) = .error e := by
  simp only [rtTy, hrec]
  cases hs : shapesOf fields with
  | error p => exact ⟨_, rfl⟩
  | ok shapes =>
    simp only
    obtain ⟨sh, hsm, hfs⟩ := shapesOf_mem fields shapes hs name f hm
    obtain ⟨h1, h2, h3⟩ := fieldShape_required name f sh hfs hreq hty hnf
    have hk := C04_wire_names_exact name f sh hfs h1
    have herr := rtFieldWith_missing (rtTy schemas fuel) sh m h1 h2 (Or.inl h3) (by rw [hk]; exact habsent)
    obtain ⟨e', he'⟩ := rtFieldsWith_error (rtTy schemas fuel) m (m.without (namedKeys shapes)) shapes sh hsm _ (by simp only [h1]; exact herr)
    rw [he']
    exact ⟨e', rfl⟩

/-- canonical leaf values are read back as themselves -/
theorem C04_leaf_identity (schemas : SchemaTable) (fuel : Nat) :
    (∀ s, rtTy schemas (fuel + 1) .string (.str s) = .ok (.str s)) ∧
    (∀ i ser, inI64 i = true → rtTy schemas (fuel + 1) (.integer ser) (.int i) = .ok (.int i)) ∧
    (∀ b, rtTy schemas (fuel + 1) .boolean (.bool b) = .ok (.bool b)) ∧
    (∀ t, rtTy schemas (fuel + 1) .float (.float t) = .ok (.float t)) ∧
    (∀ s ser, isIsoDate s = true → rtTy schemas (fuel + 1) (.date ser) (.str s) = .ok (.str s)) ∧
    (∀ s, isIsoDateTime s = true → rtTy schemas (fuel + 1) .dateTime (.str s) = .ok (.str s)) ∧
    (∀ s, isDecimal s = true → rtTy schemas (fuel + 1) .currency (.str s) = .ok (.str s)) ∧
    (∀ j, rtTy schemas (fuel + 1) .any j = .ok j) := by
  refine ⟨?_, ?_, ?_, ?_, ?_, ?_, ?_, ?_⟩ <;> intros <;> simp_all [rtTy]

/-- non-vacuity: `Pet { id (required), name as "pet-name" (renamed), tag (optional) }` -/
example :
    let schemas : SchemaTable := [(cs!"Pet", .struct cs!"Pet" false
      [(cs!"id", ⟨.integer .simple, false, none, false⟩), (cs!"pet-name", ⟨.string, false, none, false⟩), (cs!"tag", ⟨.string, true, none, false⟩)] none)]
    let full : Json := .obj (.cons cs!"pet-name" (.str cs!"Rex") (.cons cs!"id" (.int 7) (.cons cs!"tag" .null .nil)))
    (match rtTy schemas 8 (.model cs!"Pet") full with
     | .ok (.obj (.cons k1 (.int 7) (.cons k2 (.str _) .nil))) => k1 == cs!"id" && k2 == cs!"pet-name"
     | _ => false) = true ∧
    (match rtTy schemas 8 (.model cs!"Pet") (.obj (.cons cs!"id" (.int 7) .nil)) with
     | .error (.missingField k) => k == cs!"pet-name"
     | _ => false) = true := by decide +kernel

end Ln

namespace Ln

/-! ### whole-object round trip for canonical instances

`Aligned rt shapes m`: the object `m` lists, in the order of the struct's fields, one member per field that is
present — under the field's wire key, with a non-null value that the field's type reads back unchanged and that
is not an omitted empty array — and nothing for fields that are absent, which must be fields carrying
`#[serde(default, skip_serializing_if = ..)]` whose default meets the skip predicate. -/

/-- the default of an absent field is not printed -/
def AbsentOk (sh : FieldShape) : Prop :=
  ∃ p, skipPred sh.attrs = some p ∧
    (if p == cs!"Option::is_none" then sh.optionWrapped else skipped p (defaultJson sh.optionWrapped sh.ty)) = true

inductive Aligned (rt : Ty → Json → Except SerdeErr Json) : List FieldShape → Members → Prop where
  | nil : Aligned rt [] .nil
  | present (sh : FieldShape) (rest : List FieldShape) (v : Json) (m : Members) :
      Aligned rt rest m → withPath sh.attrs = none → rt sh.ty v = .ok v → v ≠ .null →
      (∀ p, skipPred sh.attrs = some p → p ≠ cs!"Option::is_none" → skipped p v = false) →
      Aligned rt (sh :: rest) (.cons (wireKey sh.ident sh.attrs) v m)
  | absent (sh : FieldShape) (rest : List FieldShape) (m : Members) :
      Aligned rt rest m → AbsentOk sh → m.get (wireKey sh.ident sh.attrs) = none →
      Aligned rt (sh :: rest) m

theorem rtFieldWith_absent (rt : Ty → Json → Except SerdeErr Json) (sh : FieldShape) (M : Members)
    (hfl : hasFlatten sh.attrs = false) (ha : AbsentOk sh) (hget : M.get (wireKey sh.ident sh.attrs) = none) :
    rtFieldWith rt sh M = .ok .nil := by
  obtain ⟨p, hp, hskip⟩ := ha
  unfold rtFieldWith
  simp only [hfl, Bool.false_eq_true, if_false, hget, hp]
  by_cases hpe : (p == cs!"Option::is_none") = true
  · simp only [hpe, if_true] at hskip ⊢
    simp [hskip]
  · simp only [hpe, Bool.false_eq_true, if_false] at hskip ⊢
    simp [hskip]

theorem Members.get_cons_ne (k k' : Text) (v : Json) (m : Members) (h : k' ≠ k) : (Members.cons k v m).get k' = m.get k' := by
  simp only [Members.get]
  have : (k' == k) = false := by simpa using h
  simp [this]

/-- **a struct without flattened members reads a canonical instance and prints it back unchanged** -/
theorem rtFieldsWith_aligned (rt : Ty → Json → Except SerdeErr Json) (shapes : List FieldShape) (m M rest : Members)
    (hal : Aligned rt shapes m)
    (hsee : ∀ sh ∈ shapes, M.get (wireKey sh.ident sh.attrs) = m.get (wireKey sh.ident sh.attrs))
    (hnd : (shapes.map fun sh => wireKey sh.ident sh.attrs).Nodup)
    (hfl : ∀ sh ∈ shapes, hasFlatten sh.attrs = false) :
    rtFieldsWith rt M rest shapes = .ok m := by
  induction hal with
  | nil => rfl
  | present sh rs v m' hrest hw hrt hnn hsk ih =>
    simp only [List.map_cons, List.nodup_cons] at hnd
    have hflsh := hfl sh (List.mem_cons_self ..)
    have hget : M.get (wireKey sh.ident sh.attrs) = some v := by
      rw [hsee sh (List.mem_cons_self ..)]; simp [Members.get]
    have h1 := C04_field_roundtrip rt sh M v hflsh hw hget hrt hnn hsk
    have h2 := ih (fun sh' hs' => by
        rw [hsee sh' (List.mem_cons_of_mem _ hs')]
        apply Members.get_cons_ne
        intro he
        exact hnd.1 (List.mem_map.mpr ⟨sh', hs', he⟩)) hnd.2 (fun sh' hs' => hfl sh' (List.mem_cons_of_mem _ hs'))
    simp only [rtFieldsWith, hflsh, Bool.false_eq_true, if_false, h1, h2]
    rfl
  | absent sh rs m' hrest ha hnone ih =>
    simp only [List.map_cons, List.nodup_cons] at hnd
    have hflsh := hfl sh (List.mem_cons_self ..)
    have hget : M.get (wireKey sh.ident sh.attrs) = none := by rw [hsee sh (List.mem_cons_self ..)]; exact hnone
    have h1 := rtFieldWith_absent rt sh M hflsh ha hget
    have h2 := ih (fun sh' hs' => hsee sh' (List.mem_cons_of_mem _ hs')) hnd.2 (fun sh' hs' => hfl sh' (List.mem_cons_of_mem _ hs'))
    simp only [rtFieldsWith, hflsh, Bool.false_eq_true, if_false, h1, h2]
    rfl

/-- … stated for the generated type of a struct record: `from_value` then `to_value` is the identity on it -/
theorem C04_struct_roundtrip (schemas : SchemaTable) (fuel : Nat) (n sn : Text) (nl : Bool) (fields : List (Text × HirField)) (doc : Option Text)
    (shapes : List FieldShape) (m : Members)
    (hrec : btGet n schemas = some (.struct sn nl fields doc)) (hsh : shapesOf fields = .ok shapes)
    (hal : Aligned (rtTy schemas fuel) shapes m)
    (hnd : (shapes.map fun sh => wireKey sh.ident sh.attrs).Nodup)
    (hfl : ∀ sh ∈ shapes, hasFlatten sh.attrs = false) :
    rtTy schemas (fuel + 1) (.model n) (.obj m) = .ok (.obj m) := by
  simp only [rtTy, hrec, hsh]
  rw [rtFieldsWith_aligned (rtTy schemas fuel) shapes m m _ hal (fun _ _ => rfl) hnd hfl]

/-- optional fields, required lists and untyped members may be absent: their shape meets `AbsentOk` -/
theorem fieldShape_absentOk (name : Text) (f : HirField) (sh : FieldShape) (h : fieldShape name f = .ok sh)
    (hopt : f.optional = true ∨ f.ty.isIterable = true ∨ f.ty = .any) : AbsentOk sh := by
  unfold fieldShape at h
  split at h
  · rename_i ident _
    simp at h
    subst h
    unfold AbsentOk fieldAttributes skipPred
    simp only
    by_cases ho : f.optional = true
    · refine ⟨cs!"Option::is_none", ?_, by simp [ho]⟩
      by_cases hne : (ident != name) = true <;> by_cases hf : f.flatten = true <;> simp [hne, hf, skipAttrs, ho]
    · have ho' : f.optional = false := by simpa using ho
      rcases hopt with h1 | h2 | h3
      · exact absurd h1 ho
      · refine ⟨cs!"Vec::is_empty", ?_, ?_⟩
        · by_cases hne : (ident != name) = true <;> by_cases hf : f.flatten = true <;> simp [hne, hf, skipAttrs, ho', h2]
        · cases hty : f.ty <;> simp [hty, Ty.isIterable] at h2
          simp [ho', forcedOptional, defaultJson, skipped]
      · refine ⟨cs!"serde_json::Value::is_null", ?_, ?_⟩
        · by_cases hne : (ident != name) = true <;> by_cases hf : f.flatten = true <;> simp [hne, hf, skipAttrs, ho', h3, Ty.isIterable]
        · simp [ho', h3, forcedOptional, defaultJson, skipped]
  · simp at h

/-- non-vacuity: `Pet { id, pet-name, tag? }` with `tag` absent is a canonical instance and comes back unchanged -/
example :
    let schemas : SchemaTable := [(cs!"Pet", .struct cs!"Pet" false
      [(cs!"id", ⟨.integer .simple, false, none, false⟩), (cs!"pet-name", ⟨.string, false, none, false⟩), (cs!"tag", ⟨.string, true, none, false⟩)] none)]
    let inst : Json := .obj (.cons cs!"id" (.int 7) (.cons cs!"pet-name" (.str cs!"Rex") .nil))
    (match rtTy schemas 8 (.model cs!"Pet") inst with
     | .ok (.obj (.cons k1 (.int 7) (.cons k2 (.str _) .nil))) => k1 == cs!"id" && k2 == cs!"pet-name"
     | _ => false) = true := by decide +kernel

end Ln
