import LnModel.Lemmas.Macro
/-! # C20 — the code-building macros reproduce what was written inside them -/
namespace Ln

/-! ## `body!` / `function!`: every token, in order, interpolations substituted, nothing dropped -/

/-- `{idx}` for an interpolated name: the index of its first use; later uses share it -/
def bindCap (cap : List Text) (x : Text) : List Text × Text :=
  match cap.findIdx? (· == x) with
  | some i => (cap, ['{'] ++ natText i ++ ['}'])
  | none => (cap ++ [x], ['{'] ++ natText cap.length ++ ['}'])

/-- what the format string must contain once all whitespace is deleted: the texts of the tokens in
order (braces written the format-string way), `# name` replaced by its placeholder, statement
semicolons dropped -/
def pieces : TTs → List Text → Except MacroPanic (Text × List Text)
  | .nil, cap => .ok ([], cap)
  | .cons (.punct c) rest, cap =>
    if c == '#' then
      match rest with
      | .cons (.ident x) rest' =>
        let (cap1, b) := bindCap cap x
        match pieces rest' cap1 with
        | .ok (p, cap2) => .ok (nw b ++ p, cap2)
        | .error e => .error e
      | _ => .error .identExpectedAfterHash
    else if c == ';' then pieces rest cap
    else match pieces rest cap with
      | .ok (p, cap2) => .ok (nw [c] ++ p, cap2)
      | .error e => .error e
  | .cons (.group d inner) rest, cap =>
    match pieces inner cap with
    | .error e => .error e
    | .ok (pi, cap1) =>
      match pieces rest cap1 with
      | .error e => .error e
      | .ok (pr, cap2) => .ok (nw (opening d) ++ pi ++ nw (closing d) ++ pr, cap2)
  | .cons (.ident s) rest, cap =>
    match pieces rest cap with
    | .ok (p, cap2) => .ok (nw s ++ p, cap2)
    | .error e => .error e
  | .cons (.lit s) rest, cap =>
    match pieces rest cap with
    | .ok (p, cap2) => .ok (nw (escBraces s) ++ p, cap2)
    | .error e => .error e

theorem pieces_punct (c : Char) (rest : TTs) (cap : List Text) (hc : (c == '#') = false) :
    pieces (.cons (.punct c) rest) cap =
      if c == ';' then pieces rest cap
      else match pieces rest cap with
        | .ok (p, cap2) => .ok (nw [c] ++ p, cap2)
        | .error e => .error e := by
  cases rest with
  | nil => simp [pieces, hc]
  | cons t r => cases t <;> simp [pieces, hc]

theorem pieces_hash (c : Char) (x : Text) (rest' : TTs) (cap : List Text) (hc : (c == '#') = true) :
    pieces (.cons (.punct c) (.cons (.ident x) rest')) cap =
      match pieces rest' (bindCap cap x).1 with
      | .ok (p, cap2) => .ok (nw (bindCap cap x).2 ++ p, cap2)
      | .error e => .error e := by
  rw [pieces]; simp [hc]

theorem bind_eq (st : PSt) (x : Text) :
    (bind st x).1.captured = (bindCap st.captured x).1 ∧ (bind st x).2 = (bindCap st.captured x).2 ∧
    (bind st x).1.lines = st.lines := by
  unfold bind bindCap
  cases st.captured.findIdx? (· == x) <;> simp

/-- The printer only appends the pieces (and whitespace) to what it had. -/
theorem bodyRecurse_pieces (ts : TTs) (indent : Nat) (st st' : PSt)
    (h : bodyRecurse ts indent st = .ok st') :
    ∃ p, pieces ts st.captured = .ok (p, st'.captured) ∧ st'.flat = st.flat ++ p := by
  fun_induction bodyRecurse ts indent st generalizing st' with
  | case1 indent st => simp at h; subst h; exact ⟨[], by simp [pieces], by simp⟩
  | case2 c indent st hc x rest' st1 b hb st2 st3 ih =>
    obtain ⟨p, hp, hf⟩ := ih st' h
    have hbind := bind_eq st x
    rw [hb] at hbind
    simp only at hbind
    have h2 := flat_append st1 b
    have hflat3 : st3.flat = st.flat ++ nw b ∧ st3.captured = st1.captured := by
      have hst1 : st1.flat = st.flat := by simp [PSt.flat, hbind.2.2]
      simp only [st3]
      split
      · have h3 := flat_append st2 [' ']
        have : nw [' '] = [] := by decide
        simp only [st2] at h3 ⊢
        rw [h3.1, h2.1, hst1, this, h3.2, h2.2]; simp
      · simp only [st2]; rw [h2.1, hst1, h2.2]; simp
    refine ⟨nw b ++ p, ?_, ?_⟩
    · rw [pieces_hash c x rest' st.captured hc, ← hbind.1, ← hbind.2.1, ← hflat3.2, hp]
    · rw [hf, hflat3.1]; simp
  | case3 c rest indent st hc hrest => cases h
  | case4 c rest indent st hc1 hc2 ih =>
    obtain ⟨p, hp, hf⟩ := ih st' h
    have h1 := flat_push_spaces st indent
    refine ⟨p, ?_, ?_⟩
    · rw [pieces_punct c rest st.captured (by simpa using hc1), if_pos hc2, ← h1.2]; exact hp
    · rw [hf, h1.1]
  | case5 c rest indent st hc1 hc2 hc3 ih =>
    obtain ⟨p, hp, hf⟩ := ih st' h
    have h1 := flat_append st ['.']
    have hc : c = '.' := by simpa using hc3
    subst hc
    refine ⟨nw ['.'] ++ p, ?_, ?_⟩
    · rw [pieces_punct '.' rest st.captured (by decide), if_neg (by decide), ← h1.2, hp]
    · rw [hf, h1.1]; simp
  | case6 c rest indent st hc1 hc2 hc3 hc4 ih =>
    obtain ⟨p, hp, hf⟩ := ih st' h
    have h1 := flat_append st ['!']
    have hc : c = '!' := by simpa using hc4
    subst hc
    refine ⟨nw ['!'] ++ p, ?_, ?_⟩
    · rw [pieces_punct '!' rest st.captured (by decide), if_neg (by decide), ← h1.2, hp]
    · rw [hf, h1.1]; simp
  | case7 c rest indent st hc1 hc2 hc3 hc4 st1 quiet ih =>
    obtain ⟨p, hp, hf⟩ := ih st' h
    have h1 := flat_append st [c]
    have hq : (if quiet = true then st1 else st1.append [' ']).flat = st.flat ++ nw [c] ∧
        (if quiet = true then st1 else st1.append [' ']).captured = st.captured := by
      split
      · exact h1
      · have h2 := flat_append st1 [' ']
        have : nw [' '] = [] := by decide
        simp only [st1] at h2 ⊢
        rw [h2.1, h1.1, this, h2.2, h1.2]; simp
    refine ⟨nw [c] ++ p, ?_, ?_⟩
    · rw [pieces_punct c rest st.captured (by simpa using hc1), if_neg hc2, ← hq.2, hp]
    · rw [hf, hq.1]; simp
  | case8 d inner rest indent st st1 gi st2 e hinner ih => cases h
  | case9 d inner rest indent st nLines st1 gi st2 st3 hinner multiline st4 st5 st6 ih1 ih2 =>
    obtain ⟨pi, hpi, hfi⟩ := ih1 st3 hinner
    obtain ⟨pr, hpr, hfr⟩ := ih2 st' h
    have h1 := flat_append st (opening d)
    have h2 : st2.flat = st.flat ++ nw (opening d) ∧ st2.captured = st.captured := by
      simp only [st2]
      split
      · have := flat_push_spaces st1 gi
        simp only [st1] at this ⊢
        rw [this.1, h1.1, this.2, h1.2]; simp
      · exact h1
    have h4 : st4.flat = st3.flat ∧ st4.captured = st3.captured := by
      simp only [st4]
      split
      · split
        · rename_i hb; exact flat_truncate_blank st3 indent hb
        · exact flat_push_spaces st3 indent
      · exact ⟨rfl, rfl⟩
    have h5 := flat_append st4 (closing d)
    have h6 : st6.flat = st3.flat ++ nw (closing d) ∧ st6.captured = st3.captured := by
      simp only [st6]
      split
      · have := flat_push_spaces st5 indent
        simp only [st5] at this ⊢
        rw [this.1, h5.1, h4.1, this.2, h5.2, h4.2]; simp
      · simp only [st5]; rw [h5.1, h4.1, h5.2, h4.2]; simp
    refine ⟨nw (opening d) ++ pi ++ nw (closing d) ++ pr, ?_, ?_⟩
    · rw [pieces, ← h2.2, hpi]
      simp only
      rw [← h6.2, hpr]
    · rw [hfr, h6.1, hfi, h2.1]; simp [List.append_assoc]
  | case10 s rest indent st st1 quiet ih =>
    obtain ⟨p, hp, hf⟩ := ih st' h
    have h1 := flat_append st s
    have hq : (if quiet = true then st1 else st1.append [' ']).flat = st.flat ++ nw s ∧
        (if quiet = true then st1 else st1.append [' ']).captured = st.captured := by
      split
      · exact h1
      · have h2 := flat_append st1 [' ']
        have : nw [' '] = [] := by decide
        simp only [st1] at h2 ⊢
        rw [h2.1, h1.1, this, h2.2, h1.2]; simp
    refine ⟨nw s ++ p, ?_, ?_⟩
    · rw [pieces, ← hq.2, hp]
    · rw [hf, hq.1]; simp
  | case11 s rest indent st ih =>
    obtain ⟨p, hp, hf⟩ := ih st' h
    have h1 := flat_append st (escBraces s)
    refine ⟨nw (escBraces s) ++ p, ?_, ?_⟩
    · rw [pieces, ← h1.2, hp]
    · rw [hf, h1.1]; simp

/-- **`body!` / `function!` bodies**: the format string the macro builds is, whitespace aside,
exactly the given tokens in order — each once, none dropped — with `# name` replaced by a
placeholder (repeated names share one) and statement semicolons turned into line breaks; the
captured names are the interpolated names in order of first use. For token streams of any size
and nesting depth. -/
def C20_body_statement : Prop :=
  ∀ (ts : TTs) (fmt : Text) (cap : List Text), bodyFmt ts = .ok (fmt, cap) →
    pieces ts [] = .ok (nw fmt, cap)

theorem C20_body : C20_body_statement := by
  intro ts fmt cap h
  unfold bodyFmt at h
  cases hr : bodyRecurse ts 0 {} with
  | error e => rw [hr] at h; simp at h
  | ok st =>
    rw [hr] at h
    simp at h
    obtain ⟨hf, hc⟩ := h
    obtain ⟨p, hp, hflat⟩ := bodyRecurse_pieces ts 0 {} st hr
    have : nw fmt = p := by
      rw [← hf, nw_intercalate_nl, flatten_filter_nonempty]
      have : ({} : PSt).flat = [] := by decide
      rw [this] at hflat
      simpa [PSt.flat] using hflat
    rw [this, ← hc]
    simpa using hp

/-! ## `rfunction!`: the described function is the hand-written one -/

inductive ArgTy where
  | ident (t : Text)
  | interp (v : Text)
  deriving DecidableEq, Repr

def ArgTy.tokens : ArgTy → List TT
  | .ident t => [.ident t]
  | .interp v => [.punct '#', .ident v]

/-- a function description of the property's grammar -/
structure FnDesc where
  isPub : Bool
  isAsync : Bool
  name : Text
  args : List (Text × ArgTy)
  /-- tokens of the return type (path, generic, reference, interpolated); empty = none -/
  ret : List TT
  body : TTs

def argTokens : List (Text × ArgTy) → List TT
  | [] => []
  | [(n, ty)] => [.ident n, .punct ':'] ++ ty.tokens
  | (n, ty) :: a :: rest => [.ident n, .punct ':'] ++ ty.tokens ++ [.punct ','] ++ argTokens (a :: rest)

/-- what is written inside `rfunction!( .. )` -/
def unparse (d : FnDesc) : List TT :=
  (if d.isPub then [TT.ident cs!"pub"] else []) ++ (if d.isAsync then [TT.ident cs!"async"] else []) ++
  [TT.ident d.name, TT.group .paren (TTs.ofList (argTokens d.args))] ++
  (if d.ret.isEmpty then [] else [TT.punct '-', TT.punct '>'] ++ d.ret) ++ [TT.group .brace d.body]

/-- the equivalent hand-written item -/
def handWritten (d : FnDesc) : List TT :=
  (if d.isPub then [TT.ident cs!"pub"] else []) ++ (if d.isAsync then [TT.ident cs!"async"] else []) ++
  [TT.ident cs!"fn", TT.ident d.name, TT.group .paren (TTs.ofList (argTokens d.args))] ++
  (if d.ret.isEmpty then [] else [TT.punct '-', TT.punct '>'] ++ d.ret) ++ [TT.group .brace d.body]

theorem toList_ofList (l : List TT) : (TTs.ofList l).toList = l := by
  induction l with
  | nil => rfl
  | cons t r ih => simp [TTs.ofList, TTs.toList, ih]

theorem parseArgs2_argTokens (args : List (Text × ArgTy)) (fuel : Nat) (hf : fuel > args.length) :
    parseArgs2 fuel (argTokens args) = .ok (args.map fun (n, ty) => (n, ty.tokens)) := by
  induction args generalizing fuel with
  | nil => cases fuel with | zero => omega | succ f => simp [argTokens, parseArgs2]
  | cons a rest ih =>
    obtain ⟨n, ty⟩ := a
    cases fuel with
    | zero => omega
    | succ f =>
      cases rest with
      | nil => cases ty <;> simp [argTokens, ArgTy.tokens, parseArgs2]
      | cons b rest' =>
        have := ih f (by simp at hf ⊢; omega)
        cases ty <;> simp [argTokens, ArgTy.tokens, parseArgs2, this]

theorem argTokens_length (args : List (Text × ArgTy)) : (argTokens args).length ≥ args.length := by
  induction args with
  | nil => simp [argTokens]
  | cons a rest ih =>
    obtain ⟨n, ty⟩ := a
    cases rest with
    | nil => simp [argTokens]
    | cons b r => simp only [argTokens, List.length_append, List.length_cons] at ih ⊢; omega

theorem intercalateTT_argTokens (args : List (Text × ArgTy)) :
    renderFn.intercalateTT ((args.map fun (n, ty) => (n, ty.tokens)).map fun (n, ty) => [TT.ident n, TT.punct ':'] ++ ty) = argTokens args := by
  induction args with
  | nil => rfl
  | cons a rest ih =>
    obtain ⟨n, ty⟩ := a
    cases rest with
    | nil => simp [renderFn.intercalateTT, argTokens]
    | cons b r =>
      simp only [List.map_cons] at ih ⊢
      simp only [renderFn.intercalateTT, argTokens, ih]

def noBraceGroup (ts : List TT) : Prop := ∀ t ∈ ts, isBraceGroup t = false

theorem takeWhile_noBrace (ret : List TT) (h : noBraceGroup ret) (b : TTs) :
    (ret ++ [TT.group .brace b]).takeWhile (fun t => !isBraceGroup t) = ret ∧
    (ret ++ [TT.group .brace b]).dropWhile (fun t => !isBraceGroup t) = [TT.group .brace b] := by
  induction ret with
  | nil => simp [isBraceGroup]
  | cons t r ih =>
    have ht := h t (by simp)
    have := ih (fun x hx => h x (List.mem_cons_of_mem _ hx))
    simp [ht, this]

/-- **`rfunction!` round trip**: for every description of the grammar (any flags, any number of
arguments with identifier or interpolated types, any return-type tokens without a brace group,
any body) the macro recovers exactly the described parts, and the `mir::Function` it builds
renders to the hand-written item, token for token. -/
def C20_rfunction_statement : Prop :=
  ∀ (d : FnDesc), d.name ≠ cs!"async" → d.name ≠ cs!"pub" → noBraceGroup d.ret →
    ∃ parts, rfunctionParse (unparse d) = .ok parts ∧ renderFn parts = handWritten d

theorem C20_rfunction : C20_rfunction_statement := by
  intro d hn1 hn2 hret
  have hname : parseIntro (unparse d) false false =
      .ok (d.isAsync, d.isPub, .ident d.name, [TT.group .paren (TTs.ofList (argTokens d.args))] ++
        (if d.ret.isEmpty then [] else [TT.punct '-', TT.punct '>'] ++ d.ret) ++ [TT.group .brace d.body]) := by
    have e1 : (d.name == cs!"async") = false := by simpa using hn1
    have e2 : (d.name == cs!"pub") = false := by simpa using hn2
    unfold unparse
    cases d.isPub <;> cases d.isAsync <;> simp [parseIntro, e1, e2]
  have hargs := parseArgs2_argTokens d.args ((argTokens d.args).length + 1) (by have := argTokens_length d.args; omega)
  refine ⟨{ isAsync := d.isAsync, isPub := d.isPub, name := .ident d.name, args := d.args.map fun (n, ty) => (n, ty.tokens),
            ret := d.ret, body := some d.body }, ?_, ?_⟩
  · unfold rfunctionParse
    rw [hname]
    simp only [List.cons_append, List.nil_append, toList_ofList, hargs]
    by_cases he : d.ret.isEmpty = true
    · have : d.ret = [] := List.isEmpty_iff.mp he
      simp [he, this]
    · have he' : d.ret.isEmpty = false := by simpa using he
      have htw := takeWhile_noBrace d.ret hret d.body
      simp only [he', Bool.false_eq_true, if_false, List.cons_append, List.nil_append]
      simp [htw.1, htw.2]
  · simp only [renderFn, handWritten, intercalateTT_argTokens, List.isEmpty_iff]
    cases d.isPub <;> cases d.isAsync <;> simp

/-- non-vacuity: `pub async go(a: i32, b: #t) -> Result<#t, Error> { .. }` -/
example : noBraceGroup [TT.ident cs!"Result", .punct '<', .punct '#', .ident cs!"t", .punct ',', .ident cs!"Error", .punct '>'] := by
  intro t ht
  simp only [List.mem_cons, List.not_mem_nil, or_false] at ht
  rcases ht with h | h | h | h | h | h | h <;> subst h <;> rfl

/-- non-vacuity: a multi-line group with an unterminated trailing expression and a shared interpolation -/
example :
    let ts := TTs.ofList [.ident cs!"if", .ident cs!"c", .group .brace (TTs.ofList
      [.ident cs!"let", .ident cs!"a", .punct '=', .punct '#', .ident cs!"x", .punct ';', .ident cs!"a", .punct '+', .punct '#', .ident cs!"x"])]
    bodyFmt ts = .ok (cs!"if c {{\n    let a = {0}\n    a + {0}\n}}", [cs!"x"]) := by decide

end Ln
