import LnModel.Thm.C06
import LnModel.Thm.C01Extract
/-! C06 on the supported domain: the hypothesis "extraction succeeds" of `C06_operation_count` is
discharged by `C01_extractSpec_total`. -/
namespace Ln

/-- **on every document of D the extractor returns, and with exactly one HIR operation per (path, verb)** -/
theorem C06_operation_count_on_D (spec : Spec) (h : inD spec = true) :
    ∃ hir, extractSpec spec = .ok hir ∧ hir.operations.length = (spec.paths.map fun p => p.ops.length).sum := by
  obtain ⟨hir, hh⟩ := C01_extractSpec_total spec h
  exact ⟨hir, hh, C06_operation_count spec hir hh⟩

example : ∃ hir, extractSpec C01_inD_witness = .ok hir ∧ hir.operations.length = 2 := by
  obtain ⟨hir, h1, h2⟩ := C06_operation_count_on_D C01_inD_witness (by decide +kernel)
  exact ⟨hir, h1, by rw [h2]; decide +kernel⟩

end Ln
