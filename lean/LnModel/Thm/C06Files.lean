import LnModel.Thm.C01
import LnModel.Thm.C06
import LnModel.Thm.C12
import LnModel.Thm.C01Extract
/-! C06, continued — no file of a generation is written twice.

`C06_files_distinct` speaks about two operation names; `C12` and `C09` assume that every generated path has
one writer (`SingleWriters`). This file connects them through the pipeline model: the list of files a
generation writes has no duplicates as soon as the module stems of the schemas are pairwise distinct and
those of the operations are pairwise distinct - the index files `src/model/mod.rs`, `src/request/mod.rs`,
`src/lib.rs` and `src/serde.rs` can never be hit, because the sanitiser never returns the keyword `mod`
(`sanitize_ne_mod`) and the three directories are disjoint.

* `makeModelFile_stem`, `makeRequestFile_stem`, `makeExample_stem` — the stem of a model file is the
  sanitised schema name, that of a request module and of an example the sanitised snake-cased operation name;
* `C06_no_file_written_twice` — `emitFiles` returns a duplicate-free list. -/
namespace Ln

theorem assertValidIdent_res (s r : Text) (h : assertValidIdent s = .ok r) : r = s := by
  unfold assertValidIdent at h
  split at h
  · simp at h
  · split at h
    · simp at h
    · split at h
      · simp at h
      · split at h
        · simp at h
        · simpa using h.symm

theorem sanitize_ne_mod (s r : Text) (h : sanitize s = .ok r) : r ≠ cs!"mod" := by
  intro e
  subst e
  unfold sanitize at h
  simp only at h
  generalize regexFix (toSnake (rewriteNames s)) = s2 at h
  generalize hs3 : (if isRestricted s2 = true then s2 ++ ['_'] else s2) = s3 at h
  cases s3 with
  | nil => simp [digitPrefix] at h
  | cons c rest =>
    simp only [digitPrefix] at h
    have h4 := assertValidIdent_res _ _ h
    by_cases hd : c.isDigit = true
    · simp [hd] at h4
    · simp only [hd, Bool.false_eq_true, if_false] at h4
      rw [← h4] at hs3
      by_cases hr : isRestricted s2 = true
      · simp only [hr, if_true] at hs3
        have := congrArg List.getLast? hs3
        simp at this
      · simp only [hr, Bool.false_eq_true, if_false] at hs3
        subst hs3
        exact hr (by decide)

theorem makeModelFile_stem (schemas : SchemaTable) (cfg : Cfg) (key : Text) (r : Record) (f : ModelFile)
    (h : makeModelFile schemas cfg key r = .ok f) : schemaFile key = .ok f.stem := by
  unfold makeModelFile at h
  split at h
  · rename_i stem imps item h1 _ _
    simp only [Except.ok.injEq] at h
    subst h
    cases hs : schemaFile key with
    | ok x => rw [hs] at h1; simp only [liftP, Except.ok.injEq] at h1; rw [h1]
    | error e => rw [hs] at h1; simp [liftP] at h1
  all_goals simp at h

theorem makeRequestFile_stem (sec : Bool) (cfg : Cfg) (op : Operation) (f : RequestFile)
    (h : makeRequestFile sec cfg op = .ok f) : opFile op.name = .ok f.stem := by
  unfold makeRequestFile at h
  simp only at h
  split at h
  · rename_i stem _ _ _ _ _ _ _ h1 _ _ _ _ _ _ _
    split at h
    · simp only [Except.ok.injEq] at h
      subst h
      exact h1
    all_goals simp at h
  all_goals simp at h

theorem makeExample_stem (schemas : SchemaTable) (cfg : Cfg) (op : Operation) (e : ExampleSum)
    (h : makeExample schemas cfg op = .ok e) : opFile op.name = .ok e.stem := by
  unfold makeExample at h
  simp only at h
  split at h
  · simp at h
  · split at h
    · rename_i stem _ _ _ _ h1 _ _ _ _
      simp only [Except.ok.injEq] at h
      subst h
      cases hs : opFile op.name with
      | ok x => rw [hs] at h1; simp only [liftXP, Except.ok.injEq] at h1; rw [h1]
      | error e => rw [hs] at h1; simp [liftXP] at h1
    all_goals simp at h


/-! ## the file list of a generation has no duplicates -/

theorem mapE_mem_rev {α β ε : Type} (f : α → Except ε β) (l : List α) (r : List β) (h : mapE f l = .ok r)
    (b : β) (hb : b ∈ r) : ∃ a ∈ l, f a = .ok b := by
  induction l generalizing r with
  | nil => simp only [mapE, Except.ok.injEq] at h; subst h; cases hb
  | cons x xs ih =>
    simp only [mapE] at h
    cases hx : f x with
    | error e => rw [hx] at h; simp at h
    | ok y =>
      rw [hx] at h
      cases hr : mapE f xs with
      | error e => rw [hr] at h; simp at h
      | ok ys =>
        rw [hr] at h
        simp only [Except.ok.injEq] at h
        subst h
        rcases List.mem_cons.mp hb with rfl | h'
        · exact ⟨x, List.mem_cons_self .., hx⟩
        · obtain ⟨a, ha, hfa⟩ := ih ys hr h'
          exact ⟨a, List.mem_cons_of_mem _ ha, hfa⟩

theorem mapE_nodup {α β ε : Type} (f : α → Except ε β) (l : List α) (r : List β) (h : mapE f l = .ok r)
    (hp : l.Pairwise (fun a b => ∀ pa pb, f a = .ok pa → f b = .ok pb → pa ≠ pb)) : r.Nodup := by
  induction l generalizing r with
  | nil => simp only [mapE, Except.ok.injEq] at h; subst h; exact List.nodup_nil
  | cons x xs ih =>
    simp only [mapE] at h
    cases hx : f x with
    | error e => rw [hx] at h; simp at h
    | ok y =>
      rw [hx] at h
      cases hr : mapE f xs with
      | error e => rw [hr] at h; simp at h
      | ok ys =>
        rw [hr] at h
        simp only [Except.ok.injEq] at h
        subst h
        rw [List.pairwise_cons] at hp
        refine List.nodup_cons.mpr ⟨?_, ih ys hr hp.2⟩
        intro hy
        obtain ⟨a, ha, hfa⟩ := mapE_mem_rev f xs ys hr y hy
        exact hp.1 a ha y y hx hfa rfl

/-- where a generated path lies: the position of its group in the order in which `emitFiles` lists them -/
def pathKind (x : Text) : Nat :=
  if x = cs!"src/model/mod.rs" then 0
  else if (cs!"src/model/").isPrefixOf x then 1
  else if x = cs!"src/request/mod.rs" then 3
  else if (cs!"src/request/").isPrefixOf x then 2
  else if x = cs!"src/lib.rs" then 4
  else if x = cs!"src/serde.rs" then 5
  else if (cs!"examples/").isPrefixOf x then 6
  else 7

theorem pathKind_model (stem : Text) (h : stem ≠ cs!"mod") : pathKind (cs!"src/model/" ++ stem ++ cs!".rs") = 1 := by
  have hne : cs!"src/model/" ++ stem ++ cs!".rs" ≠ cs!"src/model/mod.rs" := by
    intro e
    have e' : cs!"src/model/" ++ (stem ++ cs!".rs") = cs!"src/model/" ++ (cs!"mod" ++ cs!".rs") := by
      rw [← List.append_assoc]; exact e
    exact h (List.append_cancel_right (List.append_cancel_left e'))
  unfold pathKind
  rw [if_neg hne]
  simp [List.isPrefixOf]

theorem pathKind_request (stem : Text) (h : stem ≠ cs!"mod") : pathKind (cs!"src/request/" ++ stem ++ cs!".rs") = 2 := by
  have hne : cs!"src/request/" ++ stem ++ cs!".rs" ≠ cs!"src/request/mod.rs" := by
    intro e
    have e' : cs!"src/request/" ++ (stem ++ cs!".rs") = cs!"src/request/" ++ (cs!"mod" ++ cs!".rs") := by
      rw [← List.append_assoc]; exact e
    exact h (List.append_cancel_right (List.append_cancel_left e'))
  unfold pathKind
  rw [if_neg (by simp), if_neg (by simp [List.isPrefixOf]), if_neg hne]
  simp [List.isPrefixOf]

theorem pathKind_example (stem : Text) : pathKind (cs!"examples/" ++ stem ++ cs!".rs") = 6 := by
  unfold pathKind
  simp [List.isPrefixOf]

theorem nodup_append_kind (l1 l2 : List Text) (k : Nat) (h1 : l1.Nodup) (h2 : l2.Nodup)
    (hl : ∀ a ∈ l1, pathKind a < k) (hr : ∀ b ∈ l2, k ≤ pathKind b) : (l1 ++ l2).Nodup := by
  refine List.nodup_append.mpr ⟨h1, h2, ?_⟩
  intro a ha b hb e
  subst e
  have := hl a ha
  have := hr a hb
  omega


/-- **no file of a generation is written twice**: when the module stems of the schemas are pairwise distinct
and those of the operations are pairwise distinct, the list of files `emitFiles` returns has no duplicates -
in particular no model, request module or example lands on an index file, on `lib.rs` or on `serde.rs`. -/
theorem C06_no_file_written_twice (hir : HirSpec) (cfg : Cfg) (files : List Text) (h : emitFiles hir cfg = .ok files)
    (hm : hir.schemas.Pairwise (fun a b => schemaFile a.1 ≠ schemaFile b.1))
    (ho : hir.operations.Pairwise (fun a b => opFile a.name ≠ opFile b.name)) : files.Nodup := by
  have mP : ∀ kv p, modelPath hir cfg kv = .ok p → ∃ stem, schemaFile kv.1 = .ok stem ∧ p = cs!"src/model/" ++ stem ++ cs!".rs" := by
    intro kv p hp
    unfold modelPath at hp
    cases hf : makeModelFile hir.schemas cfg kv.1 kv.2 with
    | error e => rw [hf] at hp; simp at hp
    | ok f => rw [hf] at hp; simp only [Except.ok.injEq] at hp; exact ⟨f.stem, makeModelFile_stem _ _ _ _ _ hf, hp.symm⟩
  have rP : ∀ op p, requestPath hir cfg op = .ok p → ∃ stem, opFile op.name = .ok stem ∧ p = cs!"src/request/" ++ stem ++ cs!".rs" := by
    intro op p hp
    unfold requestPath at hp
    cases hf : makeRequestFile (!hir.security.isEmpty) cfg op with
    | error e => rw [hf] at hp; simp at hp
    | ok f => rw [hf] at hp; simp only [Except.ok.injEq] at hp; exact ⟨f.stem, makeRequestFile_stem _ _ _ _ hf, hp.symm⟩
  have eP : ∀ op p, examplePath hir cfg op = .ok p → ∃ stem, opFile op.name = .ok stem ∧ p = cs!"examples/" ++ stem ++ cs!".rs" := by
    intro op p hp
    unfold examplePath at hp
    cases hf : makeExample hir.schemas cfg op with
    | error e => rw [hf] at hp; simp at hp
    | ok f => rw [hf] at hp; simp only [Except.ok.injEq] at hp; exact ⟨f.stem, makeExample_stem _ _ _ _ hf, hp.symm⟩
  have inj : ∀ (d a b : Text), d ++ a ++ cs!".rs" = d ++ b ++ cs!".rs" → a = b := by
    intro d a b e
    rw [List.append_assoc, List.append_assoc] at e
    exact List.append_cancel_right (List.append_cancel_left e)
  unfold emitFiles at h
  split at h
  · simp at h
  · rename_i modelFiles hmf
    split at h
    · simp at h
    · rename_i requestFiles hrq
      split at h
      · simp at h
      · simp at h
      · split at h
        · simp at h
        · rename_i exampleFiles hex
          simp only [Except.ok.injEq] at h
          subst h
          have nM : modelFiles.Nodup := by
            apply mapE_nodup _ _ _ hmf
            refine hm.imp ?_
            intro a b hab pa pb ha hb e
            obtain ⟨sa, hsa, rfl⟩ := mP a pa ha
            obtain ⟨sb, hsb, rfl⟩ := mP b pb hb
            exact hab (by rw [hsa, hsb, inj _ _ _ e])
          have nR : requestFiles.Nodup := by
            apply mapE_nodup _ _ _ hrq
            refine ho.imp ?_
            intro a b hab pa pb ha hb e
            obtain ⟨sa, hsa, rfl⟩ := rP a pa ha
            obtain ⟨sb, hsb, rfl⟩ := rP b pb hb
            exact hab (by rw [hsa, hsb, inj _ _ _ e])
          have nE : exampleFiles.Nodup := by
            by_cases hc : cfg.examples = true
            · simp only [hc, if_true] at hex
              apply mapE_nodup _ _ _ hex
              refine ho.imp ?_
              intro a b hab pa pb ha hb e
              obtain ⟨sa, hsa, rfl⟩ := eP a pa ha
              obtain ⟨sb, hsb, rfl⟩ := eP b pb hb
              exact hab (by rw [hsa, hsb, inj _ _ _ e])
            · simp only [hc, Bool.false_eq_true, if_false, Except.ok.injEq] at hex
              subst hex; exact List.nodup_nil
          have kM : ∀ x ∈ modelFiles, pathKind x = 1 := by
            intro x hx
            obtain ⟨kv, _, hkv⟩ := mapE_mem_rev _ _ _ hmf x hx
            obtain ⟨st, hst, rfl⟩ := mP kv x hkv
            exact pathKind_model st (sanitize_ne_mod _ _ hst)
          have kR : ∀ x ∈ requestFiles, pathKind x = 2 := by
            intro x hx
            obtain ⟨op, _, hop⟩ := mapE_mem_rev _ _ _ hrq x hx
            obtain ⟨st, hst, rfl⟩ := rP op x hop
            exact pathKind_request st (sanitize_ne_mod _ _ hst)
          have kE : ∀ x ∈ exampleFiles, pathKind x = 6 := by
            intro x hx
            by_cases hc : cfg.examples = true
            · simp only [hc, if_true] at hex
              obtain ⟨op, _, hop⟩ := mapE_mem_rev _ _ _ hex x hx
              obtain ⟨st, _, rfl⟩ := eP op x hop
              exact pathKind_example st
            · simp only [hc, Bool.false_eq_true, if_false, Except.ok.injEq] at hex
              subst hex; cases hx
          have k0 : pathKind cs!"src/model/mod.rs" = 0 := by decide
          have k3 : pathKind cs!"src/request/mod.rs" = 3 := by decide
          have k4 : pathKind cs!"src/lib.rs" = 4 := by decide
          have k5 : pathKind cs!"src/serde.rs" = 5 := by decide
          apply nodup_append_kind _ _ 6 _ nE _ (fun b hb => by rw [kE b hb]; exact Nat.le_refl _)
          · apply nodup_append_kind _ _ 5
            · apply nodup_append_kind _ _ 3
              · apply nodup_append_kind _ _ 2 _ nR _ (fun b hb => by rw [kR b hb]; exact Nat.le_refl _)
                · apply nodup_append_kind _ _ 1 (by simp) nM
                  · intro a ha; simp only [List.mem_singleton] at ha; subst ha; rw [k0]; decide
                  · intro b hb; rw [kM b hb]; exact Nat.le_refl _
                · intro a ha
                  simp only [List.mem_append, List.mem_singleton] at ha
                  rcases ha with rfl | ha
                  · rw [k0]; decide
                  · rw [kM a ha]; decide
              · simp [List.nodup_cons]
              · intro a ha
                simp only [List.mem_append, List.mem_singleton] at ha
                rcases ha with (rfl | ha) | ha
                · rw [k0]; decide
                · rw [kM a ha]; decide
                · rw [kR a ha]; decide
              · intro b hb
                simp only [List.mem_cons, List.not_mem_nil, or_false] at hb
                rcases hb with rfl | rfl
                · rw [k3]; exact Nat.le_refl _
                · rw [k4]; decide
            · split <;> simp
            · intro a ha
              simp only [List.mem_append, List.mem_singleton, List.mem_cons, List.not_mem_nil, or_false] at ha
              rcases ha with ((rfl | ha) | ha) | (rfl | rfl)
              · rw [k0]; decide
              · rw [kM a ha]; decide
              · rw [kR a ha]; decide
              · rw [k3]; decide
              · rw [k4]; decide
            · intro b hb
              split at hb
              · simp only [List.mem_singleton] at hb; subst hb; rw [k5]; exact Nat.le_refl _
              · cases hb
          · intro a ha
            simp only [List.mem_append, List.mem_singleton, List.mem_cons, List.not_mem_nil, or_false] at ha
            rcases ha with (((rfl | ha) | ha) | (rfl | rfl)) | ha
            · rw [k0]; decide
            · rw [kM a ha]; decide
            · rw [kR a ha]; decide
            · rw [k3]; decide
            · rw [k4]; decide
            · split at ha
              · simp only [List.mem_singleton] at ha; subst ha; rw [k5]; decide
              · cases ha


/-- a write list whose paths are pairwise distinct has one writer per path: with `C06_no_file_written_twice`
this discharges the hypothesis `SingleWriters` of C12's and C09's theorems for the pipeline's file list -/
theorem singleWriters_of_nodup (outs : List Write) (h : (outs.map (·.1)).Nodup) : SingleWriters outs := by
  intro p
  induction outs with
  | nil => simp [outsFor]
  | cons w ws ih =>
    simp only [List.map_cons, List.nodup_cons] at h
    have ihp := ih h.2
    simp only [outsFor, List.filter_cons] at ihp ⊢
    by_cases hw : (w.1 == p) = true
    · simp only [hw, if_true, List.map_cons, List.length_cons]
      have : ws.filter (fun w' => w'.1 == p) = [] := by
        rw [List.filter_eq_nil_iff]
        intro w' hw' hp
        apply h.1
        have e1 : w.1 = p := by simpa using hw
        have e2 : w'.1 = p := by simpa using hp
        rw [e1, ← e2]
        exact List.mem_map.mpr ⟨w', hw', rfl⟩
      simp [this]
    · simp only [hw, Bool.false_eq_true, if_false]
      exact ihp


/-- non-vacuity: the witness document of C01 (recursive model, list and map components, several operations)
meets both distinctness hypotheses, and its ten files are pairwise distinct -/
example : (match extractSpec C01_inD_witness with
    | .ok hir => decide (hir.schemas.Pairwise (fun a b => schemaFile a.1 ≠ schemaFile b.1)) &&
                 decide (hir.operations.Pairwise (fun a b => opFile a.name ≠ opFile b.name))
    | .error _ => false) = true := by decide +kernel

example : (match pipeline C01_inD_witness ⟨cs!"Acme", [], true⟩ with
    | .ok f => decide f.Nodup && f.length == 10 | .error _ => false) = true := by decide +kernel

end Ln
