import LnModel.Thm.C06Files
import LnModel.Thm.C06OnD
/-! C06, continued — the number of request modules, examples and model files of a generation.

`C06_operation_count` counts the HIR operations against the document; this file counts the files of the
pipeline model against the HIR: a generation writes exactly one request module per operation, exactly one
example per operation when examples are on and none otherwise, and exactly one model file per retained schema
(`C06_file_counts`), the counting being done by the path classifier `pathKind` over the whole file list, so
that nothing else in the list can be mistaken for one of them. -/
namespace Ln

theorem mapE_length {α β ε : Type} (f : α → Except ε β) (l : List α) (r : List β) (h : mapE f l = .ok r) :
    r.length = l.length := by
  induction l generalizing r with
  | nil => simp only [mapE, Except.ok.injEq] at h; subst h; rfl
  | cons x xs ih =>
    simp only [mapE] at h
    cases hx : f x with
    | error e => rw [hx] at h; simp at h
    | ok y =>
      rw [hx] at h
      cases hr : mapE f xs with
      | error e => rw [hr] at h; simp at h
      | ok ys =>
        rw [hr] at h
        simp only [Except.ok.injEq] at h
        subst h
        simp [ih ys hr]

/-- how many paths of a list fall into group `j` -/
def countKind (j : Nat) (l : List Text) : Nat := (l.filter fun x => pathKind x == j).length

theorem countKind_append (j : Nat) (a b : List Text) : countKind j (a ++ b) = countKind j a + countKind j b := by
  simp [countKind, List.filter_append]

theorem countKind_const (j k : Nat) (l : List Text) (h : ∀ x ∈ l, pathKind x = k) :
    countKind j l = if k = j then l.length else 0 := by
  induction l with
  | nil => simp [countKind]
  | cons x xs ih =>
    have hx := h x (List.mem_cons_self ..)
    have ih' := ih (fun y hy => h y (List.mem_cons_of_mem _ hy))
    simp only [countKind, List.filter_cons, hx] at ih' ⊢
    by_cases e : k = j
    · simp only [e, beq_self_eq_true, if_true, List.length_cons] at ih' ⊢; rw [ih']
    · have : (k == j) = false := by simpa using e
      simp only [this, Bool.false_eq_true, if_false, e] at ih' ⊢; exact ih'

/-- the shape of the file list: the two index files, `lib.rs`, possibly `serde.rs`, and three groups whose
members are classified as model files, request modules and examples, one per schema / operation -/
theorem emitFiles_shape (hir : HirSpec) (cfg : Cfg) (files : List Text) (h : emitFiles hir cfg = .ok files) :
    ∃ M R S E : List Text,
      files = [cs!"src/model/mod.rs"] ++ M ++ R ++ [cs!"src/request/mod.rs", cs!"src/lib.rs"] ++ S ++ E ∧
      (∀ x ∈ M, pathKind x = 1) ∧ (∀ x ∈ R, pathKind x = 2) ∧ (∀ x ∈ S, pathKind x = 5) ∧ (∀ x ∈ E, pathKind x = 6) ∧
      M.length = hir.schemas.length ∧ R.length = hir.operations.length ∧
      E.length = (if cfg.examples then hir.operations.length else 0) := by
  unfold emitFiles at h
  split at h
  · simp at h
  · rename_i modelFiles hmf
    split at h
    · simp at h
    · rename_i requestFiles hrq
      split at h
      · simp at h
      · simp at h
      · split at h
        · simp at h
        · rename_i exampleFiles hex
          simp only [Except.ok.injEq] at h
          refine ⟨modelFiles, requestFiles, (if needsSerde hir.schemas then [cs!"src/serde.rs"] else []), exampleFiles,
            h.symm, ?_, ?_, ?_, ?_, mapE_length _ _ _ hmf, mapE_length _ _ _ hrq, ?_⟩
          · intro x hx
            obtain ⟨kv, _, hkv⟩ := mapE_mem_rev _ _ _ hmf x hx
            unfold modelPath at hkv
            cases hf : makeModelFile hir.schemas cfg kv.1 kv.2 with
            | error e => rw [hf] at hkv; simp at hkv
            | ok f =>
              rw [hf] at hkv; simp only [Except.ok.injEq] at hkv; rw [← hkv]
              exact pathKind_model f.stem (sanitize_ne_mod _ _ (makeModelFile_stem _ _ _ _ _ hf))
          · intro x hx
            obtain ⟨op, _, hop⟩ := mapE_mem_rev _ _ _ hrq x hx
            unfold requestPath at hop
            cases hf : makeRequestFile (!hir.security.isEmpty) cfg op with
            | error e => rw [hf] at hop; simp at hop
            | ok f =>
              rw [hf] at hop; simp only [Except.ok.injEq] at hop; rw [← hop]
              exact pathKind_request f.stem (sanitize_ne_mod _ _ (makeRequestFile_stem _ _ _ _ hf))
          · intro x hx
            split at hx
            · simp only [List.mem_singleton] at hx; subst hx; decide
            · cases hx
          · intro x hx
            by_cases hc : cfg.examples = true
            · simp only [hc, if_true] at hex
              obtain ⟨op, _, hop⟩ := mapE_mem_rev _ _ _ hex x hx
              unfold examplePath at hop
              cases hf : makeExample hir.schemas cfg op with
              | error e => rw [hf] at hop; simp at hop
              | ok f => rw [hf] at hop; simp only [Except.ok.injEq] at hop; rw [← hop]; exact pathKind_example f.stem
            · simp only [hc, Bool.false_eq_true, if_false, Except.ok.injEq] at hex
              subst hex; cases hx
          · by_cases hc : cfg.examples = true
            · simp only [hc, if_true] at hex ⊢
              exact mapE_length _ _ _ hex
            · simp only [hc, Bool.false_eq_true, if_false, Except.ok.injEq] at hex ⊢
              subst hex; rfl

/-- **one request module per operation, one example per operation (when enabled), one model file per schema** -/
theorem C06_file_counts (hir : HirSpec) (cfg : Cfg) (files : List Text) (h : emitFiles hir cfg = .ok files) :
    countKind 2 files = hir.operations.length ∧
    countKind 6 files = (if cfg.examples then hir.operations.length else 0) ∧
    countKind 1 files = hir.schemas.length := by
  obtain ⟨M, R, S, E, rfl, kM, kR, kS, kE, lM, lR, lE⟩ := emitFiles_shape hir cfg files h
  have c0 : ∀ j, countKind j [cs!"src/model/mod.rs"] = if j = 0 then 1 else 0 := by
    intro j; rw [countKind_const j 0 _ (by intro x hx; simp only [List.mem_singleton] at hx; subst hx; decide)]
    by_cases e : 0 = j
    · subst e; simp
    · have : ¬ j = 0 := fun e' => e e'.symm
      simp [e, this]
  have c34 : ∀ j, j ≠ 3 → j ≠ 4 → countKind j [cs!"src/request/mod.rs", cs!"src/lib.rs"] = 0 := by
    intro j h3 h4
    have k3 : pathKind cs!"src/request/mod.rs" = 3 := by decide
    have k4 : pathKind cs!"src/lib.rs" = 4 := by decide
    simp only [countKind, List.filter_cons, List.filter_nil, k3, k4]
    have e3 : (3 == j) = false := by simpa using fun e => h3 e.symm
    have e4 : (4 == j) = false := by simpa using fun e => h4 e.symm
    simp [e3, e4]
  simp only [countKind_append, c0, countKind_const _ 1 M kM, countKind_const _ 2 R kR, countKind_const _ 5 S kS,
    countKind_const _ 6 E kE, c34 2 (by decide) (by decide), c34 6 (by decide) (by decide), c34 1 (by decide) (by decide)]
  refine ⟨?_, ?_, ?_⟩
  · simp [lR]
  · simp [lE]
  · simp [lM]


/-- **document to crate**: whenever `libninja gen` succeeds on a document, the crate has exactly one request
module - and, with examples on, exactly one example - per (path, verb) operation of the document -/
theorem C06_endpoints_equal_operations (spec : Spec) (cfg : Cfg) (files : List Text) (h : pipeline spec cfg = .ok files) :
    countKind 2 files = (spec.paths.map fun p => p.ops.length).sum ∧
    countKind 6 files = (if cfg.examples then (spec.paths.map fun p => p.ops.length).sum else 0) := by
  unfold pipeline at h
  cases hx : extractSpec spec with
  | error e => rw [hx] at h; simp at h
  | ok hir =>
    rw [hx] at h
    simp only at h
    obtain ⟨c2, c6, _⟩ := C06_file_counts hir cfg files h
    rw [c2, c6, C06_operation_count spec hir hx]
    exact ⟨rfl, rfl⟩

/-- non-vacuity: the C01 witness document (two operations) generates two request modules and two examples -/
example : (match pipeline C01_inD_witness ⟨cs!"Acme", [], true⟩ with
    | .ok f => countKind 2 f == 2 && countKind 6 f == 2 | .error _ => false) = true := by decide +kernel

end Ln
