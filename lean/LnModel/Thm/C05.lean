import LnModel.Extract
import LnModel.Emit.Interface
/-! # C05 — required inputs are mandatory arguments, optional ones setters, each once -/
namespace Ln

/-! ## the interface partitions the operation's inputs -/

/-- every input is either a mandatory argument or a setter, never both, never neither -/
theorem C05_partition (ps : List Param) (p : Param) :
    (p ∈ mandatory ps ↔ p ∈ ps ∧ p.optional = false) ∧ (p ∈ setters ps ↔ p ∈ ps ∧ p.optional = true) ∧
    ¬ (p ∈ mandatory ps ∧ p ∈ setters ps) := by
  simp only [mandatory, setters, List.mem_filter, Bool.not_eq_true', and_imp]
  refine ⟨trivial, trivial, ?_⟩
  rintro ⟨⟨_, h1⟩, ⟨_, h2⟩⟩
  rw [h1] at h2; simp at h2

/-- no input is dropped or duplicated: counts add up -/
theorem C05_counts (ps : List Param) : (mandatory ps).length + (setters ps).length = ps.length := by
  induction ps with
  | nil => rfl
  | cons p rest ih =>
    simp only [mandatory, setters, List.filter_cons] at ih ⊢
    cases p.optional <;> simp <;> omega

/-- the required-arguments struct is used exactly when there are more than three mandatory inputs -/
theorem C05_struct_rule (ps : List Param) : usesStruct ps = true ↔ (mandatory ps).length > 3 := by
  simp [usesStruct]

/-! ## requiredness is what the document says -/

/-- a parameter is a mandatory argument iff it is `required: true` or a path parameter -/
theorem C05_param_requiredness (spec : Spec) (p : OaParam) (q : Param)
    (h : extractParam spec (.item p) = .ok q) :
    q.name = p.name ∧ q.loc = p.loc ∧ q.optional = !(p.required || p.loc == .path) := by
  simp only [extractParam, resolveParam] at h
  split at h
  · simp at h
  · split at h
    · simp at h
    · simp at h; rw [← h]; simp

/-- a body property is optional iff it is nullable or not listed as required by the object that declares it -/
theorem C05_body_requiredness (name : Text) (param decl : Schema) :
    isOptional name param decl = (param.data.nullable || match requiredOf decl with | some req => !req.contains name | none => false) := by
  unfold isOptional
  cases param.data.nullable <;> cases requiredOf decl <;> simp

/-! ## nothing is dropped or duplicated on the way into the interface -/

theorem extractParams_length (spec : Spec) (l : List ParamRef) (qs : List Param)
    (h : extractParams spec l = .ok qs) : qs.length = l.length := by
  induction l generalizing qs with
  | nil => simp [extractParams] at h; rw [h]; rfl
  | cons p rest ih =>
    simp only [extractParams] at h
    split at h
    · rename_i a b ha hb; simp at h; rw [← h]; simp [ih b hb]
    · simp at h
    · simp at h

/-- `addIfNew` keeps every input already present and adds the new one iff its name is new -/
theorem addIfNew_spec (inputs : List Param) (p : Param) :
    (∀ q ∈ inputs, q ∈ addIfNew inputs p) ∧
    (p ∈ addIfNew inputs p ↔ p ∈ inputs ∨ ¬ inputs.any (fun q => q.name == p.name)) := by
  unfold addIfNew
  split
  · rename_i h; simp [h]
  · rename_i h
    refine ⟨fun q hq => List.mem_append_left _ hq, ?_⟩
    simp [h]

def namesNodup (ps : List Param) : Prop := (ps.map (·.name)).Nodup

/-- … and never creates a second input of the same name -/
theorem addIfNew_nodup (inputs : List Param) (p : Param) (h : namesNodup inputs) : namesNodup (addIfNew inputs p) := by
  unfold addIfNew
  split
  · exact h
  · rename_i hn
    simp only [namesNodup, List.map_append, List.map_cons, List.map_nil]
    rw [List.nodup_append]
    refine ⟨h, by simp, ?_⟩
    intro a ha b hb
    simp only [List.mem_singleton] at hb
    subst hb
    simp only [List.mem_map] at ha
    obtain ⟨q, hq, rfl⟩ := ha
    intro e
    apply hn
    simp only [List.any_eq_true]
    exact ⟨q, hq, by simp [e]⟩

theorem foldl_addIfNew_nodup (inputs extra : List Param) (h : namesNodup inputs) :
    namesNodup (extra.foldl addIfNew inputs) := by
  induction extra generalizing inputs with
  | nil => exact h
  | cons p rest ih => exact ih _ (addIfNew_nodup inputs p h)

theorem foldl_addIfNew_keeps (inputs extra : List Param) : ∀ q ∈ inputs, q ∈ extra.foldl addIfNew inputs := by
  induction extra generalizing inputs with
  | nil => intro q hq; exact hq
  | cons p rest ih => intro q hq; exact ih _ q ((addIfNew_spec inputs p).1 q hq)

/-- sorting the inputs by name neither drops nor duplicates any -/
theorem insertSortedP_perm (p : Param) (l : List Param) : (insertSortedP p l).Perm (p :: l) := by
  induction l with
  | nil => exact List.Perm.refl _
  | cons q rest ih =>
    simp only [insertSortedP]
    split
    · exact (List.Perm.cons q ih).trans (List.Perm.swap p q rest)
    · exact List.Perm.refl _

theorem C05_sort_perm (ps : List Param) : (sortParams ps).Perm ps := by
  induction ps with
  | nil => exact List.Perm.refl _
  | cons p rest ih =>
    simp only [sortParams, List.foldr_cons] at ih ⊢
    exact (insertSortedP_perm p _).trans (List.Perm.cons p ih)

/-- non-vacuity -/
example : usesStruct [⟨cs!"a", .string, .path, false⟩, ⟨cs!"b", .string, .query, false⟩, ⟨cs!"c", .string, .body, false⟩,
    ⟨cs!"d", .string, .header, false⟩, ⟨cs!"e", .string, .query, true⟩] = true := by decide

end Ln
