import LnModel.Lemmas.DomainNames
import LnModel.Treeshake
import LnModel.Pipeline
/-! C01, extraction half: on every document of the supported domain (`inD`, `LnModel/Domain.lean`) the
extractor returns a HIR -- none of its panic sites (unresolved or property-level references, missing
schemas, missing success responses, slices out of range, parameters without schema, unresolved
bodies / responses / security schemes, record names that are not insertable) is reached and none of
its unguarded recursions runs out of fuel. -/
namespace Ln

theorem responseName_nameP {n : Text} (h1 : n.all (fun c => isAlnum c || isDelim c) = true) (h2 : n.any isAlnum = true) :
    NameP (toPascal n ++ cs!"Response") := by
  have hresp : ∀ c ∈ cs!"Response", isAlnum c = true := by
    intro c hc
    simp only [List.mem_cons, List.not_mem_nil, or_false] at hc
    rcases hc with h | h | h | h | h | h | h | h <;> subst h <;> decide
  refine nameP_append (pascalLike_nameP (toPascal_like ?_ ?_)) hresp
  · intro c hc hd
    have := (List.all_eq_true.mp h1) c hc
    simpa [hd] using this
  · obtain ⟨c, hc, ha⟩ := List.any_eq_true.mp h2
    exact ⟨c, hc, isAlnum_not_delim ha⟩

theorem extractOperation_total {spec : Spec} {item : OaPath} {op : OaOperation} (hir : HirSpec)
    (h : opOk spec item op = true) : ∃ h', extractOperation spec item op hir = .ok h' := by
  simp only [opOk, Bool.and_eq_true] at h
  obtain ⟨⟨⟨⟨hname, hp1⟩, hp2⟩, hbody⟩, hresp⟩ := h
  unfold opNameOk at hname
  unfold extractOperation
  cases hm : makeName op.opId op.method item.template with
  | error e => rw [hm] at hname; exact absurd hname (by simp)
  | ok name =>
    rw [hm] at hname
    simp only [Bool.and_eq_true] at hname
    obtain ⟨ps, hps⟩ := extractParameters_total hp1 hp2 hbody
    simp only [hps]
    unfold responseOk at hresp
    cases hs : successOf op with
    | none => rw [hs] at hresp; exact absurd hresp (by simp)
    | some resp =>
      rw [hs] at hresp
      simp only at hresp
      cases hj : responseJson spec resp with
      | none => rw [hj] at hresp; exact absurd hresp (by simp)
      | some j =>
        rw [hj] at hresp
        rw [getRes_eq hs hj]
        cases j with
        | none => exact ⟨_, rfl⟩
        | some r =>
          cases r with
          | ref t =>
            simp only at hresp ⊢
            obtain ⟨ty, hty⟩ := tyOfRef_total hresp
            rw [hty]; exact ⟨_, rfl⟩
          | item res =>
            simp only [Bool.and_eq_true] at hresp ⊢
            obtain ⟨⟨hso, hch⟩, hto⟩ := hresp
            obtain ⟨h1, hh1⟩ := extractSchema_total spec res _ hir (responseName_nameP hname.1 hname.2) hso
            rw [hh1]
            simp only
            obtain ⟨b, hb⟩ := Option.isSome_iff_exists.mp hch
            have hprim : prim spec res = .ok b := isPrimitive_of_chain spec DEPTH res b hb FUEL depth_le_fuel
            obtain ⟨ty, hty⟩ := tyOf_total hto
            rw [hprim]
            cases b with
            | true => simp only [hty]; exact ⟨_, rfl⟩
            | false =>
              simp only
              split
              · simp only [hty]; exact ⟨_, rfl⟩
              · exact ⟨_, rfl⟩

theorem extractOps_total {spec : Spec} {item : OaPath} : ∀ (ops : List OaOperation) (hir : HirSpec),
    opsOk spec item ops = true → ∃ h', extractOps spec item ops hir = .ok h' := by
  intro ops
  induction ops with
  | nil => intro hir _; exact ⟨_, rfl⟩
  | cons op rest ih =>
    intro hir h
    simp only [opsOk, Bool.and_eq_true] at h
    obtain ⟨h1, hh1⟩ := extractOperation_total hir h.1
    simp only [extractOps, hh1]
    exact ih h1 h.2

theorem extractPaths_total {spec : Spec} : ∀ (ps : List OaPath) (hir : HirSpec),
    pathsOk spec ps = true → ∃ h', extractPaths spec ps hir = .ok h' := by
  intro ps
  induction ps with
  | nil => intro hir _; exact ⟨_, rfl⟩
  | cons p rest ih =>
    intro hir h
    simp only [pathsOk, Bool.and_eq_true] at h
    obtain ⟨h1, hh1⟩ := extractOps_total p.ops hir h.1
    simp only [extractPaths, hh1]
    exact ih h1 h.2

theorem extractSecurity_total {spec : Spec} : ∀ reqs : List (List Text),
    securityOk spec reqs = true → ∃ ss, extractSecurity spec reqs = .ok ss := by
  intro reqs
  induction reqs with
  | nil => intro _; exact ⟨_, rfl⟩
  | cons req rest ih =>
    intro h
    simp only [securityOk, Bool.and_eq_true] at h
    obtain ⟨tail, htail⟩ := ih h.2
    simp only [extractSecurity, htail]
    cases req with
    | nil => exact ⟨_, rfl⟩
    | cons n more =>
      have h1 := h.1
      simp only [requirementOk] at h1
      simp only
      split <;> first | exact ⟨_, rfl⟩ | (simp_all)

/-- **C01 (extraction).** Every document of the supported domain is turned into a HIR. -/
theorem C01_extract_total (spec : Spec) (h : inD spec = true) : ∃ hir, extractWithoutTreeshake spec = .ok hir := by
  simp only [inD, Bool.and_eq_true] at h
  obtain ⟨⟨hc, hp⟩, hs⟩ := h
  obtain ⟨h1, hh1⟩ := extractComponents_total spec spec.components {} hc
  obtain ⟨h2, hh2⟩ := extractPaths_total spec.paths h1 hp
  obtain ⟨sec, hsec⟩ := extractSecurity_total spec.security hs
  simp only [extractWithoutTreeshake, hh1, hh2, hsec]
  exact ⟨_, rfl⟩

/-- the same for `extract_spec` (extraction followed by tree shaking, which is a total function) -/
theorem C01_extractSpec_total (spec : Spec) (h : inD spec = true) : ∃ hir, extractSpec spec = .ok hir := by
  obtain ⟨hir, hh⟩ := C01_extract_total spec h
  exact ⟨treeshake hir, by simp only [extractSpec, hh]⟩

theorem mapE_error_mem {α β ε : Type} (f : α → Except ε β) : ∀ (l : List α) (e : ε), mapE f l = .error e → ∃ x ∈ l, f x = .error e := by
  intro l
  induction l with
  | nil => intro e h; simp [mapE] at h
  | cons a rest ih =>
    intro e h
    simp only [mapE] at h
    cases ha : f a with
    | error e' => rw [ha] at h; simp at h; exact ⟨a, by simp, by rw [ha, h]⟩
    | ok b =>
      rw [ha] at h
      cases hr : mapE f rest with
      | error e' => rw [hr] at h; simp at h; obtain ⟨x, hx, hfx⟩ := ih e' hr; exact ⟨x, by simp [hx], by rw [hfx, h]⟩
      | ok bs => rw [hr] at h; simp at h


/-- a failing writer never reports an extraction failure -/
theorem emitFiles_error_not_extract (hir : HirSpec) (cfg : Cfg) (x : PipeX) (h : emitFiles hir cfg = .error x) :
    ∀ e, x ≠ .extract e := by
  intro e0
  unfold emitFiles at h
  split at h
  · rename_i e he
    simp only [Except.error.injEq] at h; subst h
    obtain ⟨kv, _, hk⟩ := mapE_error_mem _ _ _ he
    unfold modelPath at hk
    split at hk
    · simp at hk
    · simp only [Except.error.injEq] at hk; subst hk; simp
  · split at h
    · rename_i e he
      simp only [Except.error.injEq] at h; subst h
      obtain ⟨op, _, hk⟩ := mapE_error_mem _ _ _ he
      unfold requestPath at hk
      split at hk
      · simp at hk
      · simp only [Except.error.injEq] at hk; subst hk; simp
    · split at h
      · simp only [Except.error.injEq] at h; subst h; simp
      · simp only [Except.error.injEq] at h; subst h; simp
      · split at h
        · rename_i e he
          simp only [Except.error.injEq] at h; subst h
          split at he
          · obtain ⟨op, _, hk⟩ := mapE_error_mem _ _ _ he
            unfold examplePath at hk
            split at hk
            · simp at hk
            · simp only [Except.error.injEq] at hk; subst hk; simp
          · simp at he
        · simp at h

/-- **on D a failing run of the pipeline model is never a failure of the extractor**: whatever stops generation
on a document of `inD` is one of the writers' panic sites (whose obligations `emitFiles_total` names) -/
theorem C01_no_extract_failure (spec : Spec) (cfg : Cfg) (h : inD spec = true) (e : XPanic) :
    pipeline spec cfg ≠ .error (.extract e) := by
  obtain ⟨hir, hh⟩ := C01_extractSpec_total spec h
  unfold pipeline
  rw [hh]
  intro hc
  exact emitFiles_error_not_extract hir cfg _ hc e rfl

/-! ### the hypothesis is satisfiable, and excludes what it should -/

private def strS : Schema := .mk {} (.str [] [])
private def refTo (n : Text) : SRef := .ref (cs!"#/components/schemas/" ++ n)

/-- a recursive model, a list component, an enum, an allOf body with a referenced member, parameters on the
path item and the operation, an inline list response, a referenced response, api-key security -/
def C01_inD_witness : Spec :=
  { (default : Spec) with
    schemes := [(cs!"key", .apiKey .header cs!"X-Key")],
    security := [[cs!"key"], []],
    components := [
      (cs!"Pet", .item (.mk {} (.obj (.cons cs!"name" (.item strS) (.cons cs!"friends" (.item (.mk {} (.arr (.some (refTo cs!"Pet"))))) (.cons cs!"status" (refTo cs!"Status") .nil))) [cs!"name"] .absent))),
      (cs!"Status", .item (.mk {} (.str [] [cs!"new", cs!"sold"]))),
      (cs!"Pets", .item (.mk {} (.arr (.some (refTo cs!"Pet"))))),
      (cs!"Names", .item (.mk {} (.arr (.some (.item strS))))),
      (cs!"Tagged", .item (.mk {} (.allOf (.cons (refTo cs!"Pet") (.cons (.item (.mk {} (.obj (.cons cs!"tag" (.item strS) .nil) [] .absent))) .nil))))),
      (cs!"Labels", .item (.mk {} (.obj .nil [] (.schema (refTo cs!"Labels")))))],
    paths := [
      ⟨cs!"/pets/{pet_id}", [.item ⟨cs!"pet_id", .path, true, some (.item strS)⟩],
        [⟨cs!"get", none, none, none, none, [.item ⟨cs!"verbose", .query, false, some (.item (.mk {} .bool))⟩], none,
           [(some 200, .item (some (refTo cs!"Pet")))]⟩,
         ⟨cs!"put", some cs!"pets.update", none, none, none, [], some (.item (some (refTo cs!"Tagged"))),
           [(some 404, .item none), (some 201, .item (some (.item (.mk {} (.arr (.some (.item (.mk {} (.obj (.cons cs!"id" (.item strS) .nil) [] .absent)))))))))]⟩]⟩] }

example : inD C01_inD_witness = true := by decide +kernel

/-- ... and on it the extractor indeed returns (an instance of the theorem, evaluated) -/
example : (match extractWithoutTreeshake C01_inD_witness with | .ok h => h.operations.length == 2 && h.schemas.length == 7 | .error _ => false) = true := by
  decide +kernel

/-- a list component of itself is outside D (the real extractor overflows its stack on it: recorded finding) -/
example : inD { (default : Spec) with components := [(cs!"Loop", .item (.mk {} (.arr (.some (refTo cs!"Loop")))))] } = false := by
  decide +kernel

/-- an unresolved reference, a missing success response and a lower-case component name are outside D -/
example : inD { (default : Spec) with components := [(cs!"A", .item (.mk {} (.arr (.some (refTo cs!"Missing")))))] } = false := by decide +kernel
example : inD { (default : Spec) with paths := [⟨cs!"/a", [], [⟨cs!"get", none, none, none, none, [], none, [(some 500, .item none)]⟩]⟩] } = false := by decide +kernel
example : inD { (default : Spec) with components := [(cs!"pet", .item strS)] } = false := by decide +kernel

end Ln
