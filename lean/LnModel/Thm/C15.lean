import LnModel.Treeshake
import LnModel.Emit.Lib
/-! # C15 — client targets the spec's server, or the documented environment override -/
namespace Ln

/-- exactly one server: the base URL is that URL verbatim -/
theorem C15_single (s : OaServer) (service : Text) :
    serverUrl (extractServers [s]) service = .literal s.url := by
  simp [extractServers, serverUrl, serverStrategy]

/-- no server: the base URL is read from `<SERVICE>_BASE_URL` -/
theorem C15_none (service : Text) :
    serverUrl (extractServers []) service = .envVar (qualifiedEnvVar service cs!"base_url") := by
  simp [extractServers, extractServers.go, serverUrl, serverStrategy]

/-- Full strength for several servers: the base URL is read from `<SERVICE>_ENV`. -/
def C15_several_statement : Prop :=
  ∀ (servers : List OaServer) (service : Text), servers.length ≥ 2 →
    serverUrl (extractServers servers) service = .envVar (qualifiedEnvVar service cs!"env")

/-! Proved part: every server description carries a recognised keyword and the keywords are
pairwise distinct. -/

theorem btInsert_keys_mem {α : Type} (k : Text) (v : α) (l : List (Text × α)) (x : Text) :
    x ∈ (btInsert k v l).map (·.1) ↔ x = k ∨ x ∈ l.map (·.1) := by
  induction l with
  | nil => simp [btInsert]
  | cons e rest ih =>
    obtain ⟨k', v'⟩ := e
    simp only [btInsert]
    split
    · rename_i h
      have : k = k' := by simpa using h
      subst this
      simp
    · split
      · simp
      · simp only [List.map_cons, List.mem_cons, ih]
        constructor
        · rintro (h | h | h)
          · exact Or.inr (Or.inl h)
          · exact Or.inl h
          · exact Or.inr (Or.inr h)
        · rintro (h | h | h)
          · exact Or.inr (Or.inl h)
          · exact Or.inl h
          · exact Or.inr (Or.inr h)

theorem btInsert_length_new {α : Type} (k : Text) (v : α) (l : List (Text × α))
    (h : k ∉ l.map (·.1)) : (btInsert k v l).length = l.length + 1 := by
  induction l with
  | nil => simp [btInsert]
  | cons e rest ih =>
    obtain ⟨k', v'⟩ := e
    simp only [List.map_cons, List.mem_cons, not_or] at h
    simp only [btInsert]
    have hne : (k == k') = false := by simpa using h.1
    simp only [hne, Bool.false_eq_true, if_false]
    split
    · simp
    · simp [ih h.2]

theorem go_length (servers : List OaServer) (acc : List (Text × Text))
    (hkw : ∀ s ∈ servers, (serverKeyword s.desc).isSome = true)
    (hdist : (servers.map fun s => serverKeyword s.desc).Nodup)
    (hdisj : ∀ s ∈ servers, ∀ k, serverKeyword s.desc = some k → k ∉ acc.map (·.1)) :
    (extractServers.go servers acc).length = acc.length + servers.length := by
  induction servers generalizing acc with
  | nil => simp [extractServers.go]
  | cons s rest ih =>
    simp only [extractServers.go]
    cases hk : serverKeyword s.desc with
    | none => have := hkw s (by simp); simp [hk] at this
    | some k =>
      simp only
      have hnew := hdisj s (by simp) k hk
      rw [ih]
      · rw [btInsert_length_new k s.url acc hnew]; simp; omega
      · intro x hx; exact hkw x (List.mem_cons_of_mem _ hx)
      · simp only [List.map_cons, List.nodup_cons] at hdist; exact hdist.2
      · intro x hx k' hk' hmem
        rw [btInsert_keys_mem] at hmem
        rcases hmem with h | h
        · subst h
          simp only [List.map_cons, List.nodup_cons, List.mem_map] at hdist
          exact hdist.1 ⟨x, hx, by rw [hk', hk]⟩
        · exact hdisj x (List.mem_cons_of_mem _ hx) k' hk' h

theorem C15_several_partial (servers : List OaServer) (service : Text) (hlen : servers.length ≥ 2)
    (hkw : ∀ s ∈ servers, (serverKeyword s.desc).isSome = true)
    (hdist : (servers.map fun s => serverKeyword s.desc).Nodup) :
    serverUrl (extractServers servers) service = .envVar (qualifiedEnvVar service cs!"env") := by
  have hl : (extractServers servers).length = servers.length := by
    unfold extractServers
    split
    · rename_i s; simp at hlen
    · have := go_length servers [] hkw hdist (by intro s _ k _; simp)
      simpa using this
  unfold serverUrl serverStrategy
  match hs : extractServers servers with
  | [] => rw [hs] at hl; simp at hl; omega
  | [(a, u)] => rw [hs] at hl; simp at hl; omega
  | _ :: _ :: _ => rfl

/-- The unchanged code does not satisfy the full statement: servers without a recognised
keyword make the client read `<SERVICE>_BASE_URL`; two servers sharing a keyword collapse
into a literal URL. -/
theorem C15_several_counterexample : ¬ C15_several_statement := by
  intro h
  have := h [⟨cs!"https://eu.example.com", some cs!"EU region"⟩, ⟨cs!"https://us.example.com", some cs!"US region"⟩] cs!"Acme" (by decide)
  revert this
  decide

theorem C15_shared_keyword_witness :
    serverUrl (extractServers [⟨cs!"https://eu.example.com", some cs!"Production EU"⟩, ⟨cs!"https://us.example.com", some cs!"Production US"⟩]) cs!"Acme"
      = .literal cs!"https://us.example.com" := by decide

/-- non-vacuity of the partial theorem -/
example : let servers : List OaServer := [⟨cs!"https://a", some cs!"Production"⟩, ⟨cs!"https://b", some cs!"the sandbox"⟩]
    (∀ s ∈ servers, (serverKeyword s.desc).isSome = true) ∧ (servers.map fun s => serverKeyword s.desc).Nodup := by decide

end Ln
