import LnModel.Emit.Request
/-! # C18 — extra derives reach every generated data type and never break output -/
namespace Ln

/-- the user derives that reach the output: the tokenisable ones, in the given order -/
theorem C18_user_derives (cfg : Cfg) : userDerives cfg = cfg.derives.filterMap id := rfl

/-- an un-tokenisable derive string (a `none` entry) anywhere in the list changes nothing -/
theorem C18_untokenisable_ignored (name : Text) (ex : Bool) (pre post : List (Option Text)) :
    userDerives { name := name, derives := pre ++ [none] ++ post, examples := ex } =
    userDerives { name := name, derives := pre ++ post, examples := ex } := by
  simp [userDerives]

/-- model struct: built-ins first and complete, then `Default` when derivable, then the user derives in order -/
theorem C18_struct (schemas : SchemaTable) (cfg : Cfg) (n : Text) (nu : Bool) (fs : List (Text × HirField)) (d : Option Text)
    (name : Text) (ds : List Text) (doc : Option Text) (fields : List FieldSum) (deref : Option (Text × Text))
    (h : makeItem schemas cfg (.struct n nu fs d) = .ok (.struct name ds doc fields deref)) :
    ds = builtinStructDerives ++ userDerives cfg ∨ ds = builtinStructDerives ++ [cs!"Default"] ++ userDerives cfg := by
  simp only [makeItem] at h
  split at h
  · rename_i dflt ident fs' _ _ _
    split at h
    · simp at h
    · simp at h
      obtain ⟨_, hds, _⟩ := h
      rw [← hds]
      cases dflt <;> simp
  all_goals simp at h

/-- newtype -/
theorem C18_newtype (schemas : SchemaTable) (cfg : Cfg) (n : Text) (fs : List HirField) (d : Option Text)
    (name : Text) (ds : List Text) (tys : List Text)
    (doc : Option Text) (h : makeItem schemas cfg (.newtype n fs d) = .ok (.newtype name ds doc tys)) :
    ds = builtinStructDerives ++ userDerives cfg ∨ ds = builtinStructDerives ++ [cs!"Default"] ++ userDerives cfg := by
  simp only [makeItem] at h
  split at h
  · rename_i ident tys' dflt _ _ _
    simp at h
    obtain ⟨_, hds, _, _⟩ := h
    rw [← hds]
    cases dflt <;> simp
  all_goals simp at h

/-- enum -/
theorem C18_enum (schemas : SchemaTable) (cfg : Cfg) (n : Text) (vs : List Variant) (d : Option Text)
    (name : Text) (ds : List Text) (doc : Option Text) (variants : List (Text × Option Text))
    (h : makeItem schemas cfg (.enum n vs d) = .ok (.enum name ds doc variants)) :
    ds = builtinEnumDerives ++ userDerives cfg := by
  simp only [makeItem] at h
  split at h
  · simp at h; exact h.2.1.symm
  all_goals simp at h

/-- request struct -/
theorem C18_request_struct (sec : Bool) (cfg : Cfg) (op : Operation) (rf : RequestFile)
    (h : makeRequestFile sec cfg op = .ok rf) : rf.derives = builtinStructDerives ++ userDerives cfg := by
  unfold makeRequestFile at h
  simp only at h
  split at h
  · split at h
    · simp at h; rw [← h]
    all_goals simp at h
  all_goals simp at h

/-- built-in derives are never lost, whatever the configuration -/
theorem C18_builtins_kept (cfg : Cfg) :
    (∀ b ∈ builtinStructDerives, b ∈ builtinStructDerives ++ userDerives cfg) ∧
    (∀ b ∈ builtinEnumDerives, b ∈ builtinEnumDerives ++ userDerives cfg) := by
  constructor <;> intro b hb <;> exact List.mem_append_left _ hb

/-- the rest of the output does not depend on the derive list: two configurations that differ only in
their derives give the same fields, types, attributes and docs for every record -/
theorem C18_rest_unaffected (schemas : SchemaTable) (n : Text) (nu : Bool) (fs : List (Text × HirField)) (d : Option Text)
    (cfg cfg' : Cfg) (name name' : Text) (ds ds' : List Text) (doc doc' : Option Text) (fields fields' : List FieldSum)
    (deref deref' : Option (Text × Text))
    (h : makeItem schemas cfg (.struct n nu fs d) = .ok (.struct name ds doc fields deref))
    (h' : makeItem schemas cfg' (.struct n nu fs d) = .ok (.struct name' ds' doc' fields' deref')) :
    name = name' ∧ doc = doc' ∧ fields = fields' ∧ deref = deref' := by
  simp only [makeItem] at h h'
  split at h
  · rename_i dflt ident fsum hd hi hf
    rw [hd, hi, hf] at h'
    simp only at h'
    split at h
    · simp at h
    · rename_i dr hdr
      rw [hdr] at h'
      simp at h h'
      obtain ⟨h1, _, h3, h4, h5⟩ := h
      obtain ⟨h1', _, h3', h4', h5'⟩ := h'
      exact ⟨by rw [← h1, ← h1'], by rw [← h3, ← h3'], by rw [← h4, ← h4'], by rw [← h5, ← h5']⟩
  all_goals simp at h

/-- non-vacuity -/
example : userDerives { name := cs!"X", derives := [some cs!"PartialEq", none, some cs!"oasgen::OaSchema", some cs!"PartialEq"] } =
    [cs!"PartialEq", cs!"oasgen::OaSchema", cs!"PartialEq"] := by decide

end Ln
