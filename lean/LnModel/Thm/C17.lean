import LnModel.Extract
/-! # C17 — spec documentation reaches the generated doc comments intact

What libninja itself decides: which pieces make up an item's documentation, their order,
trimming, de-duplication, and which item they are attached to. How a doc string is escaped
into and out of Rust source (`quote!` string literals, `prettyplease`) is trusted and
validated by the differential run on adversarial text. -/
namespace Ln

/-- the documented composition of a method's doc comment -/
def docPieces (op : OaOperation) : List Text :=
  (match op.summary with | some s => if s.isEmpty then [] else [s] | none => []) ++
  (match op.desc with
   | some d => if d.isEmpty then [] else if op.summary == some d then [] else [d]
   | none => []) ++
  (match op.extDocs with | some u => [cs!"See endpoint docs at <" ++ u ++ cs!">."] | none => [])

/-- summary, description (unless equal to the summary) and the external-docs link, in that
order, verbatim, separated by blank lines; no doc comment when there is nothing to say -/
theorem C17_method_doc (op : OaOperation) :
    extractDoc op = if (docPieces op).isEmpty then none else some (intercalate ['\n', '\n'] (docPieces op)) := by
  unfold extractDoc docPieces
  cases hs : op.summary with
  | none =>
    cases hd : op.desc with
    | none => cases op.extDocs <;> simp
    | some d =>
      by_cases hde : d.isEmpty = true
      · cases op.extDocs <;> simp [hde]
      · cases op.extDocs <;> simp [hde]
  | some s =>
    by_cases hse : s.isEmpty = true
    · cases hd : op.desc with
      | none => cases op.extDocs <;> simp [hse]
      | some d =>
        by_cases hde : d.isEmpty = true
        · cases op.extDocs <;> simp [hse, hde]
        · have hne : ¬ (s = d) := by
            intro e; subst e; exact hde hse
          have hne' : ¬ (d = s) := fun e => hne e.symm
          cases op.extDocs <;> simp [hse, hde, hne, hne']
    · cases hd : op.desc with
      | none => cases op.extDocs <;> simp [hse]
      | some d =>
        by_cases hde : d.isEmpty = true
        · cases op.extDocs <;> simp [hse, hde]
        · by_cases heq : d = s
          · subst heq; cases op.extDocs <;> simp [hse]
          · have heq' : ¬ (s = d) := fun e => heq e.symm
            cases op.extDocs <;> simp [hse, hde, heq, heq']

/-- the doc of an operation is attached to that operation's HIR entry and to no other: the entry
appended for `op` carries `extractDoc op` -/
theorem C17_doc_attached (spec : Spec) (item : OaPath) (op : OaOperation) (hir hir' : HirSpec)
    (h : extractOperation spec item op hir = .ok hir') :
    ∃ o, hir'.operations = hir.operations ++ [o] ∧ o.doc = extractDoc op ∧ o.path = item.template ∧ o.method = op.method := by
  unfold extractOperation at h
  split at h
  · simp at h
  · split at h
    · simp at h
    · simp only at h
      -- every successful branch ends in `finish`, which appends `mkOp ret`
      have key : ∀ (h0 h1 : HirSpec) (ret : Ty) (nm : Text) (ps : List Param),
          h0.operations = hir.operations →
          (Except.ok { h0 with operations := h0.operations ++ [(⟨nm, extractDoc op, ps, ret, item.template, op.method⟩ : Operation)] } : X HirSpec) = .ok h1 →
          ∃ o, h1.operations = hir.operations ++ [o] ∧ o.doc = extractDoc op ∧ o.path = item.template ∧ o.method = op.method := by
        intro h0 h1 ret nm ps he hk
        simp at hk
        exact ⟨_, by rw [← hk, ← he], rfl, rfl, rfl⟩
      split at h
      · simp at h
      · exact key hir hir' _ _ _ rfl h
      · split at h
        · simp at h
        · exact key hir hir' _ _ _ rfl h
      · split at h
        · simp at h
        · rename_i hx hs
          have hops : hx.operations = hir.operations := by
            -- extracting the inline response schema does not touch operations
            clear h
            revert hs
            generalize hn : (toPascal _ ++ cs!"Response") = rn
            intro hs
            have : ∀ (name : Text) (s : Schema) (a b : HirSpec), extractSchema spec name s a = .ok b → b.operations = a.operations := by
              intro name s a b hab
              fun_induction extractSchema spec name s a <;>
                first
                | (simp at hab; done)
                | (unfold insertSchema at hab; (repeat' split at hab) <;> first | (simp at hab; done) | (simp at hab; rw [← hab]))
                | (unfold extractNewtype insertSchema at hab; (repeat' split at hab) <;> first | (simp at hab; done) | (simp at hab; rw [← hab]))
                | (unfold extractAllOf insertSchema at hab; (repeat' split at hab) <;> first | (simp at hab; done) | (simp at hab; rw [← hab]))
                | (rename_i ih; exact ih hab)
            exact this _ _ _ _ hs
          split at h
          · simp at h
          · split at h
            · simp at h
            · exact key hx hir' _ _ _ hops h
          · split at h
            · split at h
              · simp at h
              · exact key hx hir' _ _ _ hops h
            · exact key hx hir' _ _ _ hops h

/-- a property's field doc is the (trimmed) description of the property's own schema -/
theorem C17_field_doc (spec : Spec) (r : SRef) (f : HirField) (s : Schema)
    (hr : resolve spec r = .ok s) (h : createField spec r = .ok f) : f.doc = s.data.desc.map trim := by
  simp only [createField, hr] at h
  split at h
  · rename_i s' ty hs hty; simp at hs; subst hs; simp at h; rw [← h]; rfl
  · simp at h
  · simp at h

/-- trimming removes nothing but surrounding whitespace: the result is a contiguous part of the text -/
theorem C17_trim_infix (t : Text) : ∃ a b, t = a ++ trim t ++ b := by
  unfold trim
  refine ⟨t.takeWhile isWs, ((t.dropWhile isWs).reverse.takeWhile isWs).reverse, ?_⟩
  have h1 : t = t.takeWhile isWs ++ t.dropWhile isWs := (List.takeWhile_append_dropWhile).symm
  have h3 : t.dropWhile isWs = ((t.dropWhile isWs).reverse.dropWhile isWs).reverse ++ ((t.dropWhile isWs).reverse.takeWhile isWs).reverse := by
    rw [← List.reverse_append, List.takeWhile_append_dropWhile, List.reverse_reverse]
  conv => lhs; rw [h1, h3]
  simp [List.append_assoc]

/-- non-vacuity: summary equal to the description is not repeated -/
example : extractDoc { (default : OaOperation) with summary := some cs!"same", desc := some cs!"same", extDocs := some cs!"u" } =
    some cs!"same\n\nSee endpoint docs at <u>." := by decide

end Ln
