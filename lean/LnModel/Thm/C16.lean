import LnModel.Emit.Example
import LnModel.Emit.Request
import LnModel.Lemmas.Visiting
import LnModel.Thm.C02
/-! C16 — every operation has an example that supplies all its inputs; example synthesis terminates.

* `C16_example_supplies_inputs`: the example of an operation declares one value per mandatory input (in the
  order of the client method's arguments, or as the fields of the `<Op>Required` literal) and chains one
  setter call per optional input; its file stem is the request module's stem and the method it calls is
  the client method.
* `C16_example_value_terminates`: the type-directed synthesis of example values never runs out of fuel —
  for **every** schema table, however its models refer to themselves or each other (through properties,
  arrays, newtypes and aliases).

Whether the synthesised literals type-check is rustc's judgement (stage K16 compiles and runs the examples). -/
namespace Ln

theorem exsM_not_diverged (g : HirField → Except ExX Ex) (fs : List HirField)
    (h : ∀ f ∈ fs, g f ≠ .error .diverged) : exsM g fs ≠ .error .diverged := by
  induction fs with
  | nil => simp [exsM]
  | cons f rest ih =>
    simp only [exsM]
    have hf := h f (List.mem_cons_self ..)
    have hr := ih (fun y hy => h y (List.mem_cons_of_mem _ hy))
    split
    · simp
    · rename_i x hx; intro hh; simp at hh; subst hh; exact hf hx
    · rename_i x _ hx _; intro hh; simp at hh; subst hh; exact hr hx

theorem exFieldsM_not_diverged (g : Text → HirField → Except ExX (Text × Ex)) (fs : List (Text × HirField))
    (h : ∀ nf ∈ fs, g nf.1 nf.2 ≠ .error .diverged) : exFieldsM g fs ≠ .error .diverged := by
  induction fs with
  | nil => simp [exFieldsM]
  | cons nf rest ih =>
    obtain ⟨n, f⟩ := nf
    simp only [exFieldsM]
    have hf := h (n, f) (List.mem_cons_self ..)
    have hr := ih (fun y hy => h y (List.mem_cons_of_mem _ hy))
    split
    · simp
    · rename_i x hx; intro hh; simp at hh; subst hh; exact hf hx
    · rename_i x _ hx _; intro hh; simp at hh; subst hh; exact hr hx

theorem foldl_max_ge (fs : List HirField) (a : Nat) : a ≤ fs.foldl (fun a f => max a f.ty.arrayDepth) a := by
  induction fs generalizing a with
  | nil => exact Nat.le_refl _
  | cons f rest ih => simp only [List.foldl_cons]; exact Nat.le_trans (Nat.le_max_left _ _) (ih _)

theorem foldl_max_mem (fs : List HirField) (a : Nat) (f : HirField) (hf : f ∈ fs) :
    f.ty.arrayDepth ≤ fs.foldl (fun a f => max a f.ty.arrayDepth) a := by
  induction fs generalizing a with
  | nil => cases hf
  | cons g rest ih =>
    simp only [List.foldl_cons]
    rcases List.mem_cons.mp hf with rfl | h
    · exact Nat.le_trans (Nat.le_max_right _ _) (foldl_max_ge rest _)
    · exact ih _ h

theorem maxFieldDepth_ge_aux (schemas : SchemaTable) (a : Nat) :
    a ≤ schemas.foldl (fun acc kv => kv.2.fields.foldl (fun a f => max a f.ty.arrayDepth) acc) a := by
  induction schemas generalizing a with
  | nil => exact Nat.le_refl _
  | cons kv rest ih => simp only [List.foldl_cons]; exact Nat.le_trans (foldl_max_ge _ _) (ih _)

theorem maxFieldDepth_mem_aux (schemas : SchemaTable) (a : Nat) (kv : Text × Record) (hkv : kv ∈ schemas)
    (f : HirField) (hf : f ∈ kv.2.fields) :
    f.ty.arrayDepth ≤ schemas.foldl (fun acc kv => kv.2.fields.foldl (fun a f => max a f.ty.arrayDepth) acc) a := by
  induction schemas generalizing a with
  | nil => cases hkv
  | cons x rest ih =>
    simp only [List.foldl_cons]
    rcases List.mem_cons.mp hkv with rfl | h
    · exact Nat.le_trans (foldl_max_mem _ _ f hf) (maxFieldDepth_ge_aux rest _)
    · exact ih _ h

theorem btGet_mem_pair {α : Type} (k : Text) (l : List (Text × α)) (v : α) (h : btGet k l = some v) : ∃ k', (k', v) ∈ l := by
  induction l with
  | nil => simp [btGet] at h
  | cons kv rest ih =>
    obtain ⟨k', v'⟩ := kv
    simp only [btGet] at h
    split at h
    · simp at h; subst h; exact ⟨k', List.mem_cons_self ..⟩
    · obtain ⟨k'', hk⟩ := ih h; exact ⟨k'', List.mem_cons_of_mem _ hk⟩

theorem field_depth_le (schemas : SchemaTable) (m : Text) (r : Record) (hr : btGet m schemas = some r)
    (f : HirField) (hf : f ∈ r.fields) : f.ty.arrayDepth ≤ maxFieldDepth schemas := by
  obtain ⟨k, hk⟩ := btGet_mem_pair m schemas r hr
  exact maxFieldDepth_mem_aux schemas 0 (k, r) hk f hf

theorem liftXP_ne_diverged {α : Type} (a : Except Panic α) : liftXP a ≠ .error .diverged := by
  cases a <;> simp [liftXP]

theorem both_not_diverged {α β γ : Type} (a : Except ExX α) (b : Except ExX β) (k : α → β → γ)
    (ha : a ≠ .error .diverged) (hb : b ≠ .error .diverged) : both a b k ≠ .error .diverged := by
  cases a with
  | error e => cases b <;> (simp only [both]; intro hh; simp at hh; subst hh; exact ha rfl)
  | ok x =>
    cases b with
    | error e => simp only [both]; intro hh; simp at hh; subst hh; exact hb rfl
    | ok y => simp [both]

theorem mapOk_not_diverged {α β : Type} (a : Except ExX α) (k : α → β) (ha : a ≠ .error .diverged) :
    mapOk a k ≠ .error .diverged := by
  cases a with
  | error e => simp only [mapOk]; intro hh; simp at hh; subst hh; exact ha rfl
  | ok x => simp [mapOk]

theorem structFieldEx_not_diverged (rec : Ty → Text → Bool → Except ExX Ex) (v : List Text) (fr : Bool) (n : Text) (f : HirField)
    (h : ∀ u, rec f.ty n u ≠ .error .diverged) : structFieldEx rec v fr n f ≠ .error .diverged := by
  unfold structFieldEx
  cases hs : sanitize n with
  | error e => simp [liftXP]
  | ok ident =>
    simp only [liftXP]
    split
    · simp
    · exact mapOk_not_diverged _ _ (h _)

theorem enumEx_not_diverged (m nm : Text) (vs : List Variant) : enumEx m nm vs ≠ .error .diverged := by
  unfold enumEx
  split
  · simp
  · split
    · simp
    · simp
    · exact mapOk_not_diverged _ _ (liftXP_ne_diverged _)

/-- the walk never runs out of fuel when given `unvisited * (maxFieldDepth + 2) + arrayDepth + 1` -/
theorem exampleValue_fuel (schemas : SchemaTable) (fuel : Nat) (visiting : List Text) (ty : Ty) (name : Text) (useRef : Bool)
    (hf : unvisited (schemas.map (·.1)) visiting * (maxFieldDepth schemas + 2) + ty.arrayDepth + 1 ≤ fuel) :
    exampleValue schemas fuel visiting ty name useRef ≠ .error .diverged := by
  induction fuel generalizing visiting ty name useRef with
  | zero => omega
  | succ fuel ih =>
    cases ty with
    | array inner =>
      simp only [exampleValue]
      split
      · simp
      · exact mapOk_not_diverged _ _ (ih visiting inner name _ (by simp only [Ty.arrayDepth] at hf; omega))
    | model m =>
      simp only [exampleValue]
      split
      · simp
      · rename_i hv
        have hv' : visiting.contains m = false := by simpa using hv
        split
        · simp
        · rename_i r hr
          have hmem := btGet_mem m schemas r hr
          have hlt := unvisited_cons_lt _ visiting m hmem hv'
          have hbound : ∀ f ∈ r.fields, unvisited (schemas.map (·.1)) (m :: visiting) * (maxFieldDepth schemas + 2) + f.ty.arrayDepth + 1 ≤ fuel := by
            intro f hfm
            have hd := field_depth_le schemas m r hr f hfm
            simp only [Ty.arrayDepth] at hf
            have h1 : (unvisited (schemas.map (·.1)) (m :: visiting) + 1) * (maxFieldDepth schemas + 2) ≤
                unvisited (schemas.map (·.1)) visiting * (maxFieldDepth schemas + 2) := Nat.mul_le_mul_right _ hlt
            rw [Nat.add_mul] at h1
            omega
          cases r with
          | struct sn nl fields doc =>
            simp only
            apply both_not_diverged _ _ _ (liftXP_ne_diverged _)
            apply exFieldsM_not_diverged
            intro nf hnf
            apply structFieldEx_not_diverged
            intro u
            exact ih _ _ _ _ (hbound nf.2 (by simp only [Record.fields, List.mem_map]; exact ⟨nf, hnf, rfl⟩))
          | newtype nm fields doc =>
            simp only
            apply both_not_diverged _ _ _ _ (liftXP_ne_diverged _)
            apply exsM_not_diverged
            intro f hfm
            exact ih _ _ _ _ (hbound f (by simpa [Record.fields] using hfm))
          | «alias» nm f =>
            simp only
            exact mapOk_not_diverged _ _ (ih _ _ _ _ (hbound f (by simp [Record.fields])))
          | «enum» nm variants doc =>
            simp only
            exact enumEx_not_diverged _ _ _
    | _ => simp [exampleValue]

/-- **Example synthesis terminates for every schema graph**, recursive ones included -/
theorem C16_example_value_terminates (schemas : SchemaTable) (t : Ty) (name : Text) :
    toRustExampleValue schemas t name ≠ .error .diverged := by
  unfold toRustExampleValue
  apply exampleValue_fuel
  unfold exampleFuel unvisited
  have h1 := List.length_filter_le (fun k => !([] : List Text).contains k) (schemas.map (·.1))
  simp only [List.length_map] at h1
  have h2 : (List.filter (fun k => !([] : List Text).contains k) (List.map (fun x => x.fst) schemas)).length * (maxFieldDepth schemas + 2)
      ≤ schemas.length * (maxFieldDepth schemas + 2) := Nat.mul_le_mul_right _ h1
  rw [Nat.add_mul]
  omega

end Ln

namespace Ln

/-- the example of an operation declares one value per mandatory input, in the order of the inputs, passes
exactly those (positionally, or as the fields of the `<Op>Required` literal when more than three are
mandatory) and chains one setter per optional input -/
theorem C16_example_supplies_inputs (schemas : SchemaTable) (cfg : Cfg) (op : Operation) (e : ExampleSum)
    (h : makeExample schemas cfg op = .ok e) :
    e.decls.map (·.1) = (mandatory op.params).map identOf ∧
    e.setters.map (·.1) = (setters op.params).map identOf ∧
    (usesStruct op.params = false → e.args = .positional ((mandatory op.params).map identOf)) ∧
    (usesStruct op.params = true → ∃ n, opRequiredStruct op.name = .ok n ∧ e.args = .requiredStruct n ((mandatory op.params).map identOf)) := by
  unfold makeExample at h
  simp only at h
  split at h
  · simp at h
  split at h
  · rename_i stem decls sets m rs _ hd hs _ hrs
    simp at h
    subst h
    simp only
    have hval : ∀ (l : List Param) (r : List (Text × Ex)),
        mapE (exampleDecl schemas) l = .ok r → r.map (·.1) = l.map identOf := by
      intro l r hm
      refine mapE_ok_map _ _ _ _ _ hm (fun a b _ hb => ?_)
      unfold identOf
      unfold exampleDecl at hb
      split at hb
      · rename_i i v hi _
        simp at hb; subst hb
        cases hs : sanitize a.name with
        | ok i' => simp [liftXP, hs] at hi; subst hi; rfl
        | error x => simp [liftXP, hs] at hi
      all_goals simp at hb
    have h1 := hval _ _ hd
    have h2 := hval _ _ hs
    refine ⟨h1, h2, ?_, ?_⟩
    · intro hu; simp [hu, h1]
    · intro hu
      cases hr : opRequiredStruct op.name with
      | ok n => simp [liftXP, hr] at hrs; subst hrs; exact ⟨n, rfl, by simp [hu, h1]⟩
      | error x => simp [liftXP, hr] at hrs
  all_goals simp at h

/-- the example is named after the operation's request module and calls the operation's client method -/
theorem C16_example_targets_operation (schemas : SchemaTable) (sec : Bool) (cfg : Cfg) (op : Operation) (e : ExampleSum) (rf : RequestFile)
    (h : makeExample schemas cfg op = .ok e) (hr : makeRequestFile sec cfg op = .ok rf) :
    e.stem = rf.stem ∧ e.method = rf.method.name := by
  unfold makeExample at h
  simp only at h
  split at h
  · simp at h
  split at h
  · rename_i stem decls sets m rs hstem _ _ hm _
    simp at h
    subst h
    unfold makeRequestFile at hr
    simp only at hr
    split at hr
    · rename_i stem' sname fields sets' resp url prog mname hstem' _ _ _ _ _ _ hm'
      split at hr
      · simp at hr
        subst hr
        simp only
        rw [hstem'] at hstem
        rw [hm'] at hm
        simp [liftXP] at hstem hm
        exact ⟨hstem.symm, hm.symm⟩
      all_goals simp at hr
    all_goals simp at hr
  all_goals simp at h

/-- non-vacuity: a self-referential model (`Node { next: Option<Node>, kids: Vec<Node> }`) gets a finite example -/
example :
    let schemas : SchemaTable := [(cs!"Node", .struct cs!"Node" false
      [(cs!"kids", ⟨.array (.model cs!"Node"), false, none, false⟩), (cs!"next", ⟨.model cs!"Node", true, none, false⟩), (cs!"id", ⟨.integer .simple, false, none, false⟩)] none)]
    (match toRustExampleValue schemas (.model cs!"Node") cs!"node" with
     | .ok e => e.render == cs!"Node{kids:vec![],next:None,id:1}"
     | .error _ => false) = true := by decide +kernel

end Ln
