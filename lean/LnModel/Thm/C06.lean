import LnModel.Lemmas.Fold
import LnModel.Names
import LnModel.Treeshake
/-! # C06 — every operation yields one distinct client method, request type and module -/
namespace Ln

/-! ## names: distinct operation ids give distinct methods, structs and modules -/

/-- the HIR name of an operation that has an operationId -/
def opNameOfId (id : Text) : Text := toPascal (replaceChar '.' ['_'] id)

theorem fold_replaceDot (s : Text) : fold (replaceChar '.' ['_'] s) = fold s := by
  induction s with
  | nil => rfl
  | cons c cs ih =>
    simp only [replaceChar, List.flatMap_cons] at ih ⊢
    rw [fold_append, ih]
    by_cases h : c = '.'
    · subst h; rfl
    · have : (c == '.') = false := by simpa using h
      simp only [this, Bool.false_eq_true, if_false]
      rw [← fold_append]; rfl

theorem fold_opNameOfId (id : Text) : fold (opNameOfId id) = fold id := by
  unfold opNameOfId; rw [fold_toPascal, fold_replaceDot]

def notSpecial (s : Text) : Prop := s ≠ cs!"+1" ∧ s ≠ cs!"-1"

/-- Operation ids that differ after dropping non-alphanumerics and case-folding (the domain's
notion of distinct) never share a client method. -/
theorem C06_methods_distinct (a b ra rb : Text) (hab : fold a ≠ fold b)
    (ha : notSpecial (opNameOfId a)) (hb : notSpecial (opNameOfId b))
    (h1 : opMethod (opNameOfId a) = .ok ra) (h2 : opMethod (opNameOfId b) = .ok rb) : ra ≠ rb := by
  intro e
  have f1 := fold_sanitize _ _ ha.1 ha.2 h1
  have f2 := fold_sanitize _ _ hb.1 hb.2 h2
  rw [fold_opNameOfId] at f1 f2
  exact hab (by rw [← f1, ← f2, e])

/-- … nor a request module / example file. -/
theorem C06_files_distinct (a b ra rb : Text) (hab : fold a ≠ fold b)
    (ha : notSpecial (toSnake (opNameOfId a))) (hb : notSpecial (toSnake (opNameOfId b)))
    (h1 : opFile (opNameOfId a) = .ok ra) (h2 : opFile (opNameOfId b) = .ok rb) : ra ≠ rb := by
  intro e
  have f1 := fold_sanitize _ _ ha.1 ha.2 h1
  have f2 := fold_sanitize _ _ hb.1 hb.2 h2
  rw [fold_toSnake, fold_opNameOfId] at f1 f2
  exact hab (by rw [← f1, ← f2, e])

theorem fold_request : fold cs!"Request" = cs!"request" := by decide

/-- … nor a request struct. -/
theorem C06_structs_distinct (a b ra rb : Text) (hab : fold a ≠ fold b)
    (hda : inNameDomain (opNameOfId a ++ cs!"Request") = true) (hdb : inNameDomain (opNameOfId b ++ cs!"Request") = true)
    (ha : notSpecial (opNameOfId a ++ cs!"Request")) (hb : notSpecial (opNameOfId b ++ cs!"Request"))
    (h1 : opStruct (opNameOfId a) = .ok ra) (h2 : opStruct (opNameOfId b) = .ok rb) : ra ≠ rb := by
  intro e
  have f1 := fold_sanitizeStruct _ _ hda ha.1 ha.2 h1
  have f2 := fold_sanitizeStruct _ _ hdb hb.1 hb.2 h2
  rw [fold_append, fold_opNameOfId] at f1 f2
  have : fold a ++ fold cs!"Request" = fold b ++ fold cs!"Request" := by rw [← f1, ← f2, e]
  exact hab (List.append_cancel_right this)

/-! ## count: one HIR operation per (path, verb) -/

theorem insertSchema_ops (hir hir' : HirSpec) (r : Record) (h : insertSchema hir r = .ok hir') :
    hir'.operations = hir.operations := by
  unfold insertSchema at h
  split at h
  · simp at h
  · split at h
    · simp at h; rw [← h]
    · simp at h

theorem extractNewtype_ops (spec : Spec) (name : Text) (s : Schema) (hir hir' : HirSpec)
    (h : extractNewtype spec name s hir = .ok hir') : hir'.operations = hir.operations := by
  unfold extractNewtype at h
  split at h
  · simp at h
  · exact insertSchema_ops _ _ _ h

theorem extractAllOf_ops (spec : Spec) (name : Text) (ms : List SRef) (d : SData) (hir hir' : HirSpec)
    (h : extractAllOf spec name ms d hir = .ok hir') : hir'.operations = hir.operations := by
  unfold extractAllOf at h
  split at h
  · split at h
    · simp at h
    · split at h
      · simp at h
      · exact insertSchema_ops _ _ _ h
  · split at h
    · simp at h
    · exact insertSchema_ops _ _ _ h

/-- extracting a schema (whatever it recurses into) never touches the operation list -/
theorem extractSchema_ops (spec : Spec) (name : Text) (s : Schema) (hir hir' : HirSpec)
    (h : extractSchema spec name s hir = .ok hir') : hir'.operations = hir.operations := by
  fun_induction extractSchema spec name s hir <;>
    first
    | (simp at h; done)
    | exact insertSchema_ops _ _ _ h
    | exact extractNewtype_ops _ _ _ _ _ h
    | exact extractAllOf_ops _ _ _ _ _ _ h
    | (rename_i ih; exact ih h)

theorem extractOperation_ops (spec : Spec) (item : OaPath) (op : OaOperation) (hir hir' : HirSpec)
    (h : extractOperation spec item op hir = .ok hir') :
    hir'.operations.length = hir.operations.length + 1 := by
  unfold extractOperation at h
  split at h
  · simp at h
  · split at h
    · simp at h
    · simp only at h
      split at h
      · simp at h
      · simp at h; rw [← h]; simp
      · split at h
        · simp at h
        · simp at h; rw [← h]; simp
      · split at h
        · simp at h
        · rename_i hx hs
          have hops := extractSchema_ops _ _ _ _ _ hs
          split at h
          · simp at h
          · split at h
            · simp at h
            · simp at h; rw [← h]; simp [hops]
          · split at h
            · split at h
              · simp at h
              · simp at h; rw [← h]; simp [hops]
            · simp at h; rw [← h]; simp [hops]

theorem extractOps_ops (spec : Spec) (item : OaPath) (ops : List OaOperation) (hir hir' : HirSpec)
    (h : extractOps spec item ops hir = .ok hir') :
    hir'.operations.length = hir.operations.length + ops.length := by
  induction ops generalizing hir with
  | nil => simp [extractOps] at h; rw [← h]; simp
  | cons o rest ih =>
    simp only [extractOps] at h
    split at h
    · simp at h
    · rename_i h1 ho
      rw [ih h1 h, extractOperation_ops _ _ _ _ _ ho]
      simp; omega

theorem extractPaths_ops (spec : Spec) (paths : List OaPath) (hir hir' : HirSpec)
    (h : extractPaths spec paths hir = .ok hir') :
    hir'.operations.length = hir.operations.length + (paths.map fun p => p.ops.length).sum := by
  induction paths generalizing hir with
  | nil => simp [extractPaths] at h; rw [← h]; simp
  | cons p rest ih =>
    simp only [extractPaths] at h
    split at h
    · simp at h
    · rename_i h1 hp
      rw [ih h1 h, extractOps_ops _ _ _ _ _ hp]
      simp; omega

theorem extractComponents_ops (spec : Spec) (cs : List (Text × SRef)) (hir hir' : HirSpec)
    (h : extractComponents spec cs hir = .ok hir') : hir'.operations = hir.operations := by
  induction cs generalizing hir with
  | nil => simp [extractComponents] at h; rw [← h]
  | cons c rest ih =>
    obtain ⟨name, r⟩ := c
    cases r with
    | ref _ => simp [extractComponents] at h
    | item s =>
      simp only [extractComponents] at h
      split at h
      · simp at h
      · rename_i h1 hs
        rw [ih h1 h, extractSchema_ops _ _ _ _ _ hs]

/-- **The number of callable endpoints equals the number of operations in the document**: a
successful extraction yields exactly one HIR operation per (path, verb), and tree shaking never
touches operations. (One request module, client method and example is emitted per HIR
operation: `write_request_module`, `write_examples_folder` iterate over `spec.operations`.) -/
theorem C06_operation_count (spec : Spec) (hir : HirSpec) (h : extractSpec spec = .ok hir) :
    hir.operations.length = (spec.paths.map fun p => p.ops.length).sum := by
  unfold extractSpec at h
  split at h
  · simp at h
  · rename_i h0 he
    simp at h
    rw [← h]
    show (removeUnused (removeUnused _)).operations.length = _
    simp only [removeUnused]
    unfold extractWithoutTreeshake at he
    split at he
    · simp at he
    · rename_i h1 hc
      split at he
      · simp at he
      · rename_i h2 hp
        split at he
        · simp at he
        · simp at he
          rw [← he]
          simp only
          rw [extractPaths_ops _ _ _ _ hp, extractComponents_ops _ _ _ _ hc]
          simp

end Ln
