import LnModel.Lemmas.Ident
/-! # C13 — every name becomes a valid, keyword-free Rust identifier

Property theorems only. Statements are at full strength: for names of **any length** over
the name alphabet `[A-Za-z0-9_.- /:@'+]` containing a letter or digit. -/
namespace Ln

/-- The field/argument/method/module form and the type form are produced without panic and
are lexically valid identifiers that `syn` accepts as `Ident`. -/
def C13_statement : Prop :=
  ∀ s : Text, inNameDomain s = true →
    (∃ r, sanitize s = .ok r ∧ validIdent r = true) ∧
    (∃ r, sanitizeStruct s = .ok r ∧ validIdent r = true)

theorem C13_sanitize (s : Text) (h : inNameDomain s = true) :
    ∃ r, sanitize s = .ok r ∧ validIdent r = true := by
  obtain ⟨h1, h2⟩ := rewriteNames_spec h
  exact sanitize_tail_valid (regexFix_like (toSnake_like h1 h2))

theorem C13_sanitizeStruct (s : Text) (h : inNameDomain s = true) :
    ∃ r, sanitizeStruct s = .ok r ∧ validIdent r = true := by
  obtain ⟨h1, h2⟩ := rewriteNames_spec h
  exact sanitizeStruct_tail_valid (toPascal_like h1 h2)

theorem C13 : C13_statement := fun s h => ⟨C13_sanitize s h, C13_sanitizeStruct s h⟩

/-- non-vacuity: a keyword, a digit-leading name and a punctuated name are in the domain -/
example : inNameDomain cs!"fn" = true ∧ inNameDomain cs!"3d.model/x" = true ∧
    inNameDomain cs!"+1" = true := by decide

end Ln
