import LnModel.Lemmas.Visiting
/-! C02, clause "derive/trait bounds are met" for `Default`: the generator derives `Default` for a model only
when every model it holds by value derives `Default` too (and never for a model that holds an enum).

`#[derive(Default)]` on a struct compiles iff every field type implements `Default`. All non-model field
types libninja emits do (`Option`, `Vec`, `HashMap`, `String`, numbers, `bool`, `serde_json::Value`, chrono's
dates, `Decimal`); enums never do; a model does iff the generator derives it. The decision procedure
(`model_implements_default`, with its `visiting` list) answers `true` on a model met again, so soundness is not
obvious for recursive schemas: `C02_default_sound` proves that the set of models the generator derives
`Default` for is closed under "holds by value". -/
namespace Ln

abbrev mid := modelImplementsDefault

theorem allM_true_iff (g : Ty → Except DefaultX Bool) (fs : List HirField) :
    allM g fs = .ok true ↔ ∀ f ∈ fs, g f.ty = .ok true := by
  induction fs with
  | nil => simp [allM]
  | cons f rest ih =>
    simp only [allM, List.mem_cons, forall_eq_or_imp]
    cases hg : g f.ty with
    | error e => simp
    | ok b =>
      cases b with
      | false => simp
      | true => simp [ih]

theorem allM_congr (g g' : Ty → Except DefaultX Bool) (fs : List HirField) (h : ∀ f ∈ fs, g f.ty = g' f.ty) :
    allM g fs = allM g' fs := by
  induction fs with
  | nil => rfl
  | cons f rest ih =>
    simp only [allM]
    rw [h f (List.mem_cons_self ..), ih (fun x hx => h x (List.mem_cons_of_mem _ hx))]

/-- the field-level step of the walk -/
def stepG (schemas : SchemaTable) (fuel : Nat) (V : List Text) : Ty → Except DefaultX Bool :=
  fun t => match t with
    | .model inner => mid schemas fuel V inner
    | _ => .ok true

theorem mid_succ (schemas : SchemaTable) (fuel : Nat) (V : List Text) (x : Text) :
    mid schemas (fuel + 1) V x =
      if V.contains x then .ok true
      else match btGet x schemas with
        | none => .error .modelNotFound
        | some r => match r with
          | .enum _ _ _ => .ok false
          | _ => allM (stepG schemas fuel (x :: V)) r.fields := by
  by_cases hc : V.contains x = true
  · simp only [mid, modelImplementsDefault, hc, if_true]
  · cases hr : btGet x schemas with
    | none => simp only [mid, modelImplementsDefault, hc, hr, Bool.false_eq_true, if_false]
    | some r =>
      cases r with
      | «enum» a b c => simp only [mid, modelImplementsDefault, hc, hr, Bool.false_eq_true, if_false]
      | struct a b c d => simp only [mid, modelImplementsDefault, hc, hr, Bool.false_eq_true, if_false]; rfl
      | newtype a b c => simp only [mid, modelImplementsDefault, hc, hr, Bool.false_eq_true, if_false]; rfl
      | «alias» a b => simp only [mid, modelImplementsDefault, hc, hr, Bool.false_eq_true, if_false]; rfl

/-- the answer depends on the visiting list only as a set -/
theorem mid_set (schemas : SchemaTable) (fuel : Nat) (V V' : List Text) (x : Text)
    (h : ∀ z, V.contains z = V'.contains z) : mid schemas fuel V x = mid schemas fuel V' x := by
  induction fuel generalizing V V' x with
  | zero => rfl
  | succ fuel ih =>
    rw [mid_succ, mid_succ, h x]
    split
    · rfl
    · cases btGet x schemas with
      | none => rfl
      | some r =>
        cases r with
        | «enum» _ _ _ => rfl
        | _ =>
          simp only
          apply allM_congr
          intro f _
          unfold stepG
          split
          · apply ih
            intro z
            simp only [List.contains_cons, h z]
          · rfl

/-- more models on the visiting list never turn a `true` into anything else -/
theorem mid_mono (schemas : SchemaTable) (fuel : Nat) (V : List Text) (x : Text) (h : mid schemas fuel V x = .ok true) :
    ∀ (V' : List Text), (∀ z, V.contains z = true → V'.contains z = true) →
      ∀ fuel', unvisited (schemas.map (·.1)) V' < fuel' → mid schemas fuel' V' x = .ok true := by
  induction fuel generalizing V x with
  | zero => simp [mid, modelImplementsDefault] at h
  | succ fuel ih =>
    intro V' hsub fuel' hf'
    cases fuel' with
    | zero => omega
    | succ k =>
      rw [mid_succ] at h ⊢
      by_cases hv' : V'.contains x = true
      · simp only [hv', if_true]
      · have hv : V.contains x = false := by
          cases hc : V.contains x with
          | false => rfl
          | true => exact absurd (hsub x hc) hv'
        have hv'' : V'.contains x = false := by simpa using hv'
        simp only [hv, hv'', Bool.false_eq_true, if_false] at h ⊢
        cases hr : btGet x schemas with
        | none => rw [hr] at h; simp at h
        | some r =>
          rw [hr] at h
          have hmem := btGet_mem x schemas r hr
          have hlt := unvisited_cons_lt _ V' x hmem hv''
          cases r with
          | «enum» _ _ _ => simp at h
          | struct n nl fs d =>
            simp only at h ⊢
            rw [allM_true_iff] at h ⊢
            intro f hfm
            have := h f hfm
            unfold stepG at this ⊢
            split
            · rename_i inner hty
              rw [hty] at this
              simp only at this
              exact ih (x :: V) inner this (x :: V') (fun z hz => by
                simp only [List.contains_cons, Bool.or_eq_true] at hz ⊢
                rcases hz with h1 | h2
                · exact Or.inl h1
                · exact Or.inr (hsub z h2)) k (by omega)
            · rfl
          | newtype n fs d =>
            simp only at h ⊢
            rw [allM_true_iff] at h ⊢
            intro f hfm
            have := h f hfm
            unfold stepG at this ⊢
            split
            · rename_i inner hty
              rw [hty] at this
              simp only at this
              exact ih (x :: V) inner this (x :: V') (fun z hz => by
                simp only [List.contains_cons, Bool.or_eq_true] at hz ⊢
                rcases hz with h1 | h2
                · exact Or.inl h1
                · exact Or.inr (hsub z h2)) k (by omega)
            · rfl
          | «alias» n fa =>
            simp only at h ⊢
            rw [allM_true_iff] at h ⊢
            intro f hfm
            have := h f hfm
            unfold stepG at this ⊢
            split
            · rename_i inner hty
              rw [hty] at this
              simp only at this
              exact ih (x :: V) inner this (x :: V') (fun z hz => by
                simp only [List.contains_cons, Bool.or_eq_true] at hz ⊢
                rcases hz with h1 | h2
                · exact Or.inl h1
                · exact Or.inr (hsub z h2)) k (by omega)
            · rfl

theorem unvisited_le (keys V : List Text) : unvisited keys V ≤ keys.length := by
  unfold unvisited; exact List.length_filter_le _ _

/-- dropping from the visiting list a model whose own answer is `true` never turns a `true` into anything else -/
theorem mid_strengthen (schemas : SchemaTable) (m : Text)
    (hm : ∀ V' fuel', unvisited (schemas.map (·.1)) V' < fuel' → mid schemas fuel' V' m = .ok true)
    (fuel : Nat) (V : List Text) (x : Text) (h : mid schemas fuel (m :: V) x = .ok true) :
    ∀ fuel', unvisited (schemas.map (·.1)) V < fuel' → mid schemas fuel' V x = .ok true := by
  induction fuel generalizing V x with
  | zero => simp [mid, modelImplementsDefault] at h
  | succ fuel ih =>
    intro fuel' hf'
    by_cases hxm : x = m
    · subst hxm; exact hm V fuel' hf'
    cases fuel' with
    | zero => omega
    | succ k =>
      rw [mid_succ] at h ⊢
      by_cases hv : V.contains x = true
      · simp only [hv, if_true]
      · have hv' : V.contains x = false := by simpa using hv
        have hmv : (m :: V).contains x = false := by
          simp only [List.contains_cons, hv', Bool.or_false]
          simpa using hxm
        simp only [hmv, hv', Bool.false_eq_true, if_false] at h ⊢
        cases hr : btGet x schemas with
        | none => rw [hr] at h; simp at h
        | some r =>
          rw [hr] at h
          have hmem := btGet_mem x schemas r hr
          have hlt := unvisited_cons_lt _ V x hmem hv'
          have step : ∀ f : HirField, stepG schemas fuel (x :: m :: V) f.ty = .ok true → stepG schemas k (x :: V) f.ty = .ok true := by
            intro f hf
            unfold stepG at hf ⊢
            split
            · rename_i inner hty
              rw [hty] at hf
              simp only at hf
              rw [mid_set schemas fuel (x :: m :: V) (m :: x :: V) inner (by
                intro z; simp only [List.contains_cons]; cases (z == x) <;> cases (z == m) <;> simp)] at hf
              exact ih (x :: V) inner hf k (by omega)
            · rfl
          cases r with
          | «enum» _ _ _ => simp at h
          | struct n nl fs d =>
            simp only at h ⊢
            rw [allM_true_iff] at h ⊢
            exact fun f hfm => step f (h f hfm)
          | newtype n fs d =>
            simp only at h ⊢
            rw [allM_true_iff] at h ⊢
            exact fun f hfm => step f (h f hfm)
          | «alias» n fa =>
            simp only at h ⊢
            rw [allM_true_iff] at h ⊢
            exact fun f hfm => step f (h f hfm)

/-- the generator's decision: derive `Default` for the model `name` -/
def derivesDefault (schemas : SchemaTable) (name : Text) : Bool :=
  mid schemas (defaultFuel schemas) [] name == .ok true

theorem defaultFuel_adequate (schemas : SchemaTable) (V : List Text) : unvisited (schemas.map (·.1)) V < defaultFuel schemas := by
  have := unvisited_le (schemas.map (·.1)) V
  simp only [List.length_map] at this
  unfold defaultFuel
  omega

/-- **`Default` is derived soundly, recursive schemas included**: a model for which the generator derives
`Default` is not an enum, and every model it holds directly as a field type is one the generator derives
`Default` for as well — so each `#[derive(Default)]` finds `Default` on all its field types. -/
theorem C02_default_sound (schemas : SchemaTable) (name : Text) (r : Record)
    (hr : btGet name schemas = some r) (hd : derivesDefault schemas name = true) :
    (∀ n vs d, r ≠ .enum n vs d) ∧
    ∀ f ∈ r.fields, ∀ inner, f.ty = .model inner → derivesDefault schemas inner = true := by
  have h0 : mid schemas (defaultFuel schemas) [] name = .ok true := by simpa [derivesDefault] using hd
  -- the answer for `name` is `true` under every visiting list
  have hall : ∀ V' fuel', unvisited (schemas.map (·.1)) V' < fuel' → mid schemas fuel' V' name = .ok true :=
    fun V' fuel' hf => mid_mono schemas _ [] name h0 V' (fun z hz => by simp at hz) fuel' hf
  have hF : ∃ k, defaultFuel schemas = k + 1 := ⟨schemas.length + 1, by unfold defaultFuel; omega⟩
  obtain ⟨k, hk⟩ := hF
  rw [hk, mid_succ] at h0
  simp only [List.contains_nil, Bool.false_eq_true, if_false, hr] at h0
  have key : ∀ f ∈ r.fields, stepG schemas k [name] f.ty = .ok true → ∀ inner, f.ty = .model inner → derivesDefault schemas inner = true := by
    intro f _ hf inner hty
    unfold stepG at hf
    rw [hty] at hf
    simp only at hf
    have := mid_strengthen schemas name hall k [] inner hf (defaultFuel schemas) (defaultFuel_adequate schemas [])
    simp [derivesDefault, this]
  cases r with
  | «enum» n vs d => simp at h0
  | struct n nl fs d =>
    simp only at h0
    rw [allM_true_iff] at h0
    exact ⟨fun _ _ _ he => by simp at he, fun f hf => key f hf (h0 f hf)⟩
  | newtype n fs d =>
    simp only at h0
    rw [allM_true_iff] at h0
    exact ⟨fun _ _ _ he => by simp at he, fun f hf => key f hf (h0 f hf)⟩
  | «alias» n fa =>
    simp only at h0
    rw [allM_true_iff] at h0
    exact ⟨fun _ _ _ he => by simp at he, fun f hf => key f hf (h0 f hf)⟩

/-- the decision `make_class` / `make_newtype` take (every field type `implements_default`) in terms of `derivesDefault` -/
theorem allImplementDefault_iff (schemas : SchemaTable) (fields : List HirField) :
    allImplementDefault schemas fields = .ok true ↔ ∀ f ∈ fields, ∀ inner, f.ty = .model inner → derivesDefault schemas inner = true := by
  unfold allImplementDefault
  rw [allM_true_iff]
  constructor
  · intro h f hf inner hty
    have := h f hf
    unfold tyImplementsDefault at this
    rw [hty] at this
    simp only at this
    simp [derivesDefault, mid, this]
  · intro h f hf
    unfold tyImplementsDefault
    split
    · rename_i n hty
      have := h f hf n hty
      simpa [derivesDefault, mid] using this
    · rfl

/-- **stated on what is emitted**: when a struct or newtype is emitted with `Default` in its derive list, every
model among its field types exists, is not an enum, and is itself emitted with `Default` -/
theorem C02_default_derive_closed (schemas : SchemaTable) (fields : List HirField)
    (h : allImplementDefault schemas fields = .ok true) :
    ∀ f ∈ fields, ∀ inner, f.ty = .model inner →
      ∃ r', btGet inner schemas = some r' ∧ (∀ n vs d, r' ≠ .enum n vs d) ∧ allImplementDefault schemas r'.fields = .ok true := by
  intro f hf inner hty
  have hd := (allImplementDefault_iff schemas fields).mp h f hf inner hty
  have h0 : mid schemas (defaultFuel schemas) [] inner = .ok true := by simpa [derivesDefault] using hd
  have hF : ∃ k, defaultFuel schemas = k + 1 := ⟨schemas.length + 1, by unfold defaultFuel; omega⟩
  obtain ⟨k, hk⟩ := hF
  have h1 := h0
  rw [hk, mid_succ] at h1
  simp only [List.contains_nil, Bool.false_eq_true, if_false] at h1
  cases hr : btGet inner schemas with
  | none => rw [hr] at h1; simp at h1
  | some r' =>
    obtain ⟨hne, hcl⟩ := C02_default_sound schemas inner r' hr hd
    exact ⟨r', rfl, hne, (allImplementDefault_iff schemas r'.fields).mpr hcl⟩

/-- non-vacuity: `A { b: B }`, `B { a: Option<A> }` derive `Default` together; a model holding an enum does not -/
example :
    let schemas : SchemaTable := [
      (cs!"A", .struct cs!"A" false [(cs!"b", ⟨.model cs!"B", false, none, false⟩)] none),
      (cs!"B", .struct cs!"B" false [(cs!"a", ⟨.model cs!"A", true, none, false⟩)] none),
      (cs!"C", .struct cs!"C" false [(cs!"s", ⟨.model cs!"S", false, none, false⟩)] none),
      (cs!"S", .enum cs!"S" [⟨cs!"x", none⟩] none)]
    derivesDefault schemas cs!"A" = true ∧ derivesDefault schemas cs!"B" = true ∧ derivesDefault schemas cs!"C" = false := by
  decide +kernel

end Ln
