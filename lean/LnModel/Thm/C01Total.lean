import LnModel.Pipeline
import LnModel.Thm.C13
import LnModel.Thm.C16
/-! C01, emission half: the writers reach no panic site when the sanitiser succeeds on the names it is
applied to — and by C13 it does so on every name of the name domain.

`SanOk` / `SanStructOk` are the obligations "this call of the sanitiser returns"; they are discharged from
`inNameDomain` by `C13`. The theorems below say that these are the *only* obligations of the request-module
writer: every other construct it emits is total. -/
namespace Ln

def SanOk (s : Text) : Prop := ∃ r, sanitize s = .ok r
def SanStructOk (s : Text) : Prop := ∃ r, sanitizeStruct s = .ok r

theorem sanOk_of_domain (s : Text) (h : inNameDomain s = true) : SanOk s := by
  obtain ⟨r, hr, _⟩ := C13_sanitize s h; exact ⟨r, hr⟩
theorem sanStructOk_of_domain (s : Text) (h : inNameDomain s = true) : SanStructOk s := by
  obtain ⟨r, hr, _⟩ := C13_sanitizeStruct s h; exact ⟨r, hr⟩

/-- every model name a type mentions can be turned into a type identifier -/
def TyOk : Ty → Prop
  | .model n => SanStructOk n
  | .array t => TyOk t
  | .hashMap t => TyOk t
  | _ => True

theorem toRustType_total (t : Ty) (h : TyOk t) : ∃ x, toRustType t = .ok x := by
  induction t with
  | model n => exact h
  | array t ih => obtain ⟨x, hx⟩ := ih h; simp only [toRustType, hx]; exact ⟨_, rfl⟩
  | hashMap t ih => obtain ⟨x, hx⟩ := ih h; simp only [toRustType, hx]; exact ⟨_, rfl⟩
  | _ => exact ⟨_, rfl⟩

theorem toReferenceType_total (sp : Text) (t : Ty) (h : TyOk t) : ∃ x, toReferenceType sp t = .ok x := by
  induction t with
  | string => exact ⟨_, rfl⟩
  | array t ih =>
    simp only [toReferenceType]
    split
    · obtain ⟨x, hx⟩ := ih h; simp only [hx]; exact ⟨_, rfl⟩
    · exact toRustType_total (.array t) h
  | model n => exact h
  | hashMap t _ => exact toRustType_total (.hashMap t) h
  | _ => exact ⟨_, rfl⟩

theorem mapE_total {α β ε : Type} (f : α → Except ε β) (l : List α) (h : ∀ a ∈ l, ∃ b, f a = .ok b) :
    ∃ r, mapE f l = .ok r := by
  induction l with
  | nil => exact ⟨[], rfl⟩
  | cons a as ih =>
    obtain ⟨b, hb⟩ := h a (List.mem_cons_self ..)
    obtain ⟨r, hr⟩ := ih (fun x hx => h x (List.mem_cons_of_mem _ hx))
    exact ⟨b :: r, by simp [mapE, hb, hr]⟩

theorem innerModel_tyOk (t : Ty) (h : ∀ m, t.innerModel = some m → SanStructOk m) : TyOk t := by
  induction t with
  | model n => exact h n rfl
  | array t ih => exact ih (fun m hm => h m (by simpa [Ty.innerModel] using hm))
  | hashMap t ih => exact ih (fun m hm => h m (by simpa [Ty.innerModel] using hm))
  | _ => trivial

/-- the obligations of one operation: its derived names and the names of its inputs and types -/
structure OpOk (op : Operation) : Prop where
  file : SanOk (toSnake op.name)
  method : SanOk op.name
  request : SanStructOk (op.name ++ cs!"Request")
  required : SanStructOk (op.name ++ cs!"Required")
  params : ∀ p ∈ op.params, SanOk p.name ∧ TyOk p.ty
  ret : TyOk op.ret
  /-- the sanitiser returns on the names of the path's placeholders (they are names of path parameters; for a
  well-formed template over the name domain this is `C03_url_format`'s first conjunct) -/
  path : ∃ f, fixPlaceholders (op.path.length + 1) op.path = .ok f

theorem tyOk_innerModel (t : Ty) (h : TyOk t) : ∀ m, t.innerModel = some m → SanStructOk m := by
  induction t with
  | model n => intro m hm; simp [Ty.innerModel] at hm; subst hm; exact h
  | array t ih => intro m hm; exact ih h m (by simpa [Ty.innerModel] using hm)
  | hashMap t ih => intro m hm; exact ih h m (by simpa [Ty.innerModel] using hm)
  | _ => intro m hm; simp [Ty.innerModel] at hm

/-- **the request-module writer reaches no panic site** once the sanitiser succeeds on the operation's names -/
theorem makeRequestFile_total (sec : Bool) (cfg : Cfg) (op : Operation) (h : OpOk op) :
    ∃ rf, makeRequestFile sec cfg op = .ok rf := by
  obtain ⟨stem, hstem⟩ := h.file
  obtain ⟨mname, hm⟩ := h.method
  obtain ⟨sname, hs⟩ := h.request
  obtain ⟨rname, hrq⟩ := h.required
  have hparam : ∀ p ∈ op.params, SanOk p.name ∧ TyOk p.ty := h.params
  obtain ⟨fields, hfields⟩ := mapE_total (structField false) op.params (fun p hp => by
    obtain ⟨⟨i, hi⟩, ht⟩ := hparam p hp
    obtain ⟨t, htt⟩ := toRustType_total p.ty ht
    simp only [structField, hi, htt]; exact ⟨_, rfl⟩)
  obtain ⟨sets, hsets⟩ := mapE_total setterOf (setters op.params) (fun p hp => by
    obtain ⟨⟨i, hi⟩, ht⟩ := hparam p (List.mem_filter.mp hp).1
    obtain ⟨t, htt⟩ := toReferenceType_total [] p.ty ht
    unfold setterOf
    simp only [hi, htt]
    split <;> exact ⟨_, rfl⟩)
  obtain ⟨resp, hresp⟩ := toRustType_total op.ret h.ret
  obtain ⟨url, hurl⟩ : ∃ u, makeUrl op = .ok u := by
    unfold makeUrl
    simp only
    split
    · exact ⟨_, rfl⟩
    · obtain ⟨ids, hids⟩ := mapE_total (fun p : Param => sanitize p.name) (op.params.filter fun p => p.loc == .path)
        (fun p hp => (hparam p (List.mem_filter.mp hp).1).1)
      obtain ⟨f, hf⟩ := h.path
      rw [hids]; simp only [hf]; exact ⟨_, rfl⟩
  obtain ⟨prog, hprog⟩ : ∃ u, assignInputs op.params = .ok u := by
    unfold assignInputs
    apply mapE_total
    intro p hp
    obtain ⟨i, hi⟩ := (hparam p (List.mem_filter.mp hp).1).1
    simp only [hi]; exact ⟨_, rfl⟩
  obtain ⟨rfields, hrfields⟩ := mapE_total (structField true) (mandatory op.params) (fun p hp => by
    obtain ⟨⟨i, hi⟩, ht⟩ := hparam p (List.mem_filter.mp hp).1
    obtain ⟨t, htt⟩ := toReferenceType_total cs!"'a" p.ty ht
    simp only [structField, hi, htt]; exact ⟨_, rfl⟩)
  obtain ⟨args, hargs⟩ := mapE_total argOf (mandatory op.params) (fun p hp => by
    obtain ⟨⟨i, hi⟩, ht⟩ := hparam p (List.mem_filter.mp hp).1
    obtain ⟨t, htt⟩ := toReferenceType_total [] p.ty ht
    simp only [argOf, hi, htt]; exact ⟨_, rfl⟩)
  obtain ⟨lit, hlit⟩ := mapE_total (litOf (usesStruct op.params)) op.params (fun p hp => by
    obtain ⟨i, hi⟩ := (hparam p hp).1
    simp only [litOf, hi]; exact ⟨_, rfl⟩)
  obtain ⟨imps, himps⟩ : ∃ u, requestImports op = .ok u := by
    unfold requestImports
    simp only
    obtain ⟨ids, hids⟩ := mapE_total sanitizeStruct
      (op.params.filterMap (fun p => p.ty.innerModel) ++ retModels op.ret)
      (fun m hm => by
        rcases List.mem_append.mp hm with h1 | h2
        · obtain ⟨p, hp, hpm⟩ := List.mem_filterMap.mp h1
          exact tyOk_innerModel p.ty (hparam p hp).2 m hpm
        · apply tyOk_innerModel op.ret h.ret m
          unfold retModels at h2
          split at h2
          · simp at h2
          · split at h2
            · rename_i m' hm'; simp at h2; subst h2; exact hm'
            · simp at h2)
    rw [hids]; exact ⟨_, rfl⟩
  unfold makeRequestFile
  by_cases hu : usesStruct op.params = true
  · simp only [hu] at hlit
    simp only [opFile, opStruct, opMethod, opRequiredStruct, hstem, hs, hm, hrq, hfields, hsets, hresp, hurl, hprog, hrfields, hu, if_true, hlit, himps]
    exact ⟨_, rfl⟩
  · have hu' : usesStruct op.params = false := by simpa using hu
    simp only [hu'] at hlit
    simp only [opFile, opStruct, opMethod, opRequiredStruct, hstem, hs, hm, hrq, hfields, hsets, hresp, hurl, hprog, hu', Bool.false_eq_true, if_false, hargs, hlit, himps]
    exact ⟨_, rfl⟩

/-- in particular: for an operation all of whose names are in the name domain (C13), given the two derived names -/
theorem makeRequestFile_total_of_domain (sec : Bool) (cfg : Cfg) (op : Operation)
    (hname : inNameDomain op.name = true) (hfile : inNameDomain (toSnake op.name) = true)
    (hreq : inNameDomain (op.name ++ cs!"Request") = true) (hrqd : inNameDomain (op.name ++ cs!"Required") = true)
    (hparams : ∀ p ∈ op.params, inNameDomain p.name = true ∧ ∀ m, p.ty.innerModel = some m → inNameDomain m = true)
    (hret : ∀ m, op.ret.innerModel = some m → inNameDomain m = true)
    (hpath : ∃ f, fixPlaceholders (op.path.length + 1) op.path = .ok f) :
    ∃ rf, makeRequestFile sec cfg op = .ok rf :=
  makeRequestFile_total sec cfg op
    { file := sanOk_of_domain _ hfile, method := sanOk_of_domain _ hname,
      request := sanStructOk_of_domain _ hreq, required := sanStructOk_of_domain _ hrqd,
      params := fun p hp => ⟨sanOk_of_domain _ (hparams p hp).1, innerModel_tyOk _ (fun m hm => sanStructOk_of_domain _ ((hparams p hp).2 m hm))⟩,
      ret := innerModel_tyOk _ (fun m hm => sanStructOk_of_domain _ (hret m hm)), path := hpath }

end Ln

namespace Ln

/-- every model a record's fields name directly is in the table -/
def Closed (schemas : SchemaTable) : Prop :=
  ∀ kv ∈ schemas, ∀ f ∈ kv.2.fields, ∀ m, f.ty = .model m → (btGet m schemas).isSome = true

theorem allM_ok (g : Ty → Except DefaultX Bool) (fs : List HirField) (h : ∀ f ∈ fs, ∃ b, g f.ty = .ok b) :
    ∃ b, allM g fs = .ok b := by
  induction fs with
  | nil => exact ⟨true, rfl⟩
  | cons f rest ih =>
    obtain ⟨b, hb⟩ := h f (List.mem_cons_self ..)
    simp only [allM, hb]
    cases b with
    | false => exact ⟨false, rfl⟩
    | true => exact ih (fun x hx => h x (List.mem_cons_of_mem _ hx))

/-- on a closed table the `Default` walk returns an answer for every model of the table, with enough fuel -/
theorem modelImplementsDefault_ok (schemas : SchemaTable) (hc : Closed schemas) (fuel : Nat) (visiting : List Text) (name : Text)
    (hf : unvisited (schemas.map (·.1)) visiting < fuel) (hp : (btGet name schemas).isSome = true) :
    ∃ b, modelImplementsDefault schemas fuel visiting name = .ok b := by
  induction fuel generalizing visiting name with
  | zero => omega
  | succ fuel ih =>
    simp only [modelImplementsDefault]
    split
    · exact ⟨true, rfl⟩
    · rename_i hv
      have hv' : visiting.contains name = false := by simpa using hv
      cases hr : btGet name schemas with
      | none => rw [hr] at hp; simp at hp
      | some r =>
        simp only
        have hmem := btGet_mem name schemas r hr
        have hlt := unvisited_cons_lt _ visiting name hmem hv'
        obtain ⟨k, hk⟩ := btGet_mem_pair name schemas r hr
        cases r with
        | «enum» n vs d => exact ⟨false, rfl⟩
        | struct n nl fs d =>
          apply allM_ok
          intro f hfm
          split
          · rename_i inner hty
            exact ih (name :: visiting) inner (by omega) (hc (k, _) hk f hfm inner hty)
          · exact ⟨true, rfl⟩
        | newtype n fs d =>
          apply allM_ok
          intro f hfm
          split
          · rename_i inner hty
            exact ih (name :: visiting) inner (by omega) (hc (k, _) hk f hfm inner hty)
          · exact ⟨true, rfl⟩
        | «alias» n f =>
          apply allM_ok
          intro f' hfm
          split
          · rename_i inner hty
            exact ih (name :: visiting) inner (by omega) (hc (k, _) hk f' hfm inner hty)
          · exact ⟨true, rfl⟩

theorem allImplementDefault_ok (schemas : SchemaTable) (hc : Closed schemas) (fields : List HirField)
    (hp : ∀ f ∈ fields, ∀ m, f.ty = .model m → (btGet m schemas).isSome = true) :
    ∃ b, allImplementDefault schemas fields = .ok b := by
  unfold allImplementDefault
  apply allM_ok
  intro f hf
  unfold tyImplementsDefault
  split
  · rename_i n hty
    apply modelImplementsDefault_ok schemas hc _ [] n _ (hp f hf n hty)
    unfold defaultFuel unvisited
    have := List.length_filter_le (fun k => !([] : List Text).contains k) (schemas.map (·.1))
    simp only [List.length_map] at this
    omega
  · exact ⟨true, rfl⟩

/-- the obligations of one record: its own name, its field names, the model names in its field types, and
(for enums) non-empty variant names the sanitiser accepts -/
structure RecordOk (key : Text) (r : Record) : Prop where
  file : SanOk key
  name : SanStructOk r.name
  fieldTys : ∀ f ∈ r.fields, TyOk f.ty
  fieldNames : ∀ n fs nl d, r = .struct n nl fs d → ∀ nf ∈ fs, SanOk nf.1
  variants : ∀ n vs d, r = .enum n vs d → ∀ v ∈ vs, ∃ res, enumVariant n v = .ok res

theorem classFields_total (fs : List (Text × HirField)) (h : ∀ nf ∈ fs, SanOk nf.1 ∧ TyOk nf.2.ty) :
    ∃ r, classFields fs = .ok r := by
  induction fs with
  | nil => exact ⟨[], rfl⟩
  | cons nf rest ih =>
    obtain ⟨n, f⟩ := nf
    obtain ⟨⟨i, hi⟩, ht⟩ := h (n, f) (List.mem_cons_self ..)
    obtain ⟨t, htt⟩ := toRustType_total f.ty ht
    obtain ⟨r, hr⟩ := ih (fun x hx => h x (List.mem_cons_of_mem _ hx))
    simp only [classFields, classField, hi, htt, hr]
    exact ⟨_, rfl⟩

/-- **the model-file writer reaches no panic site** on a closed table once the sanitiser succeeds on the record's names -/
theorem makeModelFile_total (schemas : SchemaTable) (cfg : Cfg) (hc : Closed schemas) (key : Text) (r : Record)
    (hmem : ∃ k, (k, r) ∈ schemas) (h : RecordOk key r) :
    ∃ mf, makeModelFile schemas cfg key r = .ok mf := by
  obtain ⟨k, hk⟩ := hmem
  obtain ⟨stem, hstem⟩ := h.file
  obtain ⟨ident, hident⟩ := h.name
  have hpresent : ∀ f ∈ r.fields, ∀ m, f.ty = .model m → (btGet m schemas).isSome = true := fun f hf m hm => hc (k, r) hk f hf m hm
  obtain ⟨imps, himps⟩ : ∃ u, modelImports r = .ok u := by
    unfold modelImports
    simp only
    obtain ⟨ids, hids⟩ := mapE_total sanitizeStruct ((r.fields.filterMap fun f => f.ty.innerModel).filter fun n => n != r.name)
      (fun m hm => by
        obtain ⟨f, hf, hfm⟩ := List.mem_filterMap.mp (List.mem_filter.mp hm).1
        exact tyOk_innerModel f.ty (h.fieldTys f hf) m hfm)
    rw [hids]; exact ⟨_, rfl⟩
  obtain ⟨item, hitem⟩ : ∃ it, makeItem schemas cfg r = .ok it := by
    cases r with
    | struct n nl fs d =>
      obtain ⟨dflt, hd⟩ := allImplementDefault_ok schemas hc (fs.map (·.2)) (fun f hf => hpresent f (by simpa [Record.fields] using hf))
      obtain ⟨cf, hcf⟩ := classFields_total fs (fun nf hnf => ⟨h.fieldNames n fs nl d rfl nf hnf, h.fieldTys nf.2 (by simp only [Record.fields, List.mem_map]; exact ⟨nf, hnf, rfl⟩)⟩)
      have hid : sanitizeStruct n = .ok ident := hident
      simp only [makeItem, hd, hid, hcf, liftD, liftP]
      cases hfind : fs.find? (fun e => e.2.flatten && !e.2.optional) with
      | none => exact ⟨_, rfl⟩
      | some e =>
        obtain ⟨fname, f⟩ := e
        have hin : (fname, f) ∈ fs := List.mem_of_find?_eq_some hfind
        obtain ⟨a, ha⟩ := h.fieldNames n fs nl d rfl (fname, f) hin
        obtain ⟨b, hb⟩ := toRustType_total f.ty (h.fieldTys f (by simp only [Record.fields, List.mem_map]; exact ⟨(fname, f), hin, rfl⟩))
        simp only [ha, hb]
        exact ⟨_, rfl⟩
    | newtype n fs d =>
      obtain ⟨dflt, hd⟩ := allImplementDefault_ok schemas hc fs (fun f hf => hpresent f (by simpa [Record.fields] using hf))
      obtain ⟨tys, htys⟩ := mapE_total (fun f : HirField => toRustType f.ty) fs (fun f hf => toRustType_total f.ty (h.fieldTys f (by simpa [Record.fields] using hf)))
      have hid : sanitizeStruct n = .ok ident := hident
      simp only [makeItem, hd, hid, htys, liftD, liftP]
      exact ⟨_, rfl⟩
    | «enum» n vs d =>
      obtain ⟨vr, hvr⟩ := mapE_total (enumVariant n) vs (h.variants n vs d rfl)
      have hid : sanitizeStruct n = .ok ident := hident
      simp only [makeItem, hvr, hid, liftP]
      exact ⟨_, rfl⟩
    | «alias» n f =>
      obtain ⟨t, ht⟩ := toRustType_total f.ty (h.fieldTys f (by simp [Record.fields]))
      have hid : sanitizeStruct n = .ok ident := hident
      simp only [makeItem, hid, ht, liftP]
      exact ⟨_, rfl⟩
  unfold makeModelFile
  simp only [schemaFile, hstem, himps, hitem, liftP]
  exact ⟨_, rfl⟩

end Ln

namespace Ln

/-- every model a type mentions (through lists and maps) is in the table -/
def TyPresent (schemas : SchemaTable) (t : Ty) : Prop := ∀ m, t.innerModel = some m → (btGet m schemas).isSome = true

/-- what the example writer needs of one table entry -/
structure ExRecordOk (schemas : SchemaTable) (key : Text) (r : Record) : Prop where
  key : SanStructOk key
  name : SanStructOk r.name
  present : ∀ f ∈ r.fields, TyPresent schemas f.ty
  fieldNames : ∀ n fs nl d, r = .struct n nl fs d → ∀ nf ∈ fs, SanOk nf.1
  variants : ∀ n vs d, r = .enum n vs d → ∃ v rest res, vs = v :: rest ∧ enumVariant n v = .ok res

def ExTableOk (schemas : SchemaTable) : Prop := ∀ key r, btGet key schemas = some r → ExRecordOk schemas key r

theorem both_ok {α β γ : Type} (a : Except ExX α) (b : Except ExX β) (k : α → β → γ)
    (ha : ∃ x, a = .ok x) (hb : ∃ y, b = .ok y) : ∃ z, both a b k = .ok z := by
  obtain ⟨x, rfl⟩ := ha; obtain ⟨y, rfl⟩ := hb; exact ⟨_, rfl⟩

theorem mapOk_ok {α β : Type} (a : Except ExX α) (k : α → β) (ha : ∃ x, a = .ok x) : ∃ z, mapOk a k = .ok z := by
  obtain ⟨x, rfl⟩ := ha; exact ⟨_, rfl⟩

theorem exsM_ok (g : HirField → Except ExX Ex) (fs : List HirField) (h : ∀ f ∈ fs, ∃ e, g f = .ok e) :
    ∃ es, exsM g fs = .ok es := by
  induction fs with
  | nil => exact ⟨_, rfl⟩
  | cons f rest ih =>
    obtain ⟨e, he⟩ := h f (List.mem_cons_self ..)
    obtain ⟨es, hes⟩ := ih (fun x hx => h x (List.mem_cons_of_mem _ hx))
    simp only [exsM, he, hes]; exact ⟨_, rfl⟩

theorem exFieldsM_ok (g : Text → HirField → Except ExX (Text × Ex)) (fs : List (Text × HirField))
    (h : ∀ nf ∈ fs, ∃ e, g nf.1 nf.2 = .ok e) : ∃ es, exFieldsM g fs = .ok es := by
  induction fs with
  | nil => exact ⟨_, rfl⟩
  | cons nf rest ih =>
    obtain ⟨n, f⟩ := nf
    obtain ⟨⟨i, e⟩, he⟩ := h (n, f) (List.mem_cons_self ..)
    obtain ⟨es, hes⟩ := ih (fun x hx => h x (List.mem_cons_of_mem _ hx))
    simp only [exFieldsM, he, hes]; exact ⟨_, rfl⟩

theorem tyPresent_array (schemas : SchemaTable) (t : Ty) (h : TyPresent schemas (.array t)) : TyPresent schemas t :=
  fun m hm => h m (by simpa [Ty.innerModel] using hm)

/-- **example synthesis returns a value** for every type whose models are in the table, on a table whose
entries meet the sanitiser obligations: it neither runs out of fuel nor reaches `expect("record not found")`,
`expect("at least 1 variant")` or an identifier panic -/
theorem exampleValue_total (schemas : SchemaTable) (ht : ExTableOk schemas) (fuel : Nat) (visiting : List Text) (ty : Ty)
    (name : Text) (useRef : Bool) (hp : TyPresent schemas ty)
    (hf : unvisited (schemas.map (·.1)) visiting * (maxFieldDepth schemas + 2) + ty.arrayDepth + 1 ≤ fuel) :
    ∃ e, exampleValue schemas fuel visiting ty name useRef = .ok e := by
  induction fuel generalizing visiting ty name useRef with
  | zero => omega
  | succ fuel ih =>
    cases ty with
    | array inner =>
      simp only [exampleValue]
      split
      · exact ⟨_, rfl⟩
      · exact mapOk_ok _ _ (ih visiting inner name _ (tyPresent_array schemas inner hp) (by simp only [Ty.arrayDepth] at hf; omega))
    | model m =>
      simp only [exampleValue]
      split
      · exact ⟨_, rfl⟩
      · rename_i hv
        have hv' : visiting.contains m = false := by simpa using hv
        have hpm := hp m rfl
        cases hr : btGet m schemas with
        | none => rw [hr] at hpm; simp at hpm
        | some r =>
          simp only
          have hok := ht m r hr
          have hmem := btGet_mem m schemas r hr
          have hlt := unvisited_cons_lt _ visiting m hmem hv'
          have hbound : ∀ f ∈ r.fields, unvisited (schemas.map (·.1)) (m :: visiting) * (maxFieldDepth schemas + 2) + f.ty.arrayDepth + 1 ≤ fuel := by
            intro f hfm
            have hd := field_depth_le schemas m r hr f hfm
            simp only [Ty.arrayDepth] at hf
            have h1 : (unvisited (schemas.map (·.1)) (m :: visiting) + 1) * (maxFieldDepth schemas + 2) ≤
                unvisited (schemas.map (·.1)) visiting * (maxFieldDepth schemas + 2) := Nat.mul_le_mul_right _ hlt
            rw [Nat.add_mul] at h1
            omega
          obtain ⟨sk, hsk⟩ := hok.key
          cases r with
          | struct sn nl fields doc =>
            simp only
            apply both_ok
            · exact ⟨sk, by simp [liftXP, hsk]⟩
            · apply exFieldsM_ok
              intro nf hnf
              obtain ⟨i, hi⟩ := hok.fieldNames sn fields nl doc rfl nf hnf
              have hfin : nf.2 ∈ (Record.struct sn nl fields doc).fields := by
                simp only [Record.fields, List.mem_map]; exact ⟨nf, hnf, rfl⟩
              unfold structFieldEx
              simp only [liftXP, hi]
              split
              · exact ⟨_, rfl⟩
              · exact mapOk_ok _ _ (ih _ _ _ _ (hok.present nf.2 hfin) (hbound nf.2 hfin))
          | newtype nm fields doc =>
            simp only
            obtain ⟨sn, hsn⟩ : SanStructOk nm := hok.name
            apply both_ok
            · apply exsM_ok
              intro f hfm
              have hfin : f ∈ (Record.newtype nm fields doc).fields := by simpa [Record.fields] using hfm
              exact ih _ _ _ _ (hok.present f hfin) (hbound f hfin)
            · exact ⟨sn, by simp [liftXP, hsn]⟩
          | «alias» nm f =>
            simp only
            have hfin : f ∈ (Record.alias nm f).fields := by simp [Record.fields]
            exact mapOk_ok _ _ (ih _ _ _ _ (hok.present f hfin) (hbound f hfin))
          | «enum» nm variants doc =>
            simp only
            obtain ⟨v, rest, res, hvs, hres⟩ := hok.variants nm variants doc rfl
            subst hvs
            obtain ⟨vi, rn⟩ := res
            simp only [enumEx, hres]
            exact mapOk_ok _ _ ⟨sk, by simp [liftXP, hsk]⟩
    | _ => exact ⟨_, rfl⟩

end Ln

namespace Ln

/-- **the example writer reaches no panic site** -/
theorem makeExample_total (schemas : SchemaTable) (cfg : Cfg) (op : Operation) (ht : ExTableOk schemas) (h : OpOk op)
    (hpkg : (keywords.contains (toSnake cfg.name) && !([cs!"super", cs!"self", cs!"crate", cs!"try"].contains (toSnake cfg.name))) = false)
    (hpres : ∀ p ∈ op.params, TyPresent schemas p.ty) :
    ∃ e, makeExample schemas cfg op = .ok e := by
  obtain ⟨stem, hstem⟩ := h.file
  obtain ⟨mname, hm⟩ := h.method
  obtain ⟨rname, hrq⟩ := h.required
  have hval : ∀ l : List Param, (∀ p ∈ l, p ∈ op.params) → ∃ r, mapE (exampleDecl schemas) l = .ok r := by
    intro l hl
    apply mapE_total
    intro p hp
    obtain ⟨i, hi⟩ := (h.params p (hl p hp)).1
    obtain ⟨v, hv⟩ : ∃ v, toRustExampleValue schemas p.ty p.name = .ok v := by
      unfold toRustExampleValue
      apply exampleValue_total schemas ht _ [] p.ty p.name true (hpres p (hl p hp))
      unfold exampleFuel unvisited
      have h1 := List.length_filter_le (fun k => !([] : List Text).contains k) (schemas.map (·.1))
      simp only [List.length_map] at h1
      have h2 : (List.filter (fun k => !([] : List Text).contains k) (List.map (fun x => x.fst) schemas)).length * (maxFieldDepth schemas + 2)
          ≤ schemas.length * (maxFieldDepth schemas + 2) := Nat.mul_le_mul_right _ h1
      rw [Nat.add_mul]
      omega
    simp only [exampleDecl, liftXP, hi, hv]; exact ⟨_, rfl⟩
  obtain ⟨decls, hdecls⟩ := hval (mandatory op.params) (fun p hp => (List.mem_filter.mp hp).1)
  obtain ⟨sets, hsets⟩ := hval (setters op.params) (fun p hp => (List.mem_filter.mp hp).1)
  unfold makeExample
  simp only [hpkg, Bool.false_eq_true, if_false, opFile, opMethod, opRequiredStruct, hstem, hm, hrq, liftXP, hdecls, hsets]
  exact ⟨_, rfl⟩

/-- everything the writers need of an extracted spec and a configuration -/
structure EmitOk (hir : HirSpec) (cfg : Cfg) : Prop where
  closed : Closed hir.schemas
  records : ∀ kv ∈ hir.schemas, RecordOk kv.1 kv.2
  ops : ∀ op ∈ hir.operations, OpOk op
  exTable : ExTableOk hir.schemas
  opTypes : ∀ op ∈ hir.operations, ∀ p ∈ op.params, TyPresent hir.schemas p.ty
  pkg : (keywords.contains (toSnake cfg.name) && !([cs!"super", cs!"self", cs!"crate", cs!"try"].contains (toSnake cfg.name))) = false
  lib : (∃ a, mapE authArm hir.security = .ok a) ∧ (∃ f, fromEnv hir.security cfg.name = .ok f)

/-- **generation of an extracted spec is total**: no writer reaches a panic site, and (C01_complete) the
crate that results is complete -/
theorem emitFiles_total (hir : HirSpec) (cfg : Cfg) (h : EmitOk hir cfg) : ∃ files, emitFiles hir cfg = .ok files := by
  obtain ⟨mf, hmf⟩ := mapE_total (modelPath hir cfg) hir.schemas (fun kv hkv => by
    obtain ⟨f, hf⟩ := makeModelFile_total hir.schemas cfg h.closed kv.1 kv.2 ⟨kv.1, hkv⟩ (h.records kv hkv)
    simp only [modelPath, hf]; exact ⟨_, rfl⟩)
  obtain ⟨rq, hrq⟩ := mapE_total (requestPath hir cfg) hir.operations (fun op hop => by
    obtain ⟨f, hf⟩ := makeRequestFile_total (!hir.security.isEmpty) cfg op (h.ops op hop)
    simp only [requestPath, hf]; exact ⟨_, rfl⟩)
  obtain ⟨ex, hex⟩ := mapE_total (examplePath hir cfg) hir.operations (fun op hop => by
    obtain ⟨e, he⟩ := makeExample_total hir.schemas cfg op h.exTable (h.ops op hop) h.pkg (h.opTypes op hop)
    simp only [examplePath, he]; exact ⟨_, rfl⟩)
  obtain ⟨⟨a, ha⟩, ⟨f, hf⟩⟩ := h.lib
  unfold emitFiles
  simp only [hmf, hrq, ha, hf]
  by_cases hce : cfg.examples = true
  · simp only [hce, if_true, hex]; exact ⟨_, rfl⟩
  · simp only [hce, Bool.false_eq_true, if_false]; exact ⟨_, rfl⟩

end Ln

namespace Ln

/-- non-vacuity: the obligations are met by an ordinary operation (`getPet`, a path parameter `petId`, an
optional list-valued query parameter `tag`, result `Pet`) and an ordinary record -/
example : OpOk ⟨cs!"GetPet", none, [⟨cs!"petId", .string, .path, false⟩, ⟨cs!"tag", .array .string, .query, true⟩], .model cs!"Pet", cs!"/pets/{petId}", cs!"get"⟩ :=
  { file := sanOk_of_domain _ (by decide +kernel), method := sanOk_of_domain _ (by decide +kernel), request := sanStructOk_of_domain _ (by decide +kernel), required := sanStructOk_of_domain _ (by decide +kernel),
    params := by
      intro p hp
      simp only [List.mem_cons, List.mem_nil_iff, or_false] at hp
      rcases hp with rfl | rfl
      · exact ⟨sanOk_of_domain _ (by decide +kernel), trivial⟩
      · exact ⟨sanOk_of_domain _ (by decide +kernel), trivial⟩,
    ret := sanStructOk_of_domain _ (by decide +kernel),
    path := ⟨cs!"/pets/{pet_id}", by decide +kernel⟩ }

example : RecordOk cs!"Pet" (.struct cs!"Pet" false [(cs!"id", ⟨.integer .simple, false, none, false⟩), (cs!"type", ⟨.string, true, none, false⟩)] none) :=
  { file := sanOk_of_domain _ (by decide +kernel), name := sanStructOk_of_domain _ (by decide +kernel),
    fieldTys := by intro f hf; simp [Record.fields] at hf; rcases hf with rfl | rfl <;> trivial,
    fieldNames := by
      intro n fs nl d he nf hnf
      simp at he
      obtain ⟨_, _, rfl, _⟩ := he
      simp only [List.mem_cons, List.mem_nil_iff, or_false] at hnf
      rcases hnf with rfl | rfl <;> exact sanOk_of_domain _ (by decide +kernel),
    variants := by intro n vs d he; simp at he }

end Ln
