import LnModel.Thm.C01
import LnModel.Thm.C01Total
import LnModel.Thm.C01Extract
/-! C01: the statement at full strength over the model, what is proved of it, and why the rest is not. -/
namespace Ln

/-- a generated crate is complete: the three module roots, one model file per retained schema, one request module
per operation and, when enabled, one example per operation -/
def Complete (hir : HirSpec) (cfg : Cfg) (files : List Text) : Prop :=
  cs!"src/lib.rs" ∈ files ∧ cs!"src/model/mod.rs" ∈ files ∧ cs!"src/request/mod.rs" ∈ files ∧
  (∀ kv ∈ hir.schemas, ∃ f, makeModelFile hir.schemas cfg kv.1 kv.2 = .ok f ∧ cs!"src/model/" ++ f.stem ++ cs!".rs" ∈ files) ∧
  (∀ op ∈ hir.operations, ∃ f, makeRequestFile (!hir.security.isEmpty) cfg op = .ok f ∧ cs!"src/request/" ++ f.stem ++ cs!".rs" ∈ files) ∧
  (cfg.examples = true → ∀ op ∈ hir.operations, ∃ e, makeExample hir.schemas cfg op = .ok e ∧ cs!"examples/" ++ e.stem ++ cs!".rs" ∈ files)

/-- the service name is ASCII alphanumeric words starting with a letter -/
def serviceNameOk (n : Text) : Bool :=
  n.all (fun c => isAlnum c || c == ' ') && (match n with | c :: _ => c.isUpper || c.isLower | [] => false)

/-- **C01 at full strength**: every document of D, with every valid configuration, generates completely -/
def C01_statement : Prop :=
  ∀ (spec : Spec) (cfg : Cfg), inD spec = true → serviceNameOk cfg.name = true →
    ∃ hir files, extractSpec spec = .ok hir ∧ pipeline spec cfg = .ok files ∧ Complete hir cfg files

/-- **what is proved**: on D the extractor returns, and generation is complete whenever the extracted table meets
the writers' obligations `EmitOk` (the sanitiser returns on the names it is applied to -- C13 for the name
domain --, every model a record names is in the table, enums have a first variant, the crate name is not a keyword) -/
theorem C01_partial (spec : Spec) (cfg : Cfg) (hD : inD spec = true) :
    ∃ hir, extractSpec spec = .ok hir ∧
      (EmitOk hir cfg → ∃ files, pipeline spec cfg = .ok files ∧ Complete hir cfg files) := by
  obtain ⟨hir, hh⟩ := C01_extractSpec_total spec hD
  refine ⟨hir, hh, fun hok => ?_⟩
  obtain ⟨files, hf⟩ := emitFiles_total hir cfg hok
  refine ⟨files, by simp only [pipeline, hh, hf], ?_⟩
  exact C01_complete hir cfg files hf

/-- **the full statement is false of the pinned tree** (and of the model, which agrees with it): a service called
`Type` is a valid configuration, and the example programs then import from a crate path that is a keyword
(recorded finding `serviceNameIsKeyword`; the real generator panics in `syn::parse_str::<Path>`) -/
theorem C01_statement_counterexample : ¬ C01_statement := by
  intro h
  obtain ⟨hir, files, _, hp, _⟩ := h C01_inD_witness ⟨cs!"Type", [], true⟩ (by decide +kernel) (by decide +kernel)
  have : (match pipeline C01_inD_witness ⟨cs!"Type", [], true⟩ with | .ok _ => true | .error _ => false) = false := by decide +kernel
  rw [hp] at this
  simp at this

/-- ... while under an ordinary service name the same document generates all ten files -/
example : (match pipeline C01_inD_witness ⟨cs!"Acme", [], true⟩ with | .ok f => f.length == 10 | .error _ => false) = true := by
  decide +kernel

end Ln
