import LnModel.Treeshake
/-! # C07 — schema table is closed: no dangling model, nothing reachable shaken out -/
namespace Ln

def keysOf (t : SchemaTable) : List Text := t.map (·.1)

/-- every model name mentioned by an operation or by a record of the table denotes a record of the table -/
def Closed (hir : HirSpec) : Prop := ∀ n ∈ usedNames hir, n ∈ keysOf hir.schemas

def opMentions (hir : HirSpec) : List Text :=
  hir.operations.flatMap fun op => (op.ret.innerModel.toList) ++ op.params.filterMap fun p => p.ty.innerModel

def recMentions (r : Record) : List Text := r.fields.filterMap fun f => f.ty.innerModel

theorem usedNames_eq (hir : HirSpec) :
    usedNames hir = (hir.schemas.flatMap fun e => recMentions e.2) ++ opMentions hir := rfl

/-! ## pruning -/

theorem removeUnused_keys_sub (hir : HirSpec) : ∀ n ∈ keysOf (removeUnused hir).schemas, n ∈ keysOf hir.schemas := by
  intro n hn
  simp only [keysOf, removeUnused, List.mem_map, List.mem_filter] at hn ⊢
  obtain ⟨e, ⟨he, _⟩, rfl⟩ := hn
  exact ⟨e, he, rfl⟩

theorem removeUnused_used_sub (hir : HirSpec) : ∀ n ∈ usedNames (removeUnused hir), n ∈ usedNames hir := by
  intro n hn
  simp only [usedNames_eq, List.mem_append, List.mem_flatMap] at hn ⊢
  rcases hn with ⟨e, he, hm⟩ | h
  · left
    simp only [removeUnused, List.mem_filter] at he
    exact ⟨e, he.1, hm⟩
  · right; exact h

/-- a used name that is in the table stays in the table -/
theorem removeUnused_keeps_used (hir : HirSpec) (n : Text) (hu : n ∈ usedNames hir) (hk : n ∈ keysOf hir.schemas) :
    n ∈ keysOf (removeUnused hir).schemas := by
  simp only [keysOf, List.mem_map] at hk ⊢
  obtain ⟨e, he, rfl⟩ := hk
  refine ⟨e, ?_, rfl⟩
  simp only [removeUnused, List.mem_filter]
  refine ⟨he, ?_⟩
  have : (usedNames hir).contains e.1 = true := List.contains_iff_mem.mpr hu
  obtain ⟨k, r⟩ := e
  simp only [Bool.or_eq_true]
  left; exact this

theorem removeUnused_closed (hir : HirSpec) (h : Closed hir) : Closed (removeUnused hir) := by
  intro n hn
  have hu := removeUnused_used_sub hir n hn
  exact removeUnused_keeps_used hir n hu (h n hu)

/-! ## alias short-circuit -/

theorem shortCircuit_target_mentioned (schemas : SchemaTable) (a t : Text)
    (h : (a, t) ∈ shortCircuitMap schemas) : ∃ e ∈ schemas, t ∈ recMentions e.2 := by
  simp only [shortCircuitMap, List.mem_filterMap] at h
  obtain ⟨e, he, hm⟩ := h
  refine ⟨e, he, ?_⟩
  obtain ⟨k, r⟩ := e
  cases r with
  | alias name f =>
    simp only at hm
    split at hm
    · split at hm
      · rename_i t' hty
        simp only [Option.some.injEq, Prod.mk.injEq] at hm
        obtain ⟨_, rfl⟩ := hm
        simp [recMentions, Record.fields, hty, Ty.innerModel]
      · simp at hm
    · simp at hm
  | struct _ _ _ _ => simp at hm
  | newtype _ _ _ => simp at hm
  | enum _ _ _ => simp at hm

theorem rewriteField_mention (m : List (Text × Text)) (f : HirField) (n : Text)
    (h : (rewriteField m f).ty.innerModel = some n) :
    f.ty.innerModel = some n ∨ ∃ a, (a, n) ∈ m := by
  unfold rewriteField at h
  split at h
  · rename_i k hk
    split at h
    · rename_i a target hfind
      right
      simp only [Ty.innerModel, Option.some.injEq] at h
      subst h
      have := List.mem_of_find?_eq_some hfind
      exact ⟨a, List.mem_reverse.mp this⟩
    · left; exact h
  · left; exact h

theorem rewriteRecord_mentions (m : List (Text × Text)) (r : Record) (n : Text)
    (h : n ∈ recMentions (rewriteRecord m r)) : n ∈ recMentions r ∨ ∃ a, (a, n) ∈ m := by
  simp only [recMentions, List.mem_filterMap] at h ⊢
  obtain ⟨f', hf', hn⟩ := h
  cases r with
  | struct nm nu fs d =>
    simp only [rewriteRecord, Record.fields, List.map_map, List.mem_map, Function.comp] at hf'
    obtain ⟨e, he, rfl⟩ := hf'
    rcases rewriteField_mention m e.2 n hn with h | h
    · left; exact ⟨e.2, by simp only [Record.fields, List.mem_map]; exact ⟨e, he, rfl⟩, h⟩
    · right; exact h
  | newtype nm fs d =>
    simp only [rewriteRecord, Record.fields, List.mem_map] at hf'
    obtain ⟨f, hf, rfl⟩ := hf'
    rcases rewriteField_mention m f n hn with h | h
    · left; exact ⟨f, by simpa [Record.fields] using hf, h⟩
    · right; exact h
  | alias nm f =>
    simp only [rewriteRecord, Record.fields, List.mem_singleton] at hf'
    subst hf'
    rcases rewriteField_mention m f n hn with h | h
    · left; exact ⟨f, by simp [Record.fields], h⟩
    · right; exact h
  | enum nm vs d => simp [rewriteRecord, Record.fields] at hf'

/-- the alias short-circuit keeps the table closed (it redirects a mention of an optional alias
to the alias's own target, which the alias record mentions) -/
theorem shortCircuit_closed (hir : HirSpec) (h : Closed hir) :
    Closed { hir with schemas := hir.schemas.map fun (k, r) => (k, rewriteRecord (shortCircuitMap hir.schemas) r) } := by
  intro n hn
  have hkeys : keysOf (hir.schemas.map fun (k, r) => (k, rewriteRecord (shortCircuitMap hir.schemas) r)) = keysOf hir.schemas := by
    simp [keysOf, List.map_map, Function.comp]
  show n ∈ keysOf (hir.schemas.map fun (k, r) => (k, rewriteRecord (shortCircuitMap hir.schemas) r))
  rw [hkeys]
  simp only [usedNames_eq, List.mem_append, List.mem_flatMap, List.mem_map] at hn
  rcases hn with ⟨e', ⟨e, he, rfl⟩, hm⟩ | hop
  · rcases rewriteRecord_mentions _ e.2 n hm with h1 | ⟨a, ha⟩
    · exact h n (by simp only [usedNames_eq, List.mem_append, List.mem_flatMap]; exact Or.inl ⟨e, he, h1⟩)
    · obtain ⟨e2, he2, hm2⟩ := shortCircuit_target_mentioned hir.schemas a n ha
      exact h n (by simp only [usedNames_eq, List.mem_append, List.mem_flatMap]; exact Or.inl ⟨e2, he2, hm2⟩)
  · exact h n (by simp only [usedNames_eq, List.mem_append]; exact Or.inr hop)

/-- **No dangling model after tree shaking**, for every reference graph: if extraction left the
table closed, pruning (alias short-circuit and both removal passes) keeps it closed. -/
theorem C07_treeshake_closed (hir : HirSpec) (h : Closed hir) : Closed (treeshake hir) := by
  unfold treeshake
  exact removeUnused_closed _ (removeUnused_closed _ (shortCircuit_closed hir h))

/-- **Nothing an operation refers to is shaken out**: a model mentioned by an operation's inputs
or result that extraction put into the table is still there after tree shaking. -/
theorem C07_operation_models_retained (hir : HirSpec) (n : Text)
    (hop : n ∈ opMentions hir) (hk : n ∈ keysOf hir.schemas) : n ∈ keysOf (treeshake hir).schemas := by
  unfold treeshake
  -- operations are untouched by every step, so `n` stays used
  let hir1 : HirSpec := { hir with schemas := hir.schemas.map fun (k, r) => (k, rewriteRecord (shortCircuitMap hir.schemas) r) }
  have hk1 : n ∈ keysOf hir1.schemas := by
    have : keysOf hir1.schemas = keysOf hir.schemas := by simp [hir1, keysOf, List.map_map, Function.comp]
    rw [this]; exact hk
  have hu1 : n ∈ usedNames hir1 := by
    simp only [usedNames_eq, List.mem_append]; right; exact hop
  have hk2 := removeUnused_keeps_used hir1 n hu1 hk1
  have hu2 : n ∈ usedNames (removeUnused hir1) := by
    simp only [usedNames_eq, List.mem_append]; right; exact hop
  exact removeUnused_keeps_used (removeUnused hir1) n hu2 hk2

/-- … and, by closedness, neither is anything a retained schema refers to (`C07_treeshake_closed`).
Pruning never invents a record: the table after tree shaking is a sub-table of the extracted one. -/
theorem C07_treeshake_keys_sub (hir : HirSpec) : ∀ n ∈ keysOf (treeshake hir).schemas, n ∈ keysOf hir.schemas := by
  intro n hn
  unfold treeshake at hn
  have h1 := removeUnused_keys_sub _ n hn
  have h2 := removeUnused_keys_sub _ n h1
  simpa [keysOf, List.map_map, Function.comp] using h2

/-- Full strength for extraction itself: the table produced by the extractor is closed. -/
def C07_extract_closed_statement : Prop :=
  ∀ (spec : Spec) (hir : HirSpec), extractWithoutTreeshake spec = .ok hir → Closed hir

/-- The unchanged code does not satisfy it: an array-typed component with inline object items is
never inserted under its own name, yet a `$ref` to it yields `Model(<its name>)`. -/
def C07_witness : Spec :=
  { (default : Spec) with
    components := [(cs!"Lines", .item (.mk {} (.arr (.some (.item (.mk {} (.obj (.cons cs!"sku" (.item (.mk {} (.str [] []))) .nil) [] .absent)))))))],
    paths := [⟨cs!"/lines", [], [⟨cs!"get", some cs!"listLines", none, none, none, [], none,
      [(some 200, .item (some (.ref cs!"#/components/schemas/Lines")))]⟩]⟩] }

def C07_witness_dangling : Bool :=
  match extractWithoutTreeshake C07_witness with
  | .ok hir => (usedNames hir).contains cs!"Lines" && !(keysOf hir.schemas).contains cs!"Lines"
  | .error _ => false

theorem C07_extract_closed_counterexample : ¬ C07_extract_closed_statement := by
  intro h
  have hd : C07_witness_dangling = true := by decide
  unfold C07_witness_dangling at hd
  cases he : extractWithoutTreeshake C07_witness with
  | error e => rw [he] at hd; simp at hd
  | ok hir =>
    rw [he] at hd
    simp only [Bool.and_eq_true, Bool.not_eq_true', List.contains_iff_mem] at hd
    have hk := h C07_witness hir he cs!"Lines" hd.1
    have : (keysOf hir.schemas).contains cs!"Lines" = true := List.contains_iff_mem.mpr hk
    rw [this] at hd
    simp at hd

end Ln
