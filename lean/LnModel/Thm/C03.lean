import LnModel.Http
import LnModel.Lemmas.Fold
/-! # C03 — requests go out with the spec's method, path and parameter names -/
namespace Ln

theorem flatten_map_singleton {α β : Type} (g : α → β) (l : List α) :
    (l.map fun it => [g it]).flatten = l.map g := by
  induction l with
  | nil => rfl
  | cons a as ih => simp [ih]

/-- One input: the statements emitted for it send exactly what the operation declares for it —
its exact OpenAPI name (whatever Rust identifier it received), its declared location, nothing when
it is an unset optional, one entry per item for lists. -/
theorem C03_one_input (p : Param) (f : Text) (store : Store) (v : Option Val)
    (hloc : p.loc ≠ .path)
    (hstore : store f = v)
    (hreq : p.optional = false → v.isSome = true)
    (hty : wellTyped p v = true) :
    execStmt store none none (assignOne p f) = intendedOne p v := by
  unfold assignOne
  cases hv : v with
  | none =>
    have hopt : p.optional = true := by
      cases ho : p.optional with
      | true => rfl
      | false => have := hreq ho; rw [hv] at this; simp at this
    simp only [hopt, if_true, execStmt, hstore, hv, intendedOne]
  | some val =>
    subst hstore
    cases hl : p.loc with
    | path => exact absurd hl hloc
    | body =>
      have hnb : (p.loc != .body) = false := by simp [hl]
      cases ho : p.optional <;>
        simp [hl, ho, execStmt, evalVal, hv, intendedOne, paramKey]
    | query =>
      cases hit : p.ty.isIterable <;> cases ho : p.optional <;> cases val <;>
        simp_all [wellTyped, execStmt, evalVal, intendedOne, paramKey, scalarEff, List.flatMap, flatten_map_singleton]
    | header =>
      cases hit : p.ty.isIterable <;> cases ho : p.optional <;> cases val <;>
        simp_all [wellTyped, execStmt, evalVal, intendedOne, paramKey, scalarEff, List.flatMap, flatten_map_singleton]
    | cookie =>
      cases hit : p.ty.isIterable <;> cases ho : p.optional <;> cases val <;>
        simp_all [wellTyped, execStmt, evalVal, intendedOne, paramKey, scalarEff, List.flatMap, flatten_map_singleton]

/-- the request struct holds, in the field of each input, the value supplied for it -/
def StoreAgrees (ps : List Param) (σ : Text → Option Val) (store : Store) : Prop :=
  ∀ p ∈ ps, ∀ f, sanitize p.name = .ok f → store f = σ p.name

/-- Full statement for the query / header / cookie / body part of a request: for every operation,
every valuation supplying the required inputs and any subset of the optional ones, executing the
emitted request program sends exactly the declared inputs, each once, at its declared location
under its exact name, and nothing else. -/
def C03_statement : Prop :=
  ∀ (ps : List Param) (σ : Text → Option Val) (store : Store) (prog : List ReqStmt),
    assignInputs ps = .ok prog → StoreAgrees ps σ store →
    (∀ p ∈ ps, p.optional = false → (σ p.name).isSome = true) →
    (∀ p ∈ ps, wellTyped p (σ p.name) = true) →
    execProgram store prog = (ps.filter fun p => p.loc != .path).flatMap fun p => intendedOne p (σ p.name)

theorem C03_program (ps : List Param) (σ : Text → Option Val) (store : Store) :
    ∀ (prog : List ReqStmt),
    mapE (fun p => match sanitize p.name with | .ok f => Except.ok (assignOne p f) | .error e => .error e) ps = .ok prog →
    (∀ p ∈ ps, p.loc ≠ .path) →
    StoreAgrees ps σ store →
    (∀ p ∈ ps, p.optional = false → (σ p.name).isSome = true) →
    (∀ p ∈ ps, wellTyped p (σ p.name) = true) →
    execProgram store prog = ps.flatMap fun p => intendedOne p (σ p.name) := by
  induction ps with
  | nil => intro prog h; simp [mapE] at h; subst h; intros; rfl
  | cons p rest ih =>
    intro prog h hloc hst hreq hty
    simp only [mapE] at h
    cases hs : sanitize p.name with
    | error e => rw [hs] at h; simp at h
    | ok f =>
      rw [hs] at h
      simp only at h
      cases hr : mapE (fun p => match sanitize p.name with | .ok f => Except.ok (assignOne p f) | .error e => .error e) rest with
      | error e => rw [hr] at h; simp at h
      | ok restProg =>
        rw [hr] at h
        simp at h
        subst h
        have h1 := C03_one_input p f store (σ p.name) (hloc p (by simp)) (hst p (by simp) f hs) (hreq p (by simp)) (hty p (by simp))
        have h2 := ih restProg hr (fun q hq => hloc q (List.mem_cons_of_mem _ hq))
          (fun q hq => hst q (List.mem_cons_of_mem _ hq)) (fun q hq => hreq q (List.mem_cons_of_mem _ hq))
          (fun q hq => hty q (List.mem_cons_of_mem _ hq))
        simp only [execProgram, List.flatMap_cons] at h2 ⊢
        rw [h1, h2]

theorem C03 : C03_statement := by
  intro ps σ store prog h hst hreq hty
  unfold assignInputs at h
  simp only at h
  apply C03_program _ σ store prog h
  · intro p hp; simp only [List.mem_filter, bne_iff_ne, ne_eq] at hp; exact hp.2
  · intro p hp; exact hst p (List.mem_filter.mp hp).1
  · intro p hp; exact hreq p (List.mem_filter.mp hp).1
  · intro p hp; exact hty p (List.mem_filter.mp hp).1

/-- The struct fields of two inputs never clash: inputs whose names differ after folding (the
domain's notion of distinct) receive different field identifiers, so `StoreAgrees` is satisfiable:
the client method and the setters write each supplied value into its own field. -/
theorem C03_fields_distinct (a b fa fb : Text) (hab : fold a ≠ fold b)
    (ha : a ≠ cs!"+1" ∧ a ≠ cs!"-1") (hb : b ≠ cs!"+1" ∧ b ≠ cs!"-1")
    (h1 : sanitize a = .ok fa) (h2 : sanitize b = .ok fb) : fa ≠ fb := by
  intro e
  have f1 := fold_sanitize _ _ ha.1 ha.2 h1
  have f2 := fold_sanitize _ _ hb.1 hb.2 h2
  exact hab (by rw [← f1, ← f2, e])

/-- the verb is the operation's verb, the unescaped path the operation's path -/
theorem C03_verb_and_literal_path (sec : Bool) (cfg : Cfg) (op : Operation) (rf : RequestFile)
    (h : makeRequestFile sec cfg op = .ok rf) :
    rf.verb = op.method ∧ ((op.params.filter fun p => p.loc == .path).isEmpty = true → rf.url = .literal op.path) := by
  unfold makeRequestFile at h
  simp only at h
  split at h
  · rename_i stem sname fields sets resp url prog mname _ _ _ _ _ hu _ _
    split at h
    · simp at h
      rw [← h]
      refine ⟨rfl, ?_⟩
      intro he
      simp only [makeUrl, he, if_true] at hu
      simp at hu
      exact hu.symm
    all_goals simp at h
  all_goals simp at h

/-- non-vacuity: an optional list-valued query parameter named `pageSize` -/
example :
    let p : Param := ⟨cs!"pageSize", .array .string, .query, true⟩
    execStmt (fun f => if f = cs!"page_size" then some (.list [cs!"a", cs!"b"]) else none) none none (assignOne p cs!"page_size")
      = [.query cs!"pageSize[]" cs!"a", .query cs!"pageSize[]" cs!"b"] := by decide

end Ln
