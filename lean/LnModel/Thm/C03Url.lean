import LnModel.Emit.Request
import LnModel.Lemmas.Ident
/-! C03, the path: the format string emitted for an operation with path parameters, evaluated as
`format!` evaluates it, is the operation's path template with every `{placeholder}` replaced by the
value of the path parameter of that name. -/
namespace Ln

/-- `{name}` substitution: the meaning of an OpenAPI path template under an assignment of its
parameters, and equally of a `format!` string with named arguments only. `none` for an unknown name
or an unmatched brace (rustc rejects such a format string). -/
def fillBraces (args : Text → Option Text) : Nat → Text → Option Text
  | 0, _ => none
  | _ + 1, [] => some []
  | fuel + 1, c :: rest =>
    if c == '{' then
      match rest.dropWhile (fun x => x != '}') with
      | [] => none
      | _ :: after =>
        match args (rest.takeWhile (fun x => x != '}')), fillBraces args fuel after with
        | some v, some t => some (v ++ t)
        | _, _ => none
    else if c == '}' then none
    else match fillBraces args fuel rest with
      | some t => some (c :: t)
      | none => none

/-- a path template whose braces are exactly placeholders `{word}`, each word containing a letter or digit -/
def templateOk : Nat → Text → Bool
  | 0, _ => false
  | _ + 1, [] => true
  | fuel + 1, c :: rest =>
    if c == '{' then
      let w := rest.takeWhile isWordChar
      let after := rest.dropWhile isWordChar
      w.any isAlnum && after.head? == some '}' && templateOk fuel (after.drop 1)
    else c != '}' && templateOk fuel rest

theorem takeWhile_append_stop {p : Char → Bool} (w rest : Text) (hw : ∀ c ∈ w, p c = true)
    (hr : ∀ c, rest.head? = some c → p c = false) :
    (w ++ rest).takeWhile p = w ∧ (w ++ rest).dropWhile p = rest := by
  induction w with
  | nil =>
    cases rest with
    | nil => simp
    | cons a as => simp [hr a rfl]
  | cons a as ih =>
    have ha : p a = true := hw a (by simp)
    obtain ⟨i1, i2⟩ := ih (fun c hc => hw c (List.mem_cons_of_mem _ hc))
    simp [ha, i1, i2]

theorem isWordChar_ne_close {c : Char} (h : isWordChar c = true) : (c != '}') = true := by
  cases hc : (c != '}') with
  | true => rfl
  | false =>
    simp only [bne_eq_false_iff_eq] at hc
    subst hc
    exact absurd h (by decide)

theorem isAlphanum_eq_isAlnum (c : Char) : c.isAlphanum = isAlnum c := by
  simp [Char.isAlphanum, Char.isAlpha, isAlnum]

theorem snake_no_close {w : Text} (hw : ∀ c ∈ w, isWordChar c = true) (ha : w.any isAlnum = true) :
    ∀ c ∈ toSnake w, (c != '}') = true := by
  have hl : SnakeLike (toSnake w) := by
    apply toSnake_like
    · intro c hc hd
      have := hw c hc
      simp only [isWordChar, Bool.or_eq_true, beq_iff_eq] at this
      rcases this with h | h
      · rw [← isAlphanum_eq_isAlnum]; exact h
      · subst h; simp [isDelim] at hd
    · obtain ⟨c, hc, hca⟩ := List.any_eq_true.mp ha
      exact ⟨c, hc, isAlnum_not_delim hca⟩
  intro c hc
  have := snakeChar_ne (hl.2 c hc) '}' (by decide)
  simpa using this

/-- **C03 (path).** The emitted format string, filled with arguments that hold under the snake-cased
placeholder names what the caller supplied for the placeholders, is the filled-in path template. -/
theorem C03_url_format (σ σ' : Text → Option Text)
    (hσ : ∀ w : Text, (∀ c ∈ w, isWordChar c = true) → σ' (toSnake w) = σ w) :
    ∀ (n : Nat) (path : Text), path.length < n → templateOk n path = true →
      fillBraces σ' n (fixPlaceholders n path) = fillBraces σ n path := by
  intro n
  induction n with
  | zero => intro path h; omega
  | succ n ih =>
    intro path hlen hok
    cases path with
    | nil => simp [fixPlaceholders, fillBraces]
    | cons c rest =>
      simp only [templateOk] at hok
      simp only [fixPlaceholders]
      by_cases hc : (c == '{') = true
      · rw [if_pos hc] at hok ⊢
        simp only [Bool.and_eq_true, beq_iff_eq] at hok
        obtain ⟨⟨hany, hhead⟩, hrec⟩ := hok
        have hw : ∀ x ∈ rest.takeWhile isWordChar, isWordChar x = true := fun x hx => List.all_eq_true.mp (List.all_takeWhile (p := isWordChar) (l := rest)) x hx
        have hne : (rest.takeWhile isWordChar).isEmpty = false := by
          cases h : rest.takeWhile isWordChar with
          | nil => rw [h] at hany; simp at hany
          | cons a as => rfl
        have hsplit : rest = rest.takeWhile isWordChar ++ rest.dropWhile isWordChar := (List.takeWhile_append_dropWhile).symm
        cases hd : rest.dropWhile isWordChar with
        | nil => rw [hd] at hhead; simp at hhead
        | cons d after =>
          rw [hd] at hhead hrec hsplit
          simp only [List.head?_cons, Option.some.injEq] at hhead
          subst hhead
          simp only [List.drop_succ_cons, List.drop_zero] at hrec
          simp only [hne, Bool.not_false, List.head?_cons, beq_self_eq_true, Bool.and_self, if_true, List.drop_succ_cons, List.drop_zero]
          have hlen' : after.length < n := by
            have : rest.length = (rest.takeWhile isWordChar).length + (after.length + 1) := by
              conv => lhs; rw [hsplit]
              simp
            simp only [List.length_cons] at hlen
            omega
          -- the implementation side
          have hL := takeWhile_append_stop (p := fun x => x != '}') (toSnake (rest.takeWhile isWordChar)) ('}' :: fixPlaceholders n after)
            (snake_no_close hw hany) (by intro c hc; simp at hc; subst hc; decide)
          -- the template side
          have hR := takeWhile_append_stop (p := fun x => x != '}') (rest.takeWhile isWordChar) ('}' :: after)
            (fun x hx => isWordChar_ne_close (hw x hx)) (by intro c hc; simp at hc; subst hc; decide)
          rw [← hsplit] at hR
          have hcc : c = '{' := by simpa using hc
          subst hcc
          simp only [fillBraces, beq_self_eq_true, if_true, List.cons_append, hL.1, hL.2, hR.1, hR.2]
          rw [hσ _ hw, ih after hlen' hrec]
      · rw [if_neg hc] at hok ⊢
        simp only [Bool.and_eq_true] at hok
        have hlen' : rest.length < n := by simp only [List.length_cons] at hlen; omega
        have hc2 : (c == '}') = false := by
          have := hok.1
          cases h : (c == '}') with
          | false => rfl
          | true => simp only [beq_iff_eq] at h; subst h; simp at this
        simp only [fillBraces, hc, hc2, if_false, Bool.false_eq_true]
        rw [ih rest hlen' hok.2]

/-- the format string of a request file is `fixPlaceholders` of the operation's path -/
theorem C03_url_is_fixed_path (op : Operation) (fmt : Text) (args : List (Text × Text))
    (h : makeUrl op = .ok (.format fmt args)) : fmt = fixPlaceholders (op.path.length + 1) op.path := by
  unfold makeUrl at h
  simp only at h
  split at h
  · simp at h
  · split at h
    · simp at h
    · simp only [Except.ok.injEq, UrlSum.format.injEq] at h
      exact h.1.symm

/-- non-vacuity: `/pets/{petId}/toys/{toy_id}` with `petId = 7`, `toy_id = ball` -/
example :
    let σ : Text → Option Text := fun w => if w = cs!"petId" then some cs!"7" else if w = cs!"toy_id" then some cs!"ball" else none
    let σ' : Text → Option Text := fun w => if w = cs!"pet_id" then some cs!"7" else if w = cs!"toy_id" then some cs!"ball" else none
    let path := cs!"/pets/{petId}/toys/{toy_id}"
    templateOk (path.length + 1) path = true ∧
    fillBraces σ' (path.length + 1) (fixPlaceholders (path.length + 1) path) = some cs!"/pets/7/toys/ball" ∧
    fillBraces σ (path.length + 1) path = some cs!"/pets/7/toys/ball" := by decide +kernel

end Ln
