import LnModel.Emit.Request
import LnModel.Domain2
import LnModel.Lemmas.Ident
import LnModel.Thm.C13
/-! C03, the path: the format string emitted for an operation with path parameters, evaluated as
`format!` evaluates it, is the operation's path template with every `{placeholder}` replaced by the
value of the path parameter of that name. -/
namespace Ln

/-- `{name}` substitution: the meaning of an OpenAPI path template under an assignment of its
parameters, and equally of a `format!` string with named arguments only. `none` for an unknown name
or an unmatched brace (rustc rejects such a format string). -/
def fillBraces (args : Text → Option Text) : Nat → Text → Option Text
  | 0, _ => none
  | _ + 1, [] => some []
  | fuel + 1, c :: rest =>
    if c == '{' then
      match rest.dropWhile (fun x => x != '}') with
      | [] => none
      | _ :: after =>
        match args (rest.takeWhile (fun x => x != '}')), fillBraces args fuel after with
        | some v, some t => some (v ++ t)
        | _, _ => none
    else if c == '}' then none
    else match fillBraces args fuel rest with
      | some t => some (c :: t)
      | none => none

theorem takeWhile_append_stop {p : Char → Bool} (w rest : Text) (hw : ∀ c ∈ w, p c = true)
    (hr : ∀ c, rest.head? = some c → p c = false) :
    (w ++ rest).takeWhile p = w ∧ (w ++ rest).dropWhile p = rest := by
  induction w with
  | nil =>
    cases rest with
    | nil => simp
    | cons a as => simp [hr a rfl]
  | cons a as ih =>
    have ha : p a = true := hw a (by simp)
    obtain ⟨i1, i2⟩ := ih (fun c hc => hw c (List.mem_cons_of_mem _ hc))
    simp [ha, i1, i2]

theorem notBrace_ne_close {c : Char} (h : notBrace c = true) : (c != '}') = true := by
  simp only [notBrace, Bool.and_eq_true] at h
  exact h.2

theorem validIdent_no_close {i : Text} (h : validIdent i = true) : ∀ c ∈ i, (c != '}') = true := by
  intro c hc
  cases i with
  | nil => simp at hc
  | cons a as =>
    simp only [validIdent, Bool.and_eq_true, Bool.or_eq_true, List.all_eq_true] at h
    obtain ⟨⟨⟨ha, hall⟩, _⟩, _⟩ := h
    have hne : ∀ x : Char, (x.isUpper = true ∨ x.isLower = true ∨ x.isDigit = true ∨ x = '_') → (x != '}') = true := by
      intro x hx
      cases hxe : (x != '}') with
      | true => rfl
      | false =>
        simp only [bne_eq_false_iff_eq] at hxe
        subst hxe
        rcases hx with h | h | h | h
        · exact absurd h (by decide)
        · exact absurd h (by decide)
        · exact absurd h (by decide)
        · exact absurd h (by decide)
    rcases List.mem_cons.mp hc with h | h
    · subst h
      rcases ha with (h | h) | h
      · exact hne _ (Or.inl h)
      · exact hne _ (Or.inr (Or.inl h))
      · simp only [beq_iff_eq] at h; exact hne _ (Or.inr (Or.inr (Or.inr h)))
    · have := hall c h
      simp only [isIdentChar, isAlnum, Bool.or_eq_true, beq_iff_eq] at this
      rcases this with ((h | h) | h) | h
      · exact hne _ (Or.inl h)
      · exact hne _ (Or.inr (Or.inl h))
      · exact hne _ (Or.inr (Or.inr (Or.inl h)))
      · exact hne _ (Or.inr (Or.inr (Or.inr h)))

/-- **C03 (path).** On a well-formed template the rewrite of `make_url` returns a format string which,
filled with arguments that hold under each parameter identifier what the caller supplied for the
placeholder of that parameter, is the filled-in path template. -/
theorem C03_url_format (σ σ' : Text → Option Text)
    (hσ : ∀ w i : Text, sanitize w = .ok i → σ' i = σ w) :
    ∀ (n : Nat) (path : Text), path.length < n → templateOk n path = true →
      ∃ fmt, fixPlaceholders n path = .ok fmt ∧ fillBraces σ' n fmt = fillBraces σ n path := by
  intro n
  induction n with
  | zero => intro path h; omega
  | succ n ih =>
    intro path hlen hok
    cases path with
    | nil => exact ⟨[], by simp [fixPlaceholders], by simp [fillBraces]⟩
    | cons c rest =>
      simp only [templateOk] at hok
      simp only [fixPlaceholders]
      by_cases hc : (c == '{') = true
      · rw [if_pos hc] at hok ⊢
        simp only [Bool.and_eq_true, beq_iff_eq] at hok
        obtain ⟨⟨hdom, hhead⟩, hrec⟩ := hok
        have hw : ∀ x ∈ rest.takeWhile notBrace, notBrace x = true :=
          fun x hx => List.all_eq_true.mp (List.all_takeWhile (p := notBrace) (l := rest)) x hx
        have hne : (rest.takeWhile notBrace).isEmpty = false := by
          cases h : rest.takeWhile notBrace with
          | nil => rw [h] at hdom; simp [inNameDomain] at hdom
          | cons a as => rfl
        have hsplit : rest = rest.takeWhile notBrace ++ rest.dropWhile notBrace := (List.takeWhile_append_dropWhile).symm
        obtain ⟨i, hi, hvalid⟩ := C13_sanitize _ hdom
        cases hd : rest.dropWhile notBrace with
        | nil => rw [hd] at hhead; simp at hhead
        | cons d after =>
          rw [hd] at hhead hrec hsplit
          simp only [List.head?_cons, Option.some.injEq] at hhead
          subst hhead
          simp only [List.drop_succ_cons, List.drop_zero] at hrec
          have hlen' : after.length < n := by
            have : rest.length = (rest.takeWhile notBrace).length + (after.length + 1) := by
              conv => lhs; rw [hsplit]
              simp
            simp only [List.length_cons] at hlen
            omega
          obtain ⟨t, ht, heq⟩ := ih after hlen' hrec
          refine ⟨('{' :: i) ++ ('}' :: t), ?_, ?_⟩
          · simp only [hne, Bool.not_false, List.head?_cons, beq_self_eq_true, Bool.and_self, if_true, List.drop_succ_cons, List.drop_zero, hi, ht]
          · have hL := takeWhile_append_stop (p := fun x => x != '}') i ('}' :: t)
              (validIdent_no_close hvalid) (by intro c hc; simp at hc; subst hc; decide)
            have hR := takeWhile_append_stop (p := fun x => x != '}') (rest.takeWhile notBrace) ('}' :: after)
              (fun x hx => notBrace_ne_close (hw x hx)) (by intro c hc; simp at hc; subst hc; decide)
            rw [← hsplit] at hR
            have hcc : c = '{' := by simpa using hc
            subst hcc
            simp only [fillBraces, beq_self_eq_true, if_true, List.cons_append, hL.1, hL.2, hR.1, hR.2]
            rw [hσ _ _ hi, heq]
      · rw [if_neg hc] at hok ⊢
        simp only [Bool.and_eq_true] at hok
        have hlen' : rest.length < n := by simp only [List.length_cons] at hlen; omega
        have hc2 : (c == '}') = false := by
          have := hok.1
          cases h : (c == '}') with
          | false => rfl
          | true => simp only [beq_iff_eq] at h; subst h; simp at this
        obtain ⟨t, ht, heq⟩ := ih rest hlen' hok.2
        refine ⟨c :: t, by simp only [ht], ?_⟩
        simp only [fillBraces, hc, hc2, if_false, Bool.false_eq_true]
        rw [heq]

/-- in particular the rewrite returns on every well-formed template (the obligation `OpOk.path` of
`makeRequestFile_total`) -/
theorem fixPlaceholders_total (n : Nat) (path : Text) (h1 : path.length < n) (h2 : templateOk n path = true) :
    ∃ f, fixPlaceholders n path = .ok f := by
  obtain ⟨f, hf, _⟩ := C03_url_format (fun _ => none) (fun _ => none) (fun _ _ _ => rfl) n path h1 h2
  exact ⟨f, hf⟩

/-- the format string of a request file is `fixPlaceholders` of the operation's path -/
theorem C03_url_is_fixed_path (op : Operation) (fmt : Text) (args : List (Text × Text))
    (h : makeUrl op = .ok (.format fmt args)) : fixPlaceholders (op.path.length + 1) op.path = .ok fmt := by
  unfold makeUrl at h
  simp only at h
  split at h
  · simp at h
  · split at h
    · simp at h
    · split at h
      · simp at h
      · rename_i f hf
        simp only [Except.ok.injEq, UrlSum.format.injEq] at h
        rw [hf, h.1]

/-- non-vacuity: `/pets/{petId}/files/{file.id}/{type}` with `petId = 7`, `file.id = a`, `type = png` -/
example :
    let σ : Text → Option Text := fun w => if w = cs!"petId" then some cs!"7" else if w = cs!"file.id" then some cs!"a" else if w = cs!"type" then some cs!"png" else none
    let σ' : Text → Option Text := fun w => if w = cs!"pet_id" then some cs!"7" else if w = cs!"file_id" then some cs!"a" else if w = cs!"type_" then some cs!"png" else none
    let path := cs!"/pets/{petId}/files/{file.id}/{type}"
    templateOk (path.length + 1) path = true ∧
    fixPlaceholders (path.length + 1) path = .ok cs!"/pets/{pet_id}/files/{file_id}/{type_}" ∧
    fillBraces σ' (path.length + 1) cs!"/pets/{pet_id}/files/{file_id}/{type_}" = some cs!"/pets/7/files/a/png" ∧
    fillBraces σ (path.length + 1) path = some cs!"/pets/7/files/a/png" := by decide +kernel

end Ln
