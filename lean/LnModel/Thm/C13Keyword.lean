import LnModel.Thm.C06Files
/-! C13, continued — whatever the sanitiser returns is not a reserved word, for every input.

`C13` shows that on the name domain the sanitiser returns a valid identifier. The keyword half of that holds
without any hypothesis on the input: whenever `sanitize` returns at all, the result is not one of the reserved
words (`C13_never_keyword`). The proof needs only two facts about the keyword table, both decided by the kernel
over the whole table: no reserved word starts with `_`, and none ends with `_`. -/
namespace Ln

/-- no reserved word ends with an underscore -/
theorem restricted_last : ∀ w ∈ restricted, w.getLast? ≠ some '_' := by decide +kernel

/-- no reserved word starts with an underscore -/
theorem restricted_head : ∀ w ∈ restricted, w.head? ≠ some '_' := by decide +kernel

theorem isRestricted_mem (s : Text) (h : isRestricted s = true) : s ∈ restricted := by
  simpa [isRestricted] using h

/-- **the sanitiser never returns a reserved word**, whatever it is given -/
theorem C13_never_keyword (s r : Text) (h : sanitize s = .ok r) : isRestricted r = false := by
  unfold sanitize at h
  simp only at h
  generalize regexFix (toSnake (rewriteNames s)) = s2 at h
  generalize hs3 : (if isRestricted s2 = true then s2 ++ ['_'] else s2) = s3 at h
  cases s3 with
  | nil => simp [digitPrefix] at h
  | cons c rest =>
    simp only [digitPrefix] at h
    have h4 := assertValidIdent_res _ _ h
    cases hr' : isRestricted r with
    | false => rfl
    | true =>
      exfalso
      have hmem := isRestricted_mem r hr'
      by_cases hd : c.isDigit = true
      · simp only [hd, if_true] at h4
        exact restricted_head r hmem (by rw [h4]; rfl)
      · simp only [hd, Bool.false_eq_true, if_false] at h4
        rw [← h4] at hs3
        by_cases hr : isRestricted s2 = true
        · simp only [hr, if_true] at hs3
          exact restricted_last r hmem (by rw [← hs3]; simp)
        · simp only [hr, Bool.false_eq_true, if_false] at hs3
          rw [hs3] at hr
          exact hr hr'

/-- the same for every name derived for a schema or an operation module -/
theorem C13_file_names_never_keyword (name stem : Text) :
    (schemaFile name = .ok stem → isRestricted stem = false) ∧ (opFile name = .ok stem → isRestricted stem = false) :=
  ⟨fun h => C13_never_keyword _ _ h, fun h => C13_never_keyword _ _ h⟩


/-- no reserved word of the sanitiser's table contains a capital `S` (`Self` is handled separately) -/
theorem restricted_no_capital_S : ∀ w ∈ restricted, 'S' ∉ w := by decide +kernel

/-- **the type-name sanitiser never returns a reserved word nor `Self`**, whatever it is given -/
theorem C13_struct_never_keyword (s r : Text) (h : sanitizeStruct s = .ok r) :
    isRestricted r = false ∧ r ≠ cs!"Self" := by
  unfold sanitizeStruct at h
  simp only at h
  generalize toPascal (rewriteNames s) = s1 at h
  generalize hs2 : (if isRestricted s1 = true then s1 ++ cs!"Struct" else s1) = s2 at h
  generalize hs3 : (if (s2 == cs!"Self") = true then s2 ++ ['_'] else s2) = s3 at h
  cases s3 with
  | nil => simp [digitPrefix] at h
  | cons c rest =>
    simp only [digitPrefix] at h
    have h4 := assertValidIdent_res _ _ h
    by_cases hd : c.isDigit = true
    · simp only [hd, if_true] at h4
      refine ⟨?_, by rw [h4]; simp⟩
      cases hr' : isRestricted r with
      | false => rfl
      | true => exact absurd (by rw [h4]; rfl) (restricted_head r (isRestricted_mem r hr'))
    · simp only [hd, Bool.false_eq_true, if_false] at h4
      rw [← h4] at hs3
      by_cases hself : (s2 == cs!"Self") = true
      · simp only [hself, if_true] at hs3
        have e : s2 = cs!"Self" := by simpa using hself
        rw [e] at hs3
        rw [← hs3]
        exact ⟨by decide, by decide⟩
      · simp only [hself, Bool.false_eq_true, if_false] at hs3
        have hne : r ≠ cs!"Self" := by
          intro e; rw [hs3, e] at hself; exact hself (by decide)
        refine ⟨?_, hne⟩
        cases hr' : isRestricted r with
        | false => rfl
        | true =>
          exfalso
          have hmem := isRestricted_mem r hr'
          by_cases hr1 : isRestricted s1 = true
          · simp only [hr1, if_true] at hs2
            apply restricted_no_capital_S r hmem
            rw [← hs3, ← hs2]
            simp
          · simp only [hr1, Bool.false_eq_true, if_false] at hs2
            rw [← hs3, ← hs2] at hr'
            exact hr1 hr'

end Ln
