import LnModel.Emit.Request
import LnModel.Lemmas.Ident
/-! C02 — the independently generated pieces of a request module agree with each other.

rustc's judgement is not modelled (DESIGN.md, C02: partial). What is proved here are the obligations
that libninja's own code has to meet for its pieces to fit together, for *every* operation:

* the struct literal in the client method names exactly the fields of the request struct, in order;
* the `<Op>Required` struct, when used, holds exactly the mandatory inputs, the client method then
  takes exactly one argument `args` of that type, and otherwise one argument per mandatory input;
* the `<Op>Required` struct declares the lifetime `'a` iff one of its field types borrows with it;
* the result type is qualified with `crate::model::` only when it is a model identifier.
-/
namespace Ln

theorem mapE_ok_map {α β ε γ : Type} (f : α → Except ε β) (g : β → γ) (h : α → γ) (l : List α) (r : List β)
    (hm : mapE f l = .ok r) (hf : ∀ a b, a ∈ l → f a = .ok b → g b = h a) : r.map g = l.map h := by
  induction l generalizing r with
  | nil => simp [mapE] at hm; subst hm; rfl
  | cons a as ih =>
    simp only [mapE] at hm
    cases hfa : f a with
    | error e => rw [hfa] at hm; simp at hm
    | ok b =>
      rw [hfa] at hm
      cases hrest : mapE f as with
      | error e => rw [hrest] at hm; simp at hm
      | ok bs =>
        rw [hrest] at hm
        simp at hm
        subst hm
        simp only [List.map_cons]
        rw [hf a b (List.mem_cons_self ..) hfa, ih bs hrest (fun a' b' ha' => hf a' b' (List.mem_cons_of_mem _ ha'))]

/-- what `sanitize` makes of an input's name (the field identifier), `[]` when it panics -/
def identOf (p : Param) : Text := match sanitize p.name with | .ok i => i | .error _ => []

theorem structField_fst (useRef : Bool) (p : Param) (x : Text × Text) (h : structField useRef p = .ok x) : x.1 = identOf p := by
  unfold structField at h
  unfold identOf
  split at h
  · rename_i i t hi _; simp at h; subst h; simp [hi]
  all_goals simp at h

/-- the struct literal of the client method initialises exactly the fields of the request struct, in order -/
theorem C02_literal_matches_struct (sec : Bool) (cfg : Cfg) (op : Operation) (rf : RequestFile)
    (h : makeRequestFile sec cfg op = .ok rf) :
    rf.method.literal.map (·.1) = rf.fields.map (·.1) := by
  unfold makeRequestFile at h
  simp only at h
  split at h
  · rename_i stem sname fields sets resp url prog mname _ _ hf _ _ _ _ _
    split at h
    · rename_i req args lit imps _ _ hl _
      simp at h
      subst h
      simp only
      have h1 : fields.map (·.1) = op.params.map identOf :=
        mapE_ok_map _ _ _ _ _ hf (fun a b _ hb => structField_fst false a b hb)
      have h2 : lit.map (·.1) = op.params.map identOf := by
        refine mapE_ok_map _ _ _ _ _ hl (fun a b _ hb => ?_)
        unfold identOf
        unfold litOf at hb
        split at hb
        · rename_i i hi; simp at hb; subst hb; simp [hi]
        · simp at hb
      rw [h1, h2]
    all_goals simp at h
  all_goals simp at h

/-- the `<Op>Required` struct holds exactly the mandatory inputs; the client method takes `args` of that type
when the struct is used and one argument per mandatory input otherwise -/
theorem C02_mandatory_arguments (sec : Bool) (cfg : Cfg) (op : Operation) (rf : RequestFile)
    (h : makeRequestFile sec cfg op = .ok rf) :
    (usesStruct op.params = true →
      ∃ n lts fs, rf.required = some (n, lts, fs) ∧ fs.map (·.1) = (mandatory op.params).map identOf ∧ rf.method.args = [(cs!"args", n)]) ∧
    (usesStruct op.params = false →
      rf.required = none ∧ rf.method.args.map (·.1) = (mandatory op.params).map identOf) := by
  unfold makeRequestFile at h
  simp only at h
  split at h
  · split at h
    · rename_i req args lit imps hreq hargs _ _
      simp at h
      subst h
      simp only
      constructor
      · intro hu
        simp only [hu, if_true] at hreq hargs
        split at hreq
        · rename_i rn rf' hrn hrf
          simp at hreq
          subst hreq
          rw [hrn] at hargs
          simp at hargs
          subst hargs
          exact ⟨rn, _, rf', rfl, mapE_ok_map _ _ _ _ _ hrf (fun a b _ hb => structField_fst true a b hb), rfl⟩
        all_goals simp at hreq
      · intro hu
        simp only [hu] at hreq hargs
        simp at hreq
        subst hreq
        refine ⟨rfl, ?_⟩
        refine mapE_ok_map _ _ _ _ _ hargs (fun a b _ hb => ?_)
        unfold identOf
        unfold argOf at hb
        split at hb
        · rename_i i t hi _; simp at hb; subst hb; simp [hi]
        all_goals simp at hb
    all_goals simp at h
  all_goals simp at h

/-- the lifetime text is written into a field type exactly when the type is a reference type:
a reference type's borrowed form starts with `&'a`, any other type's borrowed form is its owned form,
into which no lifetime is written -/
theorem toReferenceType_borrowed (sp : Text) (t : Ty) :
    (isReferenceType t = true → ∀ x, toReferenceType sp t = .ok x → ∃ rest, x = cs!"&" ++ sp ++ rest) ∧
    (isReferenceType t = false → toReferenceType sp t = toRustType t) := by
  cases t with
  | string => simp [toReferenceType, isReferenceType]
  | array t =>
    simp only [toReferenceType, isReferenceType]
    constructor
    · intro hr x hx
      simp only [hr, if_true] at hx
      split at hx
      · simp at hx; subst hx; exact ⟨_, by simp only [List.append_assoc]; rfl⟩
      · simp at hx
    · intro hr; simp [hr]
  | _ => simp [toReferenceType, isReferenceType]

/-- the lifetime `'a` is declared on the `<Op>Required` struct iff one of its fields is a borrowed form
(a type text starting with `&`, which is where `'a` is written) -/
theorem C02_required_lifetime (sec : Bool) (cfg : Cfg) (op : Operation) (rf : RequestFile)
    (h : makeRequestFile sec cfg op = .ok rf) (n : Text) (lts : List Text) (fs : List (Text × Text))
    (hr : rf.required = some (n, lts, fs)) :
    (lts = [cs!"'a"] ∨ lts = []) ∧
    (lts = [cs!"'a"] ↔ (mandatory op.params).any (fun p => isReferenceType p.ty) = true) := by
  unfold makeRequestFile at h
  simp only at h
  split at h
  · split at h
    · rename_i req args lit imps hreq _ _ _
      simp at h
      subst h
      simp only at hr
      subst hr
      by_cases hu : usesStruct op.params = true
      · simp only [hu, if_true] at hreq
        split at hreq
        · simp at hreq
          obtain ⟨_, hl, _⟩ := hreq
          subst hl
          simp only [List.any_eq_true]
          by_cases hex : ∃ x, x ∈ mandatory op.params ∧ isReferenceType x.ty = true
          · simp [hex]
          · simp [hex]
        all_goals simp at hreq
      · simp [hu] at hreq
    all_goals simp at h
  all_goals simp at h

/-- the result type carries the `crate::model::` prefix only when the result is a model -/
theorem C02_output_qualification (sec : Bool) (cfg : Cfg) (op : Operation) (rf : RequestFile)
    (h : makeRequestFile sec cfg op = .ok rf) :
    ∃ resp, toRustType op.ret = .ok resp ∧
      rf.output = (match op.ret with | .model _ => cs!"crate::model::" ++ resp | _ => resp) := by
  unfold makeRequestFile at h
  simp only at h
  split at h
  · rename_i stem sname fields sets resp url prog mname _ _ _ _ hresp _ _ _
    split at h
    · simp at h
      subst h
      exact ⟨resp, hresp, rfl⟩
    all_goals simp at h
  all_goals simp at h

theorem dedupKeep_spec (acc xs : List Text) (hacc : acc.Nodup) :
    (dedupKeep acc xs).Nodup ∧ ∀ x, x ∈ dedupKeep acc xs ↔ x ∈ acc ∨ x ∈ xs := by
  induction xs generalizing acc with
  | nil => simp only [dedupKeep]; exact ⟨(List.reverse_perm acc).nodup_iff.mpr hacc, fun x => by simp⟩
  | cons y ys ih =>
    simp only [dedupKeep]
    split
    · rename_i hc
      obtain ⟨h1, h2⟩ := ih acc hacc
      refine ⟨h1, fun x => ?_⟩
      rw [h2 x]
      have hy : y ∈ acc := by simpa using hc
      constructor
      · rintro (h | h)
        · exact Or.inl h
        · exact Or.inr (List.mem_cons_of_mem _ h)
      · rintro (h | h)
        · exact Or.inl h
        · rcases List.mem_cons.mp h with rfl | h
          · exact Or.inl hy
          · exact Or.inr h
    · rename_i hc
      have hy : y ∉ acc := by simpa using hc
      obtain ⟨h1, h2⟩ := ih (y :: acc) (List.nodup_cons.mpr ⟨hy, hacc⟩)
      refine ⟨h1, fun x => ?_⟩
      rw [h2 x]
      simp only [List.mem_cons]
      constructor
      · rintro ((rfl | h) | h)
        · exact Or.inr (Or.inl rfl)
        · exact Or.inl h
        · exact Or.inr (Or.inr h)
      · rintro (h | rfl | h)
        · exact Or.inl (Or.inr h)
        · exact Or.inl (Or.inl rfl)
        · exact Or.inr h

theorem mapE_mem {α β ε : Type} (f : α → Except ε β) (l : List α) (r : List β) (hm : mapE f l = .ok r)
    (a : α) (ha : a ∈ l) (b : β) (hb : f a = .ok b) : b ∈ r := by
  induction l generalizing r with
  | nil => cases ha
  | cons x xs ih =>
    simp only [mapE] at hm
    cases hfx : f x with
    | error e => rw [hfx] at hm; simp at hm
    | ok y =>
      rw [hfx] at hm
      cases hrest : mapE f xs with
      | error e => rw [hrest] at hm; simp at hm
      | ok ys =>
        rw [hrest] at hm
        simp at hm
        subst hm
        rcases List.mem_cons.mp ha with rfl | ha'
        · rw [hfx] at hb; simp at hb; subst hb; exact List.mem_cons_self ..
        · exact List.mem_cons_of_mem _ (ih ys hrest ha')

/-- every model a field type of the request struct mentions is imported, and nothing is imported twice -/
theorem C02_imports (sec : Bool) (cfg : Cfg) (op : Operation) (rf : RequestFile)
    (h : makeRequestFile sec cfg op = .ok rf) :
    rf.imports.Nodup ∧
    ∀ p ∈ op.params, ∀ m, p.ty.innerModel = some m → ∀ i, sanitizeStruct m = .ok i → i ∈ rf.imports := by
  unfold makeRequestFile at h
  simp only at h
  split at h
  · split at h
    · rename_i req args lit imps _ _ _ himps
      simp at h
      subst h
      simp only
      unfold requestImports at himps
      simp only at himps
      split at himps
      · rename_i ids hids
        simp at himps
        subst himps
        obtain ⟨h1, h2⟩ := dedupKeep_spec [] ids List.nodup_nil
        refine ⟨h1, fun p hp m hm i hi => ?_⟩
        rw [h2 i]
        right
        refine mapE_mem _ _ _ hids m ?_ i hi
        apply List.mem_append_left
        exact List.mem_filterMap.mpr ⟨p, hp, hm⟩
      · simp at himps
    all_goals simp at h
  all_goals simp at h

/-- non-vacuity: an operation with four mandatory inputs (one borrowed) and an optional one -/
example :
    let op : Operation := ⟨cs!"createPet", none, [⟨cs!"a", .string, .query, false⟩, ⟨cs!"b", .integer .simple, .query, false⟩, ⟨cs!"c", .boolean, .body, false⟩, ⟨cs!"d", .float, .header, false⟩, ⟨cs!"e", .string, .query, true⟩], .array (.model cs!"Pet"), cs!"/pets", cs!"post"⟩
    (match makeRequestFile true ⟨cs!"Pet", [], true⟩ op with
     | .ok rf => rf.output == cs!"Vec<Pet>" && rf.required.isSome
     | .error _ => false) = true := by decide +kernel

end Ln
