import LnModel.Documented
import LnModel.RustTy
/-! # C08 — each schema gets the documented Rust type, consistently across positions -/
namespace Ln

/-- Full strength: whenever the extractor produces a type for a schema occurrence — of any
nesting depth, through any chain of references — it is the documented type. -/
def C08_statement : Prop :=
  ∀ (spec : Spec) (fuel : Nat) (r : SRef) (t : Ty),
    schemaRefToTy spec fuel r = .ok t → docTy spec fuel r = .ok t

theorem C08_core (spec : Spec) : ∀ fuel : Nat,
    (∀ (r : SRef) (t : Ty), schemaRefToTy spec fuel r = .ok t → docTy spec fuel r = .ok t) ∧
    (∀ (s : Schema) (t : Ty), schemaToTy spec fuel s = .ok t → docTyItem spec fuel s = .ok t) := by
  intro fuel
  induction fuel with
  | zero => exact ⟨by intro r t h; simp [schemaRefToTy] at h, by intro s t h; simp [schemaToTy] at h⟩
  | succ f ih =>
    obtain ⟨ih1, ih2⟩ := ih
    constructor
    · intro r t h
      cases r with
      | item s =>
        simp only [schemaRefToTy, resolve] at h
        simp only [docTy]
        cases hp : isPrimitive spec (f + 1) s with
        | error e => rw [hp] at h; simp at h
        | ok b =>
          rw [hp] at h
          cases b with
          | true => exact ih2 s t h
          | false => exact ih2 s t h
      | ref reference =>
        simp only [schemaRefToTy] at h
        simp only [docTy]
        cases hr : resolve spec (.ref reference) with
        | error e => rw [hr] at h; simp at h
        | ok s =>
          rw [hr] at h
          simp only at h ⊢
          cases hp : isPrimitive spec (f + 1) s with
          | error e => rw [hp] at h; simp at h
          | ok b =>
            rw [hp] at h
            cases b with
            | true => exact ih2 s t h
            | false =>
              simp only at h ⊢
              cases hpr : parseRef reference with
              | error e => rw [hpr] at h; simp at h
              | ok tgt =>
                rw [hpr] at h
                cases tgt with
                | schema n => simp only at h ⊢; exact h
                | property a b => simp at h
    · intro s t h
      obtain ⟨data, kind⟩ := s
      simp only [schemaToTy, Schema.kind, Schema.data] at h
      simp only [docTyItem, Schema.kind, Schema.data]
      cases kind with
      | str format en => simpa using h
      | num => simpa using h
      | int => simpa using h
      | bool => simpa using h
      | obj props req addl =>
        simp only at h ⊢
        cases hpe : props.isEmpty with
        | false => simpa [hpe] using h
        | true =>
          simp only [hpe, if_true] at h ⊢
          cases addl with
          | absent => simpa using h
          | any b => simpa using h
          | schema r =>
            simp only at h ⊢
            cases hi : schemaRefToTy spec f r with
            | error e => rw [hi] at h; simp at h
            | ok t' =>
              rw [hi] at h
              rw [ih1 r t' hi]
              simpa using h
      | arr items =>
        cases items with
        | none => simpa using h
        | some it =>
          simp only at h ⊢
          cases hi : schemaRefToTy spec f it with
          | error e => rw [hi] at h; simp at h
          | ok t' =>
            rw [hi] at h
            rw [ih1 it t' hi]
            simpa using h
      | allOf members =>
        simp only at h ⊢
        by_cases hl : members.length = 1
        · simp only [hl, beq_self_eq_true, if_true] at h ⊢
          cases hh : members.head? with
          | none => rw [hh] at h; simpa using h
          | some m =>
            rw [hh] at h
            simp only at h ⊢
            exact ih1 m t h
        · have : (members.length == 1) = false := by simpa using hl
          simp only [this, Bool.false_eq_true, if_false] at h ⊢
          exact h
      | oneOf => simpa using h
      | anyOf => simpa using h
      | not_ => simpa using h
      | any props req => simpa using h

theorem C08 : C08_statement := fun spec fuel r t h => (C08_core spec fuel).1 r t h

/-! ## same type at every position -/

/-- model fields, request inputs (parameters, body properties) and `$ref` results all obtain
their type from the one function `schemaRefToTy` at the same fuel -/
theorem C08_param_uses_same (spec : Spec) (p : OaParam) (r : SRef) (q : Param)
    (hs : p.schema = some r) (h : extractParam spec (.item p) = .ok q) : tyOfRef spec r = .ok q.ty := by
  simp only [extractParam, resolveParam, hs] at h
  cases ht : tyOfRef spec r with
  | error e => rw [ht] at h; simp at h
  | ok ty => rw [ht] at h; simp at h; rw [← h]

theorem C08_field_uses_same (spec : Spec) (r : SRef) (f : HirField)
    (h : createField spec r = .ok f) : tyOfRef spec r = .ok f.ty := by
  simp only [createField] at h
  cases hr : resolve spec r with
  | error e => rw [hr] at h; simp at h
  | ok s =>
    rw [hr] at h
    cases ht : tyOfRef spec r with
    | error e => rw [ht] at h; simp at h
    | ok ty => rw [ht] at h; simp at h; rw [← h]

/-! ## borrowed argument form -/

/-- the borrowed form is used only where the owned form is `String` or a list of strings
(nested lists included); everywhere else it *is* the owned form -/
theorem C08_borrowed_only_for_strings (sp : Text) (t : Ty) (h : isRefTy t = false) :
    toReferenceType sp t = toRustType t := by
  cases t with
  | string => simp [isRefTy] at h
  | array t' =>
    simp only [isRefTy] at h
    have : isReferenceType t' = false := by
      clear sp
      induction t' with
      | string => simp [isRefTy] at h
      | array u ih => simp only [isRefTy] at h; simpa [isReferenceType] using ih h
      | _ => rfl
    simp [toReferenceType, this]
  | _ => rfl

/-! ## operation result -/

/-- the result is taken from the first *present* response among 200, 201, 202, 204, 302 -/
theorem C08_result_first_present (spec : Spec) (op : OaOperation) (c : Nat) (resp : OaResponse)
    (hc : c ∈ [200, 201, 202, 204, 302])
    (hpresent : findCode op.responses c = some resp)
    (hearlier : ∀ c' ∈ [200, 201, 202, 204, 302], c' < c → findCode op.responses c' = none) :
    getRes spec op = resolveResponse spec resp := by
  simp only [List.mem_cons, List.not_mem_nil, or_false] at hc
  have h200 := hearlier 200 (by simp)
  have h201 := hearlier 201 (by simp)
  have h202 := hearlier 202 (by simp)
  have h204 := hearlier 204 (by simp)
  rcases hc with rfl | rfl | rfl | rfl | rfl
  · simp [getRes, hpresent]
  · simp [getRes, hpresent, h200]
  · simp [getRes, hpresent, h200, h201]
  · simp [getRes, hpresent, h200, h201, h202]
  · simp [getRes, hpresent, h200, h201, h202, h204]

/-- non-vacuity: a nested occurrence with a reference to a primitive component -/
example :
    let spec : Spec := { (default : Spec) with components := [(cs!"Id", .item (.mk {} (.str [] [])))] }
    let r : SRef := .item (.mk {} (.arr (.some (.ref cs!"#/components/schemas/Id"))))
    schemaRefToTy spec 5 r = .ok (.array .string) := by decide

end Ln
