import LnModel.Thm.C14
import LnModel.Emit.Request
import LnModel.Thm.C06Files
/-! C14, continued — "no request is sent without it": in a crate generated from a document with security, the
request program of EVERY operation ends with the call of `authenticate`, after all inputs have been assigned;
without security no request module calls it.

`C14_arm_covers_fields` says what an arm of `authenticate` does; these two theorems say that every request goes
through it, for every operation whatever its inputs, verb or result type. -/
namespace Ln

/-- with security, the program of every request module is the input assignments followed by `authenticate` -/
theorem C14_every_request_authenticates (cfg : Cfg) (op : Operation) (f : RequestFile)
    (h : makeRequestFile true cfg op = .ok f) :
    ∃ prog, assignInputs op.params = .ok prog ∧ f.program = prog ++ [.authenticate] := by
  unfold makeRequestFile at h
  simp only at h
  split at h
  · rename_i _ _ _ _ _ _ prog _ _ _ _ _ _ _ hp _
    split at h
    · simp only [Except.ok.injEq] at h
      subst h
      exact ⟨prog, hp, by simp⟩
    all_goals simp at h
  all_goals simp at h

/-- without security, no request module calls `authenticate`: the program is the input assignments alone -/
theorem C14_no_security_no_authenticate (cfg : Cfg) (op : Operation) (f : RequestFile)
    (h : makeRequestFile false cfg op = .ok f) :
    assignInputs op.params = .ok f.program := by
  unfold makeRequestFile at h
  simp only at h
  split at h
  · rename_i _ _ _ _ _ _ prog _ _ _ _ _ _ _ hp _
    split at h
    · simp only [Except.ok.injEq] at h
      subst h
      simpa using hp
    all_goals simp at h
  all_goals simp at h

/-- … so in the pipeline every request module of a document that declares security ends with `authenticate` -/
theorem C14_pipeline_authenticates (hir : HirSpec) (cfg : Cfg) (op : Operation) (f : RequestFile)
    (hsec : hir.security ≠ []) (h : makeRequestFile (!hir.security.isEmpty) cfg op = .ok f) :
    f.program.getLast? = some .authenticate := by
  have : (!hir.security.isEmpty) = true := by
    cases hs : hir.security with
    | nil => exact absurd hs hsec
    | cons a as => rfl
  rw [this] at h
  obtain ⟨prog, _, hp⟩ := C14_every_request_authenticates cfg op f h
  rw [hp]; simp


/-- does a request statement call `authenticate`, at any nesting depth -/
def ReqStmt.callsAuth : ReqStmt → Bool
  | .authenticate => true
  | .forEach _ b => b.callsAuth
  | .ifSome _ b => b.callsAuth
  | _ => false

theorem assignOne_no_auth (p : Param) (field : Text) : (assignOne p field).callsAuth = false := by
  unfold assignOne
  cases p.loc <;> cases p.ty.isIterable <;> cases p.optional <;> simp [ReqStmt.callsAuth]

/-- **exactly one call**: the statements that assign the inputs never call `authenticate`, so with security the
program of a request module calls it once, as its last statement -/
theorem C14_authenticate_exactly_once (cfg : Cfg) (op : Operation) (f : RequestFile)
    (h : makeRequestFile true cfg op = .ok f) :
    ∃ prog, f.program = prog ++ [.authenticate] ∧ ∀ s ∈ prog, s.callsAuth = false := by
  obtain ⟨prog, hp, he⟩ := C14_every_request_authenticates cfg op f h
  refine ⟨prog, he, ?_⟩
  intro s hs
  unfold assignInputs at hp
  obtain ⟨q, _, hq⟩ := mapE_mem_rev _ _ _ hp s hs
  cases hsan : sanitize q.name with
  | error e => rw [hsan] at hq; simp at hq
  | ok fld =>
    rw [hsan] at hq
    simp only [Except.ok.injEq] at hq
    rw [← hq]
    exact assignOne_no_auth q fld


/-! ## `from_env` builds the FIRST declared scheme: the strategies keep the order of declaration -/

/-- the strategy one security requirement yields (none for a scheme kind the generator does not support) -/
def strategyOf (spec : Spec) : List Text → Option AuthStrategy
  | [] => some .noAuth
  | schemeName :: _ =>
    match spec.schemes.find? (fun e => e.1 == schemeName) with
    | some (_, .apiKey loc name) => some (.token schemeName [{ name := name, loc := keyLocation loc name }])
    | some (_, .http _) => some (.token schemeName [{ name := schemeName, loc := .bearer }])
    | some (_, .oauth2 (some (a, t, r, scopes))) => some (.oauth2 a t (r.getD t) scopes)
    | _ => none

/-- **declaration order is kept**: whenever the security requirements are extracted, the strategies are those
of the supported requirements, in the order in which the document declares them - nothing is reordered, merged
or dropped. In particular the first strategy, the one `from_env` builds, belongs to the first supported
requirement of the document. -/
theorem C14_strategies_in_declaration_order (spec : Spec) (reqs : List (List Text)) (l : List AuthStrategy)
    (h : extractSecurity spec reqs = .ok l) : l = reqs.filterMap (strategyOf spec) := by
  induction reqs generalizing l with
  | nil => simp only [extractSecurity, Except.ok.injEq] at h; subst h; rfl
  | cons req rest ih =>
    simp only [extractSecurity] at h
    cases ht : extractSecurity spec rest with
    | error e => rw [ht] at h; simp at h
    | ok tail =>
      rw [ht] at h
      have iht := ih tail ht
      cases req with
      | nil =>
        simp only [Except.ok.injEq] at h
        subst h
        simp [List.filterMap_cons, strategyOf, iht]
      | cons schemeName more =>
        simp only at h
        simp only [List.filterMap_cons, strategyOf]
        split at h <;> simp_all

theorem C14_first_strategy (spec : Spec) (reqs : List (List Text)) (l : List AuthStrategy)
    (h : extractSecurity spec reqs = .ok l) : l.head? = (reqs.filterMap (strategyOf spec)).head? := by
  rw [C14_strategies_in_declaration_order spec reqs l h]

end Ln
