import LnModel.Lemmas.Fs
/-! # C11 — text up to `libninja: after` is kept; the rest equals a fresh generation -/
namespace Ln

/-- `p` is a generated path with exactly one writer in `outs` -/
def SingleWriter (outs : List Write) (p : Path) (cs : CodeSpec) : Prop := outsFor outs p = [cs]

/-- One generation on an `after`-marked file: everything up to and including the first
occurrence of the directive is kept, then the one `"\n"` the tool inserts, then the code. -/
theorem C11_step (outs : List Write) (fs : Fs) (p : Path) (cs : CodeSpec) (t pre rest : Text)
    (hw : SingleWriter outs p cs) (h : fs p = some (.text t))
    (hs : isSub STATIC t = false) (ha : splitOnce AFTER t = some (pre, rest)) :
    gen outs fs p = some (.text (pre ++ AFTER ++ ['\n'] ++ cs.render t)) ∧ t = pre ++ AFTER ++ rest := by
  refine ⟨?_, splitOnce_spec _ _ _ _ ha⟩
  have hw' : outsFor outs p = [cs] := hw
  simp only [gen, hw', h, genAt_single]
  exact writeOne_after (c := some (.text t)) (by simpa using hs) (by simpa using ha)

/-- For every writer other than lib.rs the code after the directive is exactly what a
generation into an empty directory writes. -/
theorem C11_fresh (c : Text) (t : Text) : (CodeSpec.plain c).render t = (CodeSpec.plain c).fresh := rfl

/-- lib.rs: a hand-written `default_http_client` before the directive selects the variant
without the generated one, otherwise the full variant. -/
theorem C11_lib_suppression (full sup t pre rest : Text) (ha : splitOnce AFTER t = some (pre, rest)) :
    (CodeSpec.lib full sup).render t = if isSub DHC pre then sup else full := by
  simp [CodeSpec.render, suppresses, ha]

/-- Stability: after any number of further generations (each with one writer for `p`, possibly
with different code) the file is still `pre ++ directive ++ "\n" ++` the latest code — the
directive itself survives. Hypothesis: no produced file content contains the static marker. -/
def C11_statement : Prop :=
  ∀ (gens : List (List Write)) (codes : List CodeSpec) (fs : Fs) (p : Path) (t pre rest : Text)
    (last : CodeSpec),
    gens.map (fun outs => outsFor outs p) = (codes ++ [last]).map (fun cs => [cs]) →
    fs p = some (.text t) → isSub STATIC t = false → splitOnce AFTER t = some (pre, rest) →
    (∀ cs ∈ codes ++ [last], isSub STATIC (pre ++ AFTER ++ ['\n'] ++ cs.render t) = false) →
    runAll gens fs p = some (.text (pre ++ AFTER ++ ['\n'] ++ last.render t))

theorem C11 : C11_statement := by
  intro gens codes
  induction codes generalizing gens with
  | nil =>
    intro fs p t pre rest last hg h hs ha _
    cases gens with
    | nil => simp at hg
    | cons outs gs =>
      simp only [List.nil_append, List.map_cons, List.map_nil, List.cons.injEq, List.map_eq_nil_iff] at hg
      obtain ⟨hw, rfl⟩ := hg
      simp only [runAll]
      exact (C11_step outs fs p last t pre rest hw h hs ha).1
  | cons c cs ih =>
    intro fs p t pre rest last hg h hs ha hres
    cases gens with
    | nil => simp at hg
    | cons outs gs =>
      simp only [List.cons_append, List.map_cons, List.cons.injEq] at hg
      obtain ⟨hw, hg'⟩ := hg
      simp only [runAll]
      have h1 := (C11_step outs fs p c t pre rest hw h hs ha).1
      have hns := hres c (by simp)
      have hst := splitOnce_stable AFTER AFTER_ne_nil t pre rest ha (['\n'] ++ c.render t)
      have hst' : splitOnce AFTER (pre ++ AFTER ++ ['\n'] ++ c.render t) = some (pre, ['\n'] ++ c.render t) := by
        simpa [List.append_assoc] using hst
      have key := ih gs (gen outs fs) p (pre ++ AFTER ++ ['\n'] ++ c.render t) pre
        (['\n'] ++ c.render t) last hg' h1 hns hst' (by
          intro x hx
          have e := render_stable x ha (['\n'] ++ c.render t)
          simp only [List.append_assoc] at e ⊢
          rw [e]
          have := hres x (by simp at hx ⊢; exact Or.inr hx)
          simpa [List.append_assoc] using this)
      rw [key]
      have e := render_stable last ha (['\n'] ++ c.render t)
      simp only [List.append_assoc] at e ⊢
      rw [e]

/-- non-vacuity: directive in mid-line, CRLF before it -/
example : splitOnce AFTER cs!"use a;\r\n/* libninja: after */ old" = some (cs!"use a;\r\n/* ", cs!" */ old") ∧
    isSub STATIC cs!"use a;\r\n/* libninja: after */ old" = false := by decide

end Ln
