import LnModel.Thm.C06Files
import LnModel.Thm.C12Repeat
/-! C12 / C09 over the pipeline's own file list.

`C12_idempotent`, `C12_exact` and `C09_regenerate_in_place` assume that every generated path has one writer
(`SingleWriters`). For the files the pipeline model writes, that is now a consequence of the distinctness of the
module stems (`C06_no_file_written_twice`): regeneration of the same document in place changes nothing, however
often it is repeated. -/
namespace Ln

/-- **regenerating the same document in place changes nothing**, stated for any write list whose paths are the
pipeline's file list: the one-writer-per-path hypothesis is discharged from name distinctness -/
theorem C12_pipeline_idempotent (hir : HirSpec) (cfg : Cfg) (files : List Text) (outs : List Write) (fs : Fs) (n : Nat)
    (h : emitFiles hir cfg = .ok files) (hpaths : outs.map (·.1) = files)
    (hm : hir.schemas.Pairwise (fun a b => schemaFile a.1 ≠ schemaFile b.1))
    (ho : hir.operations.Pairwise (fun a b => opFile a.name ≠ opFile b.name))
    (hmf : AllMarkerFree outs) (hseam : SeamFree outs fs) :
    runAll (List.replicate (n + 1) outs) fs = gen outs fs := by
  have hsw : SingleWriters outs :=
    singleWriters_of_nodup outs (by rw [hpaths]; exact C06_no_file_written_twice hir cfg files h hm ho)
  exact C12_idempotent_n outs fs n hsw hmf hseam

end Ln
