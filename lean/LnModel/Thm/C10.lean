import LnModel.Lemmas.Fs
/-! # C10 — files marked `libninja: static` are never modified or deleted -/
namespace Ln

/-- Full strength: any file whose content contains the directive — valid UTF-8 or not — is
byte-for-byte unchanged by any number of generations with arbitrary (changing) outputs. -/
def C10_statement : Prop :=
  ∀ (gens : List (List Write)) (fs : Fs) (p : Path) (c : Content),
    fs p = some c → c.contains STATIC = true → runAll gens fs p = some c

/-- Proved part: every static-marked *UTF-8* file, at any path (generated or not, in or out of
cleanup's scope), marker anywhere, with or without an `after` marker, any generated code, any
number of generations. -/
theorem C10_partial (gens : List (List Write)) (fs : Fs) (p : Path) (t : Text)
    (h : fs p = some (.text t)) (hs : isSub STATIC t = true) :
    runAll gens fs p = some (.text t) := by
  induction gens generalizing fs with
  | nil => exact h
  | cons outs rest ih =>
    apply ih
    simp only [gen, h]
    exact genAt_static _ _ hs

/-- one generation, the step used above -/
theorem C10_step (outs : List Write) (fs : Fs) (p : Path) (t : Text)
    (h : fs p = some (.text t)) (hs : isSub STATIC t = true) :
    gen outs fs p = some (.text t) := by
  simp only [gen, h]; exact genAt_static _ _ hs

/-- The unchanged code does not satisfy the full statement: a file that contains the directive
but is not valid UTF-8 is read as empty, hence overwritten (or deleted by cleanup). -/
def C10_witness_content : Content := .binary (bytesOf cs!"// libninja: static" ++ [255])
def C10_witness_fs : Fs := fun p => if p = cs!"src/a.rs" then some C10_witness_content else none

theorem C10_counterexample : ¬ C10_statement := by
  intro h
  have := h [[(cs!"src/a.rs", CodeSpec.plain cs!"x")]] C10_witness_fs cs!"src/a.rs" C10_witness_content
    (by simp [C10_witness_fs]) (by decide)
  revert this
  decide

/-- cleanup deletes such a file when nothing is generated at its path -/
theorem C10_counterexample_cleanup :
    gen [] C10_witness_fs cs!"src/a.rs" = none := by decide

/-- non-vacuity of `C10_partial` -/
example : (fun p => if p = cs!"src/model/pet.rs" then some (Content.text cs!"// libninja: static\nfn x(){}") else none : Fs)
    cs!"src/model/pet.rs" = some (.text cs!"// libninja: static\nfn x(){}") ∧
    isSub STATIC cs!"// libninja: static\nfn x(){}" = true := by decide

end Ln
