import LnModel.Lemmas.Fs
/-! # C10 — files marked `libninja: static` are never modified or deleted -/
namespace Ln

/-- Full strength: any file whose content contains the directive — valid UTF-8 or not — is
byte-for-byte unchanged by any number of generations with arbitrary (changing) outputs. -/
def C10_statement : Prop :=
  ∀ (gens : List (List Write)) (fs : Fs) (p : Path) (c : Content),
    fs p = some c → c.contains STATIC = true → runAll gens fs p = some c

/-- one generation: a file carrying the directive, at any path (generated or not, in or out of cleanup's
scope), is left exactly as it is -/
theorem C10_step (outs : List Write) (fs : Fs) (p : Path) (c : Content)
    (h : fs p = some c) (hs : c.contains STATIC = true) :
    gen outs fs p = some c := by
  simp only [gen, h]
  exact genAt_static _ _ (by simpa [isStaticC] using hs)

/-- **C10 at full strength** (after the repair that looks for the directive in the file's bytes): marker
anywhere in the file, with or without an `after` marker, any encoding, any generated code, any number of
generations -/
theorem C10 : C10_statement := by
  intro gens fs p c h hs
  induction gens generalizing fs with
  | nil => exact h
  | cons outs rest ih => exact ih _ (C10_step outs fs p c h hs)

/-- the text-file instance (the statement that held before the repair) -/
theorem C10_partial (gens : List (List Write)) (fs : Fs) (p : Path) (t : Text)
    (h : fs p = some (.text t)) (hs : isSub STATIC t = true) :
    runAll gens fs p = some (.text t) := C10 gens fs p (.text t) h hs

/-- the former counterexample — a static-marked file that is not valid UTF-8 — is now kept, whether or not
something is generated at its path -/
def C10_witness_content : Content := .binary (bytesOf cs!"// libninja: static" ++ [255])
def C10_witness_fs : Fs := fun p => if p = cs!"src/a.rs" then some C10_witness_content else none

example : gen [(cs!"src/a.rs", CodeSpec.plain cs!"x")] C10_witness_fs cs!"src/a.rs" = some C10_witness_content ∧
    gen [] C10_witness_fs cs!"src/a.rs" = some C10_witness_content := by decide

/-- non-vacuity -/
example : (fun p => if p = cs!"src/model/pet.rs" then some (Content.text cs!"// libninja: static\nfn x(){}") else none : Fs)
    cs!"src/model/pet.rs" = some (.text cs!"// libninja: static\nfn x(){}") ∧
    (Content.text cs!"// libninja: static\nfn x(){}").contains STATIC = true := by decide

end Ln
