import LnModel.Hir
import LnModel.Ident
/-! `mir_rust::ToRustType`: the Rust type text for a `Ty` (token text without spaces). -/
namespace Ln

/-- `to_rust_type` (panics only through `to_rust_struct` on a model name) -/
def toRustType : Ty → Except Panic Text
  | .string => .ok cs!"String"
  | .integer _ => .ok cs!"i64"
  | .float => .ok cs!"f64"
  | .boolean => .ok cs!"bool"
  | .array t => match toRustType t with | .ok x => .ok (cs!"Vec<" ++ x ++ cs!">") | .error e => .error e
  | .model n => sanitizeStruct n
  | .unit => .ok cs!"()"
  | .any => .ok cs!"serde_json::Value"
  | .date _ => .ok cs!"chrono::NaiveDate"
  | .dateTime => .ok cs!"chrono::DateTime<chrono::Utc>"
  | .currency => .ok cs!"rust_decimal::Decimal"
  | .hashMap t => match toRustType t with | .ok x => .ok (cs!"std::collections::HashMap<String," ++ x ++ cs!">") | .error e => .error e

/-- `is_reference_type` -/
def isReferenceType : Ty → Bool
  | .string => true
  | .array t => isReferenceType t
  | _ => false

/-- `to_reference_type(specifier)`; `sp` is the lifetime text, e.g. `'a` or empty -/
def toReferenceType (sp : Text) : Ty → Except Panic Text
  | .string => .ok (cs!"&" ++ sp ++ cs!"str")
  | .array t =>
    if isReferenceType t then
      match toReferenceType sp t with | .ok x => .ok (cs!"&" ++ sp ++ cs!"[" ++ x ++ cs!"]") | .error e => .error e
    else toRustType (.array t)
  | t => toRustType t

end Ln
