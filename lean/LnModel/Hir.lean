import LnModel.OpenApi
/-! The HIR (`hir` / `mir` crates): types, fields, records, operations, auth, the whole spec. -/
namespace Ln

inductive IntSer where | simple | string | nullAsZero
  deriving DecidableEq, Repr, Inhabited
inductive DateSer where | iso8601 | integer
  deriving DecidableEq, Repr, Inhabited

inductive Ty where
  | string
  | integer (ser : IntSer)
  | float
  | boolean
  | array (t : Ty)
  | hashMap (t : Ty)
  | model (name : Text)
  | unit
  | date (ser : DateSer)
  | dateTime
  | currency
  /-- `Ty::Any(_)`: the optional inner schema is not observable in generated code -/
  | any
  deriving DecidableEq, Repr, Inhabited

def Ty.innerModel : Ty → Option Text
  | .model n => some n
  | .array t => t.innerModel
  | .hashMap t => t.innerModel
  | _ => none

def Ty.isIterable : Ty → Bool
  | .array _ => true
  | _ => false

def Ty.isPrimitive : Ty → Bool
  | .string | .integer _ | .float | .boolean | .unit | .date _ | .currency | .dateTime => true
  | _ => false

structure HirField where
  ty : Ty
  optional : Bool := false
  doc : Option Text := none
  flatten : Bool := false
  deriving DecidableEq, Repr, Inhabited

structure Variant where
  value : Text
  alias : Option Text
  deriving DecidableEq, Repr, Inhabited

inductive Record where
  | struct (name : Text) (nullable : Bool) (fields : List (Text × HirField)) (doc : Option Text)
  | newtype (name : Text) (fields : List HirField) (doc : Option Text)
  | alias (name : Text) (field : HirField)
  | enum (name : Text) (variants : List Variant) (doc : Option Text)
  deriving DecidableEq, Repr, Inhabited

def Record.name : Record → Text
  | .struct n _ _ _ => n
  | .newtype n _ _ => n
  | .alias n _ => n
  | .enum n _ _ => n

def Record.fields : Record → List HirField
  | .struct _ _ fs _ => fs.map (·.2)
  | .newtype _ fs _ => fs
  | .alias _ f => [f]
  | .enum _ _ _ => []

def Record.optional : Record → Bool
  | .alias _ f => f.optional
  | _ => false

structure Param where
  name : Text
  ty : Ty
  loc : Loc
  optional : Bool
  deriving DecidableEq, Repr, Inhabited

structure Operation where
  name : Text
  doc : Option Text
  params : List Param
  ret : Ty
  path : Text
  method : Text
  deriving DecidableEq, Repr, Inhabited

inductive AuthLoc where
  | header (key : Text) | basic | bearer | token | query (key : Text) | cookie (key : Text)
  deriving DecidableEq, Repr, Inhabited

structure AuthParam where
  name : Text
  loc : AuthLoc
  deriving DecidableEq, Repr, Inhabited

inductive AuthStrategy where
  | token (name : Text) (fields : List AuthParam)
  | oauth2 (authUrl exchangeUrl refreshUrl : Text) (scopes : List (Text × Text))
  | noAuth
  deriving DecidableEq, Repr, Inhabited

/-- `BTreeMap<String, _>`: association list kept sorted by key (byte order), keys unique -/
abbrev SchemaTable := List (Text × Record)

structure HirSpec where
  operations : List Operation := []
  schemas : SchemaTable := []
  servers : List (Text × Text) := []
  security : List AuthStrategy := []
  apiDocsUrl : Option Text := none
  deriving Repr, Inhabited

/-! ### BTreeMap operations on association lists -/

def ltT : Text → Text → Bool
  | [], [] => false
  | [], _ :: _ => true
  | _ :: _, [] => false
  | a :: as, b :: bs => if a.toNat < b.toNat then true else if b.toNat < a.toNat then false else ltT as bs

/-- `BTreeMap::insert`: replace on equal key, otherwise insert in key order -/
def btInsert {α : Type} (k : Text) (v : α) : List (Text × α) → List (Text × α)
  | [] => [(k, v)]
  | (k', v') :: rest =>
    if k == k' then (k, v) :: rest
    else if ltT k k' then (k, v) :: (k', v') :: rest
    else (k', v') :: btInsert k v rest

def btGet {α : Type} (k : Text) : List (Text × α) → Option α
  | [] => none
  | (k', v) :: rest => if k == k' then some v else btGet k rest

def btContains {α : Type} (k : Text) (l : List (Text × α)) : Bool := (btGet k l).isSome

end Ln
