import LnModel.Extract
/-! The supported domain D of C01, over the post-parse document, as a decidable check
(`inD`). It is written from the document's side -- what must resolve, which chains must end,
which names are allowed, which responses must exist -- and does not call the extractor's
functions except `parseRef` / `lookupSchema` (what a `$ref` denotes), `makeName` (the name an
operation gets) and the text helpers. `Thm/C01Extract.lean` proves that the extractor returns a
HIR on every document that passes. -/
namespace Ln

/-- depth budget of the checks; the extractor's own recursions are bounded by `FUEL` -/
def DEPTH : Nat := 2048

/-- what a `$ref` points at: an inline component with that name -/
def target (spec : Spec) : SRef → Option Schema
  | .item s => some s
  | .ref t =>
    match parseRef t with
    | .ok (.schema n) => (match lookupSchema spec n with | .ok s => some s | .error _ => none)
    | _ => none

/-- the chain "items of a list / only member of an allOf" from `s`, followed through `$ref`s, ends within
`d` steps; the value says whether it ends in a primitive -/
def chain (spec : Spec) : Nat → Schema → Option Bool
  | 0, _ => none
  | d + 1, s =>
    match s.kind with
    | .str _ enumeration => some enumeration.isEmpty
    | .num => some true
    | .int => some true
    | .bool => some true
    | .arr (.some it) =>
      match target spec it with
      | none => none
      | some inner => chain spec d inner
    | .allOf members =>
      if members.length == 1 then
        match members.head? with
        | some m =>
          match target spec m with
          | none => none
          | some inner => chain spec d inner
        | none => some false
      else some false
    | _ => some false

def refName (t : Text) : Option Text :=
  match parseRef t with
  | .ok (.schema n) => some n
  | _ => none

mutual
/-- every `$ref` that typing `s` looks at resolves, within depth `d` -/
def tyOk (spec : Spec) : Nat → Schema → Bool
  | 0, _ => false
  | d + 1, s =>
    match s.kind with
    | .obj props _ addl =>
      if props.isEmpty then
        match addl with
        | .schema r => refTyOk spec d r
        | _ => true
      else true
    | .arr (.some it) => refTyOk spec d it
    | .allOf members =>
      if members.length == 1 then
        match members.head? with
        | some m => refTyOk spec d m
        | none => true
      else true
    | _ => true
/-- the same for a schema-or-reference; a referenced component that is not primitive is only named -/
def refTyOk (spec : Spec) : Nat → SRef → Bool
  | 0, _ => false
  | d + 1, r =>
    match target spec r with
    | none => false
    | some s =>
      match chain spec (d + 1) s with
      | none => false
      | some true => tyOk spec d s
      | some false =>
        match r with
        | .ref t => (match refName t with | some n => !n.contains '(' | none => false)
        | .item s' => tyOk spec d s'
end

/-- schema names: ASCII letters and digits, not starting with a lower-case letter -/
def schemaNameOk (n : Text) : Bool :=
  n.all isAlnum && (match n with | [] => false | c :: _ => !c.isLower)

def propsTyOk (spec : Spec) : List (Text × SRef) → Bool
  | [] => true
  | (_, r) :: rest => refTyOk spec DEPTH r && propsTyOk spec rest

def allOfMemberOk (spec : Spec) : SRef → Bool
  | .ref t => refTyOk spec DEPTH (.ref t)
  | .item s => match propsOf s with | none => true | some p => propsTyOk spec p.toList

def allOfMembersOk (spec : Spec) : List SRef → Bool
  | [] => true
  | m :: rest => allOfMemberOk spec m && allOfMembersOk spec rest

/-- a component (or an inline response, or the inline items of a list component) can be turned into records -/
def schemaOk (spec : Spec) : Schema → Bool
  | .mk data kind =>
    match kind with
    | .obj props _ addl =>
      if props.isEmpty && (match addl with | .absent => false | _ => true) then
        match addl with
        | .schema r => refTyOk spec DEPTH r
        | _ => true
      else propsTyOk spec props.toList
    | .str _ enumeration => !enumeration.isEmpty || tyOk spec DEPTH (.mk data kind)
    | .allOf members =>
      if effectiveLength members.toList == 1 then
        match members.toList with
        | [] => false
        | m :: _ => refTyOk spec DEPTH m
      else allOfMembersOk spec members.toList
    | .arr (.some (.item it)) => tyOk spec DEPTH (.mk data kind) && schemaOk spec it
    | _ => tyOk spec DEPTH (.mk data kind)

def componentsOk (spec : Spec) : List (Text × SRef) → Bool
  | [] => true
  | (_, .ref _) :: _ => false
  | (n, .item s) :: rest => schemaNameOk n && schemaOk spec s && componentsOk spec rest

/-! operations -/

def paramOk (spec : Spec) : ParamRef → Bool
  | .item p => (match p.schema with | none => false | some r => refTyOk spec DEPTH r)
  | .ref r =>
    match spec.componentParams.find? (fun e => e.1 == ((splitOn '/' r).getLast?).getD []) with
    | some (_, .item p) => (match p.schema with | none => false | some r => refTyOk spec DEPTH r)
    | _ => false

def paramsOk (spec : Spec) : List ParamRef → Bool
  | [] => true
  | p :: rest => paramOk spec p && paramsOk spec rest

mutual
/-- the members of nested allOfs can be listed within depth `d` -/
def membersListed (spec : Spec) : Nat → Schema → Bool
  | 0, _ => false
  | d + 1, s =>
    match s.kind with
    | .allOf members => membersListedL spec d members.toList
    | _ => true
def membersListedL (spec : Spec) : Nat → List SRef → Bool
  | 0, _ => false
  | _ + 1, [] => true
  | d + 1, m :: rest =>
    match target spec m with
    | none => false
    | some s => membersListed spec d s && membersListedL spec d rest
end

def bodyPropsOk (spec : Spec) : List (Text × SRef) → Bool
  | [] => true
  | (_, r) :: rest => refTyOk spec DEPTH r && bodyPropsOk spec rest

def jsonOf (spec : Spec) : OaBody → Option (Option SRef)
  | .item j => some j
  | .ref r =>
    match spec.componentBodies.find? (fun e => e.1 == ((splitOn '/' r).getLast?).getD []) with
    | some (_, .item j) => some j
    | _ => none

/-- all properties of a body (own, or of all allOf members) -/
def allProps (spec : Spec) (body : Schema) : List (Text × SRef) :=
  match propertiesIter spec FUEL body with
  | .ok ps => ps
  | .error _ => []

def bodyOk (spec : Spec) : Option OaBody → Bool
  | none => true
  | some b =>
    match jsonOf spec b with
    | none => false
    | some none => true
    | some (some r) =>
      match target spec r with
      | none => false
      | some body =>
        match body.kind with
        | .arr (.some it) => refTyOk spec DEPTH it
        | .arr .none => true
        | _ => membersListed spec DEPTH body && bodyPropsOk spec (allProps spec body)

def successOf (op : OaOperation) : Option OaResponse :=
  (findCode op.responses 200).orElse fun _ => (findCode op.responses 201).orElse fun _ =>
    (findCode op.responses 202).orElse fun _ => (findCode op.responses 204).orElse fun _ => findCode op.responses 302

def responseJson (spec : Spec) : OaResponse → Option (Option SRef)
  | .item j => some j
  | .ref r =>
    match spec.componentResponses.find? (fun e => e.1 == ((splitOn '/' r).getLast?).getD []) with
    | some (_, .item j) => some j
    | _ => none

def responseOk (spec : Spec) (op : OaOperation) : Bool :=
  match successOf op with
  | none => false
  | some resp =>
    match responseJson spec resp with
    | none => false
    | some none => true
    | some (some (.ref t)) => refTyOk spec DEPTH (.ref t)
    | some (some (.item res)) => schemaOk spec res && (chain spec DEPTH res).isSome && tyOk spec DEPTH res

/-- an operation's name is made of ASCII letters, digits and the separators `_ - space`, with at least one letter or digit -/
def opNameOk (item : OaPath) (op : OaOperation) : Bool :=
  match makeName op.opId op.method item.template with
  | .ok n => n.all (fun c => isAlnum c || isDelim c) && n.any isAlnum
  | .error _ => false

def opOk (spec : Spec) (item : OaPath) (op : OaOperation) : Bool :=
  opNameOk item op && paramsOk spec op.params && paramsOk spec item.params && bodyOk spec op.body && responseOk spec op

def opsOk (spec : Spec) (item : OaPath) : List OaOperation → Bool
  | [] => true
  | op :: rest => opOk spec item op && opsOk spec item rest

def pathsOk (spec : Spec) : List OaPath → Bool
  | [] => true
  | p :: rest => opsOk spec p p.ops && pathsOk spec rest

def requirementOk (spec : Spec) : List Text → Bool
  | [] => true
  | n :: _ =>
    match spec.schemes.find? (fun e => e.1 == n) with
    | none => false
    | some (_, .ref _) => false
    | some _ => true

def securityOk (spec : Spec) : List (List Text) → Bool
  | [] => true
  | r :: rest => requirementOk spec r && securityOk spec rest

/-- the supported domain of the extractor -/
def inD (spec : Spec) : Bool :=
  componentsOk spec spec.components && pathsOk spec spec.paths && securityOk spec spec.security

end Ln
