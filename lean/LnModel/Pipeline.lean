import LnModel.Treeshake
import LnModel.Emit.Model
import LnModel.Emit.Request
import LnModel.Emit.Lib
import LnModel.Emit.Example
/-! The whole pipeline as one total function: extraction, tree shaking, and the writers in the order of
`generate_rust_library`; every panic site is a value, so "generation succeeds" is `pipeline .. = .ok files`
and the set of files of a successful run is explicit. -/
namespace Ln

inductive PipeX where
  | extract (e : XPanic)
  | model (schema : Text) (e : EmitX)
  | request (op : Text) (e : Panic)
  | lib (e : Panic)
  | example (op : Text) (e : ExX)
  deriving Repr

/-- `Extras::needs_serde` -/
def needsSerde (schemas : SchemaTable) : Bool :=
  schemas.any fun kv => kv.2.fields.any fun f =>
    match f.ty with
    | .integer .nullAsZero => true
    | .integer .string => true
    | .date .integer => true
    | _ => false

def firstErr {α β ε : Type} (f : α → Except ε β) : List α → Except ε (List β) := mapE f

def modelPath (hir : HirSpec) (cfg : Cfg) (kv : Text × Record) : Except PipeX Text :=
  match makeModelFile hir.schemas cfg kv.1 kv.2 with
  | .ok f => .ok (cs!"src/model/" ++ f.stem ++ cs!".rs")
  | .error e => .error (.model kv.1 e)

def requestPath (hir : HirSpec) (cfg : Cfg) (op : Operation) : Except PipeX Text :=
  match makeRequestFile (!hir.security.isEmpty) cfg op with
  | .ok f => .ok (cs!"src/request/" ++ f.stem ++ cs!".rs")
  | .error e => .error (.request op.name e)

def examplePath (hir : HirSpec) (cfg : Cfg) (op : Operation) : Except PipeX Text :=
  match makeExample hir.schemas cfg op with
  | .ok e => .ok (cs!"examples/" ++ e.stem ++ cs!".rs")
  | .error x => .error (.example op.name x)

/-- the files `generate_rust_library` writes, relative to the output directory, for an extracted spec -/
def emitFiles (hir : HirSpec) (cfg : Cfg) : Except PipeX (List Text) :=
  -- write_model_module
  match mapE (modelPath hir cfg) hir.schemas with
  | .error e => .error e
  | .ok modelFiles =>
  -- write_request_module
  match mapE (requestPath hir cfg) hir.operations with
  | .error e => .error e
  | .ok requestFiles =>
  -- make_lib_rs
  match mapE authArm hir.security, fromEnv hir.security cfg.name with
  | .error e, _ => .error (.lib e)
  | _, .error e => .error (.lib e)
  | .ok _, .ok _ =>
  -- write_examples_folder
  match (if cfg.examples then mapE (examplePath hir cfg) hir.operations else .ok []) with
  | .error e => .error e
  | .ok exampleFiles =>
    .ok ([cs!"src/model/mod.rs"] ++ modelFiles ++ requestFiles ++ [cs!"src/request/mod.rs", cs!"src/lib.rs"] ++
         (if needsSerde hir.schemas then [cs!"src/serde.rs"] else []) ++ exampleFiles)

/-- `libninja gen` on a fresh output directory -/
def pipeline (spec : Spec) (cfg : Cfg) : Except PipeX (List Text) :=
  match extractSpec spec with
  | .error e => .error (.extract e)
  | .ok hir => emitFiles hir cfg

end Ln
