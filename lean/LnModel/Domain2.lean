import LnModel.Domain
import LnModel.Emit.Request
/-! The name conditions the request-module writer needs, on top of `inD` (`Thm/C01Requests.lean` proves that
on documents of `inD2` every request module is written): input names of the name domain and path templates
whose braces are exactly `{name}` placeholders. -/
namespace Ln

/-- a path template whose braces are exactly placeholders `{name}`, each name in the name domain of D -/
def templateOk : Nat → Text → Bool
  | 0, _ => false
  | _ + 1, [] => true
  | fuel + 1, c :: rest =>
    if c == '{' then
      let w := rest.takeWhile notBrace
      let after := rest.dropWhile notBrace
      inNameDomain w && after.head? == some '}' && templateOk fuel (after.drop 1)
    else c != '}' && templateOk fuel rest

/-- the (resolved) parameter's name is in the name domain -/
def paramNameOk (spec : Spec) (p : ParamRef) : Bool :=
  match resolveParam spec p with
  | .ok q => inNameDomain q.name
  | .error _ => true

/-- the names of the body's members are in the name domain -/
def bodyNamesOk (spec : Spec) : Option OaBody → Bool
  | none => true
  | some b =>
    match jsonOf spec b with
    | some (some r) =>
      (match target spec r with
       | some body => (allProps spec body).all (fun nr => inNameDomain nr.1)
       | none => true)
    | _ => true

/-- the additional conditions on names: input names of the name domain, well-formed path templates -/
def opNamesOk (spec : Spec) (item : OaPath) (op : OaOperation) : Bool :=
  op.params.all (paramNameOk spec) && item.params.all (paramNameOk spec) && bodyNamesOk spec op.body &&
  templateOk (item.template.length + 1) item.template

def opsNamesOk (spec : Spec) (item : OaPath) : List OaOperation → Bool
  | [] => true
  | op :: rest => opNamesOk spec item op && opsNamesOk spec item rest

def pathsNamesOk (spec : Spec) : List OaPath → Bool
  | [] => true
  | p :: rest => opsNamesOk spec p p.ops && pathsNamesOk spec rest

/-- D with the name conditions the request writer needs -/
def inD2 (spec : Spec) : Bool := inD spec && pathsNamesOk spec spec.paths

end Ln
