import LnModel.Ascii
/-! Model of `convert_case 0.6.0` on ASCII input: `split` with the default boundary set
(`_ - space LowerUpper UpperDigit DigitUpper DigitLower LowerDigit Acronym`, no UpperLower)
and the word patterns / delimiters of the five cases libninja uses. -/
namespace Ln

def isDelim (c : Char) : Bool := c == '_' || c == '-' || c == ' '

def boundary2 (a b : Char) : Bool :=
  (a.isLower && b.isUpper) || (a.isUpper && b.isDigit) || (a.isDigit && b.isUpper) ||
  (a.isDigit && b.isLower) || (a.isLower && b.isDigit)

def boundary3 (a b c : Char) : Bool := a.isUpper && b.isUpper && c.isLower

def pushWord (w : Text) (acc : List Text) : List Text :=
  if w.isEmpty then acc else w.reverse :: acc

def b2Of : Option Char → Char → Bool
  | some p, c => boundary2 p c
  | none, _ => false

def b3Of : Option Char → Char → Text → Bool
  | some p, c, n :: _ => boundary3 p c n
  | _, _, _ => false

/-- `w` is the current word reversed, `acc` the finished words, newest first. -/
def splitGo : Option Char → Text → Text → List Text → List Text
  | _, [], w, acc => (pushWord w acc).reverse
  | prev, c :: rest, w, acc =>
    if isDelim c then splitGo (some c) rest [] (pushWord w acc)
    else if b2Of prev c || b3Of prev c rest then splitGo (some c) rest [c] (pushWord w acc)
    else splitGo (some c) rest (c :: w) acc

def split (s : Text) : List Text := splitGo none s [] []

def lowerW (w : Text) : Text := w.map Char.toLower
def upperW (w : Text) : Text := w.map Char.toUpper
def capitalW : Text → Text
  | [] => []
  | c :: cs => c.toUpper :: cs.map Char.toLower

def toSnake (s : Text) : Text := intercalate ['_'] ((split s).map lowerW)
def toScreamingSnake (s : Text) : Text := intercalate ['_'] ((split s).map upperW)
def toLowerCase (s : Text) : Text := intercalate [' '] ((split s).map lowerW)
def toFlat (s : Text) : Text := ((split s).map lowerW).flatten
def toPascal (s : Text) : Text := ((split s).map capitalW).flatten

end Ln
