import LnModel.Ident
/-! The identifiers and file names the code generator derives from HIR names
(`codegen_rust/src/{request,client,example,model}.rs`, `hir/src/operation.rs`). -/
namespace Ln

/-- client method of an operation: `operation.name.to_rust_ident()` -/
def opMethod (name : Text) : Except Panic Text := sanitize name
/-- request struct: `operation.request_struct_name().to_rust_struct()` -/
def opStruct (name : Text) : Except Panic Text := sanitizeStruct (name ++ cs!"Request")
/-- required-arguments struct -/
def opRequiredStruct (name : Text) : Except Panic Text := sanitizeStruct (name ++ cs!"Required")
/-- request module / example file stem: `sanitize_filename(&operation.file_name())` -/
def opFile (name : Text) : Except Panic Text := sanitize (toSnake name)
/-- model module file stem and type name of a schema -/
def schemaFile (name : Text) : Except Panic Text := sanitize name
def schemaStruct (name : Text) : Except Panic Text := sanitizeStruct name

end Ln
