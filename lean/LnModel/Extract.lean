import LnModel.Hir
import LnModel.Case
/-! Model of the extractor (`libninja/src/extractor/{mod,ty,record,operation,plural}.rs`):
OpenAPI → HIR, including every explicit panic site as a value and the unguarded recursions
through `$ref`s as fuel-bounded functions (`diverged` on exhaustion). -/
namespace Ln

inductive XPanic where
  | componentIsRef        -- "Expected schema, not reference"
  | schemaNameNotUpper    -- insert_schema
  | emptyName             -- `chars().next().unwrap()` on ""
  | modelNameParen        -- Ty::model
  | propertyRef           -- property-level `$ref` (model does not cover: `unimplemented!` / nested resolve)
  | schemaNotFound
  | unknownReference
  | noSuccessResponse
  | responseRefUnresolved
  | sliceOutOfRange       -- make_name
  | paramNoSchema
  | paramRefUnresolved
  | bodyRefUnresolved
  | schemeNotFound
  | schemeIsRef
  | emptyAllOf
  | diverged              -- unbounded recursion (stack overflow / hang in the real code)
  deriving DecidableEq, Repr, Inhabited

abbrev X := Except XPanic

/-! ### references -/

def splitOn (sep : Char) (t : Text) : List Text :=
  let rec go : Text → Text → List Text → List Text
    | [], cur, acc => (cur.reverse :: acc).reverse
    | c :: rest, cur, acc => if c == sep then go rest [] (cur.reverse :: acc) else go rest (c :: cur) acc
  go t [] []

inductive RefTarget where
  | schema (name : Text)
  | property (schema property : Text)

/-- `SchemaReference::from_str` -/
def parseRef (r : Text) : X RefTarget :=
  match (splitOn '/' r).reverse with
  | name :: kind :: rest =>
    if kind == cs!"schemas" then .ok (.schema name)
    else if kind == cs!"properties" then
      match rest with
      | sname :: _ => .ok (.property sname name)
      | [] => .error .unknownReference
    else .error .unknownReference
  | _ => .error .unknownReference

def lookupSchema (spec : Spec) (name : Text) : X Schema :=
  match spec.components.find? (fun e => e.1 == name) with
  | some (_, .item s) => .ok s
  | some (_, .ref _) => .error .componentIsRef
  | none => .error .schemaNotFound

/-- `RefOr<Schema>::resolve` (components are inline in every document that gets this far) -/
def resolve (spec : Spec) : SRef → X Schema
  | .item s => .ok s
  | .ref r =>
    match parseRef r with
    | .error e => .error e
    | .ok (.schema n) => lookupSchema spec n
    | .ok (.property _ _) => .error .propertyRef

/-! ### types -/

def Refs.head? : Refs → Option SRef
  | .nil => none
  | .cons s _ => some s

/-- `is_primitive`; the real function recurses through `$ref`s without a visited set -/
def isPrimitive (spec : Spec) : Nat → Schema → X Bool
  | 0, _ => .error .diverged
  | fuel + 1, s =>
    match s.kind with
    | .str _ enumeration => .ok enumeration.isEmpty
    | .num => .ok true
    | .int => .ok true
    | .bool => .ok true
    | .arr (.some it) =>
      match resolve spec it with
      | .error e => .error e
      | .ok inner => isPrimitive spec fuel inner
    | .allOf members =>
      if members.length == 1 then
        match members.head? with
        | some m =>
          match resolve spec m with
          | .error e => .error e
          | .ok inner => isPrimitive spec fuel inner
        | none => .ok false
      else .ok false
    | _ => .ok false

def strTy (format : Text) : Ty :=
  if format == cs!"decimal" then .currency
  else if format == cs!"integer" then .integer .string
  else if format == cs!"date" then .date .iso8601
  else if format == cs!"date-time" then .dateTime
  else .string

def intTy (ext : Ext) : Ty :=
  if ext.nullAsZero then .integer .nullAsZero
  else if ext.xFormat == some cs!"date" then .date .integer
  else .integer .simple

/-- `Ty::model` -/
def mkModel (n : Text) : X Ty := if n.contains '(' then .error .modelNameParen else .ok (.model n)

mutual
/-- `schema_to_ty` -/
def schemaToTy (spec : Spec) : Nat → Schema → X Ty
  | 0, _ => .error .diverged
  | fuel + 1, s =>
    match s.kind with
    | .str format _ => .ok (strTy format)
    | .num => .ok .float
    | .int => .ok (intTy s.data.ext)
    | .bool => .ok .boolean
    | .obj props _ addl =>
      -- an object with only `additionalProperties` is a map, wherever it occurs
      if props.isEmpty then
        match addl with
        | .absent => .ok .any
        | .any _ => .ok (.hashMap .any)
        | .schema r => match schemaRefToTy spec fuel r with | .error e => .error e | .ok t => .ok (.hashMap t)
      else .ok .any
    | .arr (.some it) =>
      match schemaRefToTy spec fuel it with
      | .error e => .error e
      | .ok t => .ok (.array t)
    | .arr .none => .ok (.array .any)
    | .any _ _ => .ok .any
    | .allOf members =>
      if members.length == 1 then
        match members.head? with
        | some m => schemaRefToTy spec fuel m
        | none => .ok .any
      else .ok .any
    | .oneOf => .ok .any
    | .anyOf => .ok .any
    | .not_ => .ok .any
/-- `schema_ref_to_ty` = resolve, then `schema_ref_to_ty2` -/
def schemaRefToTy (spec : Spec) : Nat → SRef → X Ty
  | 0, _ => .error .diverged
  | fuel + 1, r =>
    match resolve spec r with
    | .error e => .error e
    | .ok s =>
      match isPrimitive spec (fuel + 1) s with
      | .error e => .error e
      | .ok true => schemaToTy spec fuel s
      | .ok false =>
        match r with
        | .ref reference =>
          match parseRef reference with
          | .error e => .error e
          | .ok (.schema n) => mkModel n
          | .ok (.property _ _) => .error .propertyRef
        | .item s' => schemaToTy spec fuel s'
end

/-! ### records -/

def isWs (c : Char) : Bool :=
  c == ' ' || c == '\t' || c == '\n' || c == '\r' || c.toNat == 0x0b || c.toNat == 0x0c ||
  c.toNat == 0x85 || c.toNat == 0xa0 || c.toNat == 0x1680 || (0x2000 ≤ c.toNat && c.toNat ≤ 0x200a) ||
  c.toNat == 0x2028 || c.toNat == 0x2029 || c.toNat == 0x202f || c.toNat == 0x205f || c.toNat == 0x3000

/-- Rust `str::trim` -/
def trim (t : Text) : Text := ((t.dropWhile isWs).reverse.dropWhile isWs).reverse

def hasSuffix (suf t : Text) : Bool := suf.reverse.isPrefixOf t.reverse

def isPlural (s : Text) : Bool :=
  hasSuffix cs!"ies" s || hasSuffix cs!"es" s || (!(hasSuffix cs!"ss" s) && hasSuffix cs!"s" s)

def singular (s : Text) : Text :=
  if hasSuffix cs!"ies" s then s.take (s.length - 3) ++ ['y']
  else if hasSuffix cs!"es" s then s.take (s.length - 2)
  else if !(hasSuffix cs!"ss" s) && hasSuffix cs!"s" s then s.take (s.length - 1)
  else s

/-- `create_unique_name` -/
def createUniqueName (current : List Text) (name field : Text) : Option Text :=
  let viaPlural : Option Text :=
    if isPlural field then
      let sf := toPascal (singular field)
      if !current.contains sf then some sf
      else
        let sf2 := toPascal name ++ sf
        if !current.contains sf2 then some sf2 else none
    else none
  match viaPlural with
  | some n => some n
  | none =>
    let sf3 := toPascal field ++ cs!"Item"
    if !current.contains sf3 then some sf3
    else
      let sf4 := toPascal name ++ sf3
      if !current.contains sf4 then some sf4 else none

/-- `HirSpec::insert_schema` -/
def insertSchema (hir : HirSpec) (r : Record) : X HirSpec :=
  match r.name with
  | [] => .error .emptyName
  | c :: _ =>
    if !c.isLower then .ok { hir with schemas := btInsert r.name r hir.schemas }
    else .error .schemaNameNotUpper

/-- `get_required()` of the parent: `some` for object / any schemas -/
def requiredOf (s : Schema) : Option (List Text) :=
  match s.kind with
  | .obj _ req _ => some req
  | .any _ req => some req
  | _ => none

def propsOf (s : Schema) : Option Props :=
  match s.kind with
  | .obj p _ _ => some p
  | .any p _ => some p
  | _ => none

/-- `is_optional` -/
def isOptional (name : Text) (param parent : Schema) : Bool :=
  if param.data.nullable then true
  else match requiredOf parent with
    | none => false
    | some req => !req.contains name

def docOf (s : Schema) : Option Text := s.data.desc.map trim

def FUEL : Nat := 4096

/-- `schema_ref_to_ty2(schema_ref, spec, schema_ref.resolve(spec))` -/
def tyOfRef (spec : Spec) (r : SRef) : X Ty := schemaRefToTy spec FUEL r
def tyOf (spec : Spec) (s : Schema) : X Ty := schemaToTy spec FUEL s
def prim (spec : Spec) (s : Schema) : X Bool := isPrimitive spec FUEL s

/-- `extract_fields` -/
def extractFields (spec : Spec) (parent : Schema) : List (Text × SRef) → X (List (Text × HirField))
  | [] => .ok []
  | (name, r) :: rest =>
    match resolve spec r, tyOfRef spec r, extractFields spec parent rest with
    | .ok s, .ok ty, .ok fs =>
      .ok (btInsert name { ty := ty, optional := isOptional name s parent, doc := docOf s } fs)
    | .error e, _, _ => .error e
    | _, .error e, _ => .error e
    | _, _, .error e => .error e

/-- `create_field` -/
def createField (spec : Spec) (r : SRef) : X HirField :=
  match resolve spec r, tyOfRef spec r with
  | .ok s, .ok ty => .ok { ty := ty, optional := s.data.nullable, doc := docOf s }
  | .error e, _ => .error e
  | _, .error e => .error e

def effectiveLength : List SRef → Nat
  | [] => 0
  | .ref _ :: rest => 1 + effectiveLength rest
  | .item s :: rest => (match propsOf s with | some p => p.length | none => 0) + effectiveLength rest

/-- fields contributed by one inline `allOf` member -/
def allOfInlineFields (spec : Spec) (required : List Text) :
    List (Text × SRef) → List (Text × HirField) → X (List (Text × HirField))
  | [], acc => .ok acc
  | (n, r) :: rest, acc =>
    match createField spec r with
    | .error e => .error e
    | .ok f =>
      let f' := if !f.ty.isIterable && !required.contains n then { f with optional := true } else f
      allOfInlineFields spec required rest (btInsert n f' acc)

def allOfFields (spec : Spec) : List SRef → List (Text × HirField) → X (List (Text × HirField))
  | [], acc => .ok acc
  | .ref reference :: rest, acc =>
    match parseRef reference, createField spec (.ref reference) with
    | .ok tgt, .ok f =>
      let n := match tgt with | .schema s => s | .property _ p => p
      allOfFields spec rest (btInsert n { f with flatten := true } acc)
    | .error e, _ => .error e
    | _, .error e => .error e
  | .item s :: rest, acc =>
    match propsOf s with
    | none => allOfFields spec rest acc
    | some props =>
      match allOfInlineFields spec ((requiredOf s).getD []) props.toList acc with
      | .error e => .error e
      | .ok acc' => allOfFields spec rest acc'

/-- `extract_all_of` -/
def extractAllOf (spec : Spec) (name : Text) (members : List SRef) (data : SData) (hir : HirSpec) : X HirSpec :=
  if effectiveLength members == 1 then
    match members with
    | [] => .error .emptyAllOf
    | m :: _ =>
      match tyOfRef spec m with
      | .error e => .error e
      | .ok ty => insertSchema hir (.alias name { ty := ty, optional := data.nullable })
  else
    match allOfFields spec members [] with
    | .error e => .error e
    | .ok fields => insertSchema hir (.struct name data.nullable fields data.desc)

def aliasLookup (rename : List (Text × Text)) (v : Text) : Option Text :=
  (rename.find? (fun e => e.1 == v)).map (·.2)

/-- `extract_newtype` (record.rs) -/
def extractNewtype (spec : Spec) (name : Text) (s : Schema) (hir : HirSpec) : X HirSpec :=
  match tyOf spec s with
  | .error e => .error e
  | .ok ty => insertSchema hir (.newtype name [{ ty := ty, optional := s.data.nullable }] s.data.desc)

/-- `extract_schema`; recursion only into inline array items -/
def extractSchema (spec : Spec) (name : Text) : Schema → HirSpec → X HirSpec
  | .mk data kind, hir =>
    let s := Schema.mk data kind
    match kind with
    | .obj props required addl =>
      if props.isEmpty && (match addl with | .absent => false | _ => true) then
        let tyX : X Ty := match addl with
          | .schema r => tyOfRef spec r
          | _ => .ok .any
        match tyX with
        | .error e => .error e
        | .ok ty => insertSchema hir (.alias name { ty := .hashMap ty, optional := false })
      else
        match extractFields spec (.mk data (.obj props required addl)) props.toList with
        | .error e => .error e
        | .ok fields => insertSchema hir (.struct name data.nullable fields (data.desc.map trim))
    | .str _ enumeration =>
      if !enumeration.isEmpty then
        insertSchema hir (.enum name (enumeration.map fun v => { value := v, alias := aliasLookup data.ext.rename v }) data.desc)
      else extractNewtype spec name s hir
    | .allOf members => extractAllOf spec name members.toList data hir
    | .arr (.some (.item it)) =>
      match createUniqueName (hir.schemas.map (·.1)) name name with
      | some n => extractSchema spec n it hir
      | none => extractNewtype spec name s hir
    | _ => extractNewtype spec name s hir

/-! ### operations -/

def replaceChar (a : Char) (b : Text) (t : Text) : Text := t.flatMap fun c => if c == a then b else [c]

def startsWith (p t : Text) : Bool := p.isPrefixOf t

/-- `make_name` -/
def makeName (opId : Option Text) (method path : Text) : X Text :=
  match opId with
  | some id => .ok (replaceChar '.' ['_'] id)
  | none =>
    let segs := splitOn '/' path
    let names := segs.filter fun s => !(startsWith ['{'] s)
    let placeholders := segs.filter fun s => startsWith ['{'] s
    let lastGroup : X Text :=
      match placeholders.getLast? with
      | none => .ok []
      | some s =>
        -- `&s[1..s.len() - 1]`
        if s.length < 2 then .error .sliceOutOfRange else
        let param := (s.drop 1).take (s.length - 2)
        match names.getLast? with
        | some n =>
          if startsWith n param && param.length > n.length then
            -- `&param[name.len() + 1..]` (in range: param is longer than the segment)
            .ok (cs!"_by_" ++ param.drop (n.length + 1))
          else .ok (cs!"_by_" ++ param)
        | none => .ok (cs!"_by_" ++ param)
    match lastGroup with
    | .error e => .error e
    | .ok lg => .ok (method ++ intercalate ['_'] names ++ lg)

/-- `extract_doc` (Markdown) -/
def extractDoc (op : OaOperation) : Option Text :=
  let p1 : List Text := match op.summary with
    | some s => if s.isEmpty then [] else [s]
    | none => []
  let p2 : List Text := match op.desc with
    | some d => if d.isEmpty then p1 else if (match p1 with | f :: _ => d == f | [] => false) then p1 else p1 ++ [d]
    | none => p1
  let p3 : List Text := match op.extDocs with
    | some u => p2 ++ [cs!"See endpoint docs at <" ++ u ++ cs!">."]
    | none => p2
  if p3.isEmpty then none else some (intercalate ['\n', '\n'] p3)

def resolveParam (spec : Spec) : ParamRef → X OaParam
  | .item p => .ok p
  | .ref r =>
    -- `#/components/parameters/<name>`
    let name := ((splitOn '/' r).getLast?).getD []
    match spec.componentParams.find? (fun e => e.1 == name) with
    | some (_, .item p) => .ok p
    | _ => .error .paramRefUnresolved

/-- `extract_param` -/
def extractParam (spec : Spec) (pr : ParamRef) : X Param :=
  match resolveParam spec pr with
  | .error e => .error e
  | .ok p =>
    match p.schema with
    | none => .error .paramNoSchema
    | some r =>
      match tyOfRef spec r with
      | .error e => .error e
      | .ok ty => .ok { name := p.name, ty := ty, loc := p.loc, optional := !(p.required || p.loc == .path) }

def extractParams (spec : Spec) : List ParamRef → X (List Param)
  | [] => .ok []
  | p :: rest =>
    match extractParam spec p, extractParams spec rest with
    | .ok a, .ok b => .ok (a :: b)
    | .error e, _ => .error e
    | _, .error e => .error e

def addIfNew (inputs : List Param) (p : Param) : List Param :=
  if inputs.any (fun q => q.name == p.name) then inputs else inputs ++ [p]

mutual
/-- `Schema::properties_iter`: own properties, or those of all `allOf` members (through refs) -/
def propertiesIter (spec : Spec) : Nat → Schema → X (List (Text × SRef))
  | 0, _ => .error .diverged
  | fuel + 1, s =>
    match s.kind with
    | .obj p _ _ => .ok p.toList
    | .any p _ => .ok p.toList
    | .allOf members => propertiesIterList spec fuel members.toList
    | _ => .ok []
def propertiesIterList (spec : Spec) : Nat → List SRef → X (List (Text × SRef))
  | 0, _ => .error .diverged
  | _ + 1, [] => .ok []
  | fuel + 1, m :: rest =>
    match resolve spec m with
    | .error e => .error e
    | .ok s =>
      match propertiesIter spec fuel s, propertiesIterList spec fuel rest with
      | .ok a, .ok b => .ok (a ++ b)
      | .error e, _ => .error e
      | _, .error e => .error e
end

mutual
/-- `declaring_schema`: for an `allOf` body, the member that declares `name` -/
def declaringSchema (spec : Spec) (name : Text) : Nat → Schema → X Schema
  | 0, _ => .error .diverged
  | fuel + 1, s =>
    match s.kind with
    | .allOf members => declaringIn spec name fuel s members.toList
    | _ => .ok s
def declaringIn (spec : Spec) (name : Text) : Nat → Schema → List SRef → X Schema
  | 0, _, _ => .error .diverged
  | _ + 1, whole, [] => .ok whole
  | fuel + 1, whole, m :: rest =>
    match resolve spec m with
    | .error e => .error e
    | .ok ms =>
      match propertiesIter spec fuel ms with
      | .error e => .error e
      | .ok props =>
        if props.any (fun e => e.1 == name) then declaringSchema spec name fuel ms
        else declaringIn spec name fuel whole rest
end

def bodyArgs (spec : Spec) (body : Schema) : List (Text × SRef) → List Param → X (List Param)
  | [], inputs => .ok inputs
  | (n, r) :: rest, inputs =>
    match tyOfRef spec r, resolve spec r, declaringSchema spec n FUEL body with
    | .ok ty, .ok ps, .ok decl =>
      bodyArgs spec body rest (addIfNew inputs { name := n, ty := ty, loc := .body, optional := isOptional n ps decl })
    | .error e, _, _ => .error e
    | _, .error e, _ => .error e
    | _, _, .error e => .error e

def resolveBody (spec : Spec) : OaBody → X (Option SRef)
  | .item j => .ok j
  | .ref r =>
    let name := ((splitOn '/' r).getLast?).getD []
    match spec.componentBodies.find? (fun e => e.1 == name) with
    | some (_, .item j) => .ok j
    | _ => .error .bodyRefUnresolved

/-- `extract_parameters` -/
def extractParameters (spec : Spec) (op : OaOperation) (item : OaPath) : X (List Param) :=
  match extractParams spec op.params, extractParams spec item.params with
  | .error e, _ => .error e
  | _, .error e => .error e
  | .ok own, .ok inherited =>
    let inputs := inherited.foldl addIfNew own
    match op.body with
    | none => .ok inputs
    | some b =>
      match resolveBody spec b with
      | .error e => .error e
      | .ok none => .ok inputs
      | .ok (some r) =>
        match resolve spec r with
        | .error e => .error e
        | .ok body =>
          match body.kind with
          | .arr items =>
            let tyX : X Ty := match items with
              | .some it => tyOfRef spec it
              | .none => .ok .any
            match tyX with
            | .error e => .error e
            | .ok ty => .ok (inputs ++ [{ name := cs!"body", ty := .array ty, loc := .body, optional := false }])
          | _ =>
            match propertiesIter spec FUEL body with
            | .error e => .error e
            | .ok [] => .ok (inputs ++ [{ name := cs!"body", ty := .any, loc := .body, optional := false }])
            | .ok props => bodyArgs spec body props inputs

def resolveResponse (spec : Spec) : OaResponse → X (Option SRef)
  | .item j => .ok j
  | .ref r =>
    let name := ((splitOn '/' r).getLast?).getD []
    match spec.componentResponses.find? (fun e => e.1 == name) with
    | some (_, .item j) => .ok j
    | _ => .error .responseRefUnresolved

def findCode (rs : List (Option Nat × OaResponse)) (c : Nat) : Option OaResponse :=
  (rs.find? (fun e => e.1 == some c)).map (·.2)

/-- `get_res`: the first *present* of 200, 201, 202, 204, 302 -/
def getRes (spec : Spec) (op : OaOperation) : X (Option SRef) :=
  let r := (findCode op.responses 200).orElse fun _ => (findCode op.responses 201).orElse fun _ =>
    (findCode op.responses 202).orElse fun _ => (findCode op.responses 204).orElse fun _ => findCode op.responses 302
  match r with
  | none => .error .noSuccessResponse
  | some resp => resolveResponse spec resp

def insertSortedP (p : Param) : List Param → List Param
  | [] => [p]
  | q :: rest => if ltT q.name p.name then q :: insertSortedP p rest else p :: q :: rest

/-- stable sort by raw name, byte order (`sort_by(|a, b| a.name.cmp(&b.name))`) -/
def sortParams (ps : List Param) : List Param := ps.foldr insertSortedP []

/-- `extract_operation` -/
def extractOperation (spec : Spec) (item : OaPath) (op : OaOperation) (hir : HirSpec) : X HirSpec :=
  match makeName op.opId op.method item.template with
  | .error e => .error e
  | .ok name =>
    match extractParameters spec op item with
    | .error e => .error e
    | .ok params =>
      let params := sortParams params
      let mkOp (ret : Ty) : Operation :=
        ⟨toPascal name, extractDoc op, params, ret, item.template, op.method⟩
      let finish (hir : HirSpec) (ret : Ty) : X HirSpec :=
        .ok { hir with operations := hir.operations ++ [mkOp ret] }
      match getRes spec op with
      | .error e => .error e
      | .ok none => finish hir .unit
      | .ok (some (.ref r)) =>
        match tyOfRef spec (.ref r) with
        | .error e => .error e
        | .ok ty => finish hir ty
      | .ok (some (.item res)) =>
        let rname := toPascal name ++ cs!"Response"
        match extractSchema spec rname res hir with
        | .error e => .error e
        | .ok hir' =>
          match prim spec res with
          | .error e => .error e
          | .ok true => match tyOf spec res with | .error e => .error e | .ok ty => finish hir' ty
          | .ok false =>
            match res.kind with
            | .arr _ => match tyOf spec res with | .error e => .error e | .ok ty => finish hir' ty
            | _ => finish hir' (.model rname)

/-! ### servers, security -/

def toLowerT (t : Text) : Text := t.map Char.toLower

def serverKeyword (desc : Option Text) : Option Text :=
  match desc with
  | none => none
  | some d =>
    let l := toLowerT d
    [cs!"beta", cs!"production", cs!"development", cs!"sandbox"].find? fun k => isSub k l

/-- `extract_servers` -/
def extractServers (servers : List OaServer) : List (Text × Text) :=
  match servers with
  | [s] => [(cs!"default", s.url)]
  | _ =>
    let rec go : List OaServer → List (Text × Text) → List (Text × Text)
      | [], acc => acc
      | s :: rest, acc =>
        match serverKeyword s.desc with
        | some k => go rest (btInsert k s.url acc)
        | none => []
    go servers []

def keyLocation (loc : ApiKeyLoc) (name : Text) : AuthLoc :=
  match loc with
  | .header =>
    let sn := toSnake name
    if sn == cs!"bearer_auth" || sn == cs!"bearer" then .bearer else .header name
  | .query => .query name
  | .cookie => .cookie name

/-- `extract_security_strategies` -/
def extractSecurity (spec : Spec) : List (List Text) → X (List AuthStrategy)
  | [] => .ok []
  | req :: rest =>
    match extractSecurity spec rest with
    | .error e => .error e
    | .ok tail =>
      match req with
      | [] => .ok (.noAuth :: tail)
      | schemeName :: _ =>
        match spec.schemes.find? (fun e => e.1 == schemeName) with
        | none => .error .schemeNotFound
        | some (_, .ref _) => .error .schemeIsRef
        | some (_, .apiKey loc name) => .ok (.token schemeName [{ name := name, loc := keyLocation loc name }] :: tail)
        | some (_, .http _) => .ok (.token schemeName [{ name := schemeName, loc := .bearer }] :: tail)
        | some (_, .oauth2 (some (a, t, r, scopes))) => .ok (.oauth2 a t (r.getD t) scopes :: tail)
        | some (_, .oauth2 none) => .ok tail
        | some (_, .openId) => .ok tail

/-! ### the whole extraction -/

def extractComponents (spec : Spec) : List (Text × SRef) → HirSpec → X HirSpec
  | [], hir => .ok hir
  | (_, .ref _) :: _, _ => .error .componentIsRef
  | (name, .item s) :: rest, hir =>
    match extractSchema spec name s hir with
    | .error e => .error e
    | .ok hir' => extractComponents spec rest hir'

def extractOps (spec : Spec) (item : OaPath) : List OaOperation → HirSpec → X HirSpec
  | [], hir => .ok hir
  | op :: rest, hir =>
    match extractOperation spec item op hir with
    | .error e => .error e
    | .ok hir' => extractOps spec item rest hir'

def extractPaths (spec : Spec) : List OaPath → HirSpec → X HirSpec
  | [], hir => .ok hir
  | p :: rest, hir =>
    match extractOps spec p p.ops hir with
    | .error e => .error e
    | .ok hir' => extractPaths spec rest hir'

/-- `extract_without_treeshake` -/
def extractWithoutTreeshake (spec : Spec) : X HirSpec :=
  match extractComponents spec spec.components {} with
  | .error e => .error e
  | .ok h1 =>
    match extractPaths spec spec.paths h1 with
    | .error e => .error e
    | .ok h2 =>
      match extractSecurity spec spec.security with
      | .error e => .error e
      | .ok sec =>
        .ok { operations := h2.operations, schemas := h2.schemas, servers := extractServers spec.servers,
              security := sec, apiDocsUrl := spec.extDocs }

end Ln
