import LnModel.Extract
/-! Model of `treeshake` / `remove_unused` / `extract_spec` (`libninja/src/extractor/mod.rs`).
Hash containers are used for membership / keyed lookup only, so lists model them. -/
namespace Ln

/-- aliases that are optional and whose type is exactly a model: `(alias, target)` -/
def shortCircuitMap (schemas : SchemaTable) : List (Text × Text) :=
  schemas.filterMap fun (_, r) =>
    match r with
    | .alias name f => if f.optional then (match f.ty with | .model t => some (name, t) | _ => none) else none
    | _ => none

def rewriteField (m : List (Text × Text)) (f : HirField) : HirField :=
  match f.ty with
  | .model n =>
    -- HashMap::get: with duplicate keys the last inserted wins; alias names are unique (BTreeMap keys)
    match (m.reverse.find? (fun e => e.1 == n)) with
    | some (_, target) => { f with ty := .model target, optional := true }
    | none => f
  | _ => f

def rewriteRecord (m : List (Text × Text)) : Record → Record
  | .struct n nu fs d => .struct n nu (fs.map fun (k, f) => (k, rewriteField m f)) d
  | .newtype n fs d => .newtype n (fs.map (rewriteField m)) d
  | .alias n f => .alias n (rewriteField m f)
  | .enum n vs d => .enum n vs d

/-- the names `remove_unused` collects into `used` -/
def usedNames (hir : HirSpec) : List Text :=
  (hir.schemas.flatMap fun (_, r) => r.fields.filterMap fun f => f.ty.innerModel) ++
  (hir.operations.flatMap fun op => (op.ret.innerModel.toList) ++ op.params.filterMap fun p => p.ty.innerModel)

/-- `remove_unused` -/
def removeUnused (hir : HirSpec) : HirSpec :=
  let used := usedNames hir
  { hir with schemas := hir.schemas.filter fun (name, _) => used.contains name || hasSuffix cs!"Webhook" name }

/-- `treeshake` -/
def treeshake (hir : HirSpec) : HirSpec :=
  let m := shortCircuitMap hir.schemas
  let hir1 := { hir with schemas := hir.schemas.map fun (k, r) => (k, rewriteRecord m r) }
  removeUnused (removeUnused hir1)

/-- `extract_spec` (`validate` only logs) -/
def extractSpec (spec : Spec) : X HirSpec :=
  match extractWithoutTreeshake spec with
  | .error e => .error e
  | .ok hir => .ok (treeshake hir)

end Ln
