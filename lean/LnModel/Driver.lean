import LnModel.Sexp
import LnModel.Ident
/-! Line-protocol driver: one s-expression request per line on stdin, one canonical
s-expression result per line on stdout. -/
namespace Ln.Driver
open Ln Sexp

def panicName : Panic → String
  | .emptyIdent => "emptyIdent"
  | .parenInIdent => "parenInIdent"
  | .numericIdent => "numericIdent"
  | .dotInIdent => "dotInIdent"

def exc (r : Except Panic Text) : Sexp :=
  match r with
  | .ok t => .list [.atom "ok", .str t]
  | .error e => .list [.atom "panic", .atom (panicName e)]

def bool (b : Bool) : Sexp := .atom (if b then "true" else "false")

def step (req : Sexp) : Sexp :=
  match req with
  | .list [.atom "sanitize", .str s] => exc (sanitize s)
  | .list [.atom "sanitize_struct", .str s] => exc (sanitizeStruct s)
  | .list [.atom "snake", .str s] => .str (toSnake s)
  | .list [.atom "pascal", .str s] => .str (toPascal s)
  | .list [.atom "screaming", .str s] => .str (toScreamingSnake s)
  | .list [.atom "lower", .str s] => .str (toLowerCase s)
  | .list [.atom "flat", .str s] => .str (toFlat s)
  | .list [.atom "valid_ident", .str s] => bool (validIdent s)
  | .list [.atom "is_restricted", .str s] => bool (isRestricted s)
  | .list [.atom "in_name_domain", .str s] => bool (inNameDomain s)
  | _ => .list [.atom "bad-request"]

partial def loop (h : IO.FS.Stream) (out : IO.FS.Stream) : IO Unit := do
  let line ← h.getLine
  if line.isEmpty then return ()
  let l := line.trimAscii.toString
  if l.isEmpty then
    out.putStrLn ""
  else
    match Sexp.parse l with
    | some req => out.putStrLn (render (step req))
    | none => out.putStrLn "(parse-error)"
  loop h out

def main (_args : List String) : IO Unit := do
  let stdin ← IO.getStdin
  let stdout ← IO.getStdout
  loop stdin stdout

end Ln.Driver
