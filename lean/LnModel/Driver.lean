import LnModel.Sexp
import LnModel.Ident
import LnModel.FsExec
import LnModel.Adapters
import LnModel.SpecIO
import LnModel.EmitIO
import LnModel.MacroIO
import LnModel.SerdeIO
import LnModel.PipelineIO
/-! Line-protocol driver: one s-expression request per line on stdin, one canonical
s-expression result per line on stdout. -/
namespace Ln.Driver
open Ln Sexp

def panicName : Panic → String
  | .emptyIdent => "emptyIdent"
  | .parenInIdent => "parenInIdent"
  | .numericIdent => "numericIdent"
  | .dotInIdent => "dotInIdent"

def exc (r : Except Panic Text) : Sexp :=
  match r with
  | .ok t => .list [.atom "ok", .str t]
  | .error e => .list [.atom "panic", .atom (panicName e)]

def bool (b : Bool) : Sexp := .atom (if b then "true" else "false")

def contentOf : Sexp → Option Content
  | .list [.atom "text", .str t] => some (.text t)
  | .list (.atom "binary" :: bs) => some (.binary (bs.filterMap fun b => match b with | .atom a => a.toNat? | _ => none))
  | _ => none

def contentTo : Content → Sexp
  | .text t => .list [.atom "text", .str t]
  | .binary bs => .list (.atom "binary" :: bs.map fun b => .atom (toString b))

def treeOf : Sexp → Option FsL
  | .list (.atom "tree" :: es) => es.mapM fun e => match e with
      | .list [.str p, c] => (contentOf c).map fun c => (p, c)
      | _ => none
  | _ => none

def treeTo (l : FsL) : Sexp := .list (.atom "tree" :: l.map fun (p, c) => .list [.str p, contentTo c])

def codeOf : Sexp → Option CodeSpec
  | .list [.atom "plain", .str c] => some (.plain c)
  | .list [.atom "lib", .str f, .str s] => some (.lib f s)
  | _ => none

def outsOf : Sexp → Option (List Write)
  | .list (.atom "outs" :: es) => es.mapM fun e => match e with
      | .list [.str p, c] => (codeOf c).map fun c => (p, c)
      | _ => none
  | _ => none

def intOf : Sexp → Option Int
  | .atom a => a.toInt?
  | _ => none

def wireOf : Sexp → Option Wire
  | .list [.atom "int", n] => (intOf n).map .int
  | .list [.atom "float"] => some .float
  | .list [.atom "str", .str s] => some (.str s)
  | .list [.atom "null"] => some .null
  | .list [.atom "other"] => some .other
  | _ => none

def wireTo : Wire → Sexp
  | .int n => .list [.atom "int", .atom (toString n)]
  | .float => .list [.atom "float"]
  | .str s => .list [.atom "str", .str s]
  | .null => .list [.atom "null"]
  | .other => .list [.atom "other"]

def optIntOf : Sexp → Option (Option Int)
  | .list [.atom "none"] => some none
  | .list [.atom "some", n] => (intOf n).map some
  | _ => none

def optDateOf : Sexp → Option (Option Date)
  | .list [.atom "none"] => some none
  | .list [.atom "some", y, m, d] => do pure (some ⟨← intOf y, ← intOf m, ← intOf d⟩)
  | _ => none

def deErrName : DeErr → String
  | .invalidType => "invalidType"
  | .invalidValue => "invalidValue"

def resInt : Except DeErr (Option Int) → Sexp
  | .ok none => .list [.atom "ok", .list [.atom "none"]]
  | .ok (some i) => .list [.atom "ok", .list [.atom "some", .atom (toString i)]]
  | .error e => .list [.atom "err", .atom (deErrName e)]

def resDate : Except DeErr (Option Date) → Sexp
  | .ok none => .list [.atom "ok", .list [.atom "none"]]
  | .ok (some d) => .list [.atom "ok", .list [.atom "some", .atom (toString d.y), .atom (toString d.m), .atom (toString d.d)]]
  | .error e => .list [.atom "err", .atom (deErrName e)]

def stepAdapters (req : Sexp) : Option Sexp :=
  match req with
  | .list [.atom "nz_de", w] => (wireOf w).map fun w => resInt (nzDe w)
  | .list [.atom "nz_ser", v] => (optIntOf v).map fun v => wireTo (nzSer v)
  | .list [.atom "str_de", w] => (wireOf w).map fun w => resInt (strDe w)
  | .list [.atom "str_ser", v] => (optIntOf v).map fun v => wireTo (strSer v)
  | .list [.atom "date_de", w] => (wireOf w).map fun w => resDate (dateDe w)
  | .list [.atom "date_ser", v] => (optDateOf v).map fun v => wireTo (dateSer v)
  | _ => none

def stepFs (req : Sexp) : Option Sexp :=
  match req with
  | .list [.atom "run", t, .list (.atom "gens" :: gs)] => do
      let l ← treeOf t
      let gens ← gs.mapM outsOf
      pure (treeTo (runAllL gens l))
  | .list [.atom "crashok", t0, t1, o] => do
      let l0 ← treeOf t0
      let l1 ← treeOf t1
      let outs ← outsOf o
      pure (bool (isCrashState outs l0 l1))
  | .list [.atom "crashwhy", t0, t1, o] => do
      let l0 ← treeOf t0
      let l1 ← treeOf t1
      let outs ← outsOf o
      pure (.list ((crashStateFailures outs l0 l1).map .str))
  | .list [.atom "in_scope", .str p] => some (bool (inScope p))
  | _ => none

def step (req : Sexp) : Sexp :=
  match ((((stepFs req).orElse (fun _ => stepAdapters req)).orElse (fun _ => SpecIO.step req)).orElse (fun _ => EmitIO.step req)).orElse (fun _ => MacroIO.step req) |>.orElse (fun _ => SerdeIO.step req) |>.orElse (fun _ => PipelineIO.step req) with
  | some r => r
  | none =>
  match req with
  | .list [.atom "sanitize", .str s] => exc (sanitize s)
  | .list [.atom "sanitize_struct", .str s] => exc (sanitizeStruct s)
  | .list [.atom "sanitize_filename", .str s] => exc (schemaFile s)
  | .list [.atom "snake", .str s] => .str (toSnake s)
  | .list [.atom "pascal", .str s] => .str (toPascal s)
  | .list [.atom "screaming", .str s] => .str (toScreamingSnake s)
  | .list [.atom "lower", .str s] => .str (toLowerCase s)
  | .list [.atom "flat", .str s] => .str (toFlat s)
  | .list [.atom "valid_ident", .str s] => bool (validIdent s)
  | .list [.atom "is_restricted", .str s] => bool (isRestricted s)
  | .list [.atom "in_name_domain", .str s] => bool (inNameDomain s)
  | _ => .list [.atom "bad-request"]

partial def loop (h : IO.FS.Stream) (out : IO.FS.Stream) : IO Unit := do
  let line ← h.getLine
  if line.isEmpty then return ()
  let l := line.trimAscii.toString
  if l.isEmpty then
    out.putStrLn ""
  else
    match Sexp.parse l with
    | some req => out.putStrLn (render (step req))
    | none => out.putStrLn "(parse-error)"
  loop h out

def main (_args : List String) : IO Unit := do
  let stdin ← IO.getStdin
  let stdout ← IO.getStdout
  loop stdin stdout

end Ln.Driver
