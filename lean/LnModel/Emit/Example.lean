import LnModel.Emit.Model
import LnModel.Emit.Interface
import LnModel.Names
/-! Model of the example programs (`codegen_rust/src/example.rs`, `mir_rust/src/example.rs`):
one program per operation; the value synthesised for every input by a type-directed walk over the
schema graph that carries the list of models being visited. -/
namespace Ln

mutual
/-- an example expression -/
inductive Ex where
  | lit (t : Text)                          -- fixed token text: `1`, `1.0`, `true`, `()`, `serde_json::json!({})`, ...
  | str (s : Text) (owned : Bool)           -- `"your x"` / `"your x".to_owned()`
  | seq (ref : Bool) (items : Exs)          -- `&[..]` / `vec![..]`
  | dflt                                    -- `Default::default()`
  | structLit (name : Text) (fields : ExFields)
  | tuple (name : Text) (items : Exs)
  | variant (model v : Text)                -- `Model::Variant`
  | some (e : Ex)
  | none
inductive Exs where
  | nil
  | cons (e : Ex) (rest : Exs)
inductive ExFields where
  | nil
  | cons (ident : Text) (e : Ex) (rest : ExFields)
end

inductive ExX where
  | importPath            -- `syn::parse_str::<Path>` of an import fails (mir_rust/src/import.rs)
  | recordNotFound
  | noVariant
  | ident (p : Panic)
  | diverged
  deriving DecidableEq, Repr

def exsM (g : HirField → Except ExX Ex) : List HirField → Except ExX Exs
  | [] => .ok .nil
  | f :: rest =>
    match g f, exsM g rest with
    | .ok e, .ok es => .ok (.cons e es)
    | .error x, _ => .error x
    | _, .error x => .error x

def exFieldsM (g : Text → HirField → Except ExX (Text × Ex)) : List (Text × HirField) → Except ExX ExFields
  | [] => .ok .nil
  | (n, f) :: rest =>
    match g n f, exFieldsM g rest with
    | .ok (i, e), .ok es => .ok (.cons i e es)
    | .error x, _ => .error x
    | _, .error x => .error x

def liftXP {α : Type} : Except Panic α → Except ExX α
  | .ok a => .ok a
  | .error e => .error (.ident e)

def innerVisited (visiting : List Text) (t : Ty) : Bool :=
  match t.innerModel with
  | some m => visiting.contains m
  | none => false

def both {α β γ : Type} (a : Except ExX α) (b : Except ExX β) (k : α → β → γ) : Except ExX γ :=
  match a, b with
  | .ok x, .ok y => .ok (k x y)
  | .error e, _ => .error e
  | _, .error e => .error e

def mapOk {α β : Type} (a : Except ExX α) (k : α → β) : Except ExX β :=
  match a with
  | .ok x => .ok (k x)
  | .error e => .error e

/-- one field of a struct literal; `rec` is the walk one level down -/
def structFieldEx (rec : Ty → Text → Bool → Except ExX Ex) (visiting' : List Text) (forceRef : Bool)
    (n : Text) (f : HirField) : Except ExX (Text × Ex) :=
  match liftXP (sanitize n) with
  | .error x => .error x
  | .ok ident =>
    let notRef := !forceRef || f.optional
    if f.optional && innerVisited visiting' f.ty then .ok (ident, .none)
    else mapOk (rec f.ty n (!notRef)) (fun v => (ident, if f.optional then .some v else v))

/-- the first variant of an enum -/
def enumEx (m nm : Text) (variants : List Variant) : Except ExX Ex :=
  match variants with
  | [] => .error .noVariant
  | v :: _ =>
    match enumVariant nm v with
    | .error (.ident p) => .error (.ident p)
    | .error _ => .error .noVariant
    | .ok (vi, _) => mapOk (liftXP (sanitizeStruct m)) (fun sn => .variant sn vi)

/-- `example_value`: `visiting` are the models whose example is being built -/
def exampleValue (schemas : SchemaTable) : Nat → List Text → Ty → Text → Bool → Except ExX Ex
  | 0, _, _, _, _ => .error .diverged
  | fuel + 1, visiting, ty, name, useRef =>
    match ty with
    | .string => .ok (.str (cs!"your " ++ toLowerCase name) (!useRef))
    | .integer _ => .ok (.lit cs!"1")
    | .float => .ok (.lit cs!"1.0")
    | .boolean => .ok (.lit cs!"true")
    | .array inner =>
      let useRef' := if !isReferenceType inner then false else useRef
      if innerVisited visiting inner then .ok (.seq useRef' .nil)
      else mapOk (exampleValue schemas fuel visiting inner name useRef') (fun e => .seq useRef' (.cons e .nil))
    | .model m =>
      if visiting.contains m then .ok .dflt
      else match btGet m schemas with
        | none => .error .recordNotFound
        | some r =>
          let forceRef := cs!"Required".reverse.isPrefixOf m.reverse
          let visiting' := m :: visiting
          match r with
          | .struct _ _ fields _ =>
            both (liftXP (sanitizeStruct m)) (exFieldsM (structFieldEx (exampleValue schemas fuel visiting') visiting' forceRef) fields) Ex.structLit
          | .newtype nm fields _ =>
            both (exsM (fun f => exampleValue schemas fuel visiting' f.ty nm false) fields) (liftXP (sanitizeStruct nm)) (fun es sn => .tuple sn es)
          | .enum nm variants _ => enumEx m nm variants
          | .alias nm f =>
            mapOk (exampleValue schemas fuel visiting' f.ty nm (!forceRef || !f.optional)) (fun v => if f.optional then .some v else v)
    | .unit => .ok (.lit cs!"()")
    | .any => .ok (.lit cs!"serde_json::json!({})")
    | .date _ => .ok (.lit cs!"chrono::Utc::now().date_naive()")
    | .dateTime => .ok (.lit cs!"chrono::Utc::now()")
    | .currency => .ok (.lit cs!"rust_decimal_macros::dec!(100.01)")
    | .hashMap _ => .ok (.lit cs!"std::collections::HashMap::new()")

/-- depth of array nesting of a type -/
def Ty.arrayDepth : Ty → Nat
  | .array t => t.arrayDepth + 1
  | _ => 0

def maxFieldDepth (schemas : SchemaTable) : Nat :=
  schemas.foldl (fun acc kv => kv.2.fields.foldl (fun a f => max a f.ty.arrayDepth) acc) 0

/-- enough fuel for every walk (see `exampleValue_terminates`) -/
def exampleFuel (schemas : SchemaTable) (t : Ty) : Nat :=
  (schemas.length + 1) * (maxFieldDepth schemas + 2) + t.arrayDepth + 2

def toRustExampleValue (schemas : SchemaTable) (t : Ty) (name : Text) : Except ExX Ex :=
  exampleValue schemas (exampleFuel schemas t) [] t name true

/-! rendering (token text without whitespace, as the harness prints the real expressions) -/
mutual
def Ex.render : Ex → Text
  | .lit t => t
  | .str s owned => cs!"\"" ++ s ++ cs!"\"" ++ (if owned then cs!".to_owned()" else [])
  | .seq ref items => (if ref then cs!"&[" else cs!"vec![") ++ items.render ++ cs!"]"
  | .dflt => cs!"Default::default()"
  | .structLit n fs => n ++ cs!"{" ++ fs.render ++ cs!"}"
  | .tuple n es => n ++ cs!"(" ++ es.render ++ cs!")"
  | .variant m v => m ++ cs!"::" ++ v
  | .some e => cs!"Some(" ++ e.render ++ cs!")"
  | .none => cs!"None"
def Exs.render : Exs → Text
  | .nil => []
  | .cons e .nil => e.render
  | .cons e rest => e.render ++ cs!"," ++ rest.render
def ExFields.render : ExFields → Text
  | .nil => []
  | .cons i e .nil => i ++ cs!":" ++ e.render
  | .cons i e rest => i ++ cs!":" ++ e.render ++ cs!"," ++ rest.render
end

inductive CallArgs where
  | positional (idents : List Text)
  | requiredStruct (name : Text) (idents : List Text)
  deriving DecidableEq, Repr

structure ExampleSum where
  stem : Text
  imports : List Text
  client : Text
  decls : List (Text × Ex)
  method : Text
  args : CallArgs
  setters : List (Text × Ex)

/-- the identifier and the example value of one input -/
def exampleDecl (schemas : SchemaTable) (p : Param) : Except ExX (Text × Ex) :=
  match liftXP (sanitize p.name), toRustExampleValue schemas p.ty p.name with
  | .ok i, .ok v => .ok (i, v)
  | .error x, _ => .error x
  | _, .error x => .error x

/-- `generate_example` -/
def makeExample (schemas : SchemaTable) (cfg : Cfg) (op : Operation) : Except ExX ExampleSum :=
  let pkg := toSnake cfg.name
  -- the imports are parsed as paths: a crate name that is a keyword (other than the path keywords) panics
  if keywords.contains pkg && !([cs!"super", cs!"self", cs!"crate", cs!"try"].contains pkg) then .error .importPath else
  let useStruct := usesStruct op.params
  match liftXP (opFile op.name), mapE (exampleDecl schemas) (mandatory op.params), mapE (exampleDecl schemas) (setters op.params), liftXP (opMethod op.name),
        liftXP (opRequiredStruct op.name) with
  | .ok stem, .ok decls, .ok sets, .ok m, .ok rs =>
    .ok { stem := stem,
          imports := [pkg ++ cs!"::model::*", pkg ++ cs!"::" ++ cfg.name ++ cs!"Client"] ++
            (if useStruct then [pkg ++ cs!"::request::" ++ stem ++ cs!"::" ++ rs] else []),
          client := cfg.name ++ cs!"Client",
          decls := decls, method := m,
          args := if useStruct then .requiredStruct rs (decls.map (·.1)) else .positional (decls.map (·.1)),
          setters := sets }
  | .error x, _, _, _, _ => .error x
  | _, .error x, _, _, _ => .error x
  | _, _, .error x, _, _ => .error x
  | _, _, _, .error x, _ => .error x
  | _, _, _, _, .error x => .error x

end Ln
