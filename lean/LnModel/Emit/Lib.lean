import LnModel.Hir
import LnModel.Names
/-! Model of the parts of `lib.rs` the properties speak about (`codegen_rust/src/client.rs`,
`hir/src/lib.rs`): base-URL strategy, environment variable names, the authentication enum,
`authenticate` arms and `from_env`. -/
namespace Ln

inductive ServerStrategy where
  | baseUrl
  | single (url : Text)
  | env
  deriving DecidableEq, Repr

/-- `HirSpec::server_strategy` -/
def serverStrategy (servers : List (Text × Text)) : ServerStrategy :=
  match servers with
  | [] => .baseUrl
  | [(_, u)] => .single u
  | _ => .env

/-- `qualified_env_var(service, name)` -/
def qualifiedEnvVar (service name : Text) : Text := toScreamingSnake (service ++ [' '] ++ name)

/-- the argument of `.base_url(..)` in `default_http_client` -/
inductive UrlExpr where
  | literal (url : Text)
  | envVar (name : Text)
  deriving DecidableEq, Repr

/-- `server_url` -/
def serverUrl (servers : List (Text × Text)) (service : Text) : UrlExpr :=
  match serverStrategy servers with
  | .single u => .literal u
  | .env => .envVar (qualifiedEnvVar service cs!"env")
  | .baseUrl => .envVar (qualifiedEnvVar service cs!"base_url")

/-! ### authentication -/

/-- one statement of an `authenticate` arm: where the value of a credential field goes -/
inductive AuthStmt where
  | header (key : Text) (field : Text)
  | query (key : Text) (field : Text)
  | cookie (key : Text) (field : Text)
  | bearerAuth (field : Text)
  | basicAuth (field : Text)
  | tokenAuth (field : Text)
  | oauth2Middleware
  deriving DecidableEq, Repr

structure AuthArm where
  variant : Text
  fields : List Text
  stmts : List AuthStmt
  deriving DecidableEq, Repr

def mapM' {α β ε : Type} (f : α → Except ε β) : List α → Except ε (List β)
  | [] => .ok []
  | a :: as => match f a, mapM' f as with
    | .ok b, .ok bs => .ok (b :: bs)
    | .error e, _ => .error e
    | _, .error e => .error e

def authStmt (p : AuthParam) (field : Text) : AuthStmt :=
  match p.loc with
  | .header k => .header k field
  | .basic => .basicAuth field
  | .bearer => .bearerAuth field
  | .token => .tokenAuth field
  | .query k => .query k field
  | .cookie k => .cookie k field

/-- `authenticate_variant` (the enum definition `struct_Authentication` uses the same names) -/
def authArm : AuthStrategy → Except Panic AuthArm
  | .token name fields =>
    match sanitizeStruct name, mapM' (fun f => sanitize f.name) fields with
    | .ok v, .ok ids => .ok { variant := v, fields := ids, stmts := (fields.zip ids).map fun (p, i) => authStmt p i }
    | .error e, _ => .error e
    | _, .error e => .error e
  | .oauth2 _ _ _ _ => .ok { variant := cs!"OAuth2", fields := [cs!"middleware"], stmts := [.oauth2Middleware] }
  | .noAuth => .ok { variant := cs!"NoAuth", fields := [], stmts := [] }

structure EnvField where
  field : Text
  envVar : Text
  base64 : Bool
  deriving DecidableEq, Repr

structure FromEnv where
  variant : Text
  fields : List EnvField
  deriving DecidableEq, Repr

/-- `build_Authentication_from_env`: names built with the same sanitiser as the enum definition -/
def fromEnv (security : List AuthStrategy) (service : Text) : Except Panic (Option FromEnv) :=
  match security with
  | [] => .ok none
  | .token name fields :: _ =>
    match sanitizeStruct name, mapM' (fun f => sanitize f.name) fields with
    | .ok v, .ok ids =>
      .ok (some { variant := v,
                  fields := (fields.zip ids).map fun (f, i) =>
                    (⟨i, qualifiedEnvVar service f.name, (match f.loc with | .basic => true | _ => false)⟩ : EnvField) })
    | .error e, _ => .error e
    | _, .error e => .error e
  | .noAuth :: _ => .ok (some { variant := cs!"NoAuth", fields := [] })
  | .oauth2 _ _ _ _ :: _ =>
    .ok (some { variant := cs!"OAuth2", fields := [{ field := cs!"access", envVar := qualifiedEnvVar service cs!"access_token", base64 := false },
                                               { field := cs!"refresh", envVar := qualifiedEnvVar service cs!"refresh_token", base64 := false }] })

end Ln
