import LnModel.Hir
import LnModel.RustTy
import LnModel.Names
/-! Model of the generated model files (`mir_rust/src/{class,enum,record}.rs`,
`codegen_rust/src/model.rs`): for each retained record the item summary the properties observe —
field identifiers, serde attributes, Option wrapping, type text, derive list, docs, imports. -/
namespace Ln

/-- the configuration as far as the emitter uses it: `name` is already Pascal-cased;
`derives` are the user derives, `none` for a string that is not a token sequence, otherwise
its token text (whitespace removed) -/
structure Cfg where
  name : Text
  derives : List (Option Text)
  examples : Bool := true
  deriving DecidableEq, Repr, Inhabited

/-- `derives_to_tokens`: tokenisable entries, in order -/
def userDerives (cfg : Cfg) : List Text := cfg.derives.filterMap id

inductive SerdeAttr where
  | flatten
  | rename (wire : Text)
  | defaultSkip (pred : Text)   -- `#[serde(default, skip_serializing_if = "<pred>")]`
  | with_ (path : Text)
  deriving DecidableEq, Repr

structure FieldSum where
  ident : Text
  attrs : List SerdeAttr
  /-- final type text, including the `Option<..>` wrapper -/
  ty : Text
  doc : Option Text
  deriving DecidableEq, Repr

/-- `#[serde(default, skip_serializing_if = ..)]` -/
def skipAttrs (f : HirField) : List SerdeAttr :=
  if f.optional then [.defaultSkip cs!"Option::is_none"]
  else if f.ty.isIterable then [.defaultSkip cs!"Vec::is_empty"]
  else if f.ty == .any then [.defaultSkip cs!"serde_json::Value::is_null"] else []

/-- `#[serde(with = ..)]` -/
def withAttrs (f : HirField) : List SerdeAttr :=
  match f.ty with
  | .integer .string => [.with_ cs!"crate::serde::option_i64_str"]
  | .integer .nullAsZero => [.with_ cs!"crate::serde::option_i64_null_as_zero"]
  | .date .integer => [.with_ cs!"crate::serde::option_chrono_naive_date_as_int"]
  | .currency => [.with_ (if f.optional then cs!"rust_decimal::serde::str_option" else cs!"rust_decimal::serde::str")]
  | _ => []

/-- `field_attributes` -/
def fieldAttributes (f : HirField) (name ident : Text) : List SerdeAttr :=
  (if ident != name then (if f.flatten then [.flatten] else [.rename name]) else []) ++ skipAttrs f ++ withAttrs f

/-- Option-wrap is forced for the adapter-carried types -/
def forcedOptional (t : Ty) : Bool :=
  match t with
  | .integer .nullAsZero => true
  | .integer .string => true
  | .date .integer => true
  | _ => false

def optionWrap (b : Bool) (t : Text) : Text := if b then cs!"Option<" ++ t ++ cs!">" else t

/-- `class_fields`, one field -/
def classField (name : Text) (f : HirField) : Except Panic FieldSum :=
  match sanitize name, toRustType f.ty with
  | .ok ident, .ok ty =>
    .ok { ident := ident, attrs := fieldAttributes f name ident, ty := optionWrap (f.optional || forcedOptional f.ty) ty,
          doc := f.doc.map trim' }
  | .error e, _ => .error e
  | _, .error e => .error e
where trim' (t : Text) : Text := t  -- the HIR doc is printed through `Doc::to_tokens`, which trims; see `docText`

inductive DefaultX where
  | modelNotFound
  | diverged
  deriving DecidableEq, Repr

/-- short-circuiting `Iterator::all` over fallible answers -/
def allM (f : Ty → Except DefaultX Bool) : List HirField → Except DefaultX Bool
  | [] => .ok true
  | x :: rest =>
    match f x.ty with
    | .error e => .error e
    | .ok false => .ok false
    | .ok true => allM f rest

/-- `model_implements_default`: `visiting` are the models being examined; a model met again does
not decide the answer. The fuel only bounds the depth of nested models. -/
def modelImplementsDefault (schemas : SchemaTable) : Nat → List Text → Text → Except DefaultX Bool
  | 0, _, _ => .error .diverged
  | fuel + 1, visiting, name =>
    if visiting.contains name then .ok true
    else match btGet name schemas with
      | none => .error .modelNotFound
      | some r =>
        match r with
        | .enum _ _ _ => .ok false
        | _ => allM (fun t => match t with
                      | .model inner => modelImplementsDefault schemas fuel (name :: visiting) inner
                      | _ => .ok true) r.fields

/-- the depth of nested models never exceeds the number of schemas (see `implementsDefault_terminates`) -/
def defaultFuel (schemas : SchemaTable) : Nat := schemas.length + 2

/-- `Ty::implements_default` -/
def tyImplementsDefault (schemas : SchemaTable) (t : Ty) : Except DefaultX Bool :=
  match t with
  | .model n => modelImplementsDefault schemas (defaultFuel schemas) [] n
  | _ => .ok true

/-- `Struct::implements_default` / `Record::implements_default` for non-enum records -/
def allImplementDefault (schemas : SchemaTable) (fields : List HirField) : Except DefaultX Bool :=
  allM (tyImplementsDefault schemas) fields

inductive ItemSum where
  | struct (name : Text) (derives : List Text) (doc : Option Text) (fields : List FieldSum) (deref : Option (Text × Text))
  | newtype (name : Text) (derives : List Text) (doc : Option Text) (types : List Text)
  | enum (name : Text) (derives : List Text) (doc : Option Text) (variants : List (Text × Option Text))  -- ident, rename
  | alias (name : Text) (ty : Text)
  deriving DecidableEq, Repr

inductive EmitX where
  | ident (p : Panic)
  | default (d : DefaultX)
  | noVariant
  deriving DecidableEq, Repr

def liftP {α : Type} : Except Panic α → Except EmitX α
  | .ok a => .ok a
  | .error e => .error (.ident e)

def liftD {α : Type} : Except DefaultX α → Except EmitX α
  | .ok a => .ok a
  | .error e => .error (.default e)

def builtinStructDerives : List Text := [cs!"Debug", cs!"Clone", cs!"Serialize", cs!"Deserialize"]
def builtinEnumDerives : List Text := [cs!"Debug", cs!"Serialize", cs!"Deserialize", cs!"Clone"]

/-- `Doc::to_tokens` / `Option<Doc>::to_rust_code`: the text is trimmed when emitted -/
def docText (d : Option Text) : Option Text := d.map fun t => ((t.dropWhile isWs').reverse.dropWhile isWs').reverse
where isWs' (c : Char) : Bool :=
  c == ' ' || c == '\t' || c == '\n' || c == '\r' || c.toNat == 0x0b || c.toNat == 0x0c ||
  c.toNat == 0x85 || c.toNat == 0xa0 || c.toNat == 0x1680 || (0x2000 ≤ c.toNat && c.toNat ≤ 0x200a) ||
  c.toNat == 0x2028 || c.toNat == 0x2029 || c.toNat == 0x202f || c.toNat == 0x205f || c.toNat == 0x3000

def classFields : List (Text × HirField) → Except Panic (List FieldSum)
  | [] => .ok []
  | (n, f) :: rest =>
    match classField n f, classFields rest with
    | .ok a, .ok b => .ok ({ a with doc := docText f.doc } :: b)
    | .error e, _ => .error e
    | _, .error e => .error e

/-- `Enum::iter_safe_variant_names` + `make_enum`: ident and the `rename` it needs -/
def enumVariant (enumName : Text) (v : Variant) : Except EmitX (Text × Option Text) :=
  let n := v.alias.getD v.value
  match n with
  | [] => .error .noVariant       -- `chars().next().unwrap()`
  | c :: _ =>
    let n' := if c.isDigit then enumName ++ n else n
    match sanitizeStruct n' with
    | .error e => .error (.ident e)
    | .ok ident => .ok (ident, if ident != v.value then some v.value else none)

def mapE {α β ε : Type} (f : α → Except ε β) : List α → Except ε (List β)
  | [] => .ok []
  | a :: as => match f a, mapE f as with
    | .ok b, .ok bs => .ok (b :: bs)
    | .error e, _ => .error e
    | _, .error e => .error e

/-- `make_item` -/
def makeItem (schemas : SchemaTable) (cfg : Cfg) : Record → Except EmitX ItemSum
  | .struct name _ fields doc =>
    match liftD (allImplementDefault schemas (fields.map (·.2))), liftP (sanitizeStruct name), liftP (classFields fields) with
    | .ok dflt, .ok ident, .ok fs =>
      let deref : Except EmitX (Option (Text × Text)) :=
        match fields.find? (fun e => e.2.flatten && !e.2.optional) with
        | none => .ok none
        | some (fname, f) =>
          match liftP (sanitize fname), liftP (toRustType f.ty) with
          | .ok a, .ok b => .ok (some (a, b))
          | .error e, _ => .error e
          | _, .error e => .error e
      match deref with
      | .error e => .error e
      | .ok d => .ok (.struct ident (builtinStructDerives ++ (if dflt then [cs!"Default"] else []) ++ userDerives cfg) (docText doc) fs d)
    | .error e, _, _ => .error e
    | _, .error e, _ => .error e
    | _, _, .error e => .error e
  | .newtype name fields doc =>
    match liftP (sanitizeStruct name), liftP (mapE (fun f => toRustType f.ty) fields), liftD (allImplementDefault schemas fields) with
    | .ok ident, .ok tys, .ok dflt =>
      .ok (.newtype ident (builtinStructDerives ++ (if dflt then [cs!"Default"] else []) ++ userDerives cfg) (docText doc) tys)
    | .error e, _, _ => .error e
    | _, .error e, _ => .error e
    | _, _, .error e => .error e
  | .enum name variants doc =>
    match mapE (enumVariant name) variants, liftP (sanitizeStruct name) with
    | .ok vs, .ok ident => .ok (.enum ident (builtinEnumDerives ++ userDerives cfg) (docText doc) vs)
    | .error e, _ => .error e
    | _, .error e => .error e
  | .alias name f =>
    match liftP (sanitizeStruct name), liftP (toRustType f.ty) with
    | .ok ident, .ok ty => .ok (.alias ident (optionWrap f.optional ty))
    | .error e, _ => .error e
    | _, .error e => .error e

/-- `check_imports`: the sorted set of model types a record's fields mention (other than itself) -/
def insertSet (x : Text) : List Text → List Text
  | [] => [x]
  | y :: ys => if x == y then y :: ys else if ltT x y then x :: y :: ys else y :: insertSet x ys

def modelImports (r : Record) : Except Panic (List Text) :=
  let names := (r.fields.filterMap fun f => f.ty.innerModel).filter fun n => n != r.name
  match mapE sanitizeStruct names with
  | .error e => .error e
  | .ok ids => .ok (ids.foldl (fun acc x => insertSet x acc) [])

structure ModelFile where
  stem : Text
  serdeImport : Bool
  superImports : List Text
  item : ItemSum
  deriving DecidableEq, Repr

/-- `make_single_module` (model.rs) -/
def makeModelFile (schemas : SchemaTable) (cfg : Cfg) (key : Text) (r : Record) : Except EmitX ModelFile :=
  match liftP (schemaFile key), liftP (modelImports r), makeItem schemas cfg r with
  | .ok stem, .ok imps, .ok item =>
    .ok { stem := stem, serdeImport := (match r with | .alias _ _ => false | _ => true), superImports := imps, item := item }
  | .error e, _, _ => .error e
  | _, .error e, _ => .error e
  | _, _, .error e => .error e

end Ln
