import LnModel.Hir
/-! The generated calling interface of an operation (`hir/src/operation.rs`,
`codegen_rust/src/client.rs`, `request.rs`): which inputs are mandatory arguments, which are
chaining setters, and whether the mandatory ones travel in the `<Op>Required` struct. -/
namespace Ln

/-- `Operation::required_args` -/
def mandatory (ps : List Param) : List Param := ps.filter fun p => !p.optional
/-- `Operation::optional_args`: one setter each -/
def setters (ps : List Param) : List Param := ps.filter fun p => p.optional
/-- `crowded_args` / `use_required_struct` -/
def usesStruct (ps : List Param) : Bool := decide ((mandatory ps).length > 3)

end Ln
