import LnModel.Emit.Model
import LnModel.Emit.Interface
/-! Model of a generated request file (`codegen_rust/src/request.rs`, `client.rs`): request
struct, required-arguments struct, setters, URL expression, the request program of
`into_future`, the `IntoFuture::Output` type and the client method. -/
namespace Ln

/-- where the value sent for an input comes from inside `into_future` -/
inductive ValSrc where
  | item                -- the loop variable of `for item in ..`
  | unwrapped           -- the binding of `if let Some(ref unwrapped) = ..`
  | param (field : Text) -- `self.params.<field>`
  deriving DecidableEq, Repr

inductive ReqStmt where
  | setQueryAll                              -- `r = r.set_query(self.params);`
  | json (key : Text) (v : ValSrc)           -- `r = r.json(serde_json::json!({key: v}));`
  | query (key : Text) (v : ValSrc)
  | header (key : Text) (v : ValSrc)
  | cookie (key : Text) (v : ValSrc)
  | forEach (container : ValSrc) (body : ReqStmt)
  | ifSome (field : Text) (body : ReqStmt)
  | authenticate
  deriving DecidableEq, Repr

inductive UrlSum where
  | literal (path : Text)
  | format (fmt : Text) (args : List (Text × Text))   -- `name = self.params.<field>`
  deriving DecidableEq, Repr

/-- a character other than a brace -/
def notBrace (c : Char) : Bool := c != '{' && c != '}'

/-- `Regex("\{([^{}]+)\}").replace_all(path, "{ident($1)}")`: every placeholder is spelled like the
identifier of the parameter it names (the named format arguments are those identifiers) -/
def fixPlaceholders : Nat → Text → Except Panic Text
  | 0, t => .ok t
  | _ + 1, [] => .ok []
  | fuel + 1, c :: rest =>
    if c == '{' then
      let w := rest.takeWhile notBrace
      let after := rest.dropWhile notBrace
      if !w.isEmpty && after.head? == some '}' then
        match sanitize w, fixPlaceholders fuel (after.drop 1) with
        | .ok i, .ok t => .ok (('{' :: i) ++ ('}' :: t))
        | .error e, _ => .error e
        | _, .error e => .error e
      else match fixPlaceholders fuel rest with
        | .ok t => .ok ('{' :: t)
        | .error e => .error e
    else match fixPlaceholders fuel rest with
      | .ok t => .ok (c :: t)
      | .error e => .error e

/-- `ParamKey`: query keys of iterable inputs get the `[]` suffix -/
def paramKey (p : Param) : Text :=
  if p.ty.isIterable && p.loc == .query then p.name ++ cs!"[]" else p.name

/-- the statements emitted for one non-path input -/
def assignOne (p : Param) (field : Text) : ReqStmt :=
  let iter := p.ty.isIterable && p.loc != .body
  let v : ValSrc := if iter then .item else if p.optional then .unwrapped else .param field
  let key := paramKey p
  let base : ReqStmt := match p.loc with
    | .body => .json key v
    | .query => .query key v
    | .header => .header key v
    | .cookie => .cookie key v
    | .path => .query key v   -- unreachable: path inputs are filtered out
  let s1 := if iter then .forEach (if p.optional then .unwrapped else .param field) base else base
  if p.optional then .ifSome field s1 else s1

/-- `assign_inputs_to_request` -/
def assignInputs (ps : List Param) : Except Panic (List ReqStmt) :=
  let nonPath := ps.filter fun p => p.loc != .path
  mapE (fun p => match sanitize p.name with | .ok f => .ok (assignOne p f) | .error e => .error e) nonPath

/-- `make_url` -/
def makeUrl (op : Operation) : Except Panic UrlSum :=
  let pathInputs := op.params.filter fun p => p.loc == .path
  if pathInputs.isEmpty then .ok (.literal op.path)
  else match mapE (fun p => sanitize p.name) pathInputs with
    | .error e => .error e
    | .ok ids =>
      match fixPlaceholders (op.path.length + 1) op.path with
      | .error e => .error e
      | .ok fmt => .ok (.format fmt (ids.map fun i => (i, i)))

structure SetterSum where
  name : Text
  argTy : Text
  /-- how the argument is stored: `plain`, `to_owned`, or `collect` (strings gathered from an iterator) -/
  store : Text
  deriving DecidableEq, Repr

def setterOf (p : Param) : Except Panic SetterSum :=
  match sanitize p.name, toReferenceType [] p.ty with
  | .ok n, .ok refTy =>
    if (match p.ty with | .array .string => true | _ => false) then
      .ok { name := n, argTy := cs!"implIntoIterator<Item=implAsRef<str>>", store := cs!"collect" }
    else .ok { name := n, argTy := refTy, store := if isReferenceType p.ty then cs!"to_owned" else cs!"plain" }
  | .error e, _ => .error e
  | _, .error e => .error e

structure MethodSum where
  name : Text
  doc : Option Text
  args : List (Text × Text)
  /-- the struct literal `Request { field: expr, .. }` as (field, expression text) -/
  literal : List (Text × Text)
  deriving DecidableEq, Repr

def literalExpr (p : Param) (ident : Text) (useStruct : Bool) : Text :=
  if p.optional then cs!"None"
  else if isReferenceType p.ty then
    let v := if p.ty.isIterable then ident ++ cs!".iter().map(|&x|x.to_owned()).collect()" else ident ++ cs!".to_owned()"
    if useStruct then cs!"args." ++ v else v
  else if useStruct then cs!"args." ++ ident else ident

structure RequestFile where
  stem : Text
  structName : Text
  derives : List Text
  doc : Text
  fields : List (Text × Text)
  /-- the model types imported with `use crate::model::{..}` -/
  imports : List Text
  required : Option (Text × List Text × List (Text × Text))   -- name, lifetimes, fields
  setters : List SetterSum
  output : Text
  url : UrlSum
  verb : Text
  program : List ReqStmt
  method : MethodSum
  deriving DecidableEq, Repr

/-- `add_model_import`: first occurrences, in order -/
def dedupKeep : List Text → List Text → List Text
  | acc, [] => acc.reverse
  | acc, x :: xs => if acc.contains x then dedupKeep acc xs else dedupKeep (x :: acc) xs

/-- the models a request module imports: those its inputs mention, then the one inside a non-model result -/
def retModels (t : Ty) : List Text :=
  match t with
  | .model _ => []
  | t => match t.innerModel with | some m => [m] | none => []

def requestImports (op : Operation) : Except Panic (List Text) :=
  let names := op.params.filterMap (fun p => p.ty.innerModel) ++ retModels op.ret
  match mapE sanitizeStruct names with
  | .ok ids => .ok (dedupKeep [] ids)
  | .error e => .error e

def structField (useRef : Bool) (p : Param) : Except Panic (Text × Text) :=
  match sanitize p.name, (if useRef then toReferenceType cs!"'a" p.ty else toRustType p.ty) with
  | .ok i, .ok t => .ok (i, optionWrap p.optional t)
  | .error e, _ => .error e
  | _, .error e => .error e

/-- one positional argument of the client method -/
def argOf (p : Param) : Except Panic (Text × Text) :=
  match sanitize p.name, toReferenceType [] p.ty with
  | .ok i, .ok t => .ok (i, t)
  | .error e, _ => .error e
  | _, .error e => .error e

/-- one field of the struct literal in the client method -/
def litOf (useStruct : Bool) (p : Param) : Except Panic (Text × Text) :=
  match sanitize p.name with
  | .ok i => .ok (i, literalExpr p i useStruct)
  | .error e => .error e

/-- `make_single_module` (request.rs) with `build_api_client_method` -/
def makeRequestFile (hasSecurity : Bool) (cfg : Cfg) (op : Operation) : Except Panic RequestFile :=
  let useStruct := usesStruct op.params
  let clientName := cfg.name ++ cs!"Client"
  match opFile op.name, opStruct op.name, mapE (structField false) op.params, mapE setterOf (setters op.params),
        toRustType op.ret, makeUrl op, assignInputs op.params, opMethod op.name with
  | .ok stem, .ok sname, .ok fields, .ok sets, .ok resp, .ok url, .ok prog, .ok mname =>
    let reqX : Except Panic (Option (Text × List Text × List (Text × Text))) :=
      if useStruct then
        match opRequiredStruct op.name, mapE (structField true) (mandatory op.params) with
        | .ok rn, .ok rf => .ok (some (rn, (if (mandatory op.params).any (fun p => isReferenceType p.ty) then [cs!"'a"] else []), rf))
        | .error e, _ => .error e
        | _, .error e => .error e
      else .ok none
    let argsX : Except Panic (List (Text × Text)) :=
      if useStruct then
        match opRequiredStruct op.name with
        | .ok rn => .ok [(cs!"args", rn)]
        | .error e => .error e
      else mapE argOf (mandatory op.params)
    let litX : Except Panic (List (Text × Text)) := mapE (litOf useStruct) op.params
    match reqX, argsX, litX, requestImports op with
    | .ok req, .ok args, .ok lit, .ok imps =>
      .ok { stem := stem, imports := imps, structName := sname, derives := builtinStructDerives ++ userDerives cfg,
            doc := cs!"You should use this struct via [`" ++ clientName ++ cs!"::" ++ mname ++ cs!"`].\n\nOn request success, this will return a [`" ++ resp ++ cs!"`].",
            fields := fields, required := req, setters := sets,
            output := (match op.ret with | .model _ => cs!"crate::model::" ++ resp | _ => resp),
            url := url, verb := op.method,
            program := prog ++ (if hasSecurity then [.authenticate] else []),
            method := { name := mname, doc := docText op.doc, args := args, literal := lit } }
    | .error e, _, _, _ => .error e
    | _, .error e, _, _ => .error e
    | _, _, .error e, _ => .error e
    | _, _, _, .error e => .error e
  | .error e, _, _, _, _, _, _, _ => .error e
  | _, .error e, _, _, _, _, _, _ => .error e
  | _, _, .error e, _, _, _, _, _ => .error e
  | _, _, _, .error e, _, _, _, _ => .error e
  | _, _, _, _, .error e, _, _, _ => .error e
  | _, _, _, _, _, .error e, _, _ => .error e
  | _, _, _, _, _, _, .error e, _ => .error e
  | _, _, _, _, _, _, _, .error e => .error e

end Ln
