/-! ASCII text as `List Char`, kernel-reducible literals, substring helpers.
Model files import nothing beyond core so that the driver links as a `lean_exe`. -/
namespace Ln

abbrev Text := List Char

deriving instance DecidableEq for Except

open Lean in
/-- `cs!"abc"` expands to `['a','b','c']`, which `decide` can reduce in the kernel
(`String` literals do not kernel-reduce in Lean 4.33). -/
macro:max "cs!" s:str : term => do
  let elems : Array (TSyntax `term) :=
    (s.getString.toList.map (fun c => (⟨(Syntax.mkCharLit c).raw⟩ : TSyntax `term))).toArray
  `(([$elems,*] : List Char))

def isAlnum (c : Char) : Bool := c.isUpper || c.isLower || c.isDigit

/-- `[A-Za-z0-9_]` -/
def isIdentChar (c : Char) : Bool := isAlnum c || c == '_'

/-- `p` occurs in `t` as a contiguous substring (Rust `str::contains`). -/
def isSub {α : Type} [BEq α] (p : List α) : List α → Bool
  | [] => p.isEmpty
  | c :: t => p.isPrefixOf (c :: t) || isSub p t

/-- Split at the first occurrence of `m` (Rust `str::split_once`). -/
def splitOnce {α : Type} [BEq α] (m : List α) : List α → Option (List α × List α)
  | [] => if m.isEmpty then some ([], []) else none
  | c :: t =>
    if m.isPrefixOf (c :: t) then some ([], (c :: t).drop m.length)
    else match splitOnce m t with
      | some (a, b) => some (c :: a, b)
      | none => none

def intercalate (sep : Text) : List Text → Text
  | [] => []
  | [w] => w
  | w :: w' :: ws => w ++ sep ++ intercalate sep (w' :: ws)

end Ln
