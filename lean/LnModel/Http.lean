import LnModel.Emit.Request
/-! What executing the generated `into_future` sends (the request program interpreted over the
values stored in the request struct), and what the OpenAPI operation says should be sent. -/
namespace Ln

/-- a value supplied for an input: a scalar or a list, rendered as text (`to_string`), or an
arbitrary JSON value for body members -/
inductive Val where
  | scalar (s : Text)
  | list (items : List Text)
  deriving DecidableEq, Repr

/-- one thing put on the outgoing request -/
inductive Eff where
  | query (key value : Text)
  | header (key value : Text)
  | cookie (key value : Text)
  | json (key : Text) (v : Val)          -- `r.json(json!({key: v}))` merges one member into the body object
  deriving DecidableEq, Repr

/-- the fields of the request struct: `none` = an `Option` field left unset -/
abbrev Store := Text → Option Val

def evalVal (store : Store) (item unwrapped : Option Val) : ValSrc → Option Val
  | .item => item
  | .unwrapped => unwrapped
  | .param f => store f

def scalarEff (mk : Text → Text → Eff) (k : Text) : Option Val → List Eff
  | some (.scalar s) => [mk k s]
  | _ => []       -- a list has no `to_string`: such code is never emitted (lists are looped over)

/-- executing one statement of the request program -/
def execStmt (store : Store) : Option Val → Option Val → ReqStmt → List Eff
  | item, unwrapped, .query k v => scalarEff .query k (evalVal store item unwrapped v)
  | item, unwrapped, .header k v => scalarEff .header k (evalVal store item unwrapped v)
  | item, unwrapped, .cookie k v => scalarEff .cookie k (evalVal store item unwrapped v)
  | item, unwrapped, .json k v => (match evalVal store item unwrapped v with | some x => [.json k x] | none => [])
  | item, unwrapped, .forEach c body =>
    (match evalVal store item unwrapped c with
     | some (.list l) => l.flatMap fun it => execStmt store (some (.scalar it)) unwrapped body
     | _ => [])
  | item, _, .ifSome f body => (match store f with | some x => execStmt store item (some x) body | none => [])
  | _, _, .authenticate => []          -- credentials: property C14
  | _, _, .setQueryAll => []

def execProgram (store : Store) (prog : List ReqStmt) : List Eff :=
  prog.flatMap (execStmt store none none)

/-- what the OpenAPI operation says a supplied input contributes: one entry under its exact name
at its declared location (array-valued query parameters as repeated `name[]`) -/
def intendedOne (p : Param) : Option Val → List Eff
  | none => []
  | some v =>
    match p.loc with
    | .body => [.json p.name v]
    | .query =>
      (match v with
       | .list l => l.map fun it => .query (p.name ++ cs!"[]") it
       | .scalar s => [.query p.name s])
    | .header =>
      (match v with
       | .list l => l.map fun it => .header p.name it
       | .scalar s => [.header p.name s])
    | .cookie =>
      (match v with
       | .list l => l.map fun it => .cookie p.name it
       | .scalar s => [.cookie p.name s])
    | .path => []

/-- the valuation respects the declared types: list values exactly for list-typed non-body inputs -/
def wellTyped (p : Param) : Option Val → Bool
  | none => true
  | some (.list _) => p.ty.isIterable || p.loc == .body
  | some (.scalar _) => !p.ty.isIterable || p.loc == .body

end Ln
