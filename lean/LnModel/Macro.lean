import LnModel.Ascii
/-! Model of the code-building macros (`macro/src/{lib,body,function,rfunction}.rs`): token trees,
the `body!` / `function!` printer that builds a `format!` string, and the `rfunction!` parser. -/
namespace Ln

inductive Delim where | paren | brace | bracket
  deriving DecidableEq, Repr, Inhabited

mutual
inductive TT where
  | ident (s : Text)
  | punct (c : Char)
  | lit (s : Text)          -- the literal's source text, e.g. `"a{b}"`, `1u8`, `'x'`
  | group (d : Delim) (ts : TTs)
inductive TTs where
  | nil
  | cons (t : TT) (rest : TTs)
end

instance : Inhabited TT := ⟨.punct ' '⟩

def TTs.toList : TTs → List TT
  | .nil => []
  | .cons t r => t :: r.toList
def TTs.ofList : List TT → TTs
  | [] => .nil
  | t :: r => .cons t (TTs.ofList r)

/-- in a format string braces are written doubled -/
def escBraces (t : Text) : Text := t.flatMap fun c => if c == '{' then ['{', '{'] else if c == '}' then ['}', '}'] else [c]

def opening : Delim → Text
  | .paren => ['('] | .brace => ['{', '{'] | .bracket => ['[']
def closing : Delim → Text
  | .paren => [')'] | .brace => ['}', '}'] | .bracket => [']']

mutual
/-- `stream.to_string().contains(';')` -/
def semiInTT : TT → Bool
  | .ident _ => false
  | .punct c => c == ';'
  | .lit s => s.contains ';'
  | .group _ ts => semiIn ts
def semiIn : TTs → Bool
  | .nil => false
  | .cons t r => semiInTT t || semiIn r
end

/-- printer state: names captured for interpolation (in order of first use) and the lines built so
far (the last one is the current line) -/
structure PSt where
  captured : List Text := []
  lines : List Text := [[]]
  deriving DecidableEq, Repr

def PSt.append (st : PSt) (s : Text) : PSt :=
  match st.lines.reverse with
  | [] => { st with lines := [s] }
  | l :: rest => { st with lines := (rest.reverse) ++ [l ++ s] }

def PSt.push (st : PSt) (s : Text) : PSt := { st with lines := st.lines ++ [s] }

def PSt.last (st : PSt) : Text := st.lines.getLast?.getD []

/-- `lines.last_mut().truncate(n)` -/
def PSt.truncate (st : PSt) (n : Nat) : PSt :=
  match st.lines.reverse with
  | [] => st
  | l :: rest => { st with lines := rest.reverse ++ [l.take n] }

def spaces (n : Nat) : Text := List.replicate n ' '

def natText (n : Nat) : Text := (toString n).toList

/-- `interpolation_binding` -/
def bind (st : PSt) (x : Text) : PSt × Text :=
  match st.captured.findIdx? (· == x) with
  | some i => (st, ['{'] ++ natText i ++ ['}'])
  | none => ({ st with captured := st.captured ++ [x] }, ['{'] ++ natText st.captured.length ++ ['}'])

def isBlank (t : Text) : Bool := t.all Char.isWhitespace

inductive MacroPanic where
  | identExpectedAfterHash
  deriving DecidableEq, Repr

/-- what `toks.peek()` shows -/
def peekPunct (ts : TTs) (cs : List Char) : Bool :=
  match ts with
  | .cons (.punct c) _ => cs.contains c
  | _ => false

mutual
/-- `body_recurse` -/
def bodyRecurse : TTs → Nat → PSt → Except MacroPanic PSt
  | .nil, _, st => .ok st
  | .cons (.punct c) rest, indent, st =>
    if c == '#' then
      match rest with
      | .cons (.ident x) rest' =>
        let (st1, b) := bind st x
        let st2 := st1.append b
        let st3 := if peekPunct rest' ['#', '=', ':'] then st2.append [' '] else st2
        bodyRecurse rest' indent st3
      | _ => .error .identExpectedAfterHash
    else if c == ';' then bodyRecurse rest indent (st.push (spaces indent))
    else if c == '.' then bodyRecurse rest indent (st.append ['.'])
    else if c == '!' then bodyRecurse rest indent (st.append ['!'])
    else
      let st1 := st.append [c]
      let quiet := match rest with
        | .cons (.punct d) _ => ['>', '<', '=', '*'].contains d
        | .cons (.group _ _) _ => true
        | .nil => true
        | _ => false
      bodyRecurse rest indent (if quiet then st1 else st1.append [' '])
  | .cons (.group d inner) rest, indent, st =>
    let nLines := st.lines.length
    let st1 := st.append (opening d)
    let gi := indent + 4
    let st2 := if semiIn inner then st1.push (spaces gi) else st1
    match bodyRecurse inner gi st2 with
    | .error e => .error e
    | .ok st3 =>
      let multiline := st3.lines.length > nLines
      let st4 := if multiline then (if isBlank st3.last then st3.truncate indent else st3.push (spaces indent)) else st3
      let st5 := st4.append (closing d)
      let st6 := if multiline then st5.push (spaces indent) else st5
      bodyRecurse rest indent st6
  | .cons (.ident s) rest, indent, st =>
    let st1 := st.append s
    let quiet := match rest with
      | .cons (.punct d) _ => ['.', ';', ','].contains d
      | .cons (.group .brace inner) _ => !(semiIn inner)
      | .cons (.group _ _) _ => true
      | .nil => true
      | _ => false
    bodyRecurse rest indent (if quiet then st1 else st1.append [' '])
  | .cons (.lit s) rest, indent, st => bodyRecurse rest indent (st.append (escBraces s))
end

/-- `body_callable`: the format string (non-empty lines joined by newlines) and the captured names -/
def bodyFmt (ts : TTs) : Except MacroPanic (Text × List Text) :=
  match bodyRecurse ts 0 {} with
  | .error e => .error e
  | .ok st => .ok (intercalate ['\n'] (st.lines.filter fun l => !l.isEmpty), st.captured)

/-! ### what `format!` then does (rustc's part, modelled for the driver only) -/

/-- `{{` ↦ `{`, `}}` ↦ `}`, `{i}` ↦ the i-th argument -/
def fmtUnescape (args : List Text) : Nat → Text → Option Text
  | 0, _ => none
  | _ + 1, [] => some []
  | fuel + 1, '{' :: '{' :: rest => (fmtUnescape args fuel rest).map ('{' :: ·)
  | fuel + 1, '}' :: '}' :: rest => (fmtUnescape args fuel rest).map ('}' :: ·)
  | fuel + 1, '{' :: rest =>
    let digits := rest.takeWhile Char.isDigit
    let after := rest.dropWhile Char.isDigit
    match after, (String.ofList digits).toNat? with
    | '}' :: rest', some i =>
      match args[i]? with
      | some v => (fmtUnescape args fuel rest').map (v ++ ·)
      | none => none
    | _, _ => none
  | _ + 1, '}' :: _ => none
  | fuel + 1, c :: rest => (fmtUnescape args fuel rest).map (c :: ·)

def splitLines (t : Text) : List Text :=
  let fin (cur : Text) : Text := match cur with | '\r' :: r => r.reverse | _ => cur.reverse   -- `cur` is reversed
  let rec go : Text → Text → List Text → List Text
    | [], cur, acc => (if cur.isEmpty then acc else cur.reverse :: acc).reverse
    | c :: rest, cur, acc => if c == '\n' then go rest [] (fin cur :: acc) else go rest (c :: cur) acc
  go t [] []

/-- `.lines().filter(|l| !l.trim().is_empty()).collect::<Vec<_>>().join("\n")` -/
def filterBlankLines (t : Text) : Text := intercalate ['\n'] ((splitLines t).filter fun l => !(isBlank l))

/-- the string a `body!` invocation evaluates to, given the `Display` text of each captured variable -/
def bodyRender (ts : TTs) (env : Text → Text) : Option Text :=
  match bodyFmt ts with
  | .error _ => none
  | .ok (fmt, cap) => (fmtUnescape (cap.map env) (fmt.length + 1) fmt).map filterBlankLines

/-! ### `rfunction!` -/

inductive NameSrc where
  | ident (s : Text)
  | interp (v : Text)
  deriving DecidableEq, Repr

structure FnParts where
  isAsync : Bool
  isPub : Bool
  name : NameSrc
  /-- argument name and the tokens of its type (one identifier, or `# var`) -/
  args : List (Text × List TT)
  /-- tokens after `->` up to the body; empty = no return type -/
  ret : List TT
  body : Option TTs

inductive RfPanic where
  | endOfInput | expectedName | expectedArgs | expectedArgName | expectedColon | expectedType | expectedComma
  | expectedArrow | expectedBody | identExpectedAfterHash
  deriving DecidableEq, Repr

/-- `parse_intro` -/
def parseIntro : List TT → Bool → Bool → Except RfPanic (Bool × Bool × NameSrc × List TT)
  | [], _, _ => .error .endOfInput
  | .ident s :: rest, a, p =>
    if s == cs!"async" then parseIntro rest true p
    else if s == cs!"pub" then parseIntro rest a true
    else .ok (a, p, .ident s, rest)
  | .punct c :: rest, a, p =>
    if c == '#' then
      match rest with
      | .ident v :: rest' => .ok (a, p, .interp v, rest')
      | _ => .error .identExpectedAfterHash
    else .error .expectedName
  | _ :: _, _, _ => .error .expectedName

/-- `parse_args2` -/
def parseArgs2 : Nat → List TT → Except RfPanic (List (Text × List TT))
  | 0, _ => .error .endOfInput
  | _ + 1, [] => .ok []
  | fuel + 1, .ident name :: rest =>
    match rest with
    | .punct c :: rest1 =>
      if c != ':' then .error .expectedColon else
      let tyX : Except RfPanic (List TT × List TT) :=
        match rest1 with
        | .ident t :: r => .ok ([.ident t], r)
        | .punct h :: .ident v :: r => if h == '#' then .ok ([.punct '#', .ident v], r) else .error .expectedType
        | _ => .error .expectedType
      match tyX with
      | .error e => .error e
      | .ok (ty, rest2) =>
        match rest2 with
        | [] => .ok [(name, ty)]
        | .punct k :: rest3 =>
          if k == ',' then
            match parseArgs2 fuel rest3 with
            | .ok more => .ok ((name, ty) :: more)
            | .error e => .error e
          else .error .expectedComma
        | _ => .error .expectedComma
    | _ => .error .expectedColon
  | _ + 1, _ :: _ => .error .expectedArgName

def isBraceGroup : TT → Bool
  | .group .brace _ => true
  | _ => false

/-- `rfunction!` up to the construction of the `mir::Function` -/
def rfunctionParse (ts : List TT) : Except RfPanic FnParts :=
  match parseIntro ts false false with
  | .error e => .error e
  | .ok (a, p, name, rest) =>
    let argsX : Except RfPanic (List (Text × List TT) × List TT) :=
      match rest with
      | .group .paren inner :: r =>
        (match parseArgs2 (inner.toList.length + 1) inner.toList with | .ok as => .ok (as, r) | .error e => .error e)
      | [] => .ok ([], [])
      | _ => .error .expectedArgs
    match argsX with
    | .error e => .error e
    | .ok (args, rest1) =>
      let retX : Except RfPanic (List TT × List TT) :=
        match rest1 with
        | .punct m :: r =>
          if m == '-' then
            match r with
            | .punct g :: r' => if g == '>' then .ok (r'.takeWhile (fun t => !isBraceGroup t), r'.dropWhile (fun t => !isBraceGroup t)) else .error .expectedArrow
            | _ => .error .expectedArrow
          else .error .expectedArrow
        | .group .brace b :: r => .ok ([], .group .brace b :: r)
        | [] => .ok ([], [])
        | _ => .error .expectedArrow
      match retX with
      | .error e => .error e
      | .ok (ret, rest2) =>
        match rest2 with
        | .group .brace b :: _ => .ok { isAsync := a, isPub := p, name := name, args := args, ret := ret, body := some b }
        | [] => .ok { isAsync := a, isPub := p, name := name, args := args, ret := ret, body := none }
        | _ => .error .expectedBody

/-- `Function<TokenStream>::to_rust_code`: the tokens of the item the parts describe
(`quote!` substitutes `# var` inside types, return type and body; trusted) -/
def renderFn (f : FnParts) : List TT :=
  (if f.isPub then [TT.ident cs!"pub"] else []) ++ (if f.isAsync then [TT.ident cs!"async"] else []) ++
  [TT.ident cs!"fn"] ++
  [match f.name with | .ident s => TT.ident s | .interp v => TT.ident (cs!"#" ++ v)] ++
  [TT.group .paren (TTs.ofList (intercalateTT (f.args.map fun (n, ty) => [TT.ident n, TT.punct ':'] ++ ty)))] ++
  (if f.ret.isEmpty then [] else [TT.punct '-', TT.punct '>'] ++ f.ret) ++
  [TT.group .brace (f.body.getD .nil)]
where
  intercalateTT : List (List TT) → List TT
    | [] => []
    | [x] => x
    | x :: y :: rest => x ++ [TT.punct ','] ++ intercalateTT (y :: rest)

/-! ### `function!` (target-language neutral: types and bodies are strings) -/

/-- a string-valued piece: literal text or the `Display` of a captured variable -/
inductive StrSrc where
  | text (t : Text)
  | interp (v : Text)
  deriving DecidableEq, Repr

structure FArg where
  name : Text
  ty : StrSrc
  default : Option Text
  deriving DecidableEq, Repr

structure FunctionParts where
  isAsync : Bool
  isPub : Bool
  name : NameSrc
  args : List FArg
  ret : StrSrc
  /-- `none` = `Default::default()` -/
  body : Option TTs

/-- `parse_type`: `ident(.ident)*`; generic brackets are outside the modelled grammar -/
def parseDotted : Nat → Text → List TT → Except RfPanic (Text × List TT)
  | 0, _, _ => .error .endOfInput
  | fuel + 1, acc, .punct c :: rest =>
    if c == '.' then
      match rest with
      | .ident s :: rest' => parseDotted fuel (acc ++ ['.'] ++ s) rest'
      | _ => .error .expectedType
    else .ok (acc, .punct c :: rest)
  | _ + 1, acc, rest => .ok (acc, rest)

/-- `parse_args` -/
def parseArgsF : Nat → List TT → Except RfPanic (List FArg)
  | 0, _ => .error .endOfInput
  | _ + 1, [] => .ok []
  | fuel + 1, .ident name :: rest =>
    match rest with
    | .punct c :: rest1 =>
      if c != ':' then .error .expectedColon else
      let tyX : Except RfPanic (StrSrc × List TT) :=
        match rest1 with
        | .ident t :: r => (match parseDotted (r.length + 1) t r with | .ok (s, r') => .ok (.text s, r') | .error e => .error e)
        | .punct h :: .ident v :: r => if h == '#' then .ok (.interp v, r) else .error .expectedType
        | _ => .error .expectedType
      match tyX with
      | .error e => .error e
      | .ok (ty, rest2) =>
        let defX : Except RfPanic (Option Text × List TT) :=
          match rest2 with
          | .punct e :: .lit l :: r => if e == '=' then .ok (some l, r) else .ok (none, rest2)
          | _ => .ok (none, rest2)
        match defX with
        | .error e => .error e
        | .ok (dflt, rest3) =>
          match rest3 with
          | [] => .ok [⟨name, ty, dflt⟩]
          | .punct k :: rest4 =>
            if k == ',' then
              match parseArgsF fuel rest4 with
              | .ok more => .ok (⟨name, ty, dflt⟩ :: more)
              | .error e => .error e
            else .error .expectedComma
          | _ => .error .expectedComma
    | _ => .error .expectedColon
  | _ + 1, _ :: _ => .error .expectedArgName

/-- `function!` -/
def functionParse (ts : List TT) : Except RfPanic FunctionParts :=
  match parseIntro ts false false with
  | .error e => .error e
  | .ok (a, p, name, rest) =>
    let argsX : Except RfPanic (List FArg × List TT) :=
      match rest with
      | .group .paren inner :: r => (match parseArgsF (inner.toList.length + 1) inner.toList with | .ok as => .ok (as, r) | .error e => .error e)
      | [] => .ok ([], [])
      | _ => .error .expectedArgs
    match argsX with
    | .error e => .error e
    | .ok (args, rest1) =>
      let retX : Except RfPanic (StrSrc × List TT) :=
        match rest1 with
        | .punct m :: .punct g :: r =>
          if m == '-' && g == '>' then
            match r with
            | .ident t :: r' => (match parseDotted (r'.length + 1) t r' with | .ok (s, r'') => .ok (.text s, r'') | .error e => .error e)
            | .punct h :: .ident v :: r' => if h == '#' then .ok (.interp v, r') else .error .expectedType
            | _ => .error .expectedType
          else .error .expectedArrow
        | .group .brace b :: r => .ok (.text [], .group .brace b :: r)
        | _ => .error .expectedArrow
      match retX with
      | .error e => .error e
      | .ok (ret, rest2) =>
        match rest2 with
        | .group .brace b :: _ => .ok { isAsync := a, isPub := p, name := name, args := args, ret := ret, body := some b }
        | [] => .ok { isAsync := a, isPub := p, name := name, args := args, ret := ret, body := none }
        | _ => .error .expectedBody

end Ln
