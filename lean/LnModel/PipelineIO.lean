import LnModel.Pipeline
import LnModel.EmitIO
namespace Ln.PipelineIO
open Ln Sexp

def tagOf : PipeX → String
  | .extract _ => "extract" | .model _ _ => "model" | .request _ _ => "request" | .lib _ => "lib" | .example _ _ => "example"

def step (req : Sexp) : Option Sexp :=
  match req with
  | .list [.atom "pipeline", s, c] => do
      let spec ← SpecIO.specOf s
      let cfg ← EmitIO.cfgOf c
      pure (match pipeline spec cfg with
        | .ok files => .list [.atom "ok", .list (.atom "files" :: files.map Sexp.str)]
        | .error e => .list [.atom "fail", .atom (tagOf e)])
  | _ => none

end Ln.PipelineIO
