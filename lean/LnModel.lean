import LnModel.Ascii
import LnModel.Case
import LnModel.Ident
