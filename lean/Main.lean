import LnModel.Driver
def main (args : List String) : IO Unit := Ln.Driver.main args
