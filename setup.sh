#!/bin/sh
# Build the framework from files on disk only (offline): Lean model + theorems + driver, Rust harness.
set -e
cd "$(dirname "$0")"
export CARGO_NET_OFFLINE=true
(cd lean && lake build LnModel lnmodel)
cp /repo/Cargo.lock harness/Cargo.lock
(cd harness && cargo build --release --offline)
mkdir -p evidence replays
echo setup-ok
