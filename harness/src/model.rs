//! Runs the Lean model driver (`lnmodel`) on batches of request lines.
use std::io::{BufRead, BufReader, Write};
use std::process::{Command, Stdio};

pub fn model_path() -> String {
    std::env::var("LNMODEL").unwrap_or_else(|_| "/verif/lean/.lake/build/bin/lnmodel".to_string())
}

fn eval_chunk(reqs: &[String]) -> Vec<String> {
    let mut child = Command::new(model_path())
        .stdin(Stdio::piped())
        .stdout(Stdio::piped())
        .stderr(Stdio::inherit())
        .spawn()
        .expect("cannot start lnmodel");
    let mut stdin = child.stdin.take().unwrap();
    let stdout = child.stdout.take().unwrap();
    let out = std::thread::scope(|sc| {
        let h = sc.spawn(move || {
            let mut v = Vec::new();
            for l in BufReader::with_capacity(1 << 20, stdout).lines() {
                v.push(l.unwrap());
            }
            v
        });
        {
            let mut w = std::io::BufWriter::with_capacity(1 << 20, &mut stdin);
            for r in reqs {
                debug_assert!(!r.contains('\n'));
                w.write_all(r.as_bytes()).unwrap();
                w.write_all(b"\n").unwrap();
            }
            w.flush().unwrap();
        }
        drop(stdin);
        h.join().unwrap()
    });
    let _ = child.wait();
    out
}

/// Evaluate all requests, in order, sharded over `jobs` model processes.
pub fn eval(reqs: &[String]) -> Vec<String> {
    let jobs = std::thread::available_parallelism().map(|n| n.get()).unwrap_or(4).min(16);
    if reqs.len() < 2000 {
        let out = eval_chunk(reqs);
        assert_eq!(out.len(), reqs.len(), "model returned {} lines for {} requests", out.len(), reqs.len());
        return out;
    }
    let chunk = (reqs.len() + jobs - 1) / jobs;
    let parts: Vec<Vec<String>> = std::thread::scope(|sc| {
        let hs: Vec<_> = reqs.chunks(chunk).map(|c| sc.spawn(move || eval_chunk(c))).collect();
        hs.into_iter().map(|h| h.join().unwrap()).collect()
    });
    let out: Vec<String> = parts.into_iter().flatten().collect();
    assert_eq!(out.len(), reqs.len(), "model returned {} lines for {} requests", out.len(), reqs.len());
    out
}

/// Run `f` over items in parallel chunks, preserving order.
pub fn par_map<T: Sync, R: Send>(items: &[T], f: impl Fn(&T) -> R + Sync) -> Vec<R> {
    let jobs = std::thread::available_parallelism().map(|n| n.get()).unwrap_or(4).min(16);
    if items.len() < 64 {
        return items.iter().map(|x| f(x)).collect();
    }
    let chunk = (items.len() + jobs - 1) / jobs;
    let f = &f;
    std::thread::scope(|sc| {
        let hs: Vec<_> = items.chunks(chunk).map(|c| sc.spawn(move || c.iter().map(|x| f(x)).collect::<Vec<R>>())).collect();
        hs.into_iter().flat_map(|h| h.join().unwrap()).collect()
    })
}
