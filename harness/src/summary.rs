//! Summaries of the real generated files, extracted with `syn`, in the s-expression formats the Lean
//! emitter model prints (LnModel/EmitIO.lean). Only what the properties observe is kept.
use crate::sexp::quote;
use quote::ToTokens;
use syn::visit::Visit;

/// token text without whitespace; trailing commas that prettyplease adds when it breaks a list over lines are dropped
pub fn toks(t: &impl ToTokens) -> String {
    let s: String = t.to_token_stream().to_string().chars().filter(|c| !c.is_whitespace()).collect();
    s.replace(",>", ">").replace(",)", ")").replace(",]", "]").replace(",}", "}")
}

/// documentation of an item: the values of its `#[doc = ..]` attributes, joined by newlines
pub fn doc_of(attrs: &[syn::Attribute]) -> Option<String> {
    let mut parts: Vec<String> = vec![];
    for a in attrs {
        if !a.path().is_ident("doc") { continue; }
        if let syn::Meta::NameValue(nv) = &a.meta {
            if let syn::Expr::Lit(syn::ExprLit { lit: syn::Lit::Str(s), .. }) = &nv.value { parts.push(s.value()); }
        }
    }
    if parts.is_empty() { None } else { Some(parts.join("\n")) }
}

pub fn doc_sexp(d: &Option<String>) -> String { match d { Some(d) => format!("(doc {})", quote(d)), None => "(nodoc)".into() } }

pub fn derives_of(attrs: &[syn::Attribute]) -> Vec<String> {
    let mut out = vec![];
    for a in attrs {
        if !a.path().is_ident("derive") { continue; }
        if let Ok(list) = a.parse_args_with(syn::punctuated::Punctuated::<syn::Path, syn::Token![,]>::parse_terminated) {
            for p in list { out.push(toks(&p)); }
        }
    }
    out
}

fn strs(tag: &str, v: &[String]) -> String { format!("({tag}{})", v.iter().map(|s| format!(" {}", quote(s))).collect::<String>()) }

/// `#[serde(..)]` attributes of a field / variant in the structured form of the model
fn serde_attrs(attrs: &[syn::Attribute]) -> Vec<String> {
    let mut out = vec![];
    for a in attrs {
        if !a.path().is_ident("serde") { continue; }
        let mut flatten = false; let mut rename = None; let mut default = false; let mut skip = None; let mut with = None; let mut other = vec![];
        let _ = a.parse_nested_meta(|m| {
            if m.path.is_ident("flatten") { flatten = true; }
            else if m.path.is_ident("default") { default = true; }
            else if m.path.is_ident("rename") { rename = Some(m.value()?.parse::<syn::LitStr>()?.value()); }
            else if m.path.is_ident("skip_serializing_if") { skip = Some(m.value()?.parse::<syn::LitStr>()?.value()); }
            else if m.path.is_ident("with") { with = Some(m.value()?.parse::<syn::LitStr>()?.value()); }
            else { other.push(toks(&m.path)); if let Ok(v) = m.value() { let _ = v.parse::<syn::Expr>(); } }
            Ok(())
        });
        if flatten { out.push("(flatten)".into()); }
        if let Some(r) = rename { out.push(format!("(rename {})", quote(&r))); }
        match (default, skip) {
            (true, Some(s)) => out.push(format!("(defaultskip {})", quote(&s))),
            (true, None) => out.push("(default)".into()),
            (false, Some(s)) => out.push(format!("(skip {})", quote(&s))),
            _ => {}
        }
        if let Some(w) = with { out.push(format!("(with {})", quote(&w))); }
        for o in other { out.push(format!("(other {})", quote(&o))); }
    }
    out
}

/// `use` items of a file as (path, names)
fn uses(file: &syn::File) -> Vec<(String, Vec<String>)> {
    fn walk(t: &syn::UseTree, prefix: String, out: &mut Vec<(String, Vec<String>)>) {
        match t {
            syn::UseTree::Path(p) => walk(&p.tree, if prefix.is_empty() { p.ident.to_string() } else { format!("{prefix}::{}", p.ident) }, out),
            syn::UseTree::Group(g) => {
                let mut names = vec![];
                for i in &g.items { match i { syn::UseTree::Name(n) => names.push(n.ident.to_string()), syn::UseTree::Glob(_) => names.push("*".into()), other => names.push(toks(other)) } }
                out.push((prefix, names));
            }
            syn::UseTree::Name(n) => out.push((prefix, vec![n.ident.to_string()])),
            syn::UseTree::Glob(_) => out.push((prefix, vec!["*".into()])),
            syn::UseTree::Rename(r) => out.push((prefix, vec![format!("{} as {}", r.ident, r.rename)])),
        }
    }
    let mut out = vec![];
    for i in &file.items { if let syn::Item::Use(u) = i { walk(&u.tree, String::new(), &mut out); } }
    out
}

pub fn model_file(stem: &str, text: &str) -> Result<String, String> {
    let file = syn::parse_file(text).map_err(|e| format!("syn: {e}"))?;
    let us = uses(&file);
    let serde = us.iter().any(|(p, n)| p == "serde" && n.contains(&"Serialize".to_string()) && n.contains(&"Deserialize".to_string()));
    let sup: Vec<String> = us.iter().filter(|(p, _)| p == "super").flat_map(|(_, n)| n.clone()).collect();
    let mut item_s = None;
    let mut deref = "(noderef)".to_string();
    for i in &file.items {
        match i {
            syn::Item::Struct(s) => {
                let name = s.ident.to_string();
                let ds = derives_of(&s.attrs);
                match &s.fields {
                    syn::Fields::Named(nf) => {
                        let mut fs = String::from("(fields");
                        for f in &nf.named {
                            fs.push_str(&format!(" (field {} (attrs{}) {} {})", quote(&f.ident.as_ref().unwrap().to_string()), serde_attrs(&f.attrs).iter().map(|a| format!(" {a}")).collect::<String>(), quote(&toks(&f.ty)), doc_sexp(&doc_of(&f.attrs))));
                        }
                        fs.push(')');
                        item_s = Some(format!("(struct {} {} {} {fs} @DEREF@)", quote(&name), strs("derives", &ds), doc_sexp(&doc_of(&s.attrs))));
                    }
                    syn::Fields::Unnamed(uf) => {
                        let tys: Vec<String> = uf.unnamed.iter().map(|f| toks(&f.ty)).collect();
                        item_s = Some(format!("(newtype {} {} {} {})", quote(&name), strs("derives", &ds), doc_sexp(&doc_of(&s.attrs)), strs("types", &tys)));
                    }
                    syn::Fields::Unit => item_s = Some(format!("(unitstruct {})", quote(&name))),
                }
            }
            syn::Item::Enum(e) => {
                let mut vs = String::from("(variants");
                for v in &e.variants {
                    let r = serde_attrs(&v.attrs);
                    let rn = r.iter().find(|a| a.starts_with("(rename")).cloned().unwrap_or("(norename)".into());
                    vs.push_str(&format!(" ({} {rn})", quote(&v.ident.to_string())));
                }
                vs.push(')');
                item_s = Some(format!("(enum {} {} {} {vs})", quote(&e.ident.to_string()), strs("derives", &derives_of(&e.attrs)), doc_sexp(&doc_of(&e.attrs))));
            }
            syn::Item::Type(t) => item_s = Some(format!("(alias {} {})", quote(&t.ident.to_string()), quote(&toks(&t.ty)))),
            syn::Item::Impl(im) => {
                if let Some((_, path, _)) = &im.trait_ {
                    if toks(path) == "std::ops::Deref" {
                        let mut target = String::new(); let mut field = String::new();
                        for ii in &im.items {
                            match ii {
                                syn::ImplItem::Type(t) => target = toks(&t.ty),
                                syn::ImplItem::Fn(f) => { let b = toks(&f.block); field = b.trim_start_matches("{&self.").trim_end_matches('}').to_string(); }
                                _ => {}
                            }
                        }
                        deref = format!("(deref {} {})", quote(&field), quote(&target));
                    }
                }
            }
            _ => {}
        }
    }
    let item = item_s.ok_or("no item in model file")?.replace("@DEREF@", &deref);
    Ok(format!("(modelfile {} {} {} {item})", quote(stem), serde, strs("super", &sup)))
}

// ---- lib.rs ----------------------------------------------------------------------------------------

struct EnvVarFinder { found: Option<String> }
impl<'ast> Visit<'ast> for EnvVarFinder {
    fn visit_expr_call(&mut self, c: &'ast syn::ExprCall) {
        if toks(&c.func).ends_with("env::var") {
            if let Some(syn::Expr::Lit(syn::ExprLit { lit: syn::Lit::Str(s), .. })) = c.args.first() { if self.found.is_none() { self.found = Some(s.value()); } }
        }
        syn::visit::visit_expr_call(self, c);
    }
}
fn env_var_in(e: &impl ToTokens) -> Option<String> {
    let expr: syn::Expr = syn::parse2(e.to_token_stream()).ok()?;
    let mut f = EnvVarFinder { found: None };
    f.visit_expr(&expr);
    f.found
}

struct BaseUrlFinder { arg: Option<syn::Expr> }
impl<'ast> Visit<'ast> for BaseUrlFinder {
    fn visit_expr_method_call(&mut self, m: &'ast syn::ExprMethodCall) {
        if m.method == "base_url" { self.arg = m.args.first().cloned(); }
        syn::visit::visit_expr_method_call(self, m);
    }
}

fn auth_stmt(s: &syn::Stmt) -> Option<String> {
    // `r = r.<method>(args);` or `r.middlewares.insert(0, middleware.clone());`
    let syn::Stmt::Expr(e, _) = s else { return None };
    match e {
        syn::Expr::Assign(a) => {
            let syn::Expr::MethodCall(m) = &*a.right else { return Some(format!("(unknown {})", quote(&toks(e)))) };
            let args: Vec<String> = m.args.iter().map(|x| match x { syn::Expr::Lit(syn::ExprLit { lit: syn::Lit::Str(s), .. }) => quote(&s.value()), other => quote(&toks(other)) }).collect();
            Some(format!("({} {})", m.method, args.join(" ")))
        }
        syn::Expr::MethodCall(m) if toks(&m.receiver) == "r.middlewares" => Some("(oauth2_middleware)".into()),
        other => Some(format!("(unknown {})", quote(&toks(other)))),
    }
}

pub fn lib_rs(text: &str) -> Result<String, String> {
    let file = syn::parse_file(text).map_err(|e| format!("syn: {e}"))?;
    let mut base_url = "(missing)".to_string();
    let mut arms: Vec<String> = vec![];
    let mut from_env = "(nofromenv)".to_string();
    for i in &file.items {
        match i {
            syn::Item::Fn(f) if f.sig.ident == "default_http_client" => {
                let mut bf = BaseUrlFinder { arg: None };
                bf.visit_block(&f.block);
                if let Some(a) = bf.arg {
                    base_url = match &a { syn::Expr::Lit(syn::ExprLit { lit: syn::Lit::Str(s), .. }) => format!("(literal {})", quote(&s.value())), other => match env_var_in(other) { Some(v) => format!("(env {})", quote(&v)), None => format!("(unknown {})", quote(&toks(other))) } };
                }
            }
            syn::Item::Impl(im) if im.trait_.is_none() => {
                for ii in &im.items {
                    let syn::ImplItem::Fn(f) = ii else { continue };
                    if f.sig.ident == "authenticate" {
                        for st in &f.block.stmts {
                            let syn::Stmt::Expr(syn::Expr::Match(m), _) = st else { continue };
                            for arm in &m.arms {
                                let (variant, fields): (String, Vec<String>) = match &arm.pat {
                                    syn::Pat::Struct(ps) => (ps.path.segments.last().map(|s| s.ident.to_string()).unwrap_or_default(), ps.fields.iter().map(|f| toks(&f.member)).collect()),
                                    syn::Pat::Path(pp) => (pp.path.segments.last().map(|s| s.ident.to_string()).unwrap_or_default(), vec![]),
                                    other => (toks(other), vec![]),
                                };
                                let stmts: Vec<String> = match &*arm.body { syn::Expr::Block(b) => b.block.stmts.iter().filter_map(auth_stmt).collect(), other => vec![format!("(unknown {})", quote(&toks(other)))] };
                                arms.push(format!("(arm {} {} (stmts{}))", quote(&variant), strs("fields", &fields), stmts.iter().map(|s| format!(" {s}")).collect::<String>()));
                            }
                        }
                    }
                    if f.sig.ident == "from_env" && toks(&im.self_ty).ends_with("Auth") {
                        // `Self::Variant { field: <expr>, .. }` possibly preceded by `let x = env::var(..)` statements
                        let mut lets: Vec<(String, String)> = vec![];
                        let mut variant = String::new();
                        let mut fields: Vec<String> = vec![];
                        for st in &f.block.stmts {
                            match st {
                                syn::Stmt::Local(l) => { if let (syn::Pat::Ident(pi), Some(init)) = (&l.pat, &l.init) { if let Some(v) = env_var_in(&init.expr) { lets.push((pi.ident.to_string(), v)); } } }
                                syn::Stmt::Expr(syn::Expr::Struct(es), _) => {
                                    variant = es.path.segments.last().map(|s| s.ident.to_string()).unwrap_or_default();
                                    if variant == "OAuth2" { for (n, v) in &lets { fields.push(format!("({} {} false)", quote(n), quote(v))); } }
                                    else {
                                        for fv in &es.fields {
                                            let b64 = toks(&fv.expr).contains("STANDARD_NO_PAD");
                                            fields.push(format!("({} {} {b64})", quote(&toks(&fv.member)), quote(&env_var_in(&fv.expr).unwrap_or_default())));
                                        }
                                    }
                                }
                                syn::Stmt::Expr(syn::Expr::Path(p), _) => variant = p.path.segments.last().map(|s| s.ident.to_string()).unwrap_or_default(),
                                _ => {}
                            }
                        }
                        from_env = format!("(fromenv {} (fields{}))", quote(&variant), fields.iter().map(|s| format!(" {s}")).collect::<String>());
                    }
                }
            }
            _ => {}
        }
    }
    Ok(format!("(lib (base_url {base_url}) (authenticate{}) {from_env})", arms.iter().map(|s| format!(" {s}")).collect::<String>()))
}

// ---- request files ---------------------------------------------------------------------------------

fn val_src(t: &str) -> String {
    let t = t.trim_start_matches('&');
    let t = t.strip_suffix(".to_string()").unwrap_or(t);
    match t {
        "item" => "item".into(),
        "unwrapped" => "unwrapped".into(),
        x if x.starts_with("self.params.") => format!("(param {})", quote(&x["self.params.".len()..])),
        other => format!("(unknown {})", quote(other)),
    }
}

fn req_stmt(s: &syn::Stmt) -> String {
    match s {
        syn::Stmt::Expr(e, _) => req_expr(e),
        other => format!("(unknown {})", quote(&toks(other))),
    }
}

fn req_expr(e: &syn::Expr) -> String {
    match e {
        syn::Expr::Assign(a) => {
            let syn::Expr::MethodCall(m) = &*a.right else { return format!("(unknown {})", quote(&toks(e))) };
            let name = m.method.to_string();
            match name.as_str() {
                "set_query" => if m.args.first().map(|x| toks(x)) == Some("self.params".into()) { "(set_query_all)".into() } else { format!("(unknown {})", quote(&toks(e))) },
                "authenticate" => "(authenticate)".into(),
                "json" => {
                    // serde_json::json!({ "key" : value })
                    if let Some(syn::Expr::Macro(mac)) = m.args.first() {
                        let inner: Vec<proc_macro2::TokenTree> = mac.mac.tokens.clone().into_iter().collect();
                        if let Some(proc_macro2::TokenTree::Group(g)) = inner.first() {
                            let ts: Vec<proc_macro2::TokenTree> = g.stream().into_iter().collect();
                            if let Some(proc_macro2::TokenTree::Literal(l)) = ts.first() {
                                if let Ok(ls) = syn::parse_str::<syn::LitStr>(&l.to_string()) {
                                    let rest: proc_macro2::TokenStream = ts.iter().skip(2).cloned().collect();
                                    return format!("(json {} {})", quote(&ls.value()), val_src(&toks(&rest)));
                                }
                            }
                        }
                    }
                    format!("(unknown {})", quote(&toks(e)))
                }
                "query" | "header" | "cookie" => {
                    let k = match m.args.first() { Some(syn::Expr::Lit(syn::ExprLit { lit: syn::Lit::Str(s), .. })) => s.value(), other => format!("?{}", other.map(|o| toks(o)).unwrap_or_default()) };
                    let v = m.args.iter().nth(1).map(|x| toks(x)).unwrap_or_default();
                    format!("({name} {} {})", quote(&k), val_src(&v))
                }
                _ => format!("(unknown {})", quote(&toks(e))),
            }
        }
        syn::Expr::ForLoop(f) => {
            let body: Vec<String> = f.body.stmts.iter().map(req_stmt).collect();
            format!("(for {} {})", val_src(&toks(&*f.expr)), body.join(" "))
        }
        syn::Expr::If(i) => {
            if let syn::Expr::Let(l) = &*i.cond {
                let body: Vec<String> = i.then_branch.stmts.iter().map(req_stmt).collect();
                let src = toks(&*l.expr);
                return format!("(if_some {} {})", quote(src.strip_prefix("self.params.").unwrap_or(&src)), body.join(" "));
            }
            format!("(unknown {})", quote(&toks(e)))
        }
        other => format!("(unknown {})", quote(&toks(other))),
    }
}

fn fields_sexp(fs: &syn::Fields) -> String {
    let mut o = String::from("(fields");
    if let syn::Fields::Named(nf) = fs { for f in &nf.named { o.push_str(&format!(" ({} {})", quote(&f.ident.as_ref().unwrap().to_string()), quote(&toks(&f.ty)))); } }
    o.push(')');
    o
}

pub fn request_file(stem: &str, text: &str) -> Result<String, String> {
    let file = syn::parse_file(text).map_err(|e| format!("syn: {e}"))?;
    let mut main = None; let mut required = "(norequired)".to_string(); let mut setters = vec![]; let mut output = String::new();
    let mut url = "(missing)".to_string(); let mut verb = String::new(); let mut program: Vec<String> = vec![]; let mut method = "(nomethod)".to_string();
    let mut imports: Vec<String> = vec![];
    for i in &file.items {
        match i {
            syn::Item::Use(u) => {
                // `use crate::model::{A, B};` / `use crate::model::A;`
                let t = toks(&u.tree);
                if let Some(rest) = t.strip_prefix("crate::model::") {
                    for n in rest.trim_start_matches('{').trim_end_matches('}').split(',') { if !n.is_empty() { imports.push(n.to_string()); } }
                }
            }
            syn::Item::Struct(s) => {
                if main.is_none() {
                    main = Some(format!("(struct {} {} {} {})", quote(&s.ident.to_string()), strs("derives", &derives_of(&s.attrs)), doc_sexp(&doc_of(&s.attrs)), fields_sexp(&s.fields)));
                } else {
                    let lts: Vec<String> = s.generics.lifetimes().map(|l| l.lifetime.to_string()).collect();
                    required = format!("(required {} {} {})", quote(&s.ident.to_string()), strs("lifetimes", &lts), fields_sexp(&s.fields));
                }
            }
            syn::Item::Impl(im) => {
                let self_ty = toks(&im.self_ty);
                if im.trait_.is_none() && self_ty.starts_with("FluentRequest<") {
                    for ii in &im.items {
                        let syn::ImplItem::Fn(f) = ii else { continue };
                        let arg_ty = f.sig.inputs.iter().nth(1).and_then(|a| if let syn::FnArg::Typed(t) = a { Some(toks(&t.ty)) } else { None }).unwrap_or_default();
                        let body = toks(&f.block);
                        let store = if body.contains(".into_iter()") { "collect" } else if body.contains(".to_owned()") { "to_owned" } else { "plain" };
                        setters.push(format!("(setter {} {} {})", quote(&f.sig.ident.to_string()), quote(&arg_ty), quote(store)));
                    }
                } else if im.trait_.as_ref().map(|(_, p, _)| toks(p).ends_with("IntoFuture")).unwrap_or(false) {
                    for ii in &im.items {
                        match ii {
                            syn::ImplItem::Type(t) if t.ident == "Output" => {
                                let o = toks(&t.ty);
                                output = o.strip_prefix("httpclient::InMemoryResult<").and_then(|x| x.strip_suffix('>')).unwrap_or(&o).to_string();
                            }
                            syn::ImplItem::Fn(f) if f.sig.ident == "into_future" => {
                                // Box::pin(async move { .. })
                                let mut stmts: Vec<syn::Stmt> = vec![];
                                if let Some(syn::Stmt::Expr(syn::Expr::Call(c), _)) = f.block.stmts.first() { if let Some(syn::Expr::Async(a)) = c.args.first() { stmts = a.block.stmts.clone(); } }
                                for st in &stmts {
                                    match st {
                                        syn::Stmt::Local(l) => {
                                            let name = toks(&l.pat);
                                            let init = l.init.as_ref().map(|i| (*i.expr).clone());
                                            if name == "url" {
                                                url = match init {
                                                    Some(syn::Expr::Lit(syn::ExprLit { lit: syn::Lit::Str(s), .. })) => format!("(literal {})", quote(&s.value())),
                                                    Some(syn::Expr::Reference(r)) => {
                                                        if let syn::Expr::Macro(m) = &*r.expr {
                                                            let parts: Vec<proc_macro2::TokenTree> = m.mac.tokens.clone().into_iter().collect();
                                                            let fmt = parts.first().and_then(|t| syn::parse_str::<syn::LitStr>(&t.to_string()).ok()).map(|l| l.value()).unwrap_or_default();
                                                            // remaining: , name = expr , ...
                                                            let rest: String = parts.iter().skip(1).map(|t| t.to_string()).collect::<Vec<_>>().join("");
                                                            let rest: String = rest.chars().filter(|c| !c.is_whitespace()).collect();
                                                            let args: Vec<String> = rest.split(',').filter(|x| !x.is_empty()).map(|kv| { let mut it = kv.splitn(2, '='); let k = it.next().unwrap_or(""); let v = it.next().unwrap_or(""); format!("({} {})", quote(k), quote(v.strip_prefix("self.params.").unwrap_or(v))) }).collect();
                                                            format!("(format {} (args{}))", quote(&fmt), args.iter().map(|a| format!(" {a}")).collect::<String>())
                                                        } else { format!("(unknown {})", quote(&toks(&*r.expr))) }
                                                    }
                                                    other => format!("(unknown {})", quote(&other.map(|o| toks(&o)).unwrap_or_default())),
                                                };
                                            } else if name == "mutr" {
                                                if let Some(syn::Expr::MethodCall(m)) = init { verb = m.method.to_string(); }
                                            } else if name == "res" { /* end of the program */ }
                                        }
                                        other => program.push(req_stmt(other)),
                                    }
                                }
                                // the final expression `res.json().map_err(Into::into)` is not part of the program
                                if program.last().map(|p| p.starts_with("(unknown") && p.contains("res.json()")).unwrap_or(false) { program.pop(); }
                            }
                            _ => {}
                        }
                    }
                } else if im.trait_.is_none() && self_ty.starts_with("crate::") {
                    for ii in &im.items {
                        let syn::ImplItem::Fn(f) = ii else { continue };
                        let args: Vec<String> = f.sig.inputs.iter().skip(1).filter_map(|a| if let syn::FnArg::Typed(t) = a { Some(format!("({} {})", quote(&toks(&t.pat)), quote(&toks(&t.ty)))) } else { None }).collect();
                        // FluentRequest { client: self, params: X { a: e, b, .. } }
                        let mut lit: Vec<String> = vec![];
                        if let Some(syn::Stmt::Expr(syn::Expr::Struct(es), _)) = f.block.stmts.first() {
                            for fv in &es.fields {
                                if toks(&fv.member) == "params" {
                                    if let syn::Expr::Struct(inner) = &fv.expr {
                                        for x in &inner.fields { lit.push(format!("({} {})", quote(&toks(&x.member)), quote(&toks(&x.expr)))); }
                                    }
                                }
                            }
                        }
                        method = format!("(method {} {} (args{}) (literal{}))", quote(&f.sig.ident.to_string()), doc_sexp(&doc_of(&f.attrs)), args.iter().map(|a| format!(" {a}")).collect::<String>(), lit.iter().map(|a| format!(" {a}")).collect::<String>());
                    }
                }
            }
            _ => {}
        }
    }
    let main = main.map(|m| format!("{m} {}", strs("imports", &imports)));
    Ok(format!("(requestfile {} {} {required} (setters{}) (output {}) (url {url}) (verb {}) (program{}) {method})", quote(stem), main.ok_or("no struct")?, setters.iter().map(|s| format!(" {s}")).collect::<String>(), quote(&output), quote(&verb), program.iter().map(|s| format!(" {s}")).collect::<String>()))
}

/// token text without whitespace between tokens, literals kept verbatim
pub fn toks_keep(t: &impl ToTokens) -> String {
    fn walk(ts: proc_macro2::TokenStream, out: &mut String) {
        for tt in ts {
            match tt {
                proc_macro2::TokenTree::Group(g) => {
                    let (a, b) = match g.delimiter() { proc_macro2::Delimiter::Parenthesis => ("(", ")"), proc_macro2::Delimiter::Brace => ("{", "}"), proc_macro2::Delimiter::Bracket => ("[", "]"), proc_macro2::Delimiter::None => ("", "") };
                    out.push_str(a); walk(g.stream(), out); out.push_str(b);
                }
                other => out.push_str(&other.to_string()),
            }
        }
    }
    let mut s = String::new();
    walk(t.to_token_stream(), &mut s);
    s.replace(",>", ">").replace(",)", ")").replace(",]", "]").replace(",}", "}")
}

/// summary of a generated example program: imports, the client constructor, the declarations, the call
pub fn example_file(stem: &str, text: &str) -> Result<String, String> {
    let file = syn::parse_file(text).map_err(|e| format!("syn: {e}"))?;
    let mut imports: Vec<String> = vec![];
    let mut main: Option<&syn::ItemFn> = None;
    for i in &file.items {
        match i {
            syn::Item::Use(u) => imports.push(toks(&u.tree)),
            syn::Item::Fn(f) if f.sig.ident == "main" => main = Some(f),
            _ => {}
        }
    }
    let main = main.ok_or("no main")?;
    let mut client = String::new();
    let mut decls: Vec<String> = vec![];
    let mut call: Option<&syn::Expr> = None;
    for st in &main.block.stmts {
        if let syn::Stmt::Local(l) = st {
            let name = toks(&l.pat);
            let Some(init) = &l.init else { continue };
            if name == "response" { call = Some(&init.expr); }
            else if client.is_empty() && decls.is_empty() && toks(&init.expr).ends_with("::from_env()") && name == "client" { client = toks(&init.expr).trim_end_matches("::from_env()").to_string(); }
            else { decls.push(format!("({} {})", quote(&name), quote(&toks_keep(&init.expr)))); }
        }
    }
    // client.method(args).setter(v)...await.unwrap()
    let mut e = call.ok_or("no response")?;
    let mut chain: Vec<(String, Vec<&syn::Expr>)> = vec![];
    loop {
        match e {
            syn::Expr::MethodCall(m) => { chain.push((m.method.to_string(), m.args.iter().collect())); e = &m.receiver; }
            syn::Expr::Await(a) => { e = &a.base; }
            syn::Expr::Path(_) => break,
            _ => return Err(format!("unexpected call shape: {}", toks(e))),
        }
    }
    chain.reverse();
    if chain.last().map(|c| c.0.as_str()) != Some("unwrap") { return Err("no unwrap".into()); }
    chain.pop();
    if toks(e) != "client" { return Err(format!("receiver is {}", toks(e))); }
    let (method, args) = chain.first().ok_or("no method call")?.clone();
    let args_s = if args.len() == 1 && matches!(args[0], syn::Expr::Struct(_)) {
        let syn::Expr::Struct(st) = args[0] else { unreachable!() };
        format!("(struct {}{})", quote(&toks(&st.path)), st.fields.iter().map(|f| format!(" {}", quote(&toks(&f.member)))).collect::<String>())
    } else {
        strs("positional", &args.iter().map(|a| toks(*a)).collect::<Vec<_>>())
    };
    let setters: Vec<String> = chain[1..].iter().map(|(n, a)| format!("({} {})", quote(n), quote(&a.iter().map(|x| toks_keep(*x)).collect::<Vec<_>>().join(",")))).collect();
    Ok(format!("(example {} {} (client {}) (decls{}) (method {}) {args_s} (setters{}))", quote(stem), strs("imports", &imports), quote(&client), decls.iter().map(|d| format!(" {d}")).collect::<String>(), quote(&method), setters.iter().map(|d| format!(" {d}")).collect::<String>()))
}
