//! C13 — identifier sanitiser: correspondence with the Lean model and the syn oracle.
use crate::model;
use crate::report::Report;
use crate::rng::Rng;
use crate::sexp::quote;
use crate::util::*;
use convert_case::{Case, Casing};
use mir_rust::ToRustIdent;
use std::collections::BTreeSet;

fn panic_tag(msg: &str) -> &'static str {
    if msg.starts_with("Parentheses in identifier") { "parenInIdent" }
    else if msg.starts_with("Numeric identifier") { "numericIdent" }
    else if msg.starts_with("Dot in identifier") { "dotInIdent" }
    else if msg.starts_with("Empty identifier") { "emptyIdent" }
    else if msg.contains("Option::unwrap()") { "emptyIdent" }
    else { "otherPanic" }
}

fn exc(r: Result<String, String>) -> String {
    match r {
        Ok(s) => format!("(ok {})", quote(&s)),
        Err(m) => format!("(panic {})", panic_tag(&m)),
    }
}

pub fn syn_ident_ok(s: &str) -> bool {
    // syn::parse_str panics inside proc_macro2 for some inputs (e.g. empty); treat as refusal
    // `parse_str` tokenises first and so tolerates surrounding whitespace: require the exact text back
    catch(|| syn::parse_str::<syn::Ident>(s).map(|i| i.to_string() == s).unwrap_or(false)).unwrap_or(false)
}

pub fn impl_sanitize(s: &str) -> Result<String, String> { catch(|| s.to_rust_ident().0) }
pub fn impl_sanitize_struct(s: &str) -> Result<String, String> { catch(|| s.to_rust_struct().0) }
/// the module / file name form (`mod <name>;`, `<name>.rs`)
pub fn impl_sanitize_filename(s: &str) -> Result<String, String> { catch(|| mir_rust::sanitize_filename(s)) }

fn enumerate(max_len: usize) -> Vec<String> {
    let alpha: Vec<char> = NAME_ALPHABET.chars().collect();
    let mut out = Vec::new();
    let mut cur: Vec<String> = vec![String::new()];
    for _ in 0..max_len {
        let mut next = Vec::with_capacity(cur.len() * alpha.len());
        for p in &cur {
            for &c in &alpha {
                let mut s = p.clone();
                s.push(c);
                next.push(s);
            }
        }
        out.extend(next.iter().filter(|s| in_name_domain(s)).cloned());
        cur = next;
    }
    out
}

fn harvest_yaml(v: &serde_yaml::Value, out: &mut BTreeSet<String>) {
    match v {
        serde_yaml::Value::String(s) => { if s.len() <= 60 && in_name_domain(s) { out.insert(s.clone()); } }
        serde_yaml::Value::Sequence(l) => l.iter().for_each(|x| harvest_yaml(x, out)),
        serde_yaml::Value::Mapping(m) => {
            for (k, x) in m {
                harvest_yaml(k, out);
                harvest_yaml(x, out);
            }
        }
        _ => {}
    }
}

fn casings(w: &str) -> Vec<String> {
    let mut c = w.chars();
    let pascal = match c.next() { Some(f) => f.to_uppercase().collect::<String>() + c.as_str(), None => String::new() };
    vec![w.to_lowercase(), pascal, w.to_uppercase(), w.to_string()]
}

pub fn run(tier: &str, seed: u64, out: &str) {
    silence_panics();
    let mut rep = Report::new("C13", tier, seed);
    let thorough = tier == "thorough";
    let max_len = if thorough { 4 } else { 3 };

    // ---- names --------------------------------------------------------------------------
    let mut small: Vec<String> = Vec::new(); // names that also get the case-conversion requests
    // corpus first
    if let Ok(rd) = std::fs::read_dir("/verif/corpus/C13") {
        let mut files: Vec<_> = rd.filter_map(|e| e.ok()).map(|e| e.path()).collect();
        files.sort();
        for f in files {
            if let Ok(t) = std::fs::read_to_string(&f) {
                for l in t.lines() { if !l.is_empty() { small.push(l.to_string()); } }
            }
        }
    }
    rep.add("corpus", small.len() as u64);
    let n0 = small.len();
    for k in KEYWORDS.iter().chain(WEAK_KEYWORDS.iter()) {
        for c in casings(k) {
            for pre in ["", "_", "1", "-", "."] {
                for suf in ["", "_", "1", "s"] {
                    small.push(format!("{pre}{c}{suf}"));
                }
            }
        }
    }
    rep.add("keyword_variants", (small.len() - n0) as u64);
    let n0 = small.len();
    let seps = ["", "_", "-", " ", ".", "/", ":", "@", "'", "+", "1", "9", "__", "-_", "_1", "1_"];
    for w in DICTIONARY {
        for pre in seps { for suf in seps { small.push(format!("{pre}{w}{suf}")); } }
        for w2 in DICTIONARY.iter().take(12) { for sep in ["_", "-", ".", "/", " "] { small.push(format!("{w}{sep}{w2}")); } }
    }
    rep.add("dictionary_variants", (small.len() - n0) as u64);
    let n0 = small.len();
    let mut harvested = BTreeSet::new();
    for f in ["basic.yaml", "deepl.yaml", "recurly.yaml"] {
        if let Ok(t) = std::fs::read_to_string(format!("/repo/test_specs/{f}")) {
            if let Ok(v) = serde_yaml::from_str::<serde_yaml::Value>(&t) { harvest_yaml(&v, &mut harvested); }
        }
    }
    small.extend(harvested.into_iter());
    rep.add("harvested", (small.len() - n0) as u64);
    let n0 = small.len();
    let mut rng = Rng::new(seed);
    let alpha: Vec<char> = NAME_ALPHABET.chars().collect();
    let n_random = if thorough { 400_000 } else { 40_000 };
    for _ in 0..n_random {
        let len = rng.range(4, 40);
        let mut s = String::new();
        // weighted: letters more likely than separators so words form
        for _ in 0..len {
            let c = if rng.chance(3, 5) { alpha[rng.below(52)] } else if rng.chance(1, 3) { alpha[52 + rng.below(10)] } else { alpha[62 + rng.below(9)] };
            s.push(c);
        }
        if in_name_domain(&s) { small.push(s); }
    }
    rep.add("random_long", (small.len() - n0) as u64);
    small.retain(|s| !s.contains('\n'));
    let exhaustive = enumerate(max_len);
    rep.add("exhaustive_strings", exhaustive.len() as u64);
    rep.exhaustive = true;

    // ---- requests and implementation answers --------------------------------------------
    let mut reqs: Vec<String> = Vec::new();
    let mut imps: Vec<String> = Vec::new();
    let mut distinct: BTreeSet<u64> = BTreeSet::new();
    let mut nontrivial = 0u64;
    let mut verdict_reqs: BTreeSet<String> = BTreeSet::new();
    {
        let all: Vec<(&String, bool)> = small.iter().map(|s| (s, true)).chain(exhaustive.iter().map(|s| (s, false))).collect();
        let results = model::par_map(&all, |(s, _)| (impl_sanitize(s), impl_sanitize_struct(s), impl_sanitize_filename(s)));
        for ((s, is_small), (r1, r2, r3)) in all.iter().zip(results.into_iter()) {
            let dom = in_name_domain(s);
            if distinct.insert(fnv(s)) {
                // non-trivial: the sanitiser changed the name (not the identity function)
                if r1.as_deref() != Ok(s.as_str()) { nontrivial += 1; }
            }
            for (fname, r) in [("sanitize", &r1), ("sanitize_struct", &r2), ("sanitize_filename", &r3)] {
                // oracle on the implementation
                if dom {
                    match r {
                        Ok(id) => {
                            if !syn_ident_ok(id) {
                                let mut trig = vec![];
                                if KEYWORDS.contains(&id.as_str()) { trig.push(format!("keywordResult:{id}")); }
                                rep.oracle_fail("invalidIdent", trig, &format!("({fname} {})", quote(s)), &format!("result {id:?} is not accepted by syn as Ident"));
                            } else { rep.bump("oracle_ok"); }
                        }
                        Err(m) => rep.oracle_fail(&format!("panic:{}", panic_tag(m)), vec![], &format!("({fname} {})", quote(s)), m),
                    }
                    // determinism: second call must agree
                    if *is_small {
                        let again = if fname == "sanitize" { impl_sanitize(s) } else if fname == "sanitize_struct" { impl_sanitize_struct(s) } else { impl_sanitize_filename(s) };
                        if &again != r { rep.oracle_fail("nondeterministic", vec![], &format!("({fname} {})", quote(s)), "two calls differ"); }
                    }
                } else { rep.bump("outside_domain"); }
                if let Ok(id) = r { if id.len() <= 12 { verdict_reqs.insert(id.clone()); } }
                reqs.push(format!("({fname} {})", quote(s)));
                imps.push(exc(r.clone()));
            }
            if *is_small || s.len() <= 2 {
                for (cname, case) in [("snake", Case::Snake), ("pascal", Case::Pascal), ("screaming", Case::ScreamingSnake), ("lower", Case::Lower), ("flat", Case::Flat)] {
                    reqs.push(format!("({cname} {})", quote(s)));
                    imps.push(quote(&s.to_case(case)));
                }
                reqs.push(format!("(in_name_domain {})", quote(s)));
                imps.push(dom.to_string());
            }
        }
    }
    // the judgement `validIdent` against syn, on results, keywords and all strings of length <= 2
    for k in KEYWORDS.iter().chain(WEAK_KEYWORDS.iter()) { for c in casings(k) { verdict_reqs.insert(c); } }
    verdict_reqs.insert("_".into());
    verdict_reqs.insert("__".into());
    verdict_reqs.insert("_1".into());
    verdict_reqs.insert("1a".into());
    for s in exhaustive.iter().filter(|s| s.len() <= 2) { verdict_reqs.insert(s.clone()); }
    for s in &verdict_reqs {
        // the judgement is claimed on the name alphabet only (raw identifiers `r#x` are outside it)
        if s.is_empty() || !s.chars().all(|c| NAME_ALPHABET.contains(c)) { continue; }
        reqs.push(format!("(valid_ident {})", quote(s)));
        imps.push(syn_ident_ok(s).to_string());
    }
    rep.add("valid_ident_verdicts", verdict_reqs.len() as u64);

    // ---- model ---------------------------------------------------------------------------
    let mods = model::eval(&reqs);
    for ((q, i), m) in reqs.iter().zip(imps.iter()).zip(mods.iter()) {
        if i != m { rep.disagree(q, i, m); }
    }
    rep.evaluations = reqs.len() as u64;
    rep.distinct_nontrivial = nontrivial;
    rep.rule = format!("every string of length <= {max_len} over the 71-character name alphabet containing a letter or digit (exhaustive), keywords x casings x prefixes/suffixes, dictionary words with separators, names harvested from test_specs, {n_random} random strings of length 4..40; each through to_rust_ident and to_rust_struct (and the five to_case conversions for the non-exhaustive part); non-trivial = distinct input that the sanitiser does not map to itself");
    for idx in [0usize, reqs.len() / 3, reqs.len() / 2, reqs.len() - 1] {
        rep.samples.push(serde_json::json!({"request": reqs[idx], "implementation": imps[idx], "model": mods[idx]}));
    }
    rep.write(out);
}
