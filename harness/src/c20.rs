//! C20 — the code-building macros. Invocations are generated from a grammar, written into a probe crate
//! that is compiled against /repo/macro (proc macros only run inside rustc), executed, and its output
//! compared with the Lean macro model; the oracle checks "nothing dropped, only whitespace differs".
use crate::model;
use crate::pipeline::scratch_root;
use crate::report::Report;
use crate::rng::Rng;
use crate::sexp::quote;
use crate::util::*;
use std::collections::BTreeSet;

#[derive(Clone, Debug)]
enum TT { I(String), P(char), L(String), G(char, Vec<TT>) }

/// when set, adjacent punctuation characters are written without a space between them (`::`, `->`, `=>`, `==`),
/// as people write them; rustc then hands them to the macro as joint punctuation
static TIGHT: std::sync::atomic::AtomicBool = std::sync::atomic::AtomicBool::new(false);

fn src(ts: &[TT]) -> String {
    let tight = TIGHT.load(std::sync::atomic::Ordering::Relaxed);
    let mut out = String::new();
    for (i, t) in ts.iter().enumerate() {
        let piece = match t {
            TT::I(s) => s.clone(),
            TT::P(c) => c.to_string(),
            TT::L(s) => s.clone(),
            TT::G(d, inner) => { let (o, c) = match d { 'p' => ("(", ")"), 'b' => ("{", "}"), _ => ("[", "]") }; format!("{o} {} {c}", src(inner)) }
        };
        if i > 0 {
            // never glue `#` (interpolation marker), and never form a comment opener
            let glue = tight && matches!((&ts[i - 1], t), (TT::P(a), TT::P(b)) if *a != '#' && *b != '#' && !(*a == '/' && (*b == '/' || *b == '*')));
            if !glue { out.push(' '); }
        }
        out.push_str(&piece);
    }
    out
}

fn sexp(ts: &[TT]) -> String {
    ts.iter().map(|t| match t {
        TT::I(s) => format!("(i {})", quote(s)),
        TT::P(c) => format!("(p {})", quote(&c.to_string())),
        TT::L(s) => format!("(l {})", quote(s)),
        TT::G(d, inner) => format!("(g {} {})", match d { 'p' => "paren", 'b' => "brace", _ => "bracket" }, sexp(inner)),
    }).collect::<Vec<_>>().join(" ")
}

/// concatenated token texts with interpolations substituted and statement semicolons dropped, no whitespace
fn flat(ts: &[TT], env: &[(String, String)], drop_semi: bool, out: &mut String) {
    let mut i = 0;
    while i < ts.len() {
        match &ts[i] {
            TT::P('#') => { if let Some(TT::I(v)) = ts.get(i + 1) { out.push_str(&env.iter().find(|(k, _)| k == v).map(|(_, x)| x.clone()).unwrap_or_default()); i += 1; } }
            TT::P(';') if drop_semi => {}
            TT::P(c) => out.push(*c),
            TT::I(s) | TT::L(s) => out.push_str(s),
            TT::G(d, inner) => { let (o, c) = match d { 'p' => ('(', ')'), 'b' => ('{', '}'), _ => ('[', ']') }; out.push(o); flat(inner, env, drop_semi, out); out.push(c); }
        }
        i += 1;
    }
}
fn nows(s: &str) -> String { s.chars().filter(|c| !c.is_whitespace()).collect() }

const IDENTS: &[&str] = &["a", "b", "foo", "client", "let", "if", "else", "return", "match", "self", "Ok", "x1", "fmt", "Some", "None", "mut"];
const PUNCTS: &[char] = &['+', '-', '*', '/', '=', '<', '>', '!', '&', '|', '.', ',', ';', ':', '?', '@', '%', '^'];
const LITS: &[&str] = &["\"str\"", "\"a{b}\"", "\"{}\"", "\"with ; semi\"", "1", "1.5", "'c'", "\"x y\"", "\"}} {{\"", "0x1f", "\"\"", "b'x'", "\"{0}\"", "r\"{}: {}\"", "r#\"{a} \"q\" {}\"#", "b\"{0}\"", "'{'", "'}'", "b'{'"];
const VARS: &[(&str, &str)] = &[("v0", "alpha"), ("v1", "Beta Gamma"), ("v2", "d{e}lta"), ("v3", "9")];

fn gen_body(rng: &mut Rng, depth: usize, len: usize) -> Vec<TT> {
    let mut out = vec![];
    for _ in 0..len {
        match rng.below(if depth >= 3 { 10 } else { 13 }) {
            // a path, sometimes a global one (`::a::b`), wherever a token may stand: after `(`, `!`, a literal, ...
            9 => { if rng.chance(1, 2) { out.push(TT::P(':')); out.push(TT::P(':')); } out.push(TT::I(rng.pick(IDENTS).to_string())); out.push(TT::P(':')); out.push(TT::P(':')); out.push(TT::I(rng.pick(IDENTS).to_string())); }
            0..=2 => out.push(TT::I(rng.pick(IDENTS).to_string())),
            3..=5 => out.push(TT::P(*rng.pick(PUNCTS))),
            6 => out.push(TT::L(rng.pick(LITS).to_string())),
            7 => { out.push(TT::P('#')); out.push(TT::I(rng.pick(VARS).0.to_string())); }
            8 => {
                out.push(TT::P(';'));
                // now and then the statement just ended is written a second time (`buf.push(0); buf.push(0);`)
                if rng.chance(1, 4) {
                    let start = out[..out.len() - 1].iter().rposition(|t| matches!(t, TT::P(';'))).map(|p| p + 1).unwrap_or(0);
                    let stmt: Vec<TT> = out[start..].to_vec();
                    if stmt.len() > 1 { out.extend(stmt); }
                }
            }
            _ => { let d = ['p', 'b', 'b', 'k'][rng.below(4)]; let n = rng.below(6); out.push(TT::G(d, gen_body(rng, depth + 1, n))); }
        }
    }
    out
}

struct Case { kind: &'static str, tokens: Vec<TT>, env: Vec<(String, String)>, rust: String, model_req: String }

fn env_sexp(env: &[(String, String)]) -> String { format!("(env{})", env.iter().map(|(k, v)| format!(" ({} {})", quote(k), quote(v))).collect::<String>()) }

fn body_case(rng: &mut Rng) -> Case {
    TIGHT.store(rng.chance(1, 2), std::sync::atomic::Ordering::Relaxed);
    let len = rng.range(1, 10);
    let tokens = gen_body(rng, 0, len);
    let env: Vec<(String, String)> = VARS.iter().map(|(k, v)| (k.to_string(), v.to_string())).collect();
    let lets: String = env.iter().map(|(k, v)| format!("let {k} = {:?}; ", v)).collect();
    let rust = format!("{{ {lets} let _ = (&v0, &v1, &v2, &v3); let s: String = body!( {} ); format!(\"(ok {{}})\", q(&s)) }}", src(&tokens));
    Case { kind: "body", model_req: format!("(body_render (tts {}) {})", sexp(&tokens), env_sexp(&env)), tokens, env, rust }
}

fn rfunction_case(rng: &mut Rng) -> Case {
    TIGHT.store(rng.chance(1, 2), std::sync::atomic::Ordering::Relaxed);
    let mut toks = vec![];
    let is_pub = rng.chance(1, 2); let is_async = rng.chance(1, 2);
    if rng.chance(1, 5) { if is_async { toks.push(TT::I("async".into())); } if is_pub { toks.push(TT::I("pub".into())); } } else { if is_pub { toks.push(TT::I("pub".into())); } if is_async { toks.push(TT::I("async".into())); } }
    if rng.chance(1, 6) { toks.push(TT::P('#')); toks.push(TT::I("nm".into())); } else { toks.push(TT::I(["go", "main", "fetch_all", "new", "from_env"][rng.below(5)].into())); }
    let mut args = vec![];
    let n = rng.below(5);
    for i in 0..n {
        if i > 0 { args.push(TT::P(',')); }
        // argument names are the caller's: written back exactly, whatever their spelling
        args.push(TT::I(["arg0", "x_1", "_ctx", "camelCase", "a", "count_2x"][(i + n) % 6].to_string().replace("arg0", &format!("arg{i}"))));
        args.push(TT::P(':'));
        if rng.chance(1, 3) { args.push(TT::P('#')); args.push(TT::I("t".into())); } else { args.push(TT::I(["i32", "String", "Foo", "bool"][rng.below(4)].into())); }
    }
    if n > 0 && rng.chance(1, 4) { args.push(TT::P(',')); } // trailing comma
    toks.push(TT::G('p', args));
    match rng.below(6) {
        0 => {}
        1 => { toks.extend([TT::P('-'), TT::P('>'), TT::I("Foo".into())]); }
        2 => { toks.extend([TT::P('-'), TT::P('>'), TT::I("a".into()), TT::P(':'), TT::P(':'), TT::I("b".into()), TT::P(':'), TT::P(':'), TT::I("C".into())]); }
        3 => { toks.extend([TT::P('-'), TT::P('>'), TT::I("Result".into()), TT::P('<'), TT::P('#'), TT::I("t".into()), TT::P(','), TT::I("Error".into()), TT::P('>')]); }
        4 => { toks.extend([TT::P('-'), TT::P('>'), TT::P('&'), TT::I("str".into())]); }
        _ => { toks.extend([TT::P('-'), TT::P('>'), TT::P('#'), TT::I("t".into())]); }
    }
    // body: tokens that `quote!` accepts (interpolation only of `t`), no stray `#`
    let blen = rng.range(0, 8);
    let mut body = gen_body(rng, 1, blen);
    fn fix(ts: &mut Vec<TT>) { for t in ts.iter_mut() { match t { TT::I(s) if s.starts_with('v') && s.len() == 2 => *s = "t".into(), TT::G(_, inner) => fix(inner), _ => {} } } }
    fix(&mut body);
    toks.push(TT::G('b', body));
    // the caller's variables carry names an implementation of the macro might use for its own bindings
    let tv = ["t", "name", "ret", "args", "body", "ty", "vis", "f"][rng.below(8)];
    let nmv = if tv == "name" { "nm" } else { ["nm", "name", "fn_name"][rng.below(3)] };
    fn rename(ts: &mut Vec<TT>, tv: &str, nmv: &str) {
        for i in 0..ts.len() {
            if let TT::G(_, inner) = &mut ts[i] { rename(inner, tv, nmv); continue; }
            if i > 0 && matches!(ts[i - 1], TT::P('#')) { if let TT::I(s) = &mut ts[i] { if s == "t" { *s = tv.to_string(); } else if s == "nm" { *s = nmv.to_string(); } } }
        }
    }
    rename(&mut toks, tv, nmv);
    let env = vec![(tv.to_string(), "Vec<String>".to_string()), (nmv.to_string(), "dyn_name".to_string())];
    let rust = format!("{{ let {tv} = quote::quote!(Vec<String>); let {nmv} = \"dyn_name\"; let _ = (&{tv}, &{nmv}); let f: mir::Function<proc_macro2::TokenStream> = rfunction!( {} ); format!(\"(ok {{}})\", q(&nows(&f.to_rust_code().to_string()))) }}", src(&toks));
    Case { kind: "rfunction", model_req: format!("(rfunction (tts {}) {})", sexp(&toks), env_sexp(&env)), tokens: toks, env, rust }
}

fn function_case(rng: &mut Rng) -> Case {
    TIGHT.store(rng.chance(1, 2), std::sync::atomic::Ordering::Relaxed);
    let mut toks = vec![];
    if rng.chance(1, 2) { toks.push(TT::I("pub".into())); }
    if rng.chance(1, 2) { toks.push(TT::I("async".into())); }
    if rng.chance(1, 6) { toks.push(TT::P('#')); toks.push(TT::I("v0".into())); } else { toks.push(TT::I(["add", "NewClient", "get_item"][rng.below(3)].into())); }
    let mut args = vec![];
    let n = rng.below(5);
    for i in 0..n {
        if i > 0 { args.push(TT::P(',')); }
        args.push(TT::I(format!("p{i}")));
        args.push(TT::P(':'));
        match rng.below(3) { 0 => { args.push(TT::P('#')); args.push(TT::I("v3".into())); } 1 => { args.push(TT::I("requests".into())); args.push(TT::P('.')); args.push(TT::I("Session".into())); } _ => args.push(TT::I(["int", "str", "Any"][rng.below(3)].into())) }
        if rng.chance(1, 4) { args.push(TT::P('=')); args.push(TT::L(["3", "\"d\"", "None"][rng.below(2)].into())); }
    }
    toks.push(TT::G('p', args));
    match rng.below(4) { 0 => {} 1 => toks.extend([TT::P('-'), TT::P('>'), TT::I("int".into())]), 2 => toks.extend([TT::P('-'), TT::P('>'), TT::I("a".into()), TT::P('.'), TT::I("B".into())]), _ => toks.extend([TT::P('-'), TT::P('>'), TT::P('#'), TT::I("v1".into())]) }
    let blen = rng.range(0, 8);
    toks.push(TT::G('b', gen_body(rng, 1, blen)));
    let env: Vec<(String, String)> = VARS.iter().map(|(k, v)| (k.to_string(), v.to_string())).collect();
    let lets: String = env.iter().map(|(k, v)| format!("let {k} = {:?}; ", v)).collect();
    let rust = format!("{{ {lets} let _ = (&v0, &v1, &v2, &v3); let f: mir::Function<String> = function!( {} ); fun(&f) }}", src(&toks));
    Case { kind: "function", model_req: format!("(function (tts {}) {})", sexp(&toks), env_sexp(&env)), tokens: toks, env, rust }
}

const PRELUDE: &str = r#"
#![allow(unused, clippy::all)]
use libninja_macro::{body, function, rfunction};
use mir_rust::ToRustCode;
fn q(s: &str) -> String {
    let mut o = String::from("\"");
    for c in s.chars() { match c { '"' => o.push_str("\\\""), '\\' => o.push_str("\\\\"), '\n' => o.push_str("\\n"), '\r' => o.push_str("\\r"), '\t' => o.push_str("\\t"), c if (c as u32) < 32 || (c as u32) >= 127 => o.push_str(&format!("\\u{{{:x}}}", c as u32)), c => o.push(c) } }
    o.push('"'); o
}
fn nows(s: &str) -> String { s.chars().filter(|c| !c.is_whitespace()).collect() }
fn fun(f: &mir::Function<String>) -> String {
    let vis = match f.vis { mir::Visibility::Public => "pub", _ => "private" };
    let args: Vec<String> = f.args.iter().map(|a| match a { mir::Arg::Basic { name, ty, default } => format!("({} {} {})", q(&name.0), q(ty), match default { Some(d) => format!("(default {})", q(d)), None => "(nodefault)".into() }), _ => "(other)".into() }).collect();
    format!("(fn {} {} {} (args{}) (ret {}) (body {}))", q(&f.name.0), if f.is_async { "async" } else { "sync" }, vis, args.iter().map(|a| format!(" {a}")).collect::<String>(), q(&f.ret), q(&f.body))
}
"#;

pub fn run(tier: &str, seed: u64, out: &str) {
    silence_panics();
    let mut rep = Report::new("C20", tier, seed);
    let thorough = tier == "thorough";
    let n = if thorough { 2000 } else { 200 };
    let rng0 = Rng::new(seed);
    let mut cases: Vec<Case> = vec![];
    // corpus: hand-picked shapes (trailing unterminated expression, nested multi-line groups, braces in literals, shared interpolation)
    let corpus: Vec<Vec<TT>> = vec![
        vec![TT::I("if".into()), TT::I("c".into()), TT::G('b', vec![TT::I("let".into()), TT::I("a".into()), TT::P('='), TT::L("1".into()), TT::P(';'), TT::I("a".into()), TT::P('+'), TT::I("b".into())])],
        vec![TT::I("match".into()), TT::I("v".into()), TT::G('b', vec![TT::I("Some".into()), TT::G('p', vec![TT::I("y".into())]), TT::P('='), TT::P('>'), TT::G('b', vec![TT::I("y".into()), TT::P(';')]), TT::P(','), TT::I("None".into()), TT::P('='), TT::P('>'), TT::L("0".into())])],
        vec![TT::I("print".into()), TT::G('p', vec![TT::L("\"{x} and {}\"".into())])],
        vec![TT::P('#'), TT::I("v0".into()), TT::P('.'), TT::I("f".into()), TT::G('p', vec![TT::P('#'), TT::I("v1".into()), TT::P(','), TT::P('#'), TT::I("v0".into())]), TT::P(';'), TT::P('#'), TT::I("v1".into())],
    ];
    for ts in corpus {
        let env: Vec<(String, String)> = VARS.iter().map(|(k, v)| (k.to_string(), v.to_string())).collect();
        let lets: String = env.iter().map(|(k, v)| format!("let {k} = {:?}; ", v)).collect();
        let rust = format!("{{ {lets} let _ = (&v0, &v1, &v2, &v3); let s: String = body!( {} ); format!(\"(ok {{}})\", q(&s)) }}", src(&ts));
        cases.push(Case { kind: "body", model_req: format!("(body_render (tts {}) {})", sexp(&ts), env_sexp(&env)), tokens: ts, env, rust });
    }
    rep.add("corpus", cases.len() as u64);
    for i in 0..n {
        let mut rng = rng0.fork(i as u64);
        cases.push(match i % 4 { 0 | 1 => body_case(&mut rng), 2 => rfunction_case(&mut rng), _ => function_case(&mut rng) });
    }
    for c in &cases { rep.bump(&format!("kind:{}", c.kind)); }
    // ---- probe crate ----
    let dir = scratch_root().join("c20probe");
    let _ = std::fs::remove_dir_all(&dir);
    std::fs::create_dir_all(dir.join("src")).unwrap();
    std::fs::write(dir.join("Cargo.toml"), "[package]\nname = \"c20probe\"\nversion = \"0.0.0\"\nedition = \"2021\"\n[workspace]\n[dependencies]\nlibninja_macro = { path = \"/repo/macro\" }\nlibninja_mir = { path = \"/repo/mir\" }\nlibninja_mir_rust = { path = \"/repo/mir_rust\" }\nquote = \"1\"\nproc-macro2 = \"1\"\n[profile.dev]\ndebug = false\nopt-level = 0\n").unwrap();
    let _ = std::fs::copy("/repo/Cargo.lock", dir.join("Cargo.lock"));
    let mut main = String::from(PRELUDE);
    for (i, c) in cases.iter().enumerate() { main.push_str(&format!("fn case{i}() -> String {}\n", c.rust)); }
    main.push_str("fn main() {\n");
    for i in 0..cases.len() { main.push_str(&format!("    println!(\"{{}}\", case{i}());\n")); }
    main.push_str("}\n");
    std::fs::write(dir.join("src/main.rs"), main).unwrap();
    let target = concat!(env!("CARGO_MANIFEST_DIR"), "/target/c20probe");
    let build = std::process::Command::new("cargo").args(["run", "--offline", "-q"]).current_dir(&dir)
        .env("CARGO_TARGET_DIR", target).env("CARGO_NET_OFFLINE", "true").env("RUSTFLAGS", "-Awarnings").output().expect("cargo");
    let stdout = String::from_utf8_lossy(&build.stdout).to_string();
    let lines: Vec<&str> = stdout.lines().collect();
    if !build.status.success() || lines.len() != cases.len() {
        let err = String::from_utf8_lossy(&build.stderr);
        rep.oracle_fail("probeDidNotCompile", vec![], "(probe crate)", &err.chars().take(3000).collect::<String>());
        rep.evaluations = cases.len() as u64;
        rep.distinct_nontrivial = 0;
        rep.rule = "probe crate failed to build".into();
        rep.write(out);
        return;
    }
    // ---- model ----
    let reqs: Vec<String> = cases.iter().map(|c| c.model_req.clone()).collect();
    let mods = model::eval(&reqs);
    let mut distinct = BTreeSet::new();
    let mut nontrivial = 0u64;
    for ((c, imp), m) in cases.iter().zip(lines.iter()).zip(mods.iter()) {
        // rfunction! results are token streams: compared without any whitespace (the probe prints them that way)
        let same = if c.kind == "rfunction" { nows(imp) == nows(m) } else { imp == m };
        if !same { rep.disagree(&format!("({} {})", c.kind, quote(&src(&c.tokens))), imp, m); }
        if distinct.insert(fnv(&c.model_req)) && c.tokens.iter().any(|t| matches!(t, TT::G(..))) { nontrivial += 1; }
        // oracle: nothing dropped, order kept, only whitespace differs (and statement semicolons become line breaks)
        match c.kind {
            "body" => {
                let mut want = String::new();
                flat(&c.tokens, &c.env, true, &mut want);
                let got = crate::sexp::parse(imp).and_then(|s| s.as_list().and_then(|l| l.get(1).and_then(|x| x.as_str().map(|y| y.to_string())))).unwrap_or_default();
                if nows(&got) != nows(&want) { rep.oracle_fail("bodyTokensChanged", vec![], &format!("(body {})", quote(&src(&c.tokens))), &format!("rendered {got:?}, tokens {want:?}")); } else { rep.bump("c20_body_ok"); }
            }
            "rfunction" => {
                // the hand-written item: [pub] [async] fn <rest of the invocation with the body in braces>
                let mut i = 0; let mut is_pub = false; let mut is_async = false;
                while let Some(TT::I(s)) = c.tokens.get(i) { if s == "pub" { is_pub = true; i += 1; } else if s == "async" { is_async = true; i += 1; } else { break; } }
                let mut rest: Vec<TT> = c.tokens[i..].to_vec();
                // a trailing comma in the argument list is not part of the item's arguments as rendered
                if let Some(pos) = rest.iter().position(|t| matches!(t, TT::G('p', _))) { if let TT::G('p', inner) = &mut rest[pos] { if matches!(inner.last(), Some(TT::P(','))) { inner.pop(); } } }
                let mut want = String::new();
                if is_pub { want.push_str("pub"); }
                if is_async { want.push_str("async"); }
                want.push_str("fn");
                flat(&rest, &c.env, false, &mut want);
                let got = crate::sexp::parse(imp).and_then(|s| s.as_list().and_then(|l| l.get(1).and_then(|x| x.as_str().map(|y| y.to_string())))).unwrap_or_default();
                if nows(&got) != nows(&want) { rep.oracle_fail("rfunctionItemDiffers", vec![], &format!("(rfunction {})", quote(&src(&c.tokens))), &format!("rendered {got:?}, hand-written {want:?}")); } else { rep.bump("c20_rfunction_ok"); }
            }
            _ => {
                // function!: the body string is the body tokens
                if let Some(TT::G('b', body)) = c.tokens.last() {
                    let mut want = String::new();
                    flat(body, &c.env, true, &mut want);
                    let got = crate::sexp::parse(imp).and_then(|s| s.as_list().and_then(|l| l.last().and_then(|x| x.as_list().and_then(|b| b.get(1).and_then(|y| y.as_str().map(|z| z.to_string())))))).unwrap_or_default();
                    if nows(&got) != nows(&want) { rep.oracle_fail("functionBodyChanged", vec![], &format!("(function {})", quote(&src(&c.tokens))), &format!("rendered {got:?}, tokens {want:?}")); } else { rep.bump("c20_function_ok"); }
                }
            }
        }
    }
    rep.evaluations = cases.len() as u64;
    rep.distinct_nontrivial = nontrivial;
    rep.rule = format!("{} macro invocations from a grammar (body!: token streams of nested groups to depth 3 over identifiers, punctuation, literals incl. braces and semicolons inside strings, shared / repeated interpolations, with and without a trailing unterminated expression; rfunction!: pub/async flags in either order x 0..4 arguments with identifier or interpolated types, optional trailing comma x return type none / path / generic / reference / interpolated x bodies; function!: same flags, dotted types, defaults, interpolated name / type / return), compiled in one probe crate against /repo/macro and executed; each result compared with the Lean macro model. Non-trivial = distinct invocation containing at least one group", cases.len());
    for idx in [0usize, cases.len() / 2, cases.len() - 1] { rep.samples.push(serde_json::json!({"invocation": src(&cases[idx].tokens), "implementation": lines[idx], "model": mods[idx]})); }
    rep.write(out);
}
