//! Properties decided on the emitted crate (C04, C14, C15, C17, C18 and the codegen halves of others):
//! the real generator's output is summarised with `syn` and compared with the Lean emitter model applied
//! to the *real* HIR; each property's oracle is applied to the real summaries.
use crate::extract::real_extract;
use crate::model;
use crate::pipeline::*;
use crate::report::Report;
use crate::rng::Rng;
use crate::sexp::{self, quote, Sexp};
use crate::specgen::{GenOpts, SpecGen};
use crate::specio;
use crate::summary;
use crate::util::*;
use convert_case::{Case, Casing};
use serde_json::Value;
use std::collections::{BTreeMap, BTreeSet};
use std::str::FromStr;

pub const DERIVE_POOL: &[&str] = &["PartialEq", "Eq", "Hash", "oasgen::OaSchema", " serde_valid::Validate ", "fake::Dummy", "a::b::C", "not a (path", "\"unterminated", "PartialEq", "unclosed [", "]", "Vec<(u8,Leaked"];
pub const SERVICE_NAMES: &[&str] = &["PetStore", "petstore", "Pet Store", "acme_corp", "HTTPBin", "Api2Go", "my-service", "X", "Dev Env", "Talk Talk", "Home Base"];

#[derive(Clone)]
pub struct EmitCase { pub label: String, pub doc: Value, pub cfg: Cfg, pub features: Vec<String> }

pub fn cfg_sexp(cfg: &Cfg) -> String {
    let mut d = String::from("(derives");
    for x in &cfg.derives {
        match proc_macro2::TokenStream::from_str(x.trim()) {
            Ok(ts) => d.push_str(&format!(" (some {})", quote(&ts.to_string().chars().filter(|c| !c.is_whitespace()).collect::<String>()))),
            Err(_) => d.push_str(" (none)"),
        }
    }
    d.push(')');
    format!("(cfg {} {d} {})", quote(&cfg.name.to_case(Case::Pascal)), cfg.examples)
}

/// `LNV_ONLY_DOC=<file>` (with optional `LNV_ONLY_CFG=<json {name, derives, examples}>`): the run consists of that one document (replay of a recorded case)
pub fn only_case() -> Option<EmitCase> {
    let path = std::env::var("LNV_ONLY_DOC").ok()?;
    let text = std::fs::read_to_string(&path).ok()?;
    let doc: Value = serde_json::from_str(&text).or_else(|_| serde_yaml::from_str(&text)).ok()?;
    let mut cfg = Cfg::new("Replay");
    if let Ok(c) = std::env::var("LNV_ONLY_CFG") {
        if let Ok(v) = serde_json::from_str::<Value>(&c) {
            if let Some(n) = v["name"].as_str() { cfg.name = n.to_string(); }
            if let Some(d) = v["derives"].as_array() { cfg.derives = d.iter().filter_map(|x| x.as_str().map(|s| s.to_string())).collect(); }
            if let Some(e) = v["examples"].as_bool() { cfg.examples = e; }
        }
    }
    let mut features = vec!["replay".to_string()];
    if std::env::var("LNV_ONLY_REGEN").is_ok() { features.push("regenerated_with_marker".to_string()); }
    Some(EmitCase { label: format!("(replay {})", quote(&path)), doc, cfg, features })
}

pub fn gen_cases(prop: &str, tier: &str, seed: u64, rep: &mut Report) -> Vec<EmitCase> {
    // a replayed document is taken through every prior-state variant of the emit stage
    if let Some(c) = only_case() {
        let mut out = vec![c.clone()];
        for v in ["regenerated_with_marker", "regenerated_over_an_earlier_revision", "regenerated_over_a_same_length_copy", "regenerated_over_a_reflowed_copy"] {
            if c.features.iter().any(|f| f == v) { continue; }
            let mut d = c.clone();
            d.features.push(v.to_string());
            d.label = format!("{} (variant {v})", d.label.trim_end_matches(')')) + ")";
            out.push(d);
        }
        return out;
    }
    let thorough = tier == "thorough";
    let mut cases = vec![];
    let mut add_file = |f: &str, cfg: Cfg, cases: &mut Vec<EmitCase>| {
        if let Ok(t) = std::fs::read_to_string(f) { if let Ok(v) = serde_yaml::from_str::<Value>(&t) { cases.push(EmitCase { label: format!("(file {})", quote(f)), doc: v, cfg, features: vec!["bundled".into()] }); } }
    };
    add_file(concat!(env!("CARGO_MANIFEST_DIR"), "/specs/pets1.yaml"), Cfg::new("PetStore"), &mut cases);
    let mut c2 = Cfg::new("pet store"); c2.derives = vec!["PartialEq".into(), "oasgen::OaSchema".into()];
    add_file(concat!(env!("CARGO_MANIFEST_DIR"), "/specs/pets2.yaml"), c2, &mut cases);
    add_file("/repo/test_specs/basic.yaml", Cfg::new("Basic"), &mut cases);
    add_file("/repo/test_specs/deepl.yaml", Cfg::new("Deepl"), &mut cases);
    if thorough { add_file("/repo/test_specs/recurly.yaml", Cfg::new("Recurly"), &mut cases); }
    // hand-picked shapes and minimised past failures; totality (C01) and determinism (C09) are asked of all of them
    let dirs: Vec<String> = if prop == "C01" || prop == "C09" {
        let mut d: Vec<String> = std::fs::read_dir("/verif/corpus").map(|rd| rd.flatten().map(|e| e.path().to_string_lossy().to_string()).collect()).unwrap_or_default();
        d.sort();
        d
    } else { vec![format!("/verif/corpus/{prop}")] };
    for dir in dirs {
        if let Ok(rd) = std::fs::read_dir(&dir) {
            let mut files: Vec<_> = rd.flatten().map(|e| e.path()).collect();
            files.sort();
            for f in files { add_file(&f.to_string_lossy(), Cfg::new("Corpus"), &mut cases); }
        }
    }
    rep.add("corpus", cases.len() as u64);
    let n = if thorough { 4000 } else { 600 };
    let rng0 = Rng::new(seed ^ 0x5eed);
    for i in 0..n {
        let mut rng = rng0.fork(i as u64);
        let mut cfg = Cfg::new(*rng.pick(SERVICE_NAMES));
        let nd = [0usize, 0, 1, 2, 3, 4][rng.below(6)];
        for _ in 0..nd { cfg.derives.push(rng.pick(DERIVE_POOL).to_string()); }
        cfg.examples = rng.chance(2, 3);
        let mut opts = GenOpts::clean();
        if thorough && rng.chance(1, 4) { opts.max_schemas = 12; opts.max_paths = 6; }
        // totality is asked of the whole domain, including its awkward corners
        if prop == "C01" && i % 3 == 0 { opts.risky = true; }
        let mut g = SpecGen::new(&mut rng, opts);
        let doc = g.spec();
        let mut features = g.features.clone();
        if i % 5 == 3 { features.push("regenerated_with_marker".to_string()); }
        if i % 5 == 1 { features.push("regenerated_over_an_earlier_revision".to_string()); }
        if i % 10 == 6 { features.push("regenerated_over_a_same_length_copy".to_string()); }
        if i % 10 == 2 { features.push("regenerated_over_a_reflowed_copy".to_string()); }
        cases.push(EmitCase { label: format!("(generated seed={seed} index={i} cfg={})", quote(&format!("{:?}", cfg))), doc, cfg, features });
    }
    cases
}

pub struct Emitted {
    pub hir: hir::HirSpec,
    pub tree: Tree,
}

pub fn run_real(c: &EmitCase) -> Result<Emitted, String> {
    let text = serde_json::to_string(&c.doc).unwrap();
    let spec = parse_spec(&text, true)?;
    let h = real_extract(&spec)?;
    let d = fresh_dir("emit");
    let mut by_hand_module: Option<String> = None;
    // a share of the crates is generated into a directory that holds the crate of an earlier revision of the service's
    // document: more operations and models (longer index files), one serde adapter, examples
    if c.features.iter().any(|f| f == "regenerated_over_an_earlier_revision") {
        if let Ok(prev) = parse_spec(&serde_json::to_string(&earlier_revision()).unwrap(), true) {
            let mut pcfg = c.cfg.clone();
            pcfg.examples = true;
            let _ = generate(&prev, &pcfg, &d);
        }
    }
    let mut r = generate(&spec, &c.cfg, &d);
    // ... or over a copy of itself in which one letter of every file was changed (same length, same everything else):
    // whatever shortcut decides that a file is up to date must look at its content
    if r.is_ok() && c.features.iter().any(|f| f == "regenerated_over_a_same_length_copy") {
        for (p, b) in read_tree(&d) {
            if !p.ends_with(".rs") { continue; }
            let mut nb = b.clone();
            if let Some(i) = nb.iter().rposition(|x| x.is_ascii_lowercase()) { nb[i] = if nb[i] == b'z' { b'a' } else { nb[i] + 1 }; }
            let _ = std::fs::write(d.join(&p), nb);
        }
        r = generate(&spec, &c.cfg, &d);
    }
    // ... or over a copy of itself whose doc comments differ in blanks only (an earlier revision of the descriptions)
    if r.is_ok() && c.features.iter().any(|f| f == "regenerated_over_a_reflowed_copy") {
        for (p, b) in read_tree(&d) {
            if !p.ends_with(".rs") { continue; }
            let text = String::from_utf8_lossy(&b).to_string();
            let changed: String = text.lines().map(|l| if l.trim_start().starts_with("///") || l.contains("#[doc") { l.replacen(' ', "  ", 2) } else { l.to_string() }).collect::<Vec<_>>().join("\n") + "\n";
            let _ = std::fs::write(d.join(&p), changed);
        }
        r = generate(&spec, &c.cfg, &d);
    }
    // regeneration over a hand-edited lib.rs (text above the documented marker is the user's): part of every
    // crate's life, so a share of the cases is taken through it
    if r.is_ok() && c.features.iter().any(|f| f == "regenerated_with_marker") {
        if let Ok(old) = std::fs::read_to_string(d.join("src/lib.rs")) {
            let _ = std::fs::write(d.join("src/lib.rs"), format!("//! hand-written crate documentation\n#![allow(unused)]\n// libninja: after\n{old}"));
            // ... and one request module customised the documented way (own text, the marker, generated code below)
            let mut reqs: Vec<std::path::PathBuf> = std::fs::read_dir(d.join("src/request")).map(|rd| rd.flatten().map(|e| e.path()).filter(|p| p.file_name().map(|n| n != "mod.rs").unwrap_or(false)).collect()).unwrap_or_default();
            reqs.sort();
            if let Some(f) = reqs.first() {
                if let Ok(old) = std::fs::read_to_string(f) { let _ = std::fs::write(f, format!("// hand-written notes for this operation\n// libninja: after\n{old}")); }
            }
            // ... and the request index extended by hand: a helper module whose name extends an operation's module name,
            // declared above the directive (the helper itself is kept under the static directive)
            if let Some(op) = h.operations.first() {
                let m = mir_rust::sanitize_filename(&op.file_name());
                by_hand_module = Some(format!("{m}_by_hand"));
                let idx = d.join("src/request/mod.rs");
                if let Ok(old) = std::fs::read_to_string(&idx) { let _ = std::fs::write(&idx, format!("pub mod {m}_by_hand;\n// libninja: after\n{old}")); }
                let _ = std::fs::write(d.join(format!("src/request/{m}_by_hand.rs")), "// libninja: static\npub fn helper() {}\n");
            }
            // ... and the request module of the last operation kept by hand (static directive above its generated text)
            if let Some(op) = h.operations.last() {
                let f = d.join("src/request").join(format!("{}.rs", mir_rust::sanitize_filename(&op.file_name())));
                if let Ok(old) = std::fs::read_to_string(&f) { if !old.contains("libninja: after") { let _ = std::fs::write(&f, format!("// libninja: static\n{old}")); } }
            }
            // ... and the example of the first operation kept by hand (the static directive above its generated text)
            if let Some(op) = h.operations.first() {
                let f = d.join("examples").join(format!("{}.rs", mir_rust::sanitize_filename(&op.file_name())));
                if let Ok(old) = std::fs::read_to_string(&f) { let _ = std::fs::write(&f, format!("// libninja: static\n{old}")); }
            }
            r = generate(&spec, &c.cfg, &d);
        }
    }
    let mut tree = read_tree(&d);
    let _ = std::fs::remove_dir_all(&d);
    r?;
    // the hand-written helper and its declaration are the user's: taken out again before the crate is judged
    if let Some(m) = by_hand_module {
        let helper = format!("src/request/{m}.rs");
        match tree.remove(&helper) {
            Some(b) if b == b"// libninja: static\npub fn helper() {}\n".to_vec() => {}
            other => return Err(format!("the hand-written static module {helper} did not survive regeneration: {:?}", other.map(|b| String::from_utf8_lossy(&b).to_string()))),
        }
        if let Some(b) = tree.get_mut("src/request/mod.rs") {
            let text = String::from_utf8_lossy(b).to_string();
            let head = format!("pub mod {m};\n// libninja: after\n");
            match text.strip_prefix(&head) { Some(rest) => *b = rest.as_bytes().to_vec(), None => return Err(format!("the hand-written head of src/request/mod.rs did not survive regeneration: {:?}", text.chars().take(200).collect::<String>())) }
        }
    }
    Ok(Emitted { hir: h, tree })
}

/// the document of an "earlier revision": eight operations, models with long bodies, one adapter (zero-as-absent)
pub fn earlier_revision() -> Value {
    use serde_json::json;
    let mut paths = serde_json::Map::new();
    for (i, (p, verb)) in [("/accounts", "get"), ("/accounts", "post"), ("/accounts/{accountId}", "get"), ("/accounts/{accountId}", "delete"), ("/ledgers", "get"), ("/ledgers/{ledgerId}/entries", "get"), ("/ledgers/{ledgerId}/entries", "post"), ("/reports", "get")].iter().enumerate() {
        let mut op = json!({"operationId": format!("earlierOperation{i}"), "summary": "an operation of the earlier revision with a long enough description to make the file longer than most",
            "parameters": [{"name": "page", "in": "query", "schema": {"type": "integer"}}, {"name": "page_size", "in": "query", "schema": {"type": "integer"}}, {"name": "X-Trace", "in": "header", "schema": {"type": "string"}}],
            "responses": {"200": {"description": "ok", "content": {"application/json": {"schema": {"$ref": "#/components/schemas/Account"}}}}}});
        for ph in ["accountId", "ledgerId"] { if p.contains(&format!("{{{ph}}}")) { op["parameters"].as_array_mut().unwrap().push(json!({"name": ph, "in": "path", "required": true, "schema": {"type": "string"}})); } }
        paths.entry(p.to_string()).or_insert_with(|| json!({})).as_object_mut().unwrap().insert(verb.to_string(), op);
    }
    json!({"openapi": "3.0.0", "info": {"title": "earlier", "version": "0"}, "paths": paths,
        "servers": [{"url": "https://earlier.example.com"}],
        "components": {"schemas": {
            "Account": {"type": "object", "required": ["id"], "properties": {"id": {"type": "string"}, "balance": {"type": "integer", "x-null-as-zero": true}, "owner": {"$ref": "#/components/schemas/Owner"}, "tags": {"type": "array", "items": {"type": "string"}}, "note": {"type": "string"}, "opened": {"type": "string", "format": "date"}}},
            "Owner": {"type": "object", "properties": {"name": {"type": "string"}, "email": {"type": "string"}, "kind": {"$ref": "#/components/schemas/Kind"}}},
            "Kind": {"type": "string", "enum": ["person", "company", "trust"]}}}})
}

fn case_text(c: &EmitCase) -> String { format!("(case {} (doc {}))", c.label, quote(&serde_json::to_string(&c.doc).unwrap_or_default().chars().take(60000).collect::<String>())) }

/// trailing spaces at line ends of doc strings are removed by prettyplease; compare modulo that
fn norm_docs(s: &Sexp) -> Sexp {
    match s {
        Sexp::List(l) if l.len() == 2 && l[0].as_atom() == Some("doc") => {
            if let Some(t) = l[1].as_str() {
                let lines: Vec<&str> = t.split('\n').map(|x| x.trim_end_matches(' ')).collect();
                return Sexp::List(vec![l[0].clone(), Sexp::Str(lines.join("\n"))]);
            }
            s.clone()
        }
        Sexp::List(l) => Sexp::List(l.iter().map(norm_docs).collect()),
        _ => s.clone(),
    }
}

/// which parts of a summary of `kind` are outside what property `prop` speaks about
fn erased_heads(prop: &str, kind: &str) -> Option<&'static [&'static str]> {
    Some(match (prop, kind) {
        ("C18", "models") => &["doc", "attrs", "super", "deref", "fields", "variants", "types"],
        ("C18", "requests") => &["imports", "doc", "fields", "required", "setters", "output", "url", "verb", "program", "method"],
        ("C04", "models") => &["doc", "super", "deref", "derives"],
        ("C17", "models") => &["derives", "attrs", "super", "deref", "types"],
        ("C17", "requests") => &["imports", "derives", "fields", "required", "setters", "output", "url", "verb", "program", "args", "literal"],
        ("C03", "requests") => &["imports", "struct", "required", "setters", "output", "method"],
        ("C05", "requests") => &["imports", "derives", "doc", "output", "url", "verb", "program"],
        ("C06", "requests") => &["imports", "derives", "doc", "fields", "required", "setters", "output", "url", "verb", "program", "args", "literal"],
        ("C14", "lib") => &["base_url"],
        ("C14", "requests") => &["imports", "struct", "required", "setters", "output", "url", "verb", "method"],
        ("C15", "lib") => &["authenticate", "fromenv", "nofromenv"],
        ("C16", "examples") | ("C01", "examples") | ("C02", "examples") => &[],
        (_, "examples") => return None,
        ("C16", _) => return None,
        ("C02", _) | ("C01", _) => &[],
        _ => return None,
    })
}

fn keep_only(prop: &str, kind: &str, s: &Sexp) -> Sexp {
    let heads = erased_heads(prop, kind).unwrap_or(&[]);
    fn walk(heads: &[&str], s: &Sexp) -> Sexp {
        match s {
            Sexp::List(l) if !l.is_empty() => {
                let head = l[0].as_atom().unwrap_or("");
                if heads.contains(&head) { Sexp::List(vec![l[0].clone()]) } else { Sexp::List(l.iter().map(|x| walk(heads, x)).collect()) }
            }
            _ => s.clone(),
        }
    }
    walk(heads, s)
}

pub fn run(prop: &str, tier: &str, seed: u64, out: &str) {
    silence_panics();
    let mut rep = Report::new(prop, tier, seed);
    let cases = gen_cases(prop, tier, seed, &mut rep);
    // a generator that overflows its stack or hangs would take the harness with it: screen every case in a child process first
    let screened: Vec<Result<(), String>> = model::par_map(&cases, |c| generation_survives(&serde_json::to_string(&c.doc).unwrap(), &c.cfg, 60));
    let reals: Vec<Result<Emitted, String>> = model::par_map(&cases.iter().zip(screened.iter()).collect::<Vec<_>>(), |(c, s)| match s { Ok(()) => run_real(c), Err(e) => Err(format!("crash: {e}")) });
    let mut reqs: Vec<String> = vec![];
    let mut imps: Vec<String> = vec![];
    let mut which: Vec<(usize, &'static str)> = vec![];
    let mut nontrivial = 0u64;
    let mut distinct = BTreeSet::new();
    for (i, (c, r)) in cases.iter().zip(reals.iter()).enumerate() {
        for f in &c.features { rep.bump(&format!("feature:{f}")); }
        rep.bump(&format!("derives:{}", c.cfg.derives.len()));
        let em = match r {
            Ok(e) => e,
            Err(e) if e.starts_with("crash: ") => { rep.oracle_fail("generatorCrashed", crate::totality::crash_triggers(&c.doc), &case_text(c), e); continue; }
            Err(e) => {
                let mut trig = vec![];
                if c.cfg.derives.iter().any(|d| d.trim().is_empty()) { trig.push("emptyDeriveString".to_string()); }
                if c.cfg.derives.iter().any(|d| proc_macro2::TokenStream::from_str(d.trim()).map(|t| !t.is_empty() && syn::parse2::<syn::Path>(t).is_err()).unwrap_or(false)) { trig.push("deriveNotAPath".to_string()); }
                rep.oracle_fail("generationFailed", trig, &case_text(c), e);
                continue;
            }
        };
        let hs = specio::hir_spec(&em.hir);
        if distinct.insert(fnv(&format!("{hs}{:?}", c.cfg))) && !em.hir.schemas.is_empty() { nontrivial += 1; }
        let cfg = cfg_sexp(&c.cfg);
        // models
        let mut ms: Vec<String> = vec![];
        for (p, b) in &em.tree {
            if let Some(stem) = p.strip_prefix("src/model/").and_then(|x| x.strip_suffix(".rs")) {
                if stem == "mod" { continue; }
                match summary::model_file(stem, &String::from_utf8_lossy(b)) { Ok(s) => ms.push(s), Err(e) => rep.oracle_fail("unparsableOutput", vec![], &case_text(c), &format!("{p}: {e}")) }
            }
        }
        ms.sort();
        reqs.push(format!("(emit_models {hs} {cfg})"));
        imps.push(format!("(models {})", ms.join(" ")));
        which.push((i, "models"));
        // request files
        let mut rs: Vec<String> = vec![];
        for (p, b) in &em.tree {
            if let Some(stem) = p.strip_prefix("src/request/").and_then(|x| x.strip_suffix(".rs")) {
                if stem == "mod" { continue; }
                match summary::request_file(stem, &String::from_utf8_lossy(b)) { Ok(s) => rs.push(s), Err(e) => rep.oracle_fail("unparsableOutput", vec![], &case_text(c), &format!("{p}: {e}")) }
            }
        }
        rs.sort();
        reqs.push(format!("(emit_requests {hs} {cfg})"));
        imps.push(format!("(requests {})", rs.join(" ")));
        which.push((i, "requests"));
        // examples
        if c.cfg.examples {
            let mut es: Vec<String> = vec![];
            for (p, b) in &em.tree {
                if let Some(stem) = p.strip_prefix("examples/").and_then(|x| x.strip_suffix(".rs")) {
                    match summary::example_file(stem, &String::from_utf8_lossy(b)) { Ok(s) => es.push(s), Err(e) => rep.oracle_fail("unparsableOutput", vec![], &case_text(c), &format!("{p}: {e}")) }
                }
            }
            es.sort();
            reqs.push(format!("(emit_examples {hs} {cfg})"));
            imps.push(format!("(examples {})", es.join(" ")));
            which.push((i, "examples"));
        }
        // lib.rs
        if let Some(b) = em.tree.get("src/lib.rs") {
            match summary::lib_rs(&String::from_utf8_lossy(b)) {
                Ok(s) => { reqs.push(format!("(emit_lib {hs} {cfg})")); imps.push(s); which.push((i, "lib")); }
                Err(e) => rep.oracle_fail("unparsableOutput", vec![], &case_text(c), &format!("src/lib.rs: {e}")),
            }
        }
        oracle(prop, &mut rep, c, em);
    }
    let mods = model::eval(&reqs);
    // cases on which model and implementation differ: the compile / run stages of the same property look at
    // them first (the search for a concrete failing input when the correspondence breaks)
    let mut focus: BTreeSet<String> = BTreeSet::new();
    for ((im, m), (ci, what)) in imps.iter().zip(mods.iter()).zip(which.iter()) {
        if erased_heads(prop, what).is_none() { continue; }
        let (Some(a), Some(b)) = (sexp::parse(im), sexp::parse(m)) else { rep.disagree(&case_text(&cases[*ci]), &im.chars().take(300).collect::<String>(), &m.chars().take(300).collect::<String>()); continue };
        // files are compared as sets keyed by their rendering (the model lists them in table order)
        let norm = |s: &Sexp| -> Vec<String> {
            let s = norm_docs(&keep_only(prop, what, s));
            let mut v: Vec<String> = vec![];
            if *what == "lib" { v = s.as_list().map(|l| l[1..].iter().map(|x| x.render()).collect()).unwrap_or_default(); }
            else {
                // one file per stem: a later writer of the same file replaces the earlier one
                let mut by_stem: BTreeMap<String, String> = BTreeMap::new();
                for x in s.as_list().map(|l| l[1..].to_vec()).unwrap_or_default() {
                    let stem = x.as_list().and_then(|l| l.get(1)).map(|y| y.render()).unwrap_or_else(|| x.render());
                    by_stem.insert(stem, x.render());
                }
                v = by_stem.into_values().collect();
            }
            v
        };
        let (va, vb) = (norm(&a), norm(&b));
        if va != vb {
            focus.insert(cases[*ci].label.clone());
            let first = va.iter().zip(vb.iter()).find(|(x, y)| x != y).map(|(x, y)| (x.clone(), y.clone())).unwrap_or((format!("{} entries", va.len()), format!("{} entries", vb.len())));
            rep.disagree(&case_text(&cases[*ci]), &first.0.chars().take(1500).collect::<String>(), &first.1.chars().take(1500).collect::<String>());
        }
    }
    let _ = std::fs::write(scratch_root().join(format!("focus-{prop}.json")), serde_json::to_string(&focus.iter().collect::<Vec<_>>()).unwrap());
    rep.evaluations = reqs.len() as u64;
    rep.distinct_nontrivial = nontrivial;
    rep.rule = format!("{} cases: bundled and corpus specs plus structured random documents in D, each with a service name from {} spellings and a derive list of length 0..4 over simple / nested / whitespace-padded / duplicate / un-tokenisable strings, examples on or off; the real generator's files are summarised with syn and compared with the Lean emitter model applied to the real HIR; the property's oracle is applied to the real summaries. Non-trivial = distinct (HIR, config) with at least one retained schema", cases.len(), SERVICE_NAMES.len());
    if let (Some(q), Some(i), Some(m)) = (reqs.first(), imps.first(), mods.first()) {
        rep.samples.push(serde_json::json!({"request": q.chars().take(800).collect::<String>(), "implementation": i.chars().take(800).collect::<String>(), "model": m.chars().take(800).collect::<String>()}));
    }
    rep.write(out);
}

// ---- oracles on the real output --------------------------------------------------------------------

fn user_derives(cfg: &Cfg) -> Vec<String> {
    cfg.derives.iter().filter_map(|d| proc_macro2::TokenStream::from_str(d.trim()).ok()).map(|t| t.to_string().chars().filter(|c| !c.is_whitespace()).collect::<String>()).collect()
}

fn oracle(prop: &str, rep: &mut Report, c: &EmitCase, em: &Emitted) {
    let case = case_text(c);
    match prop {
        "C18" => {
            let user = user_derives(&c.cfg);
            let check = |rep: &mut Report, what: &str, derives: &[String], builtins: &[&str]| {
                // built-ins first and complete, then (optionally Default), then the user derives in the given order
                let mut rest: Vec<String> = derives.to_vec();
                for b in builtins {
                    if rest.first().map(|x| x == b).unwrap_or(false) { rest.remove(0); } else { rep.oracle_fail("builtinDeriveLost", vec![], &case, &format!("{what}: derive list {derives:?} does not start with {builtins:?}")); return; }
                }
                if rest.first().map(|x| x == "Default").unwrap_or(false) && user.first().map(|u| u != "Default").unwrap_or(true) { rest.remove(0); }
                if rest != user { rep.oracle_fail("userDerives", vec![], &case, &format!("{what}: after the built-ins the derive list is {rest:?}, expected {user:?}")); } else { rep.bump("c18_items_ok"); }
            };
            for (p, b) in &em.tree {
                let Ok(f) = syn::parse_file(&String::from_utf8_lossy(b)) else { rep.oracle_fail("unparsableOutput", vec![], &case, p); continue };
                let in_model = p.starts_with("src/model/") && p != "src/model/mod.rs";
                let in_request = p.starts_with("src/request/") && p != "src/request/mod.rs";
                if !in_model && !in_request { continue; }
                for i in &f.items {
                    match i {
                        syn::Item::Struct(s) => {
                            let ds = summary::derives_of(&s.attrs);
                            let name = s.ident.to_string();
                            if in_request && name.ends_with("Required") && ds.is_empty() { continue; } // the required-arguments struct is not a data type that travels
                            check(rep, &format!("{p} struct {name}"), &ds, &["Debug", "Clone", "Serialize", "Deserialize"]);
                        }
                        syn::Item::Enum(e) => check(rep, &format!("{p} enum {}", e.ident), &summary::derives_of(&e.attrs), &["Debug", "Serialize", "Deserialize", "Clone"]),
                        _ => {}
                    }
                }
            }
        }
        "C17" => {
            // schema / property descriptions reach the right item, verbatim up to surrounding whitespace
            for (key, r) in &em.hir.schemas {
                use mir_rust::ToRustIdent;
                let stem = mir_rust::sanitize_filename(key);
                let Some(b) = em.tree.get(&format!("src/model/{stem}.rs")) else { rep.oracle_fail("modelFileMissing", vec![], &case, key); continue };
                let Ok(f) = syn::parse_file(&String::from_utf8_lossy(b)) else { continue };
                let strip = |s: &str| s.split('\n').map(|l| l.trim_end_matches(' ')).collect::<Vec<_>>().join("\n");
                let want_of = |d: &Option<mir::Doc>| d.as_ref().map(|d| strip(d.0.trim()));
                for i in &f.items {
                    match (i, r) {
                        (syn::Item::Struct(s), hir::Record::Struct(st)) if matches!(s.fields, syn::Fields::Named(_)) => {
                            let got = summary::doc_of(&s.attrs).map(|d| strip(&d));
                            if got != want_of(&st.docs) { rep.oracle_fail("structDoc", vec![], &case, &format!("{key}: emitted {got:?}, expected {:?}", want_of(&st.docs))); } else { rep.bump("c17_struct_docs_ok"); }
                            if let syn::Fields::Named(nf) = &s.fields {
                                for (fname, hf) in &st.fields {
                                    let ident = fname.to_rust_ident().0;
                                    // a field invented for an allOf member may carry the same identifier as a property (recorded under C02): which
                                    // of the two a doc belongs to cannot be told by identifier then
                                    if nf.named.iter().filter(|x| x.ident.as_ref().map(|i| i.to_string()) == Some(ident.clone())).count() != 1 { rep.bump("c17_fields_with_ambiguous_identifier"); continue; }
                                    let Some(sf) = nf.named.iter().find(|x| x.ident.as_ref().map(|i| i.to_string()) == Some(ident.clone())) else { continue };
                                    let got = summary::doc_of(&sf.attrs).map(|d| strip(&d));
                                    if got != want_of(&hf.doc) { rep.oracle_fail("fieldDoc", vec![], &case, &format!("{key}.{fname}: emitted {got:?}, expected {:?}", want_of(&hf.doc))); } else { rep.bump("c17_field_docs_ok"); }
                                }
                                // documentation is never attached to a different item: no doc on a field whose property has none
                            }
                        }
                        (syn::Item::Enum(e), hir::Record::Enum(en)) => {
                            let got = summary::doc_of(&e.attrs).map(|d| strip(&d));
                            if got != want_of(&en.doc) { rep.oracle_fail("enumDoc", vec![], &case, &format!("{key}: emitted {got:?}, expected {:?}", want_of(&en.doc))); } else { rep.bump("c17_enum_docs_ok"); }
                        }
                        (syn::Item::Struct(s), hir::Record::NewType(nt)) => {
                            let got = summary::doc_of(&s.attrs).map(|d| strip(&d));
                            if got != want_of(&nt.doc) { rep.oracle_fail("newtypeDoc", vec!["newtypeDescriptionDropped".to_string()], &case, &format!("{key}: emitted {got:?}, expected {:?}", want_of(&nt.doc))); } else { rep.bump("c17_newtype_docs_ok"); }
                        }
                        _ => {}
                    }
                }
            }
            // operation docs on the client method
            for o in &em.hir.operations {
                let stem = mir_rust::sanitize_filename(&o.file_name());
                let Some(b) = em.tree.get(&format!("src/request/{stem}.rs")) else { continue };
                let Ok(f) = syn::parse_file(&String::from_utf8_lossy(b)) else { continue };
                use mir_rust::ToRustIdent;
                let mname = o.name.to_rust_ident().0;
                let strip = |s: &str| s.split('\n').map(|l| l.trim_end_matches(' ')).collect::<Vec<_>>().join("\n");
                for i in &f.items {
                    let syn::Item::Impl(im) = i else { continue };
                    if !summary::toks(&im.self_ty).starts_with("crate::") { continue; }
                    for ii in &im.items {
                        let syn::ImplItem::Fn(mf) = ii else { continue };
                        if mf.sig.ident != mname { continue; }
                        let got = summary::doc_of(&mf.attrs).map(|d| strip(&d));
                        let want = o.doc.as_ref().map(|d| strip(d.0.trim()));
                        if got != want { rep.oracle_fail("methodDoc", vec![], &case, &format!("{} {}: emitted {got:?}, expected {want:?}", o.method, o.path)); } else { rep.bump("c17_method_docs_ok"); }
                    }
                }
            }
        }
        "C15" => {
            // the base URL must survive regeneration over a customised lib.rs: hand-written text up to the
            // `after` directive (without a default_http_client of its own) keeps the generated one
            if fnv(&case) % 8 == 0 || c.features.iter().any(|f| f == "bundled") {
                let text = serde_json::to_string(&c.doc).unwrap();
                if let Ok(spec) = parse_spec(&text, true) {
                    let d = fresh_dir("regen");
                    let fresh = em.tree.get("src/lib.rs").map(|b| String::from_utf8_lossy(b).to_string()).unwrap_or_default();
                    write_tree(&d, &em.tree);
                    let prefix = "// my own preamble\nuse std::fmt::Debug;\n// libninja: after";
                    std::fs::write(d.join("src/lib.rs"), format!("{prefix}\n{fresh}")).unwrap();
                    for round in 1..=2 {
                        if generate(&spec, &c.cfg, &d).is_err() { break; }
                        let now = std::fs::read_to_string(d.join("src/lib.rs")).unwrap_or_default();
                        let (a, b) = (summary::lib_rs(&now).unwrap_or_default(), summary::lib_rs(&fresh).unwrap_or_default());
                        let base = |x: &str| sexp::parse(x).and_then(|s| s.as_list().and_then(|l| l.get(1).cloned())).map(|s| s.render()).unwrap_or_default();
                        if base(&a) != base(&b) { rep.oracle_fail("baseUrlLostOnRegeneration", vec![], &case, &format!("after regeneration {round} over a customised lib.rs: {} instead of {}", base(&a), base(&b))); break; }
                        rep.bump("c15_regenerations_ok");
                    }
                    let _ = std::fs::remove_dir_all(&d);
                }
            }
            // the default client's base URL expression
            if let Some(b) = em.tree.get("src/lib.rs") {
                if let Ok(s) = summary::lib_rs(&String::from_utf8_lossy(b)) {
                    let servers = c.doc.get("servers").and_then(|s| s.as_array()).cloned().unwrap_or_default();
                    let service = c.cfg.name.to_case(Case::Pascal).to_case(Case::ScreamingSnake);
                    let want = match servers.len() { 0 => format!("(env {})", quote(&format!("{service}_BASE_URL"))), 1 => format!("(literal {})", quote(servers[0]["url"].as_str().unwrap_or(""))), _ => format!("(env {})", quote(&format!("{service}_ENV"))) };
                    let got = sexp::parse(&s).and_then(|x| x.as_list().and_then(|l| l.get(1).cloned())).map(|x| x.render()).unwrap_or_default();
                    if got != format!("(base_url {want})") {
                        let kw = ["beta", "production", "development", "sandbox"];
                        let ks: Vec<Option<&str>> = servers.iter().map(|s| s["description"].as_str().and_then(|d| kw.iter().find(|k| d.to_lowercase().contains(**k)).copied())).collect();
                        let mut trig = vec![];
                        if servers.len() >= 2 { if ks.iter().any(|k| k.is_none()) { if got == format!("(base_url (env {}))", quote(&format!("{service}_BASE_URL"))) { trig.push("serversWithoutKeywords".to_string()); } } else { trig.push("serversSharingKeyword".to_string()); } }
                        rep.oracle_fail("baseUrlExpression", trig, &case, &format!("lib.rs has {got}, expected (base_url {want})"));
                    } else { rep.bump("c15_base_url_ok"); }
                }
            }
        }
        "C02" => oracle_c02(rep, c, em),
        "C03" => oracle_c03(rep, c, em),
        "C05" => oracle_c05(rep, c, em),
        "C06" => oracle_c06(rep, c, em),
        "C14" => oracle_c14(rep, c, em),
        _ => {}
    }
}

/// every declared module has a file and every written source file is declared (clause (a) of the judgement)
fn oracle_c02(rep: &mut Report, c: &EmitCase, em: &Emitted) {
    let case = case_text(c);
    let mods_of = |path: &str| -> Option<Vec<String>> {
        let text = String::from_utf8_lossy(em.tree.get(path)?).to_string();
        let f = syn::parse_file(&text).ok()?;
        Some(f.items.iter().filter_map(|i| if let syn::Item::Mod(m) = i { if m.content.is_none() { Some(m.ident.to_string()) } else { None } } else { None }).collect())
    };
    for (dir, modfile) in [("src/", "src/lib.rs"), ("src/model/", "src/model/mod.rs"), ("src/request/", "src/request/mod.rs")] {
        let Some(declared) = mods_of(modfile) else { rep.oracle_fail("moduleFileMissing", vec![], &case, modfile); continue };
        let mut seen = BTreeSet::new();
        for m in &declared {
            let m0 = m.strip_prefix("r#").unwrap_or(m);
            if !seen.insert(m0.to_string()) {
                let trig = if dir == "src/request/" && crate::hirprops::documented_synth_clash(&c.doc) { vec!["synthNameCollision".to_string()] } else { vec![] };
                rep.oracle_fail("moduleDeclaredTwice", trig, &case, &format!("{modfile}: mod {m}"));
            }
            if !em.tree.contains_key(&format!("{dir}{m0}.rs")) && !em.tree.contains_key(&format!("{dir}{m0}/mod.rs")) { rep.oracle_fail("moduleWithoutFile", vec![], &case, &format!("{modfile}: mod {m}")); }
        }
        for p in em.tree.keys() {
            if let Some(rest) = p.strip_prefix(dir) {
                let stem = rest.strip_suffix(".rs").unwrap_or(rest);
                if stem.contains('/') || p == modfile || stem == "mod" || stem == "lib" { continue; }
                if !declared.iter().any(|m| m.strip_prefix("r#").unwrap_or(m) == stem) { rep.oracle_fail("fileWithoutModule", vec![], &case, p); }
            }
        }
    }
    // every adapter a field names (`with = "crate::serde::<m>"`) is a module of src/serde.rs
    let re = regex::Regex::new(r"crate::serde::([a-z0-9_]+)").unwrap();
    let defined: BTreeSet<String> = em.tree.get("src/serde.rs").and_then(|b| syn::parse_file(&String::from_utf8_lossy(b)).ok())
        .map(|f| f.items.iter().filter_map(|i| if let syn::Item::Mod(m) = i { Some(m.ident.to_string()) } else { None }).collect()).unwrap_or_default();
    for (p, b) in &em.tree {
        if !p.starts_with("src/") || p == "src/serde.rs" { continue; }
        for cap in re.captures_iter(&String::from_utf8_lossy(b)) {
            if !defined.contains(&cap[1]) { rep.oracle_fail("adapterPathUnresolved", vec![], &case, &format!("{p} names crate::serde::{} but src/serde.rs defines {:?}", &cap[1], defined)); }
        }
    }
    // the helper functions and statics lib.rs calls (`shared_*`, `init_*`, `default_*`) are defined in lib.rs
    if let Some(b) = em.tree.get("src/lib.rs") {
        let text = String::from_utf8_lossy(b).to_string();
        let called = regex::Regex::new(r"(?:^|[^.:\w])((?:shared|init|default)_[a-z0-9_]+)\s*\(").unwrap();
        for cap in called.captures_iter(&text) {
            let name = &cap[1];
            if !regex::Regex::new(&format!(r"fn\s+{}\s*[(<]", regex::escape(name))).unwrap().is_match(&text) {
                rep.oracle_fail("helperUndefined", vec![], &case, &format!("src/lib.rs calls {name}() but does not define it"));
            }
        }
    }
    rep.bump("c02_module_trees_checked");
}

fn request_summaries(em: &Emitted) -> BTreeMap<String, Sexp> {
    let mut out = BTreeMap::new();
    for (p, b) in &em.tree {
        if let Some(stem) = p.strip_prefix("src/request/").and_then(|x| x.strip_suffix(".rs")) {
            if stem == "mod" { continue; }
            if let Ok(s) = summary::request_file(stem, &String::from_utf8_lossy(b)) { if let Some(x) = sexp::parse(&s) { out.insert(stem.to_string(), x); } }
        }
    }
    out
}

fn part<'a>(s: &'a Sexp, head: &str) -> Option<&'a [Sexp]> {
    s.as_list()?.iter().find_map(|x| { let l = x.as_list()?; if l.first()?.as_atom()? == head { Some(&l[1..]) } else { None } })
}

#[derive(Clone, Debug, PartialEq, Eq, PartialOrd, Ord)]
enum V { S(String), L(Vec<String>) }

/// interpret the real request program over a store of struct fields
fn exec(stmt: &Sexp, store: &BTreeMap<String, Option<V>>, item: Option<&V>, unwrapped: Option<&V>, out: &mut Vec<(String, String, String)>) {
    let Some(l) = stmt.as_list() else { return };
    let head = l[0].as_atom().unwrap_or("");
    let val = |v: &Sexp| -> Option<V> {
        match v { Sexp::Atom(a) if a == "item" => item.cloned(), Sexp::Atom(a) if a == "unwrapped" => unwrapped.cloned(), Sexp::List(x) if x.len() == 2 => store.get(x[1].as_str().unwrap_or("")).cloned().flatten(), _ => None }
    };
    match head {
        "query" | "header" | "cookie" => { if let Some(V::S(s)) = val(&l[2]) { out.push((head.to_string(), l[1].as_str().unwrap_or("").to_string(), s)); } else if let Some(V::L(_)) = val(&l[2]) { out.push((head.to_string(), l[1].as_str().unwrap_or("").to_string(), "<list.to_string()>".into())); } }
        "json" => { if let Some(v) = val(&l[2]) { out.push(("body".into(), l[1].as_str().unwrap_or("").to_string(), format!("{v:?}"))); } }
        "for" => { if let Some(V::L(items)) = val(&l[1]) { for it in items { let iv = V::S(it); for b in &l[2..] { exec(b, store, Some(&iv), unwrapped, out); } } } }
        "if_some" => { if let Some(Some(v)) = store.get(l[1].as_str().unwrap_or("")) { for b in &l[2..] { exec(b, store, item, Some(v), out); } } }
        "set_query_all" => { for (k, v) in store { if let Some(v) = v { out.push(("query".into(), k.clone(), format!("{v:?}"))); } } }
        _ => {}
    }
}

fn oracle_c03(rep: &mut Report, c: &EmitCase, em: &Emitted) {
    use mir_rust::ToRustIdent;
    let case = case_text(c);
    let sums = request_summaries(em);
    for o in &em.hir.operations {
        let stem = mir_rust::sanitize_filename(&o.file_name());
        let Some(s) = sums.get(&stem) else { rep.oracle_fail("requestFileMissing", vec![], &case, &stem); continue };
        // verb and path
        let verb = part(s, "verb").and_then(|v| v.first()).and_then(|v| v.as_str()).unwrap_or("").to_string();
        if verb != o.method { rep.oracle_fail("wrongVerb", vec![], &case, &format!("{} {}: emitted verb {verb}", o.method, o.path)); }
        let program: Vec<Sexp> = part(s, "program").map(|p| p.to_vec()).unwrap_or_default();
        // one operation's inputs form one scope: clashing names (after folding) are outside D
        let fold = |s: &str| s.chars().filter(|c| c.is_ascii_alphanumeric()).collect::<String>().to_lowercase();
        let mut folded: Vec<String> = o.parameters.iter().map(|p| fold(&p.name)).collect();
        folded.sort();
        let n0 = folded.len();
        folded.dedup();
        if folded.len() != n0 { rep.bump("c03_outside_D_input_names_clash"); continue; }
        // a body member of the document that a same-named parameter shadowed never reaches the request (recorded finding)
        if let Some(props) = c.doc["paths"][&o.path][&o.method]["requestBody"]["content"]["application/json"]["schema"].get("properties").and_then(|p| p.as_object()) {
            for k in props.keys() {
                if o.parameters.iter().any(|p| &p.name == k && p.location != hir::Location::Body) && !o.parameters.iter().any(|p| &p.name == k && p.location == hir::Location::Body) {
                    rep.oracle_fail("bodyMemberNotSent", vec!["bodyNonBodyNameClash".to_string()], &case, &format!("{} {}: body member {k} is never sent because a parameter has the same name", o.method, o.path));
                }
            }
        }
        // an array / free-form body is one unnamed value: it must be the body itself, not a member called `body`
        let body_schema = c.doc["paths"][&o.path][&o.method]["requestBody"]["content"]["application/json"].get("schema").cloned();
        if let Some(bs) = body_schema {
            let resolved = match bs.get("$ref").and_then(|r| r.as_str()) { Some(r) => c.doc["components"]["schemas"][r.rsplit('/').next().unwrap()].clone(), None => bs.clone() };
            let unnamed = resolved["type"] == "array" || (resolved.get("properties").and_then(|p| p.as_object()).map(|p| p.is_empty()).unwrap_or(true) && resolved.get("allOf").is_none());
            if unnamed && program.iter().any(|st| st.render().starts_with("(json \"body\"")) {
                rep.oracle_fail("bodyWrapped", vec!["wrappedBody".to_string()], &case, &format!("{} {}: the request body is sent as a member `body` of a JSON object instead of as the body", o.method, o.path));
            }
        }
        // sentinel values, distinct per parameter; subsets of optionals: none, all, each alone
        let opt: Vec<&hir::Parameter> = o.parameters.iter().filter(|p| p.optional).collect();
        let mut subsets: Vec<Vec<bool>> = vec![vec![false; opt.len()], vec![true; opt.len()]];
        for i in 0..opt.len().min(6) { let mut v = vec![false; opt.len()]; v[i] = true; subsets.push(v); }
        for sub in subsets {
            let mut store: BTreeMap<String, Option<V>> = BTreeMap::new();
            let mut want: Vec<(String, String, String)> = vec![];
            let mut oi = 0;
            for (k, p) in o.parameters.iter().enumerate() {
                let supplied = if p.optional { let b = sub[oi]; oi += 1; b } else { true };
                let list = p.ty.is_iterable();
                let v = if list { V::L(vec![format!("v{k}a"), format!("v{k}b")]) } else { V::S(format!("v{k}")) };
                store.insert(p.name.to_rust_ident().0, if supplied { Some(v.clone()) } else { None });
                if !supplied { continue; }
                match p.location {
                    hir::Location::Path => {}
                    hir::Location::Body => want.push(("body".into(), p.name.clone(), format!("{v:?}"))),
                    loc => {
                        let l = specio::loc(&loc).to_string();
                        match &v {
                            V::L(items) => for it in items { want.push((l.clone(), if l == "query" { format!("{}[]", p.name) } else { p.name.clone() }, it.clone())); },
                            V::S(x) => want.push((l, p.name.clone(), x.clone())),
                        }
                    }
                }
            }
            let mut got = vec![];
            for st in &program { exec(st, &store, None, None, &mut got); }
            let (mut g, mut w) = (got.clone(), want.clone());
            g.sort(); w.sort();
            if g != w {
                rep.oracle_fail("requestContent", vec![], &case, &format!("{} {} with optionals {sub:?}: sent {g:?}, the operation declares {w:?}", o.method, o.path));
                break;
            } else { rep.bump("c03_valuations_ok"); }
        }
        // URL: every placeholder of the template is fed by the path parameter of that name
        let url = part(s, "url").and_then(|u| u.first()).cloned();
        let path_params: Vec<&hir::Parameter> = o.parameters.iter().filter(|p| p.location == hir::Location::Path).collect();
        // D: placeholders and `in: path` parameters correspond one-to-one
        let placeholders: BTreeSet<String> = regex::Regex::new(r"\{([^}]*)\}").unwrap().captures_iter(&o.path).map(|c| c[1].to_string()).collect();
        let declared_path: BTreeSet<String> = {
            let item = &c.doc["paths"][&o.path];
            let resolve = |p: &Value| -> Value { match p.get("$ref").and_then(|r| r.as_str()) { Some(r) => c.doc["components"]["parameters"].get(r.rsplit('/').next().unwrap_or("")).cloned().unwrap_or(Value::Null), None => p.clone() } };
            item[&o.method]["parameters"].as_array().into_iter().flatten().chain(item["parameters"].as_array().into_iter().flatten()).map(resolve).filter(|p| p["in"] == "path").filter_map(|p| p["name"].as_str().map(|x| x.to_string())).collect()
        };
        if placeholders != declared_path { rep.bump("c03_outside_D_placeholders_vs_path_parameters"); continue; }
        match url.as_ref().and_then(|u| u.as_list()).map(|l| (l[0].as_atom().unwrap_or("").to_string(), l.to_vec())) {
            Some((k, l)) if k == "literal" => { if l[1].as_str() != Some(o.path.as_str()) || !path_params.is_empty() { rep.oracle_fail("urlWrong", vec![], &case, &format!("{} {}", o.method, o.path)); } else { rep.bump("c03_urls_ok"); } }
            Some((k, l)) if k == "format" => {
                let fmt = l[1].as_str().unwrap_or("").to_string();
                let args: Vec<(String, String)> = l[2].as_list().map(|a| a[1..].iter().filter_map(|x| { let x = x.as_list()?; Some((x[0].as_str()?.to_string(), x[1].as_str()?.to_string())) }).collect()).unwrap_or_default();
                // substitute sentinels: format!(fmt, name = self.params.field)
                let mut rendered = fmt.clone();
                let mut ok = true;
                for (n, field) in &args { let ph = format!("{{{n}}}"); if !rendered.contains(&ph) { ok = false; } rendered = rendered.replace(&ph, &format!("<{field}>")); }
                let mut want = o.path.clone();
                for p in &path_params { want = want.replace(&format!("{{{}}}", p.name), &format!("<{}>", p.name.to_rust_ident().0)); }
                if !ok || rendered != want || rendered.contains('{') {
                    let mismatch = path_params.iter().any(|p| p.name.to_case(Case::Snake) != p.name.to_rust_ident().0);
                    rep.oracle_fail("urlWrong", if mismatch { vec!["urlPlaceholderIdentMismatch".to_string()] } else { vec![] }, &case, &format!("{} {}: format string {fmt:?} with {args:?} renders {rendered:?}, expected {want:?}", o.method, o.path));
                } else { rep.bump("c03_urls_ok"); }
            }
            _ => rep.oracle_fail("urlWrong", vec![], &case, &format!("{} {}: no url expression found", o.method, o.path)),
        }
    }
}

fn oracle_c05(rep: &mut Report, c: &EmitCase, em: &Emitted) {
    use mir_rust::ToRustIdent;
    let case = case_text(c);
    let sums = request_summaries(em);
    for o in &em.hir.operations {
        let stem = mir_rust::sanitize_filename(&o.file_name());
        let Some(s) = sums.get(&stem) else { continue };
        let names = |head: &str, inner: &str| -> Vec<String> {
            part(s, head).and_then(|x| x.iter().find_map(|y| { let l = y.as_list()?; if l.first()?.as_atom()? == inner { Some(l[1..].iter().filter_map(|f| f.as_list()?.first()?.as_str().map(|z| z.to_string())).collect::<Vec<_>>()) } else { None } })).unwrap_or_default()
        };
        let fields = names("struct", "fields");
        let want_fields: Vec<String> = o.parameters.iter().map(|p| p.name.to_rust_ident().0).collect();
        if fields != want_fields { rep.oracle_fail("requestFields", vec![], &case, &format!("{} {}: request struct fields {fields:?}, inputs {want_fields:?}", o.method, o.path)); }
        let setters: Vec<String> = part(s, "setters").map(|x| x.iter().filter_map(|y| y.as_list()?.get(1)?.as_str().map(|z| z.to_string())).collect()).unwrap_or_default();
        let want_setters: Vec<String> = o.parameters.iter().filter(|p| p.optional).map(|p| p.name.to_rust_ident().0).collect();
        if setters != want_setters { rep.oracle_fail("setters", vec![], &case, &format!("{} {}: setters {setters:?}, optional inputs {want_setters:?}", o.method, o.path)); }
        let args = names("method", "args");
        let lit = names("method", "literal");
        let required: Vec<String> = o.parameters.iter().filter(|p| !p.optional).map(|p| p.name.to_rust_ident().0).collect();
        let req_struct = part(s, "required").is_some();
        if required.len() > 3 {
            if !req_struct || args != vec!["args".to_string()] { rep.oracle_fail("requiredStruct", vec![], &case, &format!("{} {}: {} required inputs but arguments {args:?} (required struct: {req_struct})", o.method, o.path, required.len())); }
            let rf = names("required", "fields");
            if rf != required { rep.oracle_fail("requiredStructFields", vec![], &case, &format!("{} {}: {rf:?} vs {required:?}", o.method, o.path)); }
        } else if req_struct || args != required { rep.oracle_fail("mandatoryArguments", vec![], &case, &format!("{} {}: arguments {args:?}, required inputs {required:?}", o.method, o.path)); }
        if lit != want_fields { rep.oracle_fail("structLiteral", vec![], &case, &format!("{} {}: literal initialises {lit:?}, struct has {want_fields:?}", o.method, o.path)); }
        rep.bump("c05_interfaces_checked");
    }
}

fn oracle_c06(rep: &mut Report, c: &EmitCase, em: &Emitted) {
    let case = case_text(c);
    // the number of (path, verb) operations of the *document*
    let n_ops = crate::hirprops::count_operations(&c.doc);
    if em.hir.operations.len() != n_ops { rep.oracle_fail("operationCount", vec![], &case, &format!("{n_ops} operations in the document, {} in the interface", em.hir.operations.len())); }
    // recorded finding: names synthesised from verb and path that coincide
    let synth_clash = crate::hirprops::documented_synth_clash(&c.doc);
    let rep_fail = |rep: &mut Report, tag: &str, detail: &str| rep.oracle_fail(tag, if synth_clash { vec!["synthNameCollision".to_string()] } else { vec![] }, &case_text(c), detail);
    let req_files: Vec<&String> = em.tree.keys().filter(|p| p.starts_with("src/request/") && p.as_str() != "src/request/mod.rs").collect();
    let ex_files: Vec<&String> = em.tree.keys().filter(|p| p.starts_with("examples/")).collect();
    if req_files.len() != n_ops { rep_fail(rep, "requestFileCount", &format!("{n_ops} operations, {} request files", req_files.len())); }
    if c.cfg.examples && ex_files.len() != n_ops { rep_fail(rep, "exampleFileCount", &format!("{n_ops} operations, {} examples", ex_files.len())); }
    if !c.cfg.examples && !ex_files.is_empty() { rep_fail(rep, "exampleFileCount", "examples written although disabled"); }
    // request/mod.rs declares each module once and re-exports its struct
    if let Some(b) = em.tree.get("src/request/mod.rs") {
        if let Ok(f) = syn::parse_file(&String::from_utf8_lossy(b)) {
            let mods: Vec<String> = f.items.iter().filter_map(|i| if let syn::Item::Mod(m) = i { Some(m.ident.to_string()) } else { None }).collect();
            let set: BTreeSet<&String> = mods.iter().collect();
            if mods.len() != n_ops || set.len() != mods.len() { rep_fail(rep, "requestModules", &format!("{n_ops} operations, modules {mods:?}")); }
            for m in &mods { if !em.tree.contains_key(&format!("src/request/{m}.rs")) { rep_fail(rep, "moduleWithoutFile", m); } }
        }
    }
    // client methods: one per operation, distinct
    let sums = request_summaries(em);
    let mut methods: Vec<String> = sums.values().filter_map(|s| part(s, "method").and_then(|m| m.first()).and_then(|x| x.as_str()).map(|x| x.to_string())).collect();
    methods.sort();
    let n = methods.len();
    methods.dedup();
    if n != n_ops || methods.len() != n { rep_fail(rep, "clientMethods", &format!("{n_ops} operations, {n} client methods, {} distinct", methods.len())); }
    rep.bump("c06_crates_checked");
}

fn oracle_c14(rep: &mut Report, c: &EmitCase, em: &Emitted) {
    let case = case_text(c);
    // every request passes through authenticate, after all inputs are assigned, iff the spec has security
    let sums = request_summaries(em);
    for (stem, s) in &sums {
        let program: Vec<String> = part(s, "program").map(|p| p.iter().map(|x| x.render()).collect()).unwrap_or_default();
        let pos: Vec<usize> = program.iter().enumerate().filter(|(_, x)| x.as_str() == "(authenticate)").map(|(i, _)| i).collect();
        if em.hir.has_security() {
            if pos.len() != 1 || pos[0] != program.len() - 1 { rep.oracle_fail("authenticatePlacement", vec![], &case, &format!("{stem}: program {program:?}")); } else { rep.bump("c14_requests_authenticated"); }
        } else if !pos.is_empty() { rep.oracle_fail("authenticatePlacement", vec![], &case, &format!("{stem}: authenticate without security")); }
    }
    // the enum definition, the authenticate arms and from_env agree on variant and field names
    if let Some(b) = em.tree.get("src/lib.rs") {
        if let Ok(f) = syn::parse_file(&String::from_utf8_lossy(b)) {
            let mut enum_variants: BTreeMap<String, Vec<String>> = BTreeMap::new();
            for i in &f.items { if let syn::Item::Enum(e) = i { if e.ident.to_string().ends_with("Auth") { for v in &e.variants { enum_variants.insert(v.ident.to_string(), v.fields.iter().filter_map(|x| x.ident.as_ref().map(|i| i.to_string())).collect()); } } } }
            if let Ok(ls) = summary::lib_rs(&String::from_utf8_lossy(b)) {
                if let Some(l) = sexp::parse(&ls) {
                    for arm in part(&l, "authenticate").unwrap_or(&[]) {
                        let a = arm.as_list().unwrap();
                        let v = a[1].as_str().unwrap_or("").to_string();
                        let fs: Vec<String> = a[2].as_list().map(|x| x[1..].iter().filter_map(|y| y.as_str().map(|z| z.to_string())).collect()).unwrap_or_default();
                        match enum_variants.get(&v) { Some(ef) if *ef == fs => rep.bump("c14_arm_names_agree"), other => rep.oracle_fail("authNamesDisagree", vec![], &case, &format!("authenticate arm {v} {fs:?} vs enum {other:?}")) }
                    }
                    if let Some(fe) = l.as_list().and_then(|x| x.iter().find(|y| y.head() == Some("fromenv"))) {
                        let a = fe.as_list().unwrap();
                        let v = a[1].as_str().unwrap_or("").to_string();
                        let fs: Vec<String> = a[2].as_list().map(|x| x[1..].iter().filter_map(|y| y.as_list()?.first()?.as_str().map(|z| z.to_string())).collect()).unwrap_or_default();
                        if v != "OAuth2" {
                            match enum_variants.get(&v) { Some(ef) if *ef == fs => rep.bump("c14_from_env_names_agree"), other => rep.oracle_fail("authNamesDisagree", vec!["fromEnvNameMismatch".to_string()], &case, &format!("from_env builds {v} {fs:?} but the enum has {other:?}")) }
                        }
                        // env var names: <SERVICE>_<NAME> in SCREAMING_SNAKE_CASE
                        if let Some(hir::AuthStrategy::Token(t)) = em.hir.security.first() {
                            let service = c.cfg.name.to_case(Case::Pascal);
                            let want: Vec<String> = t.fields.iter().map(|f| format!("{} {}", service, f.name).to_case(Case::ScreamingSnake)).collect();
                            let got: Vec<String> = a[2].as_list().map(|x| x[1..].iter().filter_map(|y| y.as_list()?.get(1)?.as_str().map(|z| z.to_string())).collect()).unwrap_or_default();
                            if got != want { rep.oracle_fail("envVarNames", vec![], &case, &format!("from_env reads {got:?}, expected {want:?}")); } else { rep.bump("c14_env_vars_ok"); }
                        }
                    }
                }
            }
        }
    }
}
