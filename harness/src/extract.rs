//! Quick driver: extract the bundled specs with the real extractor and with the model; diff.
use crate::model;
use crate::pipeline::parse_spec;
use crate::specio;
use crate::util::*;

pub fn real_extract(spec: &openapiv3::OpenAPI) -> Result<hir::HirSpec, String> {
    match catch(|| libninja::extractor::extract_spec(spec)) {
        Ok(Ok(h)) => Ok(h),
        Ok(Err(e)) => Err(format!("error: {e}")),
        Err(p) => Err(format!("panic: {p}")),
    }
}

pub fn smoke(files: &[String]) {
    silence_panics();
    for f in files {
        let text = std::fs::read_to_string(f).unwrap();
        let spec = parse_spec(&text, f.ends_with(".json")).unwrap();
        let req = format!("(extract {})", specio::spec(&spec));
        let imp = match real_extract(&spec) { Ok(h) => specio::hir_spec(&h), Err(e) => format!("(panic {e})") };
        let m = model::eval(&[req]);
        if imp == m[0] { eprintln!("{f}: AGREE ({} bytes)", imp.len()); } else {
            eprintln!("{f}: DIFFER");
            // first difference
            let a: Vec<char> = imp.chars().collect(); let bb: Vec<char> = m[0].chars().collect();
            let i = a.iter().zip(bb.iter()).position(|(x, y)| x != y).unwrap_or(a.len().min(bb.len()));
            let lo = i.saturating_sub(300);
            eprintln!(" impl : …{}", a[lo..(i + 200).min(a.len())].iter().collect::<String>());
            eprintln!(" model: …{}", bb[lo..(i + 200).min(bb.len())].iter().collect::<String>());
        }
    }
}
