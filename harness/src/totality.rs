//! C01: totality of the whole pipeline (trigger predicates of recorded findings; the subprocess runner).
use serde_json::Value;

/// trigger predicates (on the document) of the recorded crash findings
pub fn crash_triggers(doc: &Value) -> Vec<String> {
    let mut t = vec![];
    if array_component_cycle(doc) { t.push("arrayComponentCycle".to_string()); }
    t
}

/// a component of type array whose items lead back to it through `$ref`s to array / single-member-allOf components only
pub fn array_component_cycle(doc: &Value) -> bool {
    let Some(comps) = doc["components"]["schemas"].as_object() else { return false };
    fn next<'a>(s: &'a Value) -> Option<&'a str> {
        if s["type"] == "array" { return s["items"]["$ref"].as_str().map(|r| r.rsplit('/').next().unwrap_or("")); }
        None
    }
    for start in comps.keys() {
        let mut cur = start.as_str();
        for _ in 0..comps.len() + 1 {
            let Some(s) = comps.get(cur) else { break };
            let Some(n) = next(s) else { break };
            if n == start { return true; }
            cur = n;
        }
    }
    false
}
