//! C01: totality of the whole pipeline (trigger predicates of recorded findings; the subprocess runner).
use serde_json::Value;

/// trigger predicates (on the document) of the recorded crash findings
pub fn crash_triggers(doc: &Value) -> Vec<String> {
    let mut t = vec![];
    if array_component_cycle(doc) { t.push("arrayComponentCycle".to_string()); }
    t
}

/// a component of type array whose items lead back to it through `$ref`s to array / single-member-allOf components only
pub fn array_component_cycle(doc: &Value) -> bool {
    let Some(comps) = doc["components"]["schemas"].as_object() else { return false };
    fn next<'a>(s: &'a Value) -> Option<&'a str> {
        if s["type"] == "array" { return s["items"]["$ref"].as_str().map(|r| r.rsplit('/').next().unwrap_or("")); }
        None
    }
    for start in comps.keys() {
        let mut cur = start.as_str();
        for _ in 0..comps.len() + 1 {
            let Some(s) = comps.get(cur) else { break };
            let Some(n) = next(s) else { break };
            if n == start { return true; }
            cur = n;
        }
    }
    false
}

use crate::emitprops::{cfg_sexp, gen_cases, EmitCase, SERVICE_NAMES};
use crate::model;
use crate::pipeline::*;
use crate::report::Report;
use crate::rng::Rng;
use crate::sexp::{self, quote};
use crate::specio;
use crate::util::*;
use std::collections::BTreeSet;

fn case_text(c: &EmitCase, prior: &str) -> String { format!("(case {} (prior {}) (doc {}))", c.label, quote(prior), quote(&serde_json::to_string(&c.doc).unwrap_or_default().chars().take(60000).collect::<String>())) }

/// service names that are words of the Rust language or of the generated code (still "ASCII alphanumeric words starting with a letter")
pub const RISKY_SERVICE_NAMES: &[&str] = &["Type", "Self", "Crate", "Async Api", "Box", "Fluent Request", "Option"];

struct Run { status: String, stderr: String, files: BTreeSet<String>, prior: &'static str, junk_survivors: Vec<String> }

pub fn run(tier: &str, seed: u64, out: &str) {
    silence_panics();
    let mut rep = Report::new("C01", tier, seed);
    let mut cases: Vec<EmitCase> = gen_cases("C01", tier, seed, &mut rep);
    // one process per case: the quick tier takes the bundled / corpus documents and the first 300 generated ones
    if tier != "thorough" { let mut g = 0; cases.retain(|c| { if c.label.starts_with("(generated") { g += 1; g <= 300 } else { true } }); }
    // configurations: service names that collide with words of the language; valid derive lists only
    let rng0 = Rng::new(seed ^ 0xc01);
    for (i, c) in cases.iter_mut().enumerate() {
        let mut rng = rng0.fork(i as u64);
        if c.label.starts_with("(generated") && rng.chance(1, 6) { c.cfg.name = rng.pick(RISKY_SERVICE_NAMES).to_string(); c.features.push("service_name_is_a_language_word".into()); }
        c.cfg.derives.retain(|d| { use std::str::FromStr; proc_macro2::TokenStream::from_str(d.trim()).map(|t| !t.is_empty() && syn::parse2::<syn::Path>(t).is_ok()).unwrap_or(false) });
        let _ = SERVICE_NAMES;
    }
    let runs: Vec<Run> = model::par_map(&cases.iter().enumerate().collect::<Vec<_>>(), |(i, c)| {
        let root = fresh_dir("tot");
        let spec = root.join("spec.json");
        std::fs::write(&spec, serde_json::to_string(&c.doc).unwrap()).unwrap();
        let dest = root.join("out");
        // prior content of the output directory
        let prior = match i % 7 { 0 | 1 | 2 => "empty", 3 => "previous generation", 4 => "unrelated files", 5 => "damaged previous generation", _ => "interrupted previous generation" };
        let mut junk: Vec<String> = vec![];
        if prior == "previous generation" { let _ = run_cli(&root, &spec.to_string_lossy(), &dest.to_string_lossy(), &c.cfg, 20); }
        if prior == "interrupted previous generation" {
            // a run that died while writing its k-th file (the crash hook of the instrumented build), then the run under test
            // ... or was killed by the operating system for exceeding a file-size limit
            if (i / 7) % 2 == 0 {
                let plan = format!("{}:{}", (i / 7) % 9, 10 + (i % 40));
                let _ = run_cli_env(&root, &spec.to_string_lossy(), &dest.to_string_lossy(), &c.cfg, 20, &[("LIBNINJA_VERIF_CRASH", plan)]);
            } else {
                let _ = run_cli_env(&root, &spec.to_string_lossy(), &dest.to_string_lossy(), &c.cfg, 20, &[("LNV_ULIMIT_F", format!("{}", 1 + (i / 14) % 3))]);
            }
        }
        if prior == "unrelated files" {
            let t: Tree = [("src/old_module.rs", "pub fn old() {}\n"), ("src/model/stale.rs", "pub struct Stale;\n"), ("examples/gone.rs", "fn main() {}\n"), ("README.md", "keep me\n"), ("src/keep.rs", "// libninja: static\npub fn mine() {}\n")]
                .iter().map(|(k, v)| (k.to_string(), v.as_bytes().to_vec())).collect();
            write_tree(&dest, &t);
            junk = vec!["src/old_module.rs".into(), "src/model/stale.rs".into(), "examples/gone.rs".into()];
        }
        if prior == "damaged previous generation" {
            // a previous generation of which one model and one request file are no longer valid UTF-8 (torn by an interrupted run,
            // or saved in another encoding), one of them kept by the user under the static directive; lib.rs is missing
            let _ = run_cli(&root, &spec.to_string_lossy(), &dest.to_string_lossy(), &c.cfg, 20);
            let t = read_tree(&dest);
            if let Some(p) = t.keys().find(|k| k.starts_with("src/model/") && *k != "src/model/mod.rs") { let _ = std::fs::write(dest.join(p), b"pub struct Torn { caf\xe9"); }
            if let Some(p) = t.keys().find(|k| k.starts_with("src/request/") && *k != "src/request/mod.rs") { let _ = std::fs::write(dest.join(p), b"// libninja: static\n// r\xe9sum\xe9 kept by hand\n"); }
            // ... and the request index carries the `after` directive below a comment saved in another encoding
            let _ = std::fs::write(dest.join("src/request/mod.rs"), b"// caf\xe9 notes\n// libninja: after\nold text\n");
            let _ = std::fs::remove_file(dest.join("src/lib.rs"));
        }
        let r = run_cli(&root, &spec.to_string_lossy(), &dest.to_string_lossy(), &c.cfg, 20);
        let tree = read_tree(&dest);
        let _ = std::fs::remove_dir_all(&root);
        let survivors = junk.into_iter().filter(|j| tree.contains_key(j)).collect();
        Run { status: r.status, stderr: r.stderr, files: tree.keys().filter(|k| k.ends_with(".rs") && (k.starts_with("src/") || k.starts_with("examples/"))).filter(|k| *k != "src/keep.rs").cloned().collect(), prior, junk_survivors: survivors }
    });
    // the model's verdict and file set
    let reqs: Vec<String> = cases.iter().map(|c| {
        match parse_spec(&serde_json::to_string(&c.doc).unwrap(), true) {
            Ok(s) => format!("(pipeline {} {})", specio::spec(&s), cfg_sexp(&c.cfg)),
            Err(_) => "(noop)".to_string(),
        }
    }).collect();
    let mods = model::eval(&reqs);
    // is the document in the domain `inD` of the Lean theorem `C01_extract_total`?
    let dreqs: Vec<String> = cases.iter().map(|c| match parse_spec(&serde_json::to_string(&c.doc).unwrap(), true) { Ok(s) => format!("(in_d {})", specio::spec(&s)), Err(_) => "(noop)".to_string() }).collect();
    let in_d: Vec<bool> = model::eval(&dreqs).iter().map(|m| m.trim() == "true").collect();
    // ... and in `inD2` of `C01_requests_total` (input names of the name domain, well-formed path templates)?
    let d2reqs: Vec<String> = dreqs.iter().map(|r| r.replacen("(in_d ", "(in_d2 ", 1)).collect();
    for m in model::eval(&d2reqs) { rep.bump(&format!("document {} inD2 (hypothesis of C01_requests_total)", if m.trim() == "true" { "in" } else { "outside" })); }
    let mut nontrivial = 0u64;
    for (((c, r), m), ind) in cases.iter().zip(runs.iter()).zip(mods.iter()).zip(in_d.iter()) {
        rep.bump(&format!("document {} the theorem's domain inD, generation {}", if *ind { "in" } else { "outside" }, if r.status == "exit 0" { "succeeded" } else { "failed" }));
        if !*ind && r.status == "exit 0" { for f in &c.features { rep.bump(&format!("outside inD yet generated, feature:{f}")); } }
        // the theorem transferred to the code: on a document of inD the run never stops inside the extractor
        if *ind && m.trim() == "(fail extract)" { rep.disagree(&case_text(c, r.prior), "inD holds", &format!("the model's extractor fails although C01_extract_total excludes it: {m}")); }
        for f in &c.features { rep.bump(&format!("feature:{f}")); }
        rep.bump(&format!("prior:{}", r.prior));
        rep.bump(&format!("status:{}", r.status));
        let case = case_text(c, r.prior);
        // ---- oracle: every document of the domain generates, completely ----
        if r.status != "exit 0" {
            let tag = if r.status == "timeout" { "generatorHangs" } else if r.status.starts_with("signal") { "generatorCrashed" } else if r.status == "exit 101" { "generatorPanicked" } else { "generatorFailed" };
            let mut trig = crash_triggers(&c.doc);
            trig.extend(panic_message_triggers(c, &r.stderr));
            let half = !r.files.is_empty();
            rep.oracle_fail(tag, trig, &case, &format!("{}{}: {}", r.status, if half { format!(", leaving {} files of a half-written tree", r.files.len()) } else { String::new() }, r.stderr.lines().filter(|l| l.contains("panicked") || l.contains("error") || l.contains("overflow")).last().unwrap_or("").chars().take(300).collect::<String>()));
        } else {
            if r.files.len() > 5 { nontrivial += 1; }
            for must in ["src/lib.rs", "src/model/mod.rs", "src/request/mod.rs"] { if !r.files.contains(must) { rep.oracle_fail("incompleteCrate", vec![], &case, &format!("{must} is missing after a successful run")); } }
            let n_ops = crate::hirprops::count_operations(&c.doc);
            let n_req = r.files.iter().filter(|f| f.starts_with("src/request/") && *f != "src/request/mod.rs").count();
            let n_ex = r.files.iter().filter(|f| f.starts_with("examples/")).count();
            if n_req > n_ops || (c.cfg.examples && n_ex != n_req) || (!c.cfg.examples && n_ex != 0 && r.prior == "empty") {
                rep.oracle_fail("incompleteCrate", vec![], &case, &format!("{n_ops} operations, {n_req} request modules, {n_ex} examples (examples {})", c.cfg.examples));
            }
            if n_req < n_ops { rep.bump("operations_sharing_a_module(C06 finding)"); }
            if !r.junk_survivors.is_empty() { rep.oracle_fail("staleFilesLeft", vec![], &case, &format!("{:?}", r.junk_survivors)); }
        }
        // ---- correspondence with the pipeline model ----
        let Some(ms) = sexp::parse(m) else { continue };
        let ml = ms.as_list().map(|l| l.to_vec()).unwrap_or_default();
        let m_ok = ml.first().and_then(|a| a.as_atom()) == Some("ok");
        if ml.first().and_then(|a| a.as_atom()) == Some("error") || ml.is_empty() { rep.bump("model_could_not_read_case"); continue; }
        if m_ok != (r.status == "exit 0") {
            rep.disagree(&case, &format!("{}: {}", r.status, r.stderr.lines().last().unwrap_or("")).chars().take(400).collect::<String>(), &m.chars().take(200).collect::<String>());
        } else if m_ok && r.prior == "empty" {
            let mf: BTreeSet<String> = ml.get(1).and_then(|f| f.as_list()).map(|l| l[1..].iter().filter_map(|x| x.as_str().map(|s| s.to_string())).collect()).unwrap_or_default();
            if mf != r.files {
                let only_real: Vec<&String> = r.files.difference(&mf).take(4).collect();
                let only_model: Vec<&String> = mf.difference(&r.files).take(4).collect();
                rep.disagree(&case, &format!("files only in the real tree: {only_real:?}"), &format!("files only in the model's tree: {only_model:?}"));
            }
        }
    }
    rep.evaluations = cases.len() as u64;
    rep.distinct_nontrivial = nontrivial;
    rep.rule = format!("{} (document, configuration, prior directory content) cases: bundled, corpus and structured random documents in D (recursive schemas through properties, arrays, maps, allOf and list components; keyword and digit-leading names), service names including words of the language, examples on / off, output directory empty / holding a previous generation / holding unrelated and static-marked files; each case runs the real `Generate::run` in its own process with a timeout; exit status, signal and the resulting tree are judged (success, the three module roots, one request module and example per operation, stale files removed) and compared with the Lean pipeline model's verdict and file set", cases.len());
    rep.write(out);
}

/// trigger predicates of recorded findings, checked against the input (the panic message only selects which to test)
fn panic_message_triggers(c: &EmitCase, stderr: &str) -> Vec<String> {
    let mut t = vec![];
    let keywordish = |s: &str| { use convert_case::{Case, Casing}; let p = s.to_case(Case::Pascal); KEYWORDS.contains(&p.to_case(Case::Snake).as_str()) || KEYWORDS.contains(&p.as_str()) };
    if keywordish(&c.cfg.name) && (stderr.contains("import") || stderr.contains("syn::Path") || stderr.contains("Ident") || stderr.contains("ident")) { t.push("serviceNameIsKeyword".to_string()); }
    t
}
