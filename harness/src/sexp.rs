//! S-expression printing/parsing shared with the Lean driver (see LnModel/Sexp.lean).
use std::fmt::Write;

pub fn quote(s: &str) -> String {
    let mut o = String::with_capacity(s.len() + 2);
    o.push('"');
    for c in s.chars() {
        match c {
            '"' => o.push_str("\\\""),
            '\\' => o.push_str("\\\\"),
            '\n' => o.push_str("\\n"),
            '\r' => o.push_str("\\r"),
            '\t' => o.push_str("\\t"),
            c if (c as u32) < 32 || (c as u32) >= 127 => {
                write!(o, "\\u{{{:x}}}", c as u32).unwrap();
            }
            c => o.push(c),
        }
    }
    o.push('"');
    o
}

#[derive(Debug, Clone, PartialEq)]
pub enum Sexp {
    Atom(String),
    Str(String),
    List(Vec<Sexp>),
}

impl Sexp {
    pub fn atom(s: &str) -> Sexp { Sexp::Atom(s.to_string()) }
    pub fn str(s: &str) -> Sexp { Sexp::Str(s.to_string()) }
    pub fn list(v: Vec<Sexp>) -> Sexp { Sexp::List(v) }
    pub fn tagged(tag: &str, mut v: Vec<Sexp>) -> Sexp {
        let mut l = vec![Sexp::atom(tag)];
        l.append(&mut v);
        Sexp::List(l)
    }
    pub fn render(&self) -> String {
        let mut o = String::new();
        self.render_into(&mut o);
        o
    }
    fn render_into(&self, o: &mut String) {
        match self {
            Sexp::Atom(a) => o.push_str(a),
            Sexp::Str(s) => o.push_str(&quote(s)),
            Sexp::List(l) => {
                o.push('(');
                for (i, x) in l.iter().enumerate() {
                    if i > 0 { o.push(' '); }
                    x.render_into(o);
                }
                o.push(')');
            }
        }
    }
    pub fn as_list(&self) -> Option<&[Sexp]> { if let Sexp::List(l) = self { Some(l) } else { None } }
    pub fn as_str(&self) -> Option<&str> { if let Sexp::Str(s) = self { Some(s) } else { None } }
    pub fn as_atom(&self) -> Option<&str> { if let Sexp::Atom(s) = self { Some(s) } else { None } }
    pub fn head(&self) -> Option<&str> { self.as_list().and_then(|l| l.first()).and_then(|a| a.as_atom()) }
}

pub fn parse(s: &str) -> Option<Sexp> {
    let cs: Vec<char> = s.chars().collect();
    let mut i = 0;
    parse_one(&cs, &mut i)
}

fn parse_one(cs: &[char], i: &mut usize) -> Option<Sexp> {
    while *i < cs.len() && cs[*i].is_whitespace() { *i += 1; }
    if *i >= cs.len() { return None; }
    match cs[*i] {
        '(' => {
            *i += 1;
            let mut v = vec![];
            loop {
                while *i < cs.len() && cs[*i].is_whitespace() { *i += 1; }
                if *i >= cs.len() { return None; }
                if cs[*i] == ')' { *i += 1; return Some(Sexp::List(v)); }
                v.push(parse_one(cs, i)?);
            }
        }
        ')' => None,
        '"' => {
            *i += 1;
            let mut o = String::new();
            while *i < cs.len() {
                let c = cs[*i];
                *i += 1;
                match c {
                    '"' => return Some(Sexp::Str(o)),
                    '\\' => {
                        let d = *cs.get(*i)?;
                        *i += 1;
                        match d {
                            'n' => o.push('\n'),
                            'r' => o.push('\r'),
                            't' => o.push('\t'),
                            '"' => o.push('"'),
                            '\\' => o.push('\\'),
                            'u' => {
                                // \u{hex}
                                *i += 1; // {
                                let mut n = 0u32;
                                while *i < cs.len() && cs[*i] != '}' {
                                    n = n * 16 + cs[*i].to_digit(16)?;
                                    *i += 1;
                                }
                                *i += 1;
                                o.push(char::from_u32(n)?);
                            }
                            _ => return None,
                        }
                    }
                    c => o.push(c),
                }
            }
            None
        }
        _ => {
            let st = *i;
            while *i < cs.len() && !(cs[*i].is_whitespace() || cs[*i] == '(' || cs[*i] == ')' || cs[*i] == '"') { *i += 1; }
            Some(Sexp::Atom(cs[st..*i].iter().collect()))
        }
    }
}
