//! Stages that compile (and run) generated crates: K02 (`cargo check --lib`), K16 (examples compile, run,
//! and produce one request to their operation), K04 (compiled models against instances synthesised from the schema).
//! These validate the semantic halves of the Lean model (`RustWf`, example summaries, `Serde`) against rustc,
//! serde and the recording stand-in client; they are support for the theorems, never a substitute.
use crate::cratecheck::{self, Member};
use crate::emitprops::{gen_cases, run_real, EmitCase, Emitted};
use crate::model;
use crate::report::Report;
use crate::sexp::quote;
use crate::util::*;
use convert_case::{Case, Casing};
use serde_json::Value;
use std::collections::{BTreeMap, BTreeSet};

fn case_text(c: &EmitCase) -> String { format!("(case {} (doc {}))", c.label, quote(&serde_json::to_string(&c.doc).unwrap_or_default().chars().take(60000).collect::<String>())) }

pub fn lib_name(c: &EmitCase) -> String { c.cfg.name.to_case(Case::Pascal).to_case(Case::Snake) }

/// does a recorded C02 finding apply to this document (so that its crate is known not to compile)?
pub fn known_compile_triggers(h: &hir::HirSpec) -> Vec<&'static str> {
    let mut t = vec![];
    if h.operations.iter().any(op_has_duplicate_idents) { t.push("duplicateInputIdent"); }
    if h.operations.iter().any(op_has_nested_string_list) { t.push("nestedStringListInput"); }
    if h.operations.iter().any(|o| op_has_non_display_parameter(h, o)) { t.push("nonDisplayParameter"); }
    if !directly_recursive_models(h).is_empty() { t.push("directRecursiveModel"); }
    if !shadowing_models(h).is_empty() { t.push("schemaNameShadowsPrelude"); }
    if !type_alias_cycles(h).is_empty() { t.push("typeAliasCycle"); }
    if h.schemas.values().any(flatten_field_clash) { t.push("flattenFieldNameClash"); }
    t
}

pub fn flatten_field_clash(r: &hir::Record) -> bool {
    use mir_rust::ToRustIdent;
    let hir::Record::Struct(s) = r else { return false };
    let ids: Vec<(String, bool)> = s.fields.iter().map(|(n, f)| (n.to_rust_ident().0, f.flatten)).collect();
    ids.iter().enumerate().any(|(i, (a, fa))| ids.iter().skip(i + 1).any(|(b, fb)| a == b && (*fa || *fb)))
}

pub fn op_url_ident_mismatch(o: &hir::Operation) -> bool {
    use mir_rust::ToRustIdent;
    o.parameters.iter().any(|p| p.location == hir::Location::Path && p.name.to_case(Case::Snake) != p.name.to_rust_ident().0)
}

/// the cases of a compile stage: the bundled and corpus documents plus `n` generated ones; documents to which a
/// recorded compile finding applies are kept to about a fifth, so that most crates are judged by rustc in full
pub fn compile_cases(prop: &str, tier: &str, seed: u64, rep: &mut Report, force_examples: bool) -> Vec<EmitCase> {
    let all = gen_cases(prop, tier, seed, rep);
    let n_gen = if tier == "thorough" { 160 } else { 20 };
    // cases on which the emit stage found model and implementation to differ are compiled first
    let focus: Vec<String> = std::fs::read_to_string(crate::pipeline::scratch_root().join(format!("focus-{prop}.json"))).ok().and_then(|t| serde_json::from_str(&t).ok()).unwrap_or_default();
    let mut n_focus = 0usize;
    let mut out = vec![];
    // documents on which the extraction stage found model and implementation to differ
    let focus_docs: Vec<Value> = std::fs::read_to_string(crate::pipeline::scratch_root().join(format!("focus-docs-{prop}.json"))).ok().and_then(|t| serde_json::from_str(&t).ok()).unwrap_or_default();
    for (i, d) in focus_docs.into_iter().enumerate() {
        rep.bump("cases_taken_from_extraction_disagreements");
        out.push(EmitCase { label: format!("(focus-doc {i})"), doc: d, cfg: crate::pipeline::Cfg::new("Focus"), features: vec!["focus".into()] });
    }
    let (mut g, mut triggered) = (0usize, 0usize);
    for mut c in all {
        let generated = c.label.starts_with("(generated") || c.label.starts_with("(replay");
        let focused = focus.contains(&c.label) && n_focus < 30;
        if focused { n_focus += 1; rep.bump("cases_taken_from_correspondence_disagreements"); }
        if generated && g >= n_gen && !focused { continue; }
        // derives are the subject of C18; a derive that names an unavailable crate cannot compile by construction
        c.cfg.derives.retain(|d| ["PartialEq"].contains(&d.trim()));
        c.cfg.derives.dedup();
        if outside_d_paths(&c.doc) { rep.bump("skipped_outside_D_path_parameters"); continue; }
        if generated {
            let known = std::env::var("LNV_ONLY_DOC").is_err() && crate::pipeline::parse_spec(&serde_json::to_string(&c.doc).unwrap(), true).ok().and_then(|s| crate::extract::real_extract(&s).ok()).map(|h| !known_compile_triggers(&h).is_empty()).unwrap_or(false);
            if known && !focused { if triggered * 4 > g { continue; } triggered += 1; rep.bump("cases_with_a_recorded_compile_finding"); }
            g += 1;
        }
        if force_examples { c.cfg.examples = true; }
        out.push(c);
    }
    out
}

pub struct Built { pub cases: Vec<EmitCase>, pub emitted: Vec<Option<Emitted>>, pub results: BTreeMap<String, cratecheck::MemberResult>, pub tag: String }

pub fn build_all(tag: &str, cases: Vec<EmitCase>, rep: &mut Report, build_examples: bool, extra: &dyn Fn(&EmitCase, &Emitted) -> Vec<(String, String)>) -> Option<Built> {
    let reals: Vec<Result<Emitted, String>> = model::par_map(&cases, |c| match crate::pipeline::generation_survives(&serde_json::to_string(&c.doc).unwrap(), &c.cfg, 60) { Ok(()) => run_real(c), Err(e) => Err(format!("crash: {e}")) });
    let mut members = vec![];
    let mut emitted = vec![];
    for (i, (c, r)) in cases.iter().zip(reals.into_iter()).enumerate() {
        match r {
            Ok(em) => {
                members.push(Member { pkg: format!("c{i}"), lib: lib_name(c), tree: em.tree.clone(), extra_examples: extra(c, &em) });
                emitted.push(Some(em));
            }
            Err(e) if e.starts_with("crash: ") => { rep.oracle_fail("generatorCrashed", crate::totality::crash_triggers(&c.doc), &case_text(c), &e); emitted.push(None); }
            Err(e) => { rep.oracle_fail("generationFailed", vec![], &case_text(c), &e); emitted.push(None); }
        }
    }
    match cratecheck::build(tag, &members, build_examples) {
        Ok((_ws, results)) => Some(Built { cases, emitted, results, tag: tag.to_string() }),
        Err(e) => { rep.oracle_fail("workspaceBuildFailed", vec![], "(workspace)", &e); None }
    }
}

// ---- K02 -------------------------------------------------------------------------------------------

pub fn run_k02(tier: &str, seed: u64, out: &str) {
    silence_panics();
    let mut rep = Report::new("C02", tier, seed);
    let cases = compile_cases("C02", tier, seed, &mut rep, false);
    let tag = format!("k02-{tier}");
    let n = cases.len();
    if let Some(b) = build_all(&tag, cases, &mut rep, false, &|_, _| vec![]) {
        for (i, c) in b.cases.iter().enumerate() {
            let Some(r) = b.results.get(&format!("c{i}")) else { continue };
            if b.emitted[i].is_none() { continue; }
            rep.bump("crates_checked");
            for f in &c.features { rep.bump(&format!("feature:{f}")); }
            if !r.lib_errors.is_empty() {
                rep.bump("crates_rejected");
                let mut seen = BTreeSet::new();
                for e in &r.lib_errors {
                    let (tag, trig) = classify_lib_error(e, c, b.emitted[i].as_ref().unwrap());
                    if seen.insert((tag.clone(), trig.clone())) { rep.oracle_fail(&tag, trig, &case_text(c), e); }
                }
            }
        }
    }
    cratecheck::cleanup(&tag);
    rep.evaluations = n as u64;
    rep.distinct_nontrivial = *rep.histogram.get("crates_checked").unwrap_or(&0);
    rep.rule = format!("{n} generated crates (bundled, corpus and structured random documents in D; service names from several spellings) type-checked with `cargo check --lib` against the stand-in dependencies and the real serde, serde_json, chrono; every rustc error is a failure. Non-trivial = crates that were generated and judged by rustc");
    rep.write(out);
}

pub const PRELUDE_NAMES: &[&str] = &["Option", "Vec", "Box", "String", "Some", "None", "Ok", "Err", "Result", "Default", "Clone", "Debug", "Serialize", "Deserialize", "Self", "Send", "Sync", "Sized", "Drop", "Fn", "Iterator", "ToString", "From", "Into"];

fn record_of<'a>(h: &'a hir::HirSpec, n: &str) -> Option<&'a hir::Record> { h.schemas.get(n) }

/// has the Rust type of `ty` a `Display` implementation (what `.to_string()` and `format!("{}")` need)?
pub fn displayable(h: &hir::HirSpec, ty: &mir::Ty, depth: usize) -> bool {
    use mir::Ty;
    match ty {
        Ty::String | Ty::Integer { .. } | Ty::Float | Ty::Boolean | Ty::Date { .. } | Ty::DateTime | Ty::Currency { .. } | Ty::Any(_) => true,
        Ty::Array(_) | Ty::HashMap(_) | Ty::Unit => false,
        Ty::Model(n) => match record_of(h, n) {
            Some(hir::Record::Struct(_)) => true,
            Some(hir::Record::TypeAlias(_, f)) => depth < 16 && !f.optional && displayable(h, &f.ty, depth + 1),
            _ => false,
        },
    }
}

pub fn op_has_non_display_parameter(h: &hir::HirSpec, o: &hir::Operation) -> bool {
    o.parameters.iter().any(|p| p.location != hir::Location::Body && !displayable(h, p.ty.inner_iterable().unwrap_or(&p.ty), 0))
}

/// an input that is a list of lists of strings: its borrowed form `&[&[&str]]` is converted with one `to_owned`, which does not reach the inner level
pub fn op_has_nested_string_list(o: &hir::Operation) -> bool {
    use mir_rust::ToRustType;
    o.parameters.iter().any(|p| matches!(&p.ty, mir::Ty::Array(inner) if matches!(**inner, mir::Ty::Array(_)) && inner.is_reference_type()))
}

/// does an example value of this type contain a struct literal with a required field whose Rust type is forced to
/// `Option<..>` (integer carried as string, zero-as-absent integer, date carried as integer)?
pub fn reaches_forced_option_field(h: &hir::HirSpec, t: &mir::Ty, depth: usize) -> bool {
    use mir::Ty;
    if depth > 8 { return false; }
    match t {
        Ty::Array(i) | Ty::HashMap(i) => matches!(t, Ty::Array(_)) && reaches_forced_option_field(h, i, depth + 1),
        Ty::Model(n) => match h.schemas.get(n) {
            Some(hir::Record::Struct(s)) => s.fields.values().any(|f| {
                let forced = matches!(f.ty, Ty::Integer { ser: mir::IntegerSerialization::String } | Ty::Integer { ser: mir::IntegerSerialization::NullAsZero } | Ty::Date { ser: mir::DateSerialization::Integer });
                (forced && !f.optional) || reaches_forced_option_field(h, &f.ty, depth + 1)
            }),
            Some(hir::Record::NewType(nt)) => nt.fields.iter().any(|f| reaches_forced_option_field(h, &f.ty, depth + 1)),
            Some(hir::Record::TypeAlias(_, f)) => reaches_forced_option_field(h, &f.ty, depth + 1),
            _ => false,
        },
        _ => false,
    }
}

pub fn op_has_duplicate_idents(o: &hir::Operation) -> bool {
    use mir_rust::ToRustIdent;
    let mut ids: Vec<String> = o.parameters.iter().map(|p| p.name.to_rust_ident().0).collect();
    ids.sort();
    let n = ids.len();
    ids.dedup();
    ids.len() != n
}

/// models that contain themselves by value (through plain or `Option` fields, newtype members and aliases)
pub fn directly_recursive_models(h: &hir::HirSpec) -> BTreeSet<String> {
    let mut edges: BTreeMap<String, Vec<String>> = BTreeMap::new();
    for (n, r) in &h.schemas {
        let tys: Vec<&mir::Ty> = match r {
            hir::Record::Struct(s) => s.fields.values().map(|f| &f.ty).collect(),
            hir::Record::NewType(t) => t.fields.iter().map(|f| &f.ty).collect(),
            hir::Record::TypeAlias(_, f) => vec![&f.ty],
            hir::Record::Enum(_) => vec![],
        };
        edges.insert(n.clone(), tys.into_iter().filter_map(|t| if let mir::Ty::Model(m) = t { Some(m.clone()) } else { None }).collect());
    }
    let mut out = BTreeSet::new();
    for start in edges.keys() {
        let mut seen = BTreeSet::new();
        let mut stack: Vec<&String> = edges[start].iter().collect();
        while let Some(x) = stack.pop() {
            if x == start { out.insert(start.clone()); break; }
            if seen.insert(x.clone()) { if let Some(e) = edges.get(x) { stack.extend(e.iter()); } }
        }
    }
    out
}

/// type aliases that expand to themselves: an alias component whose type reaches it again through lists / maps
/// of alias components only (`type T = HashMap<String, T>`)
pub fn type_alias_cycles(h: &hir::HirSpec) -> BTreeSet<String> {
    fn target(t: &mir::Ty) -> Option<&String> {
        match t { mir::Ty::Model(m) => Some(m), mir::Ty::Array(i) => target(i), mir::Ty::HashMap(i) => target(i), _ => None }
    }
    let next = |n: &String| -> Option<&String> { match h.schemas.get(n) { Some(hir::Record::TypeAlias(_, f)) => target(&f.ty), _ => None } };
    let mut out = BTreeSet::new();
    for start in h.schemas.keys() {
        let mut cur = start;
        for _ in 0..h.schemas.len() + 1 {
            let Some(n) = next(cur) else { break };
            if n == start { out.insert(start.clone()); break; }
            cur = n;
        }
    }
    out
}

pub fn shadowing_models(h: &hir::HirSpec) -> Vec<String> {
    use mir_rust::ToRustIdent;
    h.schemas.keys().map(|n| n.to_rust_struct().0).filter(|i| PRELUDE_NAMES.contains(&i.as_str())).collect()
}

/// path parameters without a placeholder (or the reverse) put the document outside D
pub fn outside_d_paths(doc: &Value) -> bool {
    let Some(paths) = doc["paths"].as_object() else { return false };
    for (path, item) in paths {
        let placeholders: BTreeSet<String> = regex::Regex::new(r"\{([^}]*)\}").unwrap().captures_iter(path).map(|c| c[1].to_string()).collect();
        let item_params: Vec<&Value> = item["parameters"].as_array().map(|a| a.iter().collect()).unwrap_or_default();
        for m in ["get", "put", "post", "delete", "options", "head", "patch", "trace"] {
            let Some(op) = item.get(m) else { continue };
            let mut names = BTreeSet::new();
            for p in op["parameters"].as_array().map(|a| a.iter().collect::<Vec<_>>()).unwrap_or_default().into_iter().chain(item_params.iter().cloned()) {
                let p = if let Some(r) = p["$ref"].as_str() { &doc["components"]["parameters"][r.rsplit('/').next().unwrap_or("")] } else { p };
                if p["in"] == "path" { if let Some(n) = p["name"].as_str() { names.insert(n.to_string()); } }
            }
            if names != placeholders { return true; }
        }
    }
    false
}

/// the clause of the well-formedness judgement a rustc error belongs to, and the trigger predicates of
/// recorded findings that hold for the file the error is in
fn classify_lib_error(e: &str, _c: &EmitCase, em: &Emitted) -> (String, Vec<String>) {
    let first = e.lines().next().unwrap_or("");
    let code = first.split('[').nth(1).and_then(|x| x.split(']').next()).unwrap_or("");
    let tag = match code {
        "E0412" | "E0425" | "E0433" | "E0432" | "E0405" | "E0531" | "E0422" => "unresolvedName",
        "E0428" | "E0124" | "E0415" | "E0416" | "E0592" | "E0201" | "E0119" | "E0062" => "definedTwice",
        "E0277" => "traitBoundUnmet",
        "E0308" => "mismatchedTypes",
        "E0392" | "E0261" | "E0106" | "E0107" => "lifetimeOrGenerics",
        "E0583" => "moduleWithoutFile",
        "E0560" | "E0559" | "E0063" | "E0609" | "E0599" | "E0061" => "memberMismatch",
        "E0072" | "E0391" => "recursiveType",
        _ => "rustcError",
    };
    let mut trig = vec![];
    // the operation whose request file the error is in
    let file_op = regex::Regex::new(r"--> c\d+/src/request/([A-Za-z0-9_]+)\.rs").unwrap().captures(e).map(|c| c[1].to_string())
        .and_then(|stem| em.hir.operations.iter().find(|o| mir_rust::sanitize_filename(&o.file_name()) == stem));
    if let Some(o) = file_op {
        if op_has_duplicate_idents(o) { trig.push("duplicateInputIdent".to_string()); }
        if op_has_nested_string_list(o) && (e.contains("to_owned") || e.contains("collect") || e.contains("mismatched types")) { trig.push("nestedStringListInput".to_string()); }
        if (e.contains("to_string") || e.contains("Display")) && op_has_non_display_parameter(&em.hir, o) { trig.push("nonDisplayParameter".to_string()); }
    }
    if (tag == "recursiveType" || e.contains("recursion limit") || e.contains("infinite size")) && !directly_recursive_models(&em.hir).is_empty() { trig.push("directRecursiveModel".to_string()); }
    if tag == "recursiveType" && e.contains("expanding type alias") && !type_alias_cycles(&em.hir).is_empty() { trig.push("typeAliasCycle".to_string()); }
    if let Some(stem) = regex::Regex::new(r"--> c\d+/src/model/([A-Za-z0-9_]+)\.rs").unwrap().captures(e).map(|c| c[1].to_string()) {
        use mir_rust::ToRustIdent;
        if em.hir.schemas.iter().any(|(n, r)| mir_rust::sanitize_filename(n) == stem && flatten_field_clash(r)) { trig.push("flattenFieldNameClash".to_string()); }
        let _ = "x".to_rust_ident();
    }
    for n in shadowing_models(&em.hir) {
        if regex::Regex::new(&format!(r"\b{}\b", regex::escape(&n))).unwrap().is_match(e) { trig.push("schemaNameShadowsPrelude".to_string()); break; }
    }
    if let Some(o) = file_op {
        if op_url_ident_mismatch(o) && (e.contains("named argument never used") || e.contains("there is no argument named") || e.contains("invalid format string")) { trig.push("urlPlaceholderIdentMismatch".to_string()); }
    }
    (format!("rustc:{tag}:{code}"), trig)
}

// ---- K16 -------------------------------------------------------------------------------------------

pub fn run_k16(tier: &str, seed: u64, out: &str) {
    silence_panics();
    let mut rep = Report::new("C16", tier, seed);
    let cases = compile_cases("C16", tier, seed, &mut rep, true);
    let tag = format!("k16-{tier}");
    let n = cases.len();
    let mut evals = 0u64;
    let mut nontrivial = 0u64;
    if let Some(b) = build_all(&tag, cases, &mut rep, true, &|_, _| vec![]) {
        let mut jobs: Vec<(usize, String)> = vec![];
        for (i, c) in b.cases.iter().enumerate() {
            let (Some(r), Some(em)) = (b.results.get(&format!("c{i}")), b.emitted[i].as_ref()) else { continue };
            // one example per operation, named like the operation's request module
            let examples: BTreeSet<String> = cratecheck::example_stems(&em.tree).into_iter().collect();
            let requests: BTreeSet<String> = em.tree.keys().filter_map(|p| p.strip_prefix("src/request/").and_then(|x| x.strip_suffix(".rs"))).filter(|x| *x != "mod").map(|x| x.to_string()).collect();
            rep.add("operations", em.hir.operations.len() as u64);
            if examples != requests || examples.len() != em.hir.operations.len() {
                let trig = if requests.len() != em.hir.operations.len() && crate::hirprops::documented_synth_clash(&c.doc) { vec!["synthNameCollision".to_string()] } else { vec![] };
                rep.oracle_fail("exampleSetMismatch", trig, &case_text(c), &format!("examples {:?} vs request modules {:?} for {} operations", examples, requests, em.hir.operations.len()));
            }
            if !r.lib_errors.is_empty() { rep.bump("skipped_library_does_not_compile"); continue; }   // quantifier: specs whose library compiles
            rep.bump("crates_with_compiling_library");
            for (e, errs) in &r.example_errors {
                use mir_rust::ToRustIdent;
                let op = em.hir.operations.iter().find(|o| mir_rust::sanitize_filename(&o.file_name()) == *e);
                let shadows = op.map(|o| o.parameters.iter().any(|p| !p.optional && p.name.to_rust_ident().0 == "client")).unwrap_or(false);
                let mut trig = vec![];
                let first = errs.first().cloned().unwrap_or_default();
                // the recorded behaviour: the client method is called on the shadowing local (`no method named .. found for ..`)
                if shadows && first.contains("no method named") { trig.push("requiredInputNamedClient".to_string()); }
                if first.contains("expected `Option<") && op.map(|o| o.parameters.iter().any(|p| reaches_forced_option_field(&em.hir, &p.ty, 0))).unwrap_or(false) { trig.push("forcedOptionFieldInExample".to_string()); }
                rep.oracle_fail("exampleDoesNotCompile", trig, &case_text(c), &format!("examples/{e}.rs: {first}"));
            }
            for e in &r.built_examples { if examples.contains(e) { jobs.push((i, e.clone())); } }
            for e in &examples { if !r.built_examples.contains(e) && !r.example_errors.contains_key(e) { rep.oracle_fail("exampleNotBuilt", vec![], &case_text(c), e); } }
        }
        let runs: Vec<cratecheck::RunOut> = model::par_map(&jobs, |(i, e)| {
            let em = b.emitted[*i].as_ref().unwrap();
            let lib = String::from_utf8_lossy(em.tree.get("src/lib.rs").map(|x| &x[..]).unwrap_or(b"")).to_string();
            let env: Vec<(String, String)> = cratecheck::env_vars_of(&lib).into_iter().map(|k| { let v = if k.ends_with("_ENV") { "production".to_string() } else if k.ends_with("BASE_URL") { "https://base.example".to_string() } else { format!("env-{k}") }; (k, v) }).collect();
            cratecheck::run_example(&b.tag, &format!("c{i}"), e, &env, "", 20)
        });
        let mut distinct = BTreeSet::new();
        for ((i, e), run) in jobs.iter().zip(runs.iter()) {
            evals += 1;
            let c = &b.cases[*i];
            let em = b.emitted[*i].as_ref().unwrap();
            // non-trivial: a distinct example program (by its source text) whose operation has at least one input
            let src = em.tree.get(&format!("examples/{e}.rs")).cloned().unwrap_or_default();
            let has_inputs = em.hir.operations.iter().find(|o| mir_rust::sanitize_filename(&o.file_name()) == *e).map(|o| !o.parameters.is_empty()).unwrap_or(false);
            if has_inputs && distinct.insert(fnv(&String::from_utf8_lossy(&src))) { nontrivial += 1; }
            check_example_run(&mut rep, c, em, e, run);
        }
    }
    cratecheck::cleanup(&tag);
    rep.evaluations = evals;
    rep.distinct_nontrivial = nontrivial;
    rep.rule = format!("{n} generated crates with examples enabled, built with `cargo build --lib --examples` against the stand-ins; every example of a crate whose library compiles must compile, and when run against the recording client must produce exactly one request, to its operation's method and path, carrying every declared input of the operation. Non-trivial = distinct example programs of operations that have inputs");
    rep.write(out);
}

fn path_matches(template: &str, actual: &str) -> bool {
    // segments: literal equal, `{x}` matches one non-empty piece without braces
    let mut re = String::from("^");
    let mut rest = template;
    while let Some(a) = rest.find('{') {
        re.push_str(&regex::escape(&rest[..a]));
        let Some(b) = rest[a..].find('}') else { break };
        re.push_str("[^/{}]+");
        rest = &rest[a + b + 1..];
    }
    re.push_str(&regex::escape(rest));
    re.push('$');
    regex::Regex::new(&re).map(|r| r.is_match(actual)).unwrap_or(false)
}

fn check_example_run(rep: &mut Report, c: &EmitCase, em: &Emitted, stem: &str, run: &cratecheck::RunOut) {
    let case = case_text(c);
    // the operation this example belongs to: the one whose request module has this stem
    let op = em.hir.operations.iter().find(|o| mir_rust::sanitize_filename(&o.file_name()) == stem);
    let Some(op) = op else { rep.oracle_fail("exampleWithoutOperation", vec![], &case, stem); return };
    if run.status == "timeout" { rep.oracle_fail("exampleHangs", vec![], &case, stem); return; }
    let reqs: Vec<Value> = run.stdout.lines().filter_map(|l| l.strip_prefix("REQUEST ")).filter_map(|l| serde_json::from_str(l).ok()).collect();
    if reqs.len() != 1 {
        rep.oracle_fail("exampleRequestCount", vec![], &case, &format!("examples/{stem}.rs produced {} requests ({}): {}", reqs.len(), run.status, run.stderr.chars().take(400).collect::<String>()));
        return;
    }
    let r = &reqs[0];
    let url = r["url"].as_str().unwrap_or("");
    let path = url.find("://").map(|i| &url[i + 3..]).map(|x| x.find('/').map(|j| &x[j..]).unwrap_or("")).unwrap_or(url);
    // the base URL may itself carry a path prefix: the operation path must be a suffix
    let ok_path = (0..=path.len()).filter(|i| path.is_char_boundary(*i)).any(|i| path_matches(&op.path, &path[i..]));
    if r["method"].as_str().unwrap_or("") != op.method.to_uppercase() || !ok_path {
        rep.oracle_fail("exampleWrongTarget", vec![], &case, &format!("examples/{stem}.rs requested {} {} for operation {} {}", r["method"], url, op.method, op.path));
    }
    // every declared input of the operation (from the document) is carried by the request
    let empty = vec![];
    let Ok(spec) = crate::pipeline::parse_spec(&serde_json::to_string(&c.doc).unwrap(), true) else { return };
    let Some(declared) = spec.operations().find(|(p, m, _, _)| *p == op.path && *m == op.method).and_then(|(_, _, o, item)| crate::hirprops::declared_inputs(&spec, o, item)) else { return };
    // names are distinct within the parameter scope and within the body scope (D)
    let fold = |s: &str| s.chars().filter(|c| c.is_ascii_alphanumeric()).collect::<String>().to_lowercase();
    if declared.iter().enumerate().any(|(i, (n, l, _))| declared.iter().skip(i + 1).any(|(m, k, _)| fold(n) == fold(m) && (n != m || (l == "body") == (k == "body")))) { rep.bump("operations_outside_D_input_names_clash"); return; }
    for (name, loc, _req) in &declared {
        let has = |list: &Value, n: &str| list.as_array().unwrap_or(&empty).iter().any(|kv| kv[0].as_str() == Some(n) || kv[0].as_str() == Some(&format!("{n}[]")));
        let present = match loc.as_str() {
            "query" => has(&r["query"], name),
            "header" => has(&r["headers"], name),
            "cookie" => has(&r["cookies"], name),
            "path" => true, // checked through the URL: no placeholder may remain
            "body" => r["body"].get(name).is_some(),
            _ => true,
        };
        if !present {
            let shadow = loc == "body" && declared.iter().any(|(m, k, _)| m == name && k != "body");
            let trig = if shadow { vec!["bodyNonBodyNameClash".to_string()] } else { vec![] };
            rep.oracle_fail(if shadow { "exampleBodyMemberShadowed" } else { "exampleInputNotSupplied" }, trig, &case, &format!("examples/{stem}.rs: {loc} input {name} of {} {} is not in the request {}", op.method, op.path, r));
        }
    }
    rep.bump("examples_run");
    rep.bump(&format!("example_exit:{}", run.status));
}

// ---- K04 -------------------------------------------------------------------------------------------

#[derive(Clone, Copy, PartialEq, Debug)]
enum Mode { All, RequiredOnly, Nulls, Boundary }

fn resolve<'a>(doc: &'a Value, s: &'a Value) -> (&'a Value, Option<String>) {
    if let Some(r) = s["$ref"].as_str() {
        let n = r.rsplit('/').next().unwrap_or("").to_string();
        return (&doc["components"]["schemas"][&n], Some(n));
    }
    (s, None)
}

/// an instance valid for `schema` (OpenAPI meaning, supported types); `None` when the schema cannot be instantiated
/// without following a reference cycle
fn instance(doc: &Value, schema: &Value, mode: Mode, stack: &mut Vec<String>, depth: usize) -> Option<Value> {
    use serde_json::json;
    let (s, name) = resolve(doc, schema);
    if let Some(n) = &name { if stack.contains(n) || depth > 6 { return None; } stack.push(n.clone()); }
    let out = (|| -> Option<Value> {
        if s.is_null() { return None; }
        // a nullable schema makes the *positions* that use it optional; the instance of the schema itself is its non-null form
        if mode == Mode::Nulls && depth > 0 && s["nullable"] == json!(true) { return Some(Value::Null); }
        if let Some(all) = s["allOf"].as_array() {
            let mut merged = serde_json::Map::new();
            let mut single: Option<Value> = None;
            // an alias (one reference, otherwise only annotations) is the schema it names: same nesting depth, so that the
            // instance of a top-level alias of a nullable schema is the non-null form, as for the schema itself
            let alias_like = all.iter().filter(|m| m.get("$ref").is_some()).count() == 1 && all.iter().all(|m| m.get("$ref").is_some() || (m.get("properties").is_none() && m.get("type").is_none() && m.get("allOf").is_none() && m.get("additionalProperties").is_none()));
            let depth = if alias_like && depth == 0 { 0usize.wrapping_sub(1) } else { depth };
            for m in all {
                // a member that only annotates (a description next to a reference) says nothing about the instance
                if m.get("$ref").is_none() && m.get("properties").is_none() && m.get("type").is_none() && m.get("allOf").is_none() && m.get("additionalProperties").is_none() { continue; }
                match instance(doc, m, mode, stack, depth.wrapping_add(1))? { Value::Object(o) => { for (k, v) in o { merged.insert(k, v); } } other => single = Some(other) }
            }
            if let (Some(v), true) = (&single, merged.is_empty()) { return Some(v.clone()); }
            return Some(Value::Object(merged));
        }
        if s.get("oneOf").is_some() || s.get("anyOf").is_some() { return Some(json!("either")); }
        let boundary = mode == Mode::Boundary;
        match s["type"].as_str() {
            Some("string") => {
                if let Some(vals) = s["enum"].as_array() { return vals.get(if boundary { vals.len().saturating_sub(1) } else { 0 }).cloned(); }
                Some(match s["format"].as_str() {
                    Some("date") => json!(if boundary { "2024-02-29" } else { "2023-11-05" }),
                    Some("date-time") => json!(if boundary { "1999-12-31T23:59:59Z" } else { "2024-01-31T10:20:30Z" }),
                    Some("decimal") => json!(if boundary { "-0.05" } else { "12.50" }),
                    Some("integer") => json!(if boundary { "-9223372036854775808" } else { "42" }),
                    _ => json!(if boundary { "\u{fc}n\u{ef} \"q\" \\ \n\ttab \u{1F600}" } else { "text" }),
                })
            }
            Some("integer") => {
                if s["x-format"] == json!("date") || s["format"] == json!("date") { return Some(json!(if boundary { 20240229 } else { 20231105 })); }
                if s.get("x-null-as-zero").is_some() { return Some(json!(if boundary { -3 } else { 7 })); }
                Some(if boundary { json!(i64::MAX) } else { json!(42) })
            }
            Some("number") => Some(if boundary { json!(-2) } else { json!(1.5) }),
            Some("boolean") => Some(json!(!boundary)),
            Some("array") => Some(match instance(doc, &s["items"], mode, stack, depth + 1) { Some(v) => if boundary { json!([v.clone(), v]) } else { json!([v]) }, None => json!([]) }),
            Some("object") | None => {
                let props = s["properties"].as_object();
                let required: Vec<&str> = s["required"].as_array().map(|a| a.iter().filter_map(|x| x.as_str()).collect()).unwrap_or_default();
                let mut o = serde_json::Map::new();
                if let Some(props) = props {
                    for (k, ps) in props {
                        let req = required.contains(&k.as_str());
                        if mode == Mode::RequiredOnly && !req { continue; }
                        match instance(doc, ps, mode, stack, depth + 1) {
                            Some(v) => { o.insert(k.clone(), v); }
                            None => if req { return None; },
                        }
                    }
                }
                if let Some(ap) = s.get("additionalProperties") {
                    if props.map(|p| p.is_empty()).unwrap_or(true) {
                        if ap.is_object() { if let Some(v) = instance(doc, ap, mode, stack, depth + 1) { o.insert("k1".into(), v.clone()); if boundary { o.insert("k 2".into(), v); } } }
                        else if ap == &json!(true) { o.insert("k1".into(), json!(1)); }
                    }
                } else if props.is_none() && s["type"] == json!("object") { o.insert("free".into(), json!({"form": [1, "x"]})); }
                if props.is_none() && s.get("type").is_none() && s.get("additionalProperties").is_none() { return Some(json!({"any": "thing"})); }
                Some(Value::Object(o))
            }
            _ => None,
        }
    })();
    if name.is_some() { stack.pop(); }
    out
}

/// a list or map whose elements are integers carried as strings / dates carried as integers (types libninja only adapts at field level)
fn adapter_type_in_container(doc: &Value, s: &Value, depth: usize) -> bool {
    if depth > 6 { return false; }
    let (s, _) = resolve(doc, s);
    let adapted = |x: &Value| { let (x, _) = resolve(doc, x); (x["type"] == serde_json::json!("string") && x["format"] == serde_json::json!("integer")) || (x["type"] == serde_json::json!("integer") && x["x-format"] == serde_json::json!("date")) };
    // the component itself is such a type (kept as a newtype or alias, where no field attribute can carry the adapter)
    if depth == 0 && adapted(s) { return true; }
    // ... or an alias of such a type (allOf of one reference, possibly with annotation-only members)
    if depth == 0 {
        let mut cur = s.clone();
        for _ in 0..6 {
            let Some(a) = cur["allOf"].as_array().cloned() else { break };
            let refs: Vec<&Value> = a.iter().filter(|m| m.get("$ref").is_some()).collect();
            let extra: usize = a.iter().filter(|m| m.get("$ref").is_none()).map(|m| m.get("properties").and_then(|p| p.as_object()).map(|p| p.len()).unwrap_or(0)).sum();
            if refs.len() != 1 || extra != 0 { break; }
            let (t, _) = resolve(doc, refs[0]);
            if adapted(t) { return true; }
            cur = t.clone();
        }
    }
    for key in ["items", "additionalProperties"] {
        if let Some(e) = s.get(key) { if e.is_object() && (adapted(e) || adapter_type_in_container(doc, e, depth + 1)) { return true; } }
    }
    if let Some(p) = s["properties"].as_object() { if p.values().any(|x| adapter_type_in_container(doc, x, depth + 1)) { return true; } }
    if let Some(a) = s["allOf"].as_array() { if a.iter().any(|x| adapter_type_in_container(doc, x, depth + 1)) { return true; } }
    false
}

/// a property written `allOf: [{$ref: X}]` (not itself nullable) whose target X is declared nullable
fn nullable_behind_allof(doc: &Value, s: &Value, depth: usize) -> bool {
    if depth > 6 { return false; }
    let (s, _) = resolve(doc, s);
    let wrapper = |p: &Value| -> bool {
        // the position itself, or the alias component it refers to, is an allOf of one reference (plus annotations) ...
        let mut cur = p.clone();
        for _ in 0..4 {
            if cur["nullable"] == serde_json::json!(true) { return false; }
            let (r, _) = resolve(doc, &cur);
            let r = r.clone();
            if r["nullable"] == serde_json::json!(true) && cur.get("$ref").is_some() && cur != *p { return true; }
            if r["nullable"] == serde_json::json!(true) { return false; }
            let Some(a) = r["allOf"].as_array() else { return false };
            let refs: Vec<&Value> = a.iter().filter(|m| m.get("$ref").is_some()).collect();
            let plain = a.iter().all(|m| m.get("$ref").is_some() || (m.get("properties").is_none() && m.get("type").is_none()));
            if refs.len() != 1 || !plain { return false; }
            // ... whose target is declared nullable
            let (t, _) = resolve(doc, refs[0]);
            if t["nullable"] == serde_json::json!(true) { return true; }
            cur = refs[0].clone();
        }
        false
    };
    if let Some(p) = s["properties"].as_object() { if p.values().any(|x| wrapper(x) || nullable_behind_allof(doc, x, depth + 1)) { return true; } }
    if let Some(a) = s["allOf"].as_array() { if a.iter().any(|x| nullable_behind_allof(doc, x, depth + 1)) { return true; } }
    for key in ["items", "additionalProperties"] { if let Some(e) = s.get(key) { if e.is_object() && (wrapper(e) || nullable_behind_allof(doc, e, depth + 1)) { return true; } } }
    false
}

/// a list or map whose elements may be null
fn nullable_in_container(doc: &Value, s: &Value, depth: usize) -> bool {
    if depth > 6 { return false; }
    let (s, _) = resolve(doc, s);
    for key in ["items", "additionalProperties"] {
        if let Some(e) = s.get(key) { if e.is_object() { let (r, _) = resolve(doc, e); if e["nullable"] == serde_json::json!(true) || r["nullable"] == serde_json::json!(true) || nullable_in_container(doc, e, depth + 1) { return true; } } }
    }
    if let Some(p) = s["properties"].as_object() { if p.values().any(|x| nullable_in_container(doc, x, depth + 1)) { return true; } }
    if let Some(a) = s["allOf"].as_array() { if a.iter().any(|x| nullable_in_container(doc, x, depth + 1)) { return true; } }
    false
}

/// required members whose absence must be rejected: non-nullable strings, numbers, booleans and `$ref`'d objects
fn rejectable_required(doc: &Value, s: &Value) -> Vec<String> {
    let (s, _) = resolve(doc, s);
    let mut out = vec![];
    let Some(props) = s["properties"].as_object() else { return out };
    for r in s["required"].as_array().map(|a| a.iter().filter_map(|x| x.as_str()).collect::<Vec<_>>()).unwrap_or_default() {
        let Some(ps) = props.get(r) else { continue };
        let is_ref = ps.get("$ref").is_some();
        let (t, _) = resolve(doc, ps);
        if t["nullable"] == serde_json::json!(true) || ps["nullable"] == serde_json::json!(true) { continue; }
        let ok = match t["type"].as_str() {
            Some("string") => !matches!(t["format"].as_str(), Some("integer")),
            Some("integer") => t.get("x-null-as-zero").is_none() && t["x-format"] != serde_json::json!("date"),
            Some("number") | Some("boolean") => true,
            Some("object") => is_ref && t.get("properties").is_some(),
            _ => false,
        };
        if ok { out.push(r.to_string()); }
    }
    out
}

/// equality up to omission of null / absent members and empty arrays; numbers compared by value
fn strip(v: &Value) -> Value {
    match v {
        Value::Object(o) => Value::Object(o.iter().filter_map(|(k, x)| { let s = strip(x); if s.is_null() || s == serde_json::json!([]) { None } else { Some((k.clone(), s)) } }).collect()),
        Value::Array(a) => Value::Array(a.iter().map(strip).collect()),
        Value::Number(n) => n.as_f64().and_then(|f| if f.fract() == 0.0 && f.abs() < 9e15 { Some(serde_json::json!(f as i64)) } else { None }).unwrap_or_else(|| v.clone()),
        _ => v.clone(),
    }
}

fn json_sexp(v: &Value) -> String {
    match v {
        Value::Null => "(jnull)".into(),
        Value::Bool(b) => format!("(jbool {b})"),
        Value::Number(n) => if n.is_i64() || n.is_u64() { format!("(jint {})", quote(&n.to_string())) } else { format!("(jfloat {})", quote(&n.to_string())) },
        Value::String(s) => format!("(jstr {})", quote(s)),
        Value::Array(a) => format!("(jarr{})", a.iter().map(|x| format!(" {}", json_sexp(x))).collect::<String>()),
        Value::Object(o) => format!("(jobj{})", o.iter().map(|(k, x)| format!(" ({} {})", quote(k), json_sexp(x))).collect::<String>()),
    }
}

fn sexp_json(s: &crate::sexp::Sexp) -> Option<Value> {
    let l = s.as_list()?;
    match l.first()?.as_atom()? {
        "jnull" => Some(Value::Null),
        "jbool" => Some(Value::Bool(l.get(1)?.as_atom()? == "true")),
        "jint" => { let t = l.get(1)?.as_str()?; t.parse::<i64>().ok().map(|i| serde_json::json!(i)).or_else(|| t.parse::<u64>().ok().map(|i| serde_json::json!(i))) }
        "jfloat" => l.get(1)?.as_str()?.parse::<f64>().ok().map(|f| serde_json::json!(f)),
        "jstr" => Some(Value::String(l.get(1)?.as_str()?.to_string())),
        "jarr" => l[1..].iter().map(sexp_json).collect::<Option<Vec<_>>>().map(Value::Array),
        "jobj" => { let mut o = serde_json::Map::new(); for m in &l[1..] { let ml = m.as_list()?; o.insert(ml.first()?.as_str()?.to_string(), sexp_json(ml.get(1)?)?); } Some(Value::Object(o)) }
        _ => None,
    }
}

struct Inst { ty_key: String, ty_ident: String, kind: String, json: Value, expect_ok: bool }

pub fn run_k04(tier: &str, seed: u64, out: &str) {
    use mir_rust::ToRustIdent;
    silence_panics();
    let mut rep = Report::new("C04", tier, seed);
    let cases = compile_cases("C04", tier, seed, &mut rep, false);
    let tag = format!("k04-{tier}");
    let n = cases.len();
    let mut evals = 0u64;
    let mut nontrivial = 0u64;
    let mut distinct_inst = BTreeSet::new();
    // instances per case, from the document's component schemas that are retained as models
    let insts_of = |c: &EmitCase, em: &Emitted| -> Vec<Inst> {
        let mut v = vec![];
        let Some(comps) = c.doc["components"]["schemas"].as_object() else { return v };
        for (k, s) in comps {
            if !em.hir.schemas.contains_key(k) { continue; }
            let ident = k.to_rust_struct().0;
            for mode in [Mode::All, Mode::RequiredOnly, Mode::Nulls, Mode::Boundary] {
                if let Some(j) = instance(&c.doc, s, mode, &mut vec![k.clone()], 0) {
                    if !v.iter().any(|i: &Inst| i.ty_key == *k && i.json == j) { v.push(Inst { ty_key: k.clone(), ty_ident: ident.clone(), kind: format!("{mode:?}"), json: j, expect_ok: true }); }
                }
            }
            // rejection is asked of generated structs (a typeless schema is carried as an untyped JSON value)
            let is_struct = matches!(em.hir.schemas.get(k), Some(hir::Record::Struct(_))) && s["type"] == serde_json::json!("object");
            if let (true, Some(Value::Object(full))) = (is_struct, instance(&c.doc, s, Mode::All, &mut vec![k.clone()], 0)) {
                for r in rejectable_required(&c.doc, s) {
                    let mut o = full.clone();
                    if o.remove(&r).is_some() { v.push(Inst { ty_key: k.clone(), ty_ident: ident.clone(), kind: format!("without:{r}"), json: Value::Object(o), expect_ok: false }); }
                }
            }
        }
        v
    };
    let probe = |c: &EmitCase, em: &Emitted| -> Vec<(String, String)> {
        let mut idents: Vec<String> = insts_of(c, em).iter().map(|i| i.ty_ident.clone()).collect();
        idents.sort(); idents.dedup();
        let mut src = format!("use {}::model::*;\nfn rt<T: serde::de::DeserializeOwned + serde::Serialize>(j: &str) -> String {{ match serde_json::from_str::<T>(j) {{ Ok(v) => format!(\"ok {{}}\", serde_json::to_string(&v).unwrap()), Err(e) => format!(\"err {{}}\", e.to_string().replace('\\n', \" \")) }} }}\nfn main() {{\n    let mut line = String::new();\n    while {{ line.clear(); std::io::stdin().read_line(&mut line).unwrap() > 0 }} {{\n        let (ty, json) = line.trim_end_matches('\\n').split_once('\\t').unwrap();\n        let out = match ty {{\n", lib_name(c));
        for i in &idents { src.push_str(&format!("            {:?} => rt::<{}>(json),\n", i, i)); }
        src.push_str("            _ => \"unknown-type\".to_string(),\n        };\n        println!(\"{}\", out);\n    }\n}\n");
        vec![("zz_serde_probe".to_string(), src)]
    };
    if let Some(b) = build_all(&tag, cases, &mut rep, true, &probe) {
        let mut jobs: Vec<(usize, Vec<Inst>)> = vec![];
        for (i, c) in b.cases.iter().enumerate() {
            let (Some(r), Some(em)) = (b.results.get(&format!("c{i}")), b.emitted[i].as_ref()) else { continue };
            if !r.lib_errors.is_empty() { rep.bump("skipped_library_does_not_compile"); continue; }
            if let Some(errs) = r.example_errors.get("zz_serde_probe") { rep.oracle_fail("probeDoesNotCompile", vec![], &case_text(c), &errs.first().cloned().unwrap_or_default()); continue; }
            let insts = insts_of(c, em);
            if insts.is_empty() { continue; }
            jobs.push((i, insts));
        }
        let runs: Vec<cratecheck::RunOut> = model::par_map(&jobs, |(i, insts)| {
            let input: String = insts.iter().map(|x| format!("{}\t{}\n", x.ty_ident, serde_json::to_string(&x.json).unwrap())).collect();
            cratecheck::run_example(&b.tag, &format!("c{i}"), "zz_serde_probe", &[], &input, 60)
        });
        // the model on the same instances
        let reqs: Vec<String> = jobs.iter().map(|(i, insts)| {
            let hs = crate::specio::hir_spec(&b.emitted[*i].as_ref().unwrap().hir);
            format!("(serde_rt {hs} (cases{}))", insts.iter().map(|x| format!(" ({} {})", quote(&x.ty_key), json_sexp(&x.json))).collect::<String>())
        }).collect();
        let mods = model::eval(&reqs);
        for (((i, insts), run), m) in jobs.iter().zip(runs.iter()).zip(mods.iter()) {
            let c = &b.cases[*i];
            let lines: Vec<&str> = run.stdout.lines().collect();
            if lines.len() != insts.len() { rep.oracle_fail("probeRunFailed", vec![], &case_text(c), &format!("{} lines for {} instances ({}): {}", lines.len(), insts.len(), run.status, run.stderr.chars().take(300).collect::<String>())); continue; }
            let mres: Vec<crate::sexp::Sexp> = crate::sexp::parse(m).and_then(|s| s.as_list().map(|l| l[1..].to_vec())).unwrap_or_default();
            for (k, (inst, line)) in insts.iter().zip(lines.iter()).enumerate() {
                evals += 1;
                // non-trivial: a distinct (type, instance) pair whose instance is a non-empty object or array
                let nonempty = match &inst.json { Value::Object(o) => !o.is_empty(), Value::Array(a) => !a.is_empty(), _ => false };
                if nonempty && distinct_inst.insert(fnv(&format!("{}{}", inst.ty_key, inst.json))) { nontrivial += 1; }
                rep.bump(&format!("instance:{}", if inst.expect_ok { inst.kind.as_str() } else { "without-required" }));
                let what = format!("{} {} {}", inst.ty_key, inst.kind, serde_json::to_string(&inst.json).unwrap());
                let real: Result<Value, String> = match line.strip_prefix("ok ") { Some(j) => serde_json::from_str(j).map_err(|e| e.to_string()), None => Err(line.to_string()) };
                // oracle, independent of the model
                match (&real, inst.expect_ok) {
                    (Ok(j2), true) => if strip(j2) != strip(&inst.json) { rep.oracle_fail("roundTripDiffers", vec![], &case_text(c), &format!("{what} came back as {}", serde_json::to_string(j2).unwrap())); },
                    (Err(e), true) => {
                        let sch = &c.doc["components"]["schemas"][&inst.ty_key];
                        let mut trig = vec![];
                        if adapter_type_in_container(&c.doc, sch, 0) { trig.push("adapterTypeInsideContainer".to_string()); }
                        if inst.kind == "Nulls" && nullable_in_container(&c.doc, sch, 0) { trig.push("nullableInsideContainer".to_string()); }
                        if inst.kind == "Nulls" && nullable_behind_allof(&c.doc, sch, 0) { trig.push("nullableBehindAllOfWrapper".to_string()); }
                        rep.oracle_fail("validInstanceRejected", trig, &case_text(c), &format!("{what}: {e}"))
                    }
                    (Ok(j2), false) => rep.oracle_fail("missingRequiredAccepted", vec![], &case_text(c), &format!("{what} was accepted and printed as {}", serde_json::to_string(j2).unwrap())),
                    (Err(_), false) => {}
                }
                // correspondence with the Lean serde semantics
                let model: Option<Result<Value, String>> = mres.get(k).and_then(|s| { let l = s.as_list()?; match l.first()?.as_atom()? { "ok" => sexp_json(l.get(1)?).map(Ok), "err" => Some(Err(l.get(1)?.as_atom()?.to_string())), _ => None } });
                match (&real, &model) {
                    (_, Some(Err(e))) if e == "unmodelled" => rep.bump("model_declines_unmodelled"),
                    (Ok(a), Some(Ok(b2))) => if strip_nums(a) != strip_nums(b2) { rep.disagree(&format!("{} {what}", case_text(c)), &serde_json::to_string(a).unwrap(), &serde_json::to_string(b2).unwrap()); },
                    (Err(_), Some(Err(_))) => {}
                    (a, b2) => rep.disagree(&format!("{} {what}", case_text(c)), &format!("{a:?}").chars().take(400).collect::<String>(), &format!("{b2:?}").chars().take(400).collect::<String>()),
                }
            }
        }
    }
    cratecheck::cleanup(&tag);
    rep.evaluations = evals;
    rep.distinct_nontrivial = nontrivial;
    rep.rule = format!("{n} generated crates built with a probe program; for every retained component schema, instances synthesised from the OpenAPI schema itself (all properties, required only, nulls for nullable, boundary strings / numbers, and one instance per rejectable required member with that member removed) go through serde_json::from_str / to_string on the compiled model; the result is judged against the instance (equal up to omitted null / empty-array members; removed required member rejected) and compared with the Lean serde semantics on the same instance. Non-trivial = distinct (type, instance) pairs whose instance is a non-empty object or array");
    rep.write(out);
}

/// numbers by value (1 and 1.0 are the same JSON number), objects unordered
fn strip_nums(v: &Value) -> Value {
    match v {
        Value::Object(o) => Value::Object(o.iter().map(|(k, x)| (k.clone(), strip_nums(x))).collect()),
        Value::Array(a) => Value::Array(a.iter().map(strip_nums).collect()),
        Value::Number(n) => n.as_f64().and_then(|f| if f.fract() == 0.0 && f.abs() < 9e15 { Some(serde_json::json!(f as i64)) } else { None }).unwrap_or_else(|| v.clone()),
        _ => v.clone(),
    }
}

// ---- K14 / K15: the generated client, executed -----------------------------------------------------

/// Builds the crates with their examples, runs every example of a crate whose library compiles against the
/// recording client and hands each recorded request to `judge`.
fn run_examples_and_judge(prop: &str, tier: &str, seed: u64, out: &str, rule: &str, judge: &dyn Fn(&mut Report, &EmitCase, &Emitted, &hir::Operation, &Value, &[(String, String)])) {
    silence_panics();
    let mut rep = Report::new(prop, tier, seed);
    let cases = compile_cases(prop, tier, seed, &mut rep, true);
    let tag = format!("k{}-{tier}", &prop[1..]);
    let n = cases.len();
    let mut evals = 0u64;
    let mut nontrivial = 0u64;
    let mut distinct = BTreeSet::new();
    if let Some(b) = build_all(&tag, cases, &mut rep, true, &|_, _| vec![]) {
        let mut jobs: Vec<(usize, String)> = vec![];
        for (i, _c) in b.cases.iter().enumerate() {
            let (Some(r), Some(em)) = (b.results.get(&format!("c{i}")), b.emitted[i].as_ref()) else { continue };
            if !r.lib_errors.is_empty() { rep.bump("skipped_library_does_not_compile"); continue; }
            let examples: BTreeSet<String> = cratecheck::example_stems(&em.tree).into_iter().collect();
            for e in &r.built_examples { if examples.contains(e) { jobs.push((i, e.clone())); } }
        }
        let env_of = |em: &Emitted| -> Vec<(String, String)> {
            let lib = String::from_utf8_lossy(em.tree.get("src/lib.rs").map(|x| &x[..]).unwrap_or(b"")).to_string();
            cratecheck::env_vars_of(&lib).into_iter().map(|k| { let v = if k.ends_with("_ENV") { "production".to_string() } else if k.ends_with("BASE_URL") { "https://base.example".to_string() } else { format!("env-{k}") }; (k, v) }).collect()
        };
        let runs: Vec<cratecheck::RunOut> = model::par_map(&jobs, |(i, e)| cratecheck::run_example(&b.tag, &format!("c{i}"), e, &env_of(b.emitted[*i].as_ref().unwrap()), "", 20));
        for ((i, e), run) in jobs.iter().zip(runs.iter()) {
            let c = &b.cases[*i];
            let em = b.emitted[*i].as_ref().unwrap();
            let Some(op) = em.hir.operations.iter().find(|o| mir_rust::sanitize_filename(&o.file_name()) == *e) else { continue };
            let reqs: Vec<Value> = run.stdout.lines().filter_map(|l| l.strip_prefix("REQUEST ")).filter_map(|l| serde_json::from_str(l).ok()).collect();
            if reqs.len() != 1 { rep.bump("examples_without_exactly_one_request(C16)"); continue; }
            evals += 1;
            // non-trivial: a distinct recorded request (method, URL, credential-bearing parts) of a document that declares servers or security
            let interesting = c.doc.get("servers").and_then(|s| s.as_array()).map(|a| !a.is_empty()).unwrap_or(false) || c.doc["components"].get("securitySchemes").is_some();
            if interesting && distinct.insert(fnv(&format!("{}{}", serde_json::to_string(&c.doc["servers"]).unwrap_or_default(), reqs[0]))) { nontrivial += 1; }
            judge(&mut rep, c, em, op, &reqs[0], &env_of(em));
        }
    }
    cratecheck::cleanup(&tag);
    rep.evaluations = evals;
    rep.distinct_nontrivial = nontrivial;
    rep.rule = format!("{n} generated crates built with their examples against the stand-ins; every example of a crate whose library compiles is run once against the recording client (credentials and server selection supplied through the environment variables the generated lib.rs reads); {rule}. Non-trivial = distinct recorded requests of documents that declare servers or security schemes");
    rep.write(out);
}

fn kv_has(list: &Value, key: &str, pred: &dyn Fn(&str) -> bool) -> bool {
    list.as_array().map(|a| a.iter().any(|kv| kv[0].as_str() == Some(key) && kv[1].as_str().map(pred).unwrap_or(false))).unwrap_or(false)
}

pub fn run_k14(tier: &str, seed: u64, out: &str) {
    run_examples_and_judge("C14", tier, seed, out, "the recorded request must carry a credential taken from the environment in the place one of the document's security schemes names (header / query / cookie of that exact name, `Authorization: Bearer ..`), and none when the document declares no security", &|rep, c, _em, op, req, env| {
        let case = case_text(c);
        let from_env = |v: &str| env.iter().any(|(_, val)| val.starts_with("env-") && v.contains(val.as_str()));
        let schemes = c.doc["components"]["securitySchemes"].as_object().cloned().unwrap_or_default();
        let secured = c.doc.get("security").and_then(|s| s.as_array()).map(|a| !a.is_empty()).unwrap_or(false) && !schemes.is_empty();
        if !secured {
            let leaked = ["headers", "query", "cookies"].iter().any(|k| req[*k].as_array().map(|a| a.iter().any(|kv| kv[1].as_str().map(|v| v.contains("env-")).unwrap_or(false))).unwrap_or(false));
            if leaked { rep.oracle_fail("credentialWithoutScheme", vec![], &case, &format!("{} {}: {}", op.method, op.path, req)); } else { rep.bump("k14_unsecured_ok"); }
            return;
        }
        // the examples build their client with from_env(), which takes the first declared requirement: when that is the empty
        // requirement the call is anonymous by the document's own choice
        if c.doc["security"].as_array().and_then(|a| a.first()).and_then(|r| r.as_object()).map(|o| o.is_empty()).unwrap_or(false) { rep.bump("k14_first_requirement_is_anonymous"); return; }
        // D: apiKey (header / query / cookie), http bearer / basic, oauth2
        if schemes.values().any(|s| s["type"] == serde_json::json!("http") && !matches!(s["scheme"].as_str().map(|x| x.to_lowercase()).as_deref(), Some("bearer") | Some("basic"))) { rep.bump("k14_outside_D_http_scheme"); return; }
        let mut satisfied = false;
        let mut basic = false;
        for (_, s) in &schemes {
            let ok = match (s["type"].as_str(), s["in"].as_str(), s["scheme"].as_str().map(|x| x.to_lowercase())) {
                // an api key in a header that is itself called `bearer` / `bearer_auth` is the Authorization bearer token (C14's extraction oracle reads it the same way)
                (Some("apiKey"), Some("header"), _) if ["bearer", "bearer_auth"].contains(&s["name"].as_str().unwrap_or("").to_case(Case::Snake).as_str()) => kv_has(&req["headers"], "Authorization", &|v| v.starts_with("Bearer ") && from_env(v)),
                (Some("apiKey"), Some("header"), _) => kv_has(&req["headers"], s["name"].as_str().unwrap_or(""), &from_env),
                (Some("apiKey"), Some("query"), _) => kv_has(&req["query"], s["name"].as_str().unwrap_or(""), &from_env),
                (Some("apiKey"), Some("cookie"), _) => kv_has(&req["cookies"], s["name"].as_str().unwrap_or(""), &from_env),
                (Some("http"), _, Some(sch)) if sch == "bearer" => kv_has(&req["headers"], "Authorization", &|v| v.starts_with("Bearer ") && from_env(v)),
                (Some("http"), _, Some(sch)) if sch == "basic" => { basic = true; kv_has(&req["headers"], "Authorization", &|v| v.starts_with("Basic ")) }
                (Some("oauth2"), _, _) => kv_has(&req["headers"], "Authorization", &|v| v.starts_with("Bearer ") && from_env(v)),
                _ => false,
            };
            if ok { satisfied = true; }
        }
        if satisfied { rep.bump("k14_credential_placed"); }
        // the recorded behaviour for http basic: the credential goes out as a bearer token
        else { rep.oracle_fail("credentialNotSent", if basic && kv_has(&req["headers"], "Authorization", &|v| v.starts_with("Bearer ") && from_env(v)) { vec!["httpBasicScheme".to_string()] } else { vec![] }, &case, &format!("{} {}: no security scheme of the document is honoured by the request {}", op.method, op.path, req)); }
    });
}

pub fn run_k15(tier: &str, seed: u64, out: &str) {
    run_examples_and_judge("C15", tier, seed, out, "the URL of the recorded request must start with the document's only server URL, with the URL given in <SERVICE>_BASE_URL when the document has no server, or with the URL of the server whose description names the environment selected through <SERVICE>_ENV", &|rep, c, _em, op, req, _env| {
        let case = case_text(c);
        let url = req["url"].as_str().unwrap_or("");
        let servers: Vec<(String, String)> = c.doc["servers"].as_array().map(|a| a.iter().map(|s| (s["url"].as_str().unwrap_or("").to_string(), s["description"].as_str().unwrap_or("").to_lowercase())).collect()).unwrap_or_default();
        // several servers: the base URL is whatever <SERVICE>_ENV holds (the run sets it to `production`)
        let mut trig = vec![];
        let expect: Option<String> = match servers.len() {
            0 => Some("https://base.example".to_string()),
            1 => Some(servers[0].0.clone()),
            _ => {
                let kws = ["beta", "production", "development", "sandbox"];
                let named: Vec<Option<&str>> = servers.iter().map(|(_, d)| kws.iter().find(|k| d.contains(**k)).cloned()).collect();
                if named.iter().any(|n| n.is_none()) { if url.starts_with("https://base.example") { trig.push("serversWithoutKeywords".to_string()); } }
                else { let mut v: Vec<&str> = named.iter().flatten().cloned().collect(); v.sort(); let n = v.len(); v.dedup(); if v.len() != n { trig.push("serversSharingKeyword".to_string()); } }
                Some("production".to_string())
            }
        };
        let Some(base) = expect else { return };
        if url.starts_with(&base) && path_matches(&op.path, &url[base.len()..]) { rep.bump("k15_base_url_ok"); }
        else { rep.oracle_fail("wrongBaseUrl", trig, &case, &format!("{} {}: requested {url}, expected {base} followed by the operation path", op.method, op.path)); }
    });
}

// ---- K03: every operation executed with all inputs and with the required inputs only --------------------

/// the generated example with its chain of optional setters removed: `client.op(required..).await.unwrap()`
fn required_only_variant(src: &str) -> Option<String> {
    use quote::ToTokens;
    let mut file = syn::parse_file(src).ok()?;
    fn strip(e: &mut syn::Expr) {
        match e {
            syn::Expr::MethodCall(m) => {
                // `.unwrap()` / setters sit on top of `.await` or of another call; keep only the call whose receiver is the bare `client`
                strip(&mut m.receiver);
                let inner_is_client = matches!(&*m.receiver, syn::Expr::Path(_));
                let is_unwrap = m.method == "unwrap";
                if !inner_is_client && !is_unwrap { *e = (*m.receiver).clone(); }
            }
            syn::Expr::Await(a) => strip(&mut a.base),
            _ => {}
        }
    }
    for item in file.items.iter_mut() {
        if let syn::Item::Fn(f) = item {
            if f.sig.ident != "main" { continue; }
            for st in f.block.stmts.iter_mut() {
                if let syn::Stmt::Local(l) = st {
                    if l.pat.to_token_stream().to_string() == "response" { if let Some(init) = l.init.as_mut() { strip(&mut init.expr); } }
                }
            }
        }
    }
    Some(file.to_token_stream().to_string())
}

pub fn run_k03(tier: &str, seed: u64, out: &str) {
    silence_panics();
    let mut rep = Report::new("C03", tier, seed);
    let cases = compile_cases("C03", tier, seed, &mut rep, true);
    let tag = format!("k03-{tier}");
    let n = cases.len();
    let mut evals = 0u64;
    let mut nontrivial = 0u64;
    let mut distinct = BTreeSet::new();
    let extra = |_c: &EmitCase, em: &Emitted| -> Vec<(String, String)> {
        em.tree.iter().filter_map(|(p, b)| { let stem = p.strip_prefix("examples/")?.strip_suffix(".rs")?; required_only_variant(&String::from_utf8_lossy(b)).map(|s| (format!("{stem}__required_only"), s)) }).collect()
    };
    if let Some(b) = build_all(&tag, cases, &mut rep, true, &extra) {
        let mut jobs: Vec<(usize, String, bool)> = vec![];
        for (i, _c) in b.cases.iter().enumerate() {
            let (Some(r), Some(_em)) = (b.results.get(&format!("c{i}")), b.emitted[i].as_ref()) else { continue };
            if !r.lib_errors.is_empty() { rep.bump("skipped_library_does_not_compile"); continue; }
            for e in &r.built_examples { jobs.push((i, e.clone(), e.ends_with("__required_only"))); }
        }
        let runs: Vec<cratecheck::RunOut> = model::par_map(&jobs, |(i, e, _)| {
            let em = b.emitted[*i].as_ref().unwrap();
            let lib = String::from_utf8_lossy(em.tree.get("src/lib.rs").map(|x| &x[..]).unwrap_or(b"")).to_string();
            let env: Vec<(String, String)> = cratecheck::env_vars_of(&lib).into_iter().map(|k| { let v = if k.ends_with("_ENV") { "production".to_string() } else if k.ends_with("BASE_URL") { "https://base.example".to_string() } else { format!("env-{k}") }; (k, v) }).collect();
            cratecheck::run_example(&b.tag, &format!("c{i}"), e, &env, "", 20)
        });
        for ((i, e, required_only), run) in jobs.iter().zip(runs.iter()) {
            let c = &b.cases[*i];
            let em = b.emitted[*i].as_ref().unwrap();
            let stem = e.strip_suffix("__required_only").unwrap_or(e);
            let Some(op) = em.hir.operations.iter().find(|o| mir_rust::sanitize_filename(&o.file_name()) == stem) else { continue };
            let reqs: Vec<Value> = run.stdout.lines().filter_map(|l| l.strip_prefix("REQUEST ")).filter_map(|l| serde_json::from_str(l).ok()).collect();
            if reqs.len() != 1 { rep.bump("runs_without_exactly_one_request(C16)"); continue; }
            evals += 1;
            if distinct.insert(fnv(&format!("{}{}", reqs[0], required_only))) && !op.parameters.is_empty() { nontrivial += 1; }
            judge_request(&mut rep, c, op, &reqs[0], *required_only);
        }
    }
    cratecheck::cleanup(&tag);
    rep.evaluations = evals;
    rep.distinct_nontrivial = nontrivial;
    rep.rule = format!("{n} generated crates built with their examples and, for every example, a variant with the chain of optional setters removed; each program is run against the recording client. The recorded request must have the operation's verb and path (placeholders filled), carry every supplied input at its declared location under its exact name, and - in the required-only variant - carry no optional input at all. Non-trivial = distinct recorded requests of operations that have inputs");
    rep.write(out);
}

fn judge_request(rep: &mut Report, c: &EmitCase, op: &hir::Operation, r: &Value, required_only: bool) {
    let case = case_text(c);
    let which = if required_only { "required inputs only" } else { "all inputs" };
    let url = r["url"].as_str().unwrap_or("");
    let path = url.find("://").map(|i| &url[i + 3..]).map(|x| x.find('/').map(|j| &x[j..]).unwrap_or("")).unwrap_or(url);
    let ok_path = (0..=path.len()).filter(|i| path.is_char_boundary(*i)).any(|i| path_matches(&op.path, &path[i..]));
    if r["method"].as_str().unwrap_or("") != op.method.to_uppercase() || !ok_path {
        rep.oracle_fail("wrongTarget", vec![], &case, &format!("({which}) requested {} {} for operation {} {}", r["method"], url, op.method, op.path));
    }
    let Ok(spec) = crate::pipeline::parse_spec(&serde_json::to_string(&c.doc).unwrap(), true) else { return };
    let Some(declared) = spec.operations().find(|(p, m, _, _)| *p == op.path && *m == op.method).and_then(|(_, _, o, item)| crate::hirprops::declared_inputs(&spec, o, item)) else { return };
    let fold = |s: &str| s.chars().filter(|c| c.is_ascii_alphanumeric()).collect::<String>().to_lowercase();
    if declared.iter().enumerate().any(|(i, (n, l, _))| declared.iter().skip(i + 1).any(|(m, k, _)| fold(n) == fold(m) && (n != m || (l == "body") == (k == "body")))) { rep.bump("operations_outside_D_input_names_clash"); return; }
    let empty = vec![];
    // a non-object body travels as one input called `body` (recorded finding: it is wrapped in an object)
    let wrapped_body = declared.iter().any(|(n, l, _)| n == "body" && l == "body") && !op.parameters.iter().any(|p| p.location != hir::Location::Body && p.name == "body");
    for (name, loc, required) in &declared {
        let has = |list: &Value, n: &str| list.as_array().unwrap_or(&empty).iter().any(|kv| kv[0].as_str() == Some(n) || kv[0].as_str() == Some(&format!("{n}[]")));
        let present = match loc.as_str() {
            "query" => has(&r["query"], name),
            "header" => has(&r["headers"], name),
            "cookie" => has(&r["cookies"], name),
            "body" => r["body"].get(name).is_some(),
            _ => continue,
        };
        let shadow = loc == "body" && declared.iter().any(|(m, k, _)| m == name && k != "body");
        if shadow { continue; } // recorded under C05 / C03's emit stage
        let expected = *required || !required_only;
        if present != expected {
            let trig = if wrapped_body && name == "body" { vec!["wrappedBody".to_string()] } else { vec![] };
            rep.oracle_fail(if expected { "inputNotSent" } else { "unsetOptionalSent" }, trig, &case, &format!("({which}) {} {}: {loc} input {name} (required: {required}) is {} the request {}", op.method, op.path, if present { "in" } else { "missing from" }, r));
        }
    }
    rep.bump(if required_only { "k03_required_only_runs" } else { "k03_all_inputs_runs" });
}
