//! Stages that compile (and run) generated crates: K02 (`cargo check --lib`), K16 (examples compile, run,
//! and produce one request to their operation), K04 (compiled models against instances synthesised from the schema).
//! These validate the semantic halves of the Lean model (`RustWf`, example summaries, `Serde`) against rustc,
//! serde and the recording stand-in client; they are support for the theorems, never a substitute.
use crate::cratecheck::{self, Member};
use crate::emitprops::{gen_cases, run_real, EmitCase, Emitted};
use crate::model;
use crate::report::Report;
use crate::sexp::quote;
use crate::util::*;
use convert_case::{Case, Casing};
use serde_json::Value;
use std::collections::{BTreeMap, BTreeSet};

fn case_text(c: &EmitCase) -> String { format!("(case {} (doc {}))", c.label, quote(&serde_json::to_string(&c.doc).unwrap_or_default().chars().take(6000).collect::<String>())) }

pub fn lib_name(c: &EmitCase) -> String { c.cfg.name.to_case(Case::Pascal).to_case(Case::Snake) }

/// does a recorded C02 finding apply to this document (so that its crate is known not to compile)?
pub fn known_compile_triggers(h: &hir::HirSpec) -> Vec<&'static str> {
    let mut t = vec![];
    if h.operations.iter().any(op_has_duplicate_idents) { t.push("duplicateInputIdent"); }
    if h.operations.iter().any(|o| op_has_non_display_parameter(h, o)) { t.push("nonDisplayParameter"); }
    if !directly_recursive_models(h).is_empty() { t.push("directRecursiveModel"); }
    if !shadowing_models(h).is_empty() { t.push("schemaNameShadowsPrelude"); }
    if h.schemas.values().any(flatten_field_clash) { t.push("flattenFieldNameClash"); }
    if h.operations.iter().any(op_url_ident_mismatch) { t.push("urlPlaceholderIdentMismatch"); }
    t
}

pub fn flatten_field_clash(r: &hir::Record) -> bool {
    use mir_rust::ToRustIdent;
    let hir::Record::Struct(s) = r else { return false };
    let ids: Vec<(String, bool)> = s.fields.iter().map(|(n, f)| (n.to_rust_ident().0, f.flatten)).collect();
    ids.iter().enumerate().any(|(i, (a, fa))| ids.iter().skip(i + 1).any(|(b, fb)| a == b && (*fa || *fb)))
}

pub fn op_url_ident_mismatch(o: &hir::Operation) -> bool {
    use mir_rust::ToRustIdent;
    o.parameters.iter().any(|p| p.location == hir::Location::Path && p.name.to_case(Case::Snake) != p.name.to_rust_ident().0)
}

/// the cases of a compile stage: the bundled and corpus documents plus `n` generated ones; documents to which a
/// recorded compile finding applies are kept to about a fifth, so that most crates are judged by rustc in full
pub fn compile_cases(prop: &str, tier: &str, seed: u64, rep: &mut Report, force_examples: bool) -> Vec<EmitCase> {
    let all = gen_cases(prop, tier, seed, rep);
    let n_gen = if tier == "thorough" { 160 } else { 20 };
    // cases on which the emit stage found model and implementation to differ are compiled first
    let focus: Vec<String> = std::fs::read_to_string(crate::pipeline::scratch_root().join(format!("focus-{prop}.json"))).ok().and_then(|t| serde_json::from_str(&t).ok()).unwrap_or_default();
    let mut n_focus = 0usize;
    let mut out = vec![];
    let (mut g, mut triggered) = (0usize, 0usize);
    for mut c in all {
        let generated = c.label.starts_with("(generated");
        let focused = focus.contains(&c.label) && n_focus < 30;
        if focused { n_focus += 1; rep.bump("cases_taken_from_correspondence_disagreements"); }
        if generated && g >= n_gen && !focused { continue; }
        // derives are the subject of C18; a derive that names an unavailable crate cannot compile by construction
        c.cfg.derives.retain(|d| ["PartialEq"].contains(&d.trim()));
        c.cfg.derives.dedup();
        if outside_d_paths(&c.doc) { rep.bump("skipped_outside_D_path_parameters"); continue; }
        if generated {
            let known = crate::pipeline::parse_spec(&serde_json::to_string(&c.doc).unwrap(), true).ok().and_then(|s| crate::extract::real_extract(&s).ok()).map(|h| !known_compile_triggers(&h).is_empty()).unwrap_or(false);
            if known && !focused { if triggered * 4 > g { continue; } triggered += 1; rep.bump("cases_with_a_recorded_compile_finding"); }
            g += 1;
        }
        if force_examples { c.cfg.examples = true; }
        out.push(c);
    }
    out
}

pub struct Built { pub cases: Vec<EmitCase>, pub emitted: Vec<Option<Emitted>>, pub results: BTreeMap<String, cratecheck::MemberResult>, pub tag: String }

pub fn build_all(tag: &str, cases: Vec<EmitCase>, rep: &mut Report, build_examples: bool, extra: &dyn Fn(&EmitCase, &Emitted) -> Vec<(String, String)>) -> Option<Built> {
    let reals: Vec<Result<Emitted, String>> = model::par_map(&cases, |c| match crate::pipeline::generation_survives(&serde_json::to_string(&c.doc).unwrap(), &c.cfg, 60) { Ok(()) => run_real(c), Err(e) => Err(format!("crash: {e}")) });
    let mut members = vec![];
    let mut emitted = vec![];
    for (i, (c, r)) in cases.iter().zip(reals.into_iter()).enumerate() {
        match r {
            Ok(em) => {
                members.push(Member { pkg: format!("c{i}"), lib: lib_name(c), tree: em.tree.clone(), extra_examples: extra(c, &em) });
                emitted.push(Some(em));
            }
            Err(e) if e.starts_with("crash: ") => { rep.oracle_fail("generatorCrashed", crate::totality::crash_triggers(&c.doc), &case_text(c), &e); emitted.push(None); }
            Err(e) => { rep.oracle_fail("generationFailed", vec![], &case_text(c), &e); emitted.push(None); }
        }
    }
    match cratecheck::build(tag, &members, build_examples) {
        Ok((_ws, results)) => Some(Built { cases, emitted, results, tag: tag.to_string() }),
        Err(e) => { rep.oracle_fail("workspaceBuildFailed", vec![], "(workspace)", &e); None }
    }
}

// ---- K02 -------------------------------------------------------------------------------------------

pub fn run_k02(tier: &str, seed: u64, out: &str) {
    silence_panics();
    let mut rep = Report::new("C02", tier, seed);
    let cases = compile_cases("C02", tier, seed, &mut rep, false);
    let tag = format!("k02-{tier}");
    let n = cases.len();
    if let Some(b) = build_all(&tag, cases, &mut rep, false, &|_, _| vec![]) {
        for (i, c) in b.cases.iter().enumerate() {
            let Some(r) = b.results.get(&format!("c{i}")) else { continue };
            if b.emitted[i].is_none() { continue; }
            rep.bump("crates_checked");
            for f in &c.features { rep.bump(&format!("feature:{f}")); }
            if !r.lib_errors.is_empty() {
                rep.bump("crates_rejected");
                let mut seen = BTreeSet::new();
                for e in &r.lib_errors {
                    let (tag, trig) = classify_lib_error(e, c, b.emitted[i].as_ref().unwrap());
                    if seen.insert((tag.clone(), trig.clone())) { rep.oracle_fail(&tag, trig, &case_text(c), e); }
                }
            }
        }
    }
    cratecheck::cleanup(&tag);
    rep.evaluations = n as u64;
    rep.distinct_nontrivial = *rep.histogram.get("crates_checked").unwrap_or(&0);
    rep.rule = format!("{n} generated crates (bundled, corpus and structured random documents in D; service names from several spellings) type-checked with `cargo check --lib` against the stand-in dependencies and the real serde, serde_json, chrono; every rustc error is a failure");
    rep.write(out);
}

pub const PRELUDE_NAMES: &[&str] = &["Option", "Vec", "Box", "String", "Some", "None", "Ok", "Err", "Result", "Default", "Clone", "Debug", "Serialize", "Deserialize", "Self", "Send", "Sync", "Sized", "Drop", "Fn", "Iterator", "ToString", "From", "Into"];

fn record_of<'a>(h: &'a hir::HirSpec, n: &str) -> Option<&'a hir::Record> { h.schemas.get(n) }

/// has the Rust type of `ty` a `Display` implementation (what `.to_string()` and `format!("{}")` need)?
pub fn displayable(h: &hir::HirSpec, ty: &mir::Ty, depth: usize) -> bool {
    use mir::Ty;
    match ty {
        Ty::String | Ty::Integer { .. } | Ty::Float | Ty::Boolean | Ty::Date { .. } | Ty::DateTime | Ty::Currency { .. } | Ty::Any(_) => true,
        Ty::Array(_) | Ty::HashMap(_) | Ty::Unit => false,
        Ty::Model(n) => match record_of(h, n) {
            Some(hir::Record::Struct(_)) => true,
            Some(hir::Record::TypeAlias(_, f)) => depth < 16 && !f.optional && displayable(h, &f.ty, depth + 1),
            _ => false,
        },
    }
}

pub fn op_has_non_display_parameter(h: &hir::HirSpec, o: &hir::Operation) -> bool {
    o.parameters.iter().any(|p| p.location != hir::Location::Body && !displayable(h, p.ty.inner_iterable().unwrap_or(&p.ty), 0))
}

pub fn op_has_duplicate_idents(o: &hir::Operation) -> bool {
    use mir_rust::ToRustIdent;
    let mut ids: Vec<String> = o.parameters.iter().map(|p| p.name.to_rust_ident().0).collect();
    ids.sort();
    let n = ids.len();
    ids.dedup();
    ids.len() != n
}

/// models that contain themselves by value (through plain or `Option` fields, newtype members and aliases)
pub fn directly_recursive_models(h: &hir::HirSpec) -> BTreeSet<String> {
    let mut edges: BTreeMap<String, Vec<String>> = BTreeMap::new();
    for (n, r) in &h.schemas {
        let tys: Vec<&mir::Ty> = match r {
            hir::Record::Struct(s) => s.fields.values().map(|f| &f.ty).collect(),
            hir::Record::NewType(t) => t.fields.iter().map(|f| &f.ty).collect(),
            hir::Record::TypeAlias(_, f) => vec![&f.ty],
            hir::Record::Enum(_) => vec![],
        };
        edges.insert(n.clone(), tys.into_iter().filter_map(|t| if let mir::Ty::Model(m) = t { Some(m.clone()) } else { None }).collect());
    }
    let mut out = BTreeSet::new();
    for start in edges.keys() {
        let mut seen = BTreeSet::new();
        let mut stack: Vec<&String> = edges[start].iter().collect();
        while let Some(x) = stack.pop() {
            if x == start { out.insert(start.clone()); break; }
            if seen.insert(x.clone()) { if let Some(e) = edges.get(x) { stack.extend(e.iter()); } }
        }
    }
    out
}

pub fn shadowing_models(h: &hir::HirSpec) -> Vec<String> {
    use mir_rust::ToRustIdent;
    h.schemas.keys().map(|n| n.to_rust_struct().0).filter(|i| PRELUDE_NAMES.contains(&i.as_str())).collect()
}

/// path parameters without a placeholder (or the reverse) put the document outside D
pub fn outside_d_paths(doc: &Value) -> bool {
    let Some(paths) = doc["paths"].as_object() else { return false };
    for (path, item) in paths {
        let placeholders: BTreeSet<String> = regex::Regex::new(r"\{([^}]*)\}").unwrap().captures_iter(path).map(|c| c[1].to_string()).collect();
        let item_params: Vec<&Value> = item["parameters"].as_array().map(|a| a.iter().collect()).unwrap_or_default();
        for m in ["get", "put", "post", "delete", "options", "head", "patch", "trace"] {
            let Some(op) = item.get(m) else { continue };
            let mut names = BTreeSet::new();
            for p in op["parameters"].as_array().map(|a| a.iter().collect::<Vec<_>>()).unwrap_or_default().into_iter().chain(item_params.iter().cloned()) {
                let p = if let Some(r) = p["$ref"].as_str() { &doc["components"]["parameters"][r.rsplit('/').next().unwrap_or("")] } else { p };
                if p["in"] == "path" { if let Some(n) = p["name"].as_str() { names.insert(n.to_string()); } }
            }
            if names != placeholders { return true; }
        }
    }
    false
}

/// the clause of the well-formedness judgement a rustc error belongs to, and the trigger predicates of
/// recorded findings that hold for the file the error is in
fn classify_lib_error(e: &str, _c: &EmitCase, em: &Emitted) -> (String, Vec<String>) {
    let first = e.lines().next().unwrap_or("");
    let code = first.split('[').nth(1).and_then(|x| x.split(']').next()).unwrap_or("");
    let tag = match code {
        "E0412" | "E0425" | "E0433" | "E0432" | "E0405" | "E0531" | "E0422" => "unresolvedName",
        "E0428" | "E0124" | "E0415" | "E0416" | "E0592" | "E0201" | "E0119" | "E0062" => "definedTwice",
        "E0277" => "traitBoundUnmet",
        "E0308" => "mismatchedTypes",
        "E0392" | "E0261" | "E0106" | "E0107" => "lifetimeOrGenerics",
        "E0583" => "moduleWithoutFile",
        "E0560" | "E0559" | "E0063" | "E0609" | "E0599" | "E0061" => "memberMismatch",
        "E0072" | "E0391" => "recursiveType",
        _ => "rustcError",
    };
    let mut trig = vec![];
    // the operation whose request file the error is in
    let file_op = regex::Regex::new(r"--> c\d+/src/request/([A-Za-z0-9_]+)\.rs").unwrap().captures(e).map(|c| c[1].to_string())
        .and_then(|stem| em.hir.operations.iter().find(|o| mir_rust::sanitize_filename(&o.file_name()) == stem));
    if let Some(o) = file_op {
        if op_has_duplicate_idents(o) { trig.push("duplicateInputIdent".to_string()); }
        if (e.contains("to_string") || e.contains("Display")) && op_has_non_display_parameter(&em.hir, o) { trig.push("nonDisplayParameter".to_string()); }
    }
    if (tag == "recursiveType" || e.contains("recursion limit") || e.contains("infinite size")) && !directly_recursive_models(&em.hir).is_empty() { trig.push("directRecursiveModel".to_string()); }
    if let Some(stem) = regex::Regex::new(r"--> c\d+/src/model/([A-Za-z0-9_]+)\.rs").unwrap().captures(e).map(|c| c[1].to_string()) {
        use mir_rust::ToRustIdent;
        if em.hir.schemas.iter().any(|(n, r)| mir_rust::sanitize_filename(n) == stem && flatten_field_clash(r)) { trig.push("flattenFieldNameClash".to_string()); }
        let _ = "x".to_rust_ident();
    }
    for n in shadowing_models(&em.hir) {
        if regex::Regex::new(&format!(r"\b{}\b", regex::escape(&n))).unwrap().is_match(e) { trig.push("schemaNameShadowsPrelude".to_string()); break; }
    }
    if let Some(o) = file_op {
        if op_url_ident_mismatch(o) && (e.contains("named argument never used") || e.contains("there is no argument named") || e.contains("invalid format string")) { trig.push("urlPlaceholderIdentMismatch".to_string()); }
    }
    (format!("rustc:{tag}:{code}"), trig)
}

// ---- K16 -------------------------------------------------------------------------------------------

pub fn run_k16(tier: &str, seed: u64, out: &str) {
    silence_panics();
    let mut rep = Report::new("C16", tier, seed);
    let cases = compile_cases("C16", tier, seed, &mut rep, true);
    let tag = format!("k16-{tier}");
    let n = cases.len();
    let mut evals = 0u64;
    if let Some(b) = build_all(&tag, cases, &mut rep, true, &|_, _| vec![]) {
        let mut jobs: Vec<(usize, String)> = vec![];
        for (i, c) in b.cases.iter().enumerate() {
            let (Some(r), Some(em)) = (b.results.get(&format!("c{i}")), b.emitted[i].as_ref()) else { continue };
            // one example per operation, named like the operation's request module
            let examples: BTreeSet<String> = cratecheck::example_stems(&em.tree).into_iter().collect();
            let requests: BTreeSet<String> = em.tree.keys().filter_map(|p| p.strip_prefix("src/request/").and_then(|x| x.strip_suffix(".rs"))).filter(|x| *x != "mod").map(|x| x.to_string()).collect();
            rep.add("operations", em.hir.operations.len() as u64);
            if examples != requests || examples.len() != em.hir.operations.len() {
                let trig = if requests.len() != em.hir.operations.len() { vec!["synthNameCollision".to_string()] } else { vec![] };
                rep.oracle_fail("exampleSetMismatch", trig, &case_text(c), &format!("examples {:?} vs request modules {:?} for {} operations", examples, requests, em.hir.operations.len()));
            }
            if !r.lib_errors.is_empty() { rep.bump("skipped_library_does_not_compile"); continue; }   // quantifier: specs whose library compiles
            rep.bump("crates_with_compiling_library");
            for (e, errs) in &r.example_errors {
                use mir_rust::ToRustIdent;
                let op = em.hir.operations.iter().find(|o| mir_rust::sanitize_filename(&o.file_name()) == *e);
                let shadows = op.map(|o| o.parameters.iter().any(|p| !p.optional && p.name.to_rust_ident().0 == "client")).unwrap_or(false);
                rep.oracle_fail("exampleDoesNotCompile", if shadows { vec!["requiredInputNamedClient".to_string()] } else { vec![] }, &case_text(c), &format!("examples/{e}.rs: {}", errs.first().cloned().unwrap_or_default()));
            }
            for e in &r.built_examples { if examples.contains(e) { jobs.push((i, e.clone())); } }
            for e in &examples { if !r.built_examples.contains(e) && !r.example_errors.contains_key(e) { rep.oracle_fail("exampleNotBuilt", vec![], &case_text(c), e); } }
        }
        let runs: Vec<cratecheck::RunOut> = model::par_map(&jobs, |(i, e)| {
            let em = b.emitted[*i].as_ref().unwrap();
            let lib = String::from_utf8_lossy(em.tree.get("src/lib.rs").map(|x| &x[..]).unwrap_or(b"")).to_string();
            let env: Vec<(String, String)> = cratecheck::env_vars_of(&lib).into_iter().map(|k| { let v = if k.ends_with("_ENV") { "production".to_string() } else if k.ends_with("BASE_URL") { "https://base.example".to_string() } else { format!("env-{k}") }; (k, v) }).collect();
            cratecheck::run_example(&b.tag, &format!("c{i}"), e, &env, "", 20)
        });
        for ((i, e), run) in jobs.iter().zip(runs.iter()) {
            evals += 1;
            let c = &b.cases[*i];
            let em = b.emitted[*i].as_ref().unwrap();
            check_example_run(&mut rep, c, em, e, run);
        }
    }
    cratecheck::cleanup(&tag);
    rep.evaluations = evals;
    rep.distinct_nontrivial = evals;
    rep.rule = format!("{n} generated crates with examples enabled, built with `cargo build --lib --examples` against the stand-ins; every example of a crate whose library compiles must compile, and when run against the recording client must produce exactly one request, to its operation's method and path, carrying every declared input of the operation");
    rep.write(out);
}

fn path_matches(template: &str, actual: &str) -> bool {
    // segments: literal equal, `{x}` matches one non-empty piece without braces
    let mut re = String::from("^");
    let mut rest = template;
    while let Some(a) = rest.find('{') {
        re.push_str(&regex::escape(&rest[..a]));
        let Some(b) = rest[a..].find('}') else { break };
        re.push_str("[^/{}]+");
        rest = &rest[a + b + 1..];
    }
    re.push_str(&regex::escape(rest));
    re.push('$');
    regex::Regex::new(&re).map(|r| r.is_match(actual)).unwrap_or(false)
}

fn check_example_run(rep: &mut Report, c: &EmitCase, em: &Emitted, stem: &str, run: &cratecheck::RunOut) {
    let case = case_text(c);
    // the operation this example belongs to: the one whose request module has this stem
    let op = em.hir.operations.iter().find(|o| mir_rust::sanitize_filename(&o.file_name()) == stem);
    let Some(op) = op else { rep.oracle_fail("exampleWithoutOperation", vec![], &case, stem); return };
    if run.status == "timeout" { rep.oracle_fail("exampleHangs", vec![], &case, stem); return; }
    let reqs: Vec<Value> = run.stdout.lines().filter_map(|l| l.strip_prefix("REQUEST ")).filter_map(|l| serde_json::from_str(l).ok()).collect();
    if reqs.len() != 1 {
        rep.oracle_fail("exampleRequestCount", vec![], &case, &format!("examples/{stem}.rs produced {} requests ({}): {}", reqs.len(), run.status, run.stderr.chars().take(400).collect::<String>()));
        return;
    }
    let r = &reqs[0];
    let url = r["url"].as_str().unwrap_or("");
    let path = url.find("://").map(|i| &url[i + 3..]).map(|x| x.find('/').map(|j| &x[j..]).unwrap_or("")).unwrap_or(url);
    // the base URL may itself carry a path prefix: the operation path must be a suffix
    let ok_path = (0..=path.len()).filter(|i| path.is_char_boundary(*i)).any(|i| path_matches(&op.path, &path[i..]));
    if r["method"].as_str().unwrap_or("") != op.method.to_uppercase() || !ok_path {
        rep.oracle_fail("exampleWrongTarget", vec![], &case, &format!("examples/{stem}.rs requested {} {} for operation {} {}", r["method"], url, op.method, op.path));
    }
    // every declared input of the operation (from the document) is carried by the request
    let empty = vec![];
    let Ok(spec) = crate::pipeline::parse_spec(&serde_json::to_string(&c.doc).unwrap(), true) else { return };
    let Some(declared) = spec.operations().find(|(p, m, _, _)| *p == op.path && *m == op.method).and_then(|(_, _, o, item)| crate::hirprops::declared_inputs(&spec, o, item)) else { return };
    // names are distinct within the parameter scope and within the body scope (D)
    let fold = |s: &str| s.chars().filter(|c| c.is_ascii_alphanumeric()).collect::<String>().to_lowercase();
    if declared.iter().enumerate().any(|(i, (n, l, _))| declared.iter().skip(i + 1).any(|(m, k, _)| fold(n) == fold(m) && (n != m || (l == "body") == (k == "body")))) { rep.bump("operations_outside_D_input_names_clash"); return; }
    for (name, loc, _req) in &declared {
        let has = |list: &Value, n: &str| list.as_array().unwrap_or(&empty).iter().any(|kv| kv[0].as_str() == Some(n) || kv[0].as_str() == Some(&format!("{n}[]")));
        let present = match loc.as_str() {
            "query" => has(&r["query"], name),
            "header" => has(&r["headers"], name),
            "cookie" => has(&r["cookies"], name),
            "path" => true, // checked through the URL: no placeholder may remain
            "body" => r["body"].get(name).is_some(),
            _ => true,
        };
        if !present {
            let shadow = loc == "body" && declared.iter().any(|(m, k, _)| m == name && k != "body");
            let trig = if shadow { vec!["bodyNonBodyNameClash".to_string()] } else { vec![] };
            rep.oracle_fail(if shadow { "exampleBodyMemberShadowed" } else { "exampleInputNotSupplied" }, trig, &case, &format!("examples/{stem}.rs: {loc} input {name} of {} {} is not in the request {}", op.method, op.path, r));
        }
    }
    rep.bump("examples_run");
    rep.bump(&format!("example_exit:{}", run.status));
}
