mod c13;
mod emitprops;
mod summary;
mod hirprops;
mod specgen;
mod specio;
mod extract;
mod c19;
mod c20;
mod detprops;
mod totality;
mod cratecheck;
mod compileprops;
mod fsprops;
mod pipeline;
mod model;
mod report;
mod rng;
mod sexp;
mod util;

fn arg(args: &[String], name: &str) -> Option<String> {
    args.iter().position(|a| a == name).and_then(|i| args.get(i + 1)).cloned()
}

fn main() {
    let args: Vec<String> = std::env::args().collect();
    let prop = args.get(1).cloned().unwrap_or_default();
    if prop == "gen-spec" {
        // lnv gen-spec <seed> <index>: print the generated document of a case
        let seed: u64 = args[2].parse().unwrap();
        let index: u64 = args[3].parse().unwrap();
        // `emit` as a fourth argument: the case numbering of the emit / compile stages
        if args.get(4).map(|x| x == "emit").unwrap_or(false) {
            let mut rep = report::Report::new("C02", "quick", seed);
            let cases = emitprops::gen_cases("C02", &std::env::var("TIER").unwrap_or("quick".into()), seed, &mut rep);
            let c = cases.iter().find(|c| c.label.starts_with(&format!("(generated seed={seed} index={index} "))).expect("case");
            println!("{}", serde_json::to_string_pretty(&c.doc).unwrap());
            eprintln!("{:?}", c.cfg);
            return;
        }
        let mut rng = rng::Rng::new(seed).fork(index);
        let mut g = specgen::SpecGen::new(&mut rng, specgen::GenOpts::clean());
        println!("{}", serde_json::to_string_pretty(&g.spec()).unwrap());
        return;
    }
    if prop == "gen-crate" {
        // lnv gen-crate <spec file> <service name> <dest>: run the real generator (developer aid)
        let text = std::fs::read_to_string(&args[2]).unwrap();
        let v: serde_json::Value = serde_yaml::from_str(&text).unwrap();
        let spec = pipeline::parse_spec(&serde_json::to_string(&v).unwrap(), true).unwrap();
        let r = pipeline::generate(&spec, &pipeline::Cfg::new(&args[3]), std::path::Path::new(&args[4]));
        println!("{r:?}");
        return;
    }
    if prop == "smoke-extract" {
        extract::smoke(&args[2..]);
        return;
    }
    if prop == "child-cli" {
        std::process::exit(pipeline::child_cli(&args[2..]));
    }
    if prop == "child-gen" {
        std::process::exit(pipeline::child_gen(&args[2..]));
    }
    let tier = arg(&args, "--tier").unwrap_or_else(|| "quick".into());
    let seed: u64 = arg(&args, "--seed").and_then(|s| s.parse().ok()).unwrap_or(1);
    let out = arg(&args, "--out").unwrap_or_else(|| "/dev/stdout".into());
    let own_scratch = std::env::var("LNV_SCRATCH").is_err();
    match prop.as_str() {
        "C13" => c13::run(&tier, seed, &out),
        "C10" | "C11" | "C12" => fsprops::run(&prop, &tier, seed, &out),
        "C19" => c19::run(&tier, seed, &out),
        "C20" => c20::run(&tier, seed, &out),
        "C05" | "C06" | "C07" | "C08" | "C14" | "C15" | "C17" => hirprops::run(&prop, &tier, seed, &out),
        "C18" | "C04" | "C03" | "C02" | "C16" => emitprops::run(&prop, &tier, seed, &out),
        // the extraction stage of a property whose other stages are on the emitted crate: `lnv X04 ..`
        p if p.starts_with('X') => hirprops::run(&format!("C{}", &p[1..]), &tier, seed, &out),
        "C09" => detprops::run(&tier, seed, &out),
        "T01" => totality::run(&tier, seed, &out),
        "K02" => compileprops::run_k02(&tier, seed, &out),
        "K16" => compileprops::run_k16(&tier, seed, &out),
        "K04" => compileprops::run_k04(&tier, seed, &out),
        "K03" => compileprops::run_k03(&tier, seed, &out),
        "K14" => compileprops::run_k14(&tier, seed, &out),
        "K15" => compileprops::run_k15(&tier, seed, &out),
        // the emitted-crate stage of properties whose first stage is on the HIR: `lnv E05 ..` etc.
        p if p.starts_with('E') => emitprops::run(&format!("C{}", &p[1..]), &tier, seed, &out),
        _ => {
            eprintln!("usage: lnv <property> --tier quick|thorough --seed N --out report.json");
            std::process::exit(2);
        }
    }
    if own_scratch { let _ = std::fs::remove_dir_all(pipeline::scratch_root()); }
}
