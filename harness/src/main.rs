mod c13;
mod model;
mod report;
mod rng;
mod sexp;
mod util;

fn arg(args: &[String], name: &str) -> Option<String> {
    args.iter().position(|a| a == name).and_then(|i| args.get(i + 1)).cloned()
}

fn main() {
    let args: Vec<String> = std::env::args().collect();
    let prop = args.get(1).cloned().unwrap_or_default();
    let tier = arg(&args, "--tier").unwrap_or_else(|| "quick".into());
    let seed: u64 = arg(&args, "--seed").and_then(|s| s.parse().ok()).unwrap_or(1);
    let out = arg(&args, "--out").unwrap_or_else(|| "/dev/stdout".into());
    match prop.as_str() {
        "C13" => c13::run(&tier, seed, &out),
        _ => {
            eprintln!("usage: lnv <property> --tier quick|thorough --seed N --out report.json");
            std::process::exit(2);
        }
    }
}
