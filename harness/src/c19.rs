//! C19 — the emitted serde adapters: the real template files are compiled into this harness
//! (`include!` from /repo) and driven through serde_json; emission is checked on generated crates.
use crate::model;
use crate::pipeline::*;
use crate::report::Report;
use crate::rng::Rng;
use crate::sexp::quote;
use crate::util::*;
use serde::{Deserialize, Serialize};
use serde_json::json;
use std::collections::BTreeSet;

#[allow(dead_code, unused_imports)]
mod adapters {
    include!("/repo/codegen_rust/src/serde/option_i64_null_as_zero.rs");
    include!("/repo/codegen_rust/src/serde/option_i64_str.rs");
    include!("/repo/codegen_rust/src/serde/option_chrono_naive_date_as_int.rs");
}

#[derive(Serialize, Deserialize, Debug)]
struct Nz { #[serde(with = "adapters::option_i64_null_as_zero")] v: Option<i64> }
#[derive(Serialize, Deserialize, Debug)]
struct St { #[serde(with = "adapters::option_i64_str")] v: Option<i64> }
#[derive(Serialize, Deserialize, Debug)]
struct Dt { #[serde(with = "adapters::option_chrono_naive_date_as_int")] v: Option<chrono::NaiveDate> }

#[derive(Clone, Debug)]
enum Wire { Int(i128), Float(String), Str(String), Null, Other(String) }

impl Wire {
    fn json(&self) -> String {
        match self {
            Wire::Int(n) => n.to_string(),
            Wire::Float(s) => s.clone(),
            Wire::Str(s) => serde_json::to_string(s).unwrap(),
            Wire::Null => "null".into(),
            Wire::Other(s) => s.clone(),
        }
    }
    fn sexp(&self) -> String {
        match self {
            Wire::Int(n) => format!("(int {n})"),
            Wire::Float(_) => "(float)".into(),
            Wire::Str(s) => format!("(str {})", quote(s)),
            Wire::Null => "(null)".into(),
            Wire::Other(_) => "(other)".into(),
        }
    }
}

fn err_tag(e: &serde_json::Error) -> &'static str {
    let m = e.to_string();
    if m.starts_with("invalid type") { "invalidType" } else if m.starts_with("invalid value") { "invalidValue" } else { "otherError" }
}

fn value_to_wire(v: &serde_json::Value) -> String {
    match v {
        serde_json::Value::Number(n) if n.is_i64() || n.is_u64() => format!("(int {n})"),
        serde_json::Value::Number(_) => "(float)".into(),
        serde_json::Value::String(s) => format!("(str {})", quote(s)),
        serde_json::Value::Null => "(null)".into(),
        _ => "(other)".into(),
    }
}

fn opt_int(v: Option<i64>) -> String { match v { Some(i) => format!("(some {i})"), None => "(none)".into() } }
fn opt_date(v: Option<chrono::NaiveDate>) -> String {
    use chrono::Datelike;
    match v { Some(d) => format!("(some {} {} {})", d.year(), d.month(), d.day()), None => "(none)".into() }
}

fn days_in(y: i32, m: u32) -> u32 {
    match m { 2 => if (y % 4 == 0 && y % 100 != 0) || y % 400 == 0 { 29 } else { 28 }, 4 | 6 | 9 | 11 => 30, _ => 31 }
}

// ---- emission on generated crates --------------------------------------------------------------

fn adapter_schema(kind: usize) -> serde_json::Value {
    match kind {
        0 => json!({"type": "integer", "x-null-as-zero": true}),
        1 => json!({"type": "string", "format": "integer"}),
        2 => json!({"type": "integer", "x-format": "date"}),
        3 => json!({"type": "string", "format": "date"}),
        4 => json!({"type": "string", "format": "date-time"}),
        5 => json!({"type": "string", "format": "decimal"}),
        _ => json!({"type": "integer"}),
    }
}
const ADAPTER_MOD: [&str; 3] = ["option_i64_null_as_zero", "option_i64_str", "option_chrono_naive_date_as_int"];

/// spec with a struct `Rec` whose fields use `field_kinds`, optional array-typed fields of `array_kinds`,
/// and optional primitive components (`<Name>Webhook`, retained by name) of `webhook_kinds`.
fn emission_spec(field_kinds: &[usize], array_kinds: &[usize], webhook_kinds: &[usize], nullable: bool) -> serde_json::Value {
    let mut props = serde_json::Map::new();
    let mut required = vec![];
    for (i, k) in field_kinds.iter().enumerate() {
        let mut s = adapter_schema(*k);
        if nullable && i % 2 == 1 { s["nullable"] = json!(true); }
        props.insert(format!("f{i}_{k}"), s);
        if i % 3 != 2 { required.push(format!("f{i}_{k}")); }
    }
    for (i, k) in array_kinds.iter().enumerate() {
        props.insert(format!("arr{i}_{k}"), json!({"type": "array", "items": adapter_schema(*k)}));
    }
    props.insert("plain".into(), json!({"type": "string"}));
    let mut schemas = serde_json::Map::new();
    schemas.insert("Rec".into(), json!({"type": "object", "properties": props, "required": required}));
    for (i, k) in webhook_kinds.iter().enumerate() {
        schemas.insert(format!("Evt{i}Webhook"), adapter_schema(*k));
    }
    json!({
        "openapi": "3.0.0", "info": {"title": "t", "version": "1"},
        "paths": {"/r": {"get": {"operationId": "getRec", "responses": {"200": {"description": "ok", "content": {"application/json": {"schema": {"$ref": "#/components/schemas/Rec"}}}}}}}},
        "components": {"schemas": schemas}
    })
}

fn check_emission(rep: &mut Report, case: &str, spec: &serde_json::Value, webhook_adapter: bool, prior: Option<&serde_json::Value>) {
    let text = serde_json::to_string(spec).unwrap();
    let parsed = match parse_spec(&text, true) { Ok(s) => s, Err(e) => { rep.oracle_fail("specRejected", vec![], case, &e); return; } };
    let d = fresh_dir("emit");
    // a share of the crates is generated over a lib.rs whose hand-written head supplies `default_http_client`
    if case.contains("(fields [0") || case.contains("(fields [3") {
        let _ = std::fs::create_dir_all(d.join("src"));
        let _ = std::fs::write(d.join("src/lib.rs"), "//! kept by hand\npub fn default_http_client() -> httpclient::Client { httpclient::Client::new() }\n// libninja: after\n");
        rep.bump("emission_over_a_customised_lib_rs");
    }
    // a share of the crates is generated over the crate of an earlier revision of the document (other adapters needed)
    if let Some(p) = prior {
        if let Ok(pp) = parse_spec(&serde_json::to_string(p).unwrap(), true) { let _ = generate(&pp, &Cfg::new("Emit"), &d); rep.bump("emission_over_an_earlier_revision"); }
    }
    let r = generate(&parsed, &Cfg::new("Emit"), &d);
    let tree = read_tree(&d);
    let _ = std::fs::remove_dir_all(&d);
    if let Err(e) = r { rep.oracle_fail("panic", vec![], case, &e); return; }
    let get = |p: &str| tree.get(p).map(|b| String::from_utf8_lossy(b).to_string());
    let lib = get("src/lib.rs").unwrap_or_default();
    let serde_rs = get("src/serde.rs");
    let mut mentioned: BTreeSet<String> = BTreeSet::new();
    let re = regex::Regex::new(r"crate::serde::([a-z0-9_]+)").unwrap();
    for (p, b) in &tree {
        if p.starts_with("src/") && p != "src/serde.rs" {
            for c in re.captures_iter(&String::from_utf8_lossy(b)) { mentioned.insert(c[1].to_string()); }
        }
    }
    let has_mod = syn::parse_file(&lib).map(|f| f.items.iter().any(|i| matches!(i, syn::Item::Mod(m) if m.ident == "serde"))).unwrap_or(false);
    let defined: BTreeSet<String> = serde_rs.as_ref().and_then(|s| syn::parse_file(s).ok()).map(|f| f.items.iter().filter_map(|i| if let syn::Item::Mod(m) = i { Some(m.ident.to_string()) } else { None }).collect()).unwrap_or_default();
    rep.bump(&format!("emission:{}", if mentioned.is_empty() { "none" } else { "some" }));
    let trig = if webhook_adapter { vec!["adapterTypeOnlyInNonStructRecord".to_string()] } else { vec![] };
    if has_mod != serde_rs.is_some() { rep.oracle_fail("modSerdeWithoutFile", vec![], case, &format!("`mod serde;` present: {has_mod}, serde.rs written: {}", serde_rs.is_some())); }
    for m in &mentioned { if !defined.contains(m) { rep.oracle_fail("adapterMissing", vec![], case, &format!("a field references crate::serde::{m} but src/serde.rs does not define it (mod serde: {has_mod})")); } }
    for m in &defined { if !mentioned.contains(m) { rep.oracle_fail("adapterUnneeded", trig.clone(), case, &format!("src/serde.rs defines {m} but no retained field references it")); } }
    if serde_rs.is_some() && mentioned.is_empty() && defined.is_empty() { rep.oracle_fail("adapterUnneeded", trig.clone(), case, "serde.rs emitted but nothing references it"); }
}

pub fn run(tier: &str, seed: u64, out: &str) {
    silence_panics();
    let mut rep = Report::new("C19", tier, seed);
    let thorough = tier == "thorough";
    let mut rng = Rng::new(seed);
    let mut reqs: Vec<String> = vec![];
    let mut imps: Vec<String> = vec![];
    let mut distinct: BTreeSet<u64> = BTreeSet::new();

    // ---- integers ----
    let mut ints: Vec<i128> = vec![0, 1, -1, 2, 9, 10, 11, 99, 100, 101, i64::MAX as i128, i64::MIN as i128, i64::MAX as i128 - 1, i64::MIN as i128 + 1,
        1 << 63, (1 << 63) + 1, u64::MAX as i128, u64::MAX as i128 - 1, 1 << 64, (1 << 64) + 1, -(1 << 63) - 1, i32::MAX as i128, i32::MIN as i128, 1 << 32, 1 << 53, (1 << 53) + 1];
    let mut p: i128 = 1;
    for _ in 0..20 { p *= 10; ints.extend([p, -p, p - 1, -p + 1, p + 1]); }
    let n_rand = if thorough { 300_000 } else { 2_000 };
    for _ in 0..n_rand {
        ints.push(rng.i64() as i128);
        if rng.chance(1, 4) { ints.push(rng.next() as i128); }
        if rng.chance(1, 4) { ints.push((rng.i64() >> rng.below(62)) as i128); }
    }
    for &n in &ints {
        distinct.insert(fnv(&format!("i{n}")));
        let w = Wire::Int(n);
        // null-as-zero: deserialize every wire int
        let r = serde_json::from_str::<Nz>(&format!("{{\"v\": {}}}", w.json()));
        reqs.push(format!("(nz_de {})", w.sexp()));
        imps.push(match &r { Ok(x) => format!("(ok {})", opt_int(x.v)), Err(e) => format!("(err {})", err_tag(e)) });
        if let Ok(Nz { v: Some(x) }) = r {
            if x as i128 != n {
                let trig = if n >= (1i128 << 63) { vec!["u64AboveI64Max".to_string()] } else { vec![] };
                rep.oracle_fail("nzWrongValue", trig, &format!("(nz_de {})", w.sexp()), &format!("wire {n} deserialises to Some({x})"));
            } else { rep.bump("nz_safe_ok"); }
        }
        if n >= i64::MIN as i128 && n <= i64::MAX as i128 {
            let v = Some(n as i64);
            // round trips
            let ser = serde_json::to_value(&Nz { v }).unwrap();
            reqs.push(format!("(nz_ser {})", opt_int(v))); imps.push(value_to_wire(&ser["v"]));
            let back = serde_json::from_value::<Nz>(ser).map(|x| x.v);
            let norm = if n == 0 { None } else { v };
            if back.as_ref().ok() != Some(&norm) { rep.oracle_fail("nzRoundTrip", vec![], &format!("(nz {n})"), &format!("{back:?}")); } else { rep.bump("nz_roundtrip_ok"); }
            let ser = serde_json::to_value(&St { v }).unwrap();
            reqs.push(format!("(str_ser {})", opt_int(v))); imps.push(value_to_wire(&ser["v"]));
            let back = serde_json::from_value::<St>(ser).map(|x| x.v);
            if back.as_ref().ok() != Some(&v) { rep.oracle_fail("strRoundTrip", vec![], &format!("(str {n})"), &format!("{back:?}")); } else { rep.bump("str_roundtrip_ok"); }
        }
        // numeric strings
        for s in [n.to_string(), format!("+{n}"), format!("0{n}"), format!(" {n}")] {
            let w = Wire::Str(s.clone());
            let r = serde_json::from_str::<St>(&format!("{{\"v\": {}}}", w.json()));
            reqs.push(format!("(str_de {})", w.sexp()));
            imps.push(match &r { Ok(x) => format!("(ok {})", opt_int(x.v)), Err(e) => format!("(err {})", err_tag(e)) });
            if let Ok(St { v: Some(x) }) = r {
                let t = s.strip_prefix('+').unwrap_or(&s);
                let denotes = t.parse::<i128>().ok() == Some(x as i128) && t.chars().all(|c| c.is_ascii_digit() || c == '-');
                if !denotes { rep.oracle_fail("strWrongValue", vec![], &format!("(str_de {})", w.sexp()), &format!("{x}")); } else { rep.bump("str_safe_ok"); }
            }
        }
    }
    // other wire forms for all three
    let others = vec![Wire::Null, Wire::Other("true".into()), Wire::Other("[]".into()), Wire::Other("{}".into()), Wire::Other("[1]".into()), Wire::Float("1.5".into()), Wire::Float("1e3".into()), Wire::Float("-0.0".into()), Wire::Float("0.0".into()),
        Wire::Str("".into()), Wire::Str("abc".into()), Wire::Str("1.0".into()), Wire::Str("-".into()), Wire::Str("+".into()), Wire::Str("1_000".into()), Wire::Str("0x10".into()), Wire::Str("\u{ff11}\u{ff12}".into()), Wire::Str("--1".into()), Wire::Str("+-1".into()), Wire::Str("1-".into()), Wire::Str("00".into()), Wire::Str("-0".into()), Wire::Str("+0".into()), Wire::Str("20240101".into())];
    for w in &others {
        let body = format!("{{\"v\": {}}}", w.json());
        for (name, res) in [
            ("nz_de", serde_json::from_str::<Nz>(&body).map(|x| opt_int(x.v))),
            ("str_de", serde_json::from_str::<St>(&body).map(|x| opt_int(x.v))),
            ("date_de", serde_json::from_str::<Dt>(&body).map(|x| opt_date(x.v))),
        ] {
            reqs.push(format!("({name} {})", w.sexp()));
            imps.push(match &res { Ok(x) => format!("(ok {x})"), Err(e) => format!("(err {})", err_tag(e)) });
            rep.bump(&format!("wire_form:{}", match w { Wire::Null => "null", Wire::Other(_) => "other", Wire::Float(_) => "float", Wire::Str(_) => "string", Wire::Int(_) => "int" }));
            // a malformed wire value must never become a present value, except numeric strings for str_de
            if let Ok(x) = &res { if x != "(none)" && !(name == "str_de" && matches!(w, Wire::Str(_))) { rep.oracle_fail("malformedBecamePresent", vec![], &format!("({name} {})", w.sexp()), x); } }
        }
    }
    for (name, ser) in [("nz_ser", serde_json::to_value(&Nz { v: None }).unwrap()), ("str_ser", serde_json::to_value(&St { v: None }).unwrap()), ("date_ser", serde_json::to_value(&Dt { v: None }).unwrap())] {
        reqs.push(format!("({name} (none))")); imps.push(value_to_wire(&ser["v"]));
    }

    // ---- dates ----
    let mut dates: Vec<(i32, u32, u32)> = vec![];
    if thorough {
        for y in 1..=9999 { for m in 1..=12 { for d in 1..=days_in(y, m) { dates.push((y, m, d)); } } }
        rep.exhaustive = true;
    } else {
        for y in [1, 2, 4, 99, 100, 400, 999, 1000, 1582, 1900, 1970, 2000, 2023, 2024, 2100, 9998, 9999] { for m in 1..=12 { for d in [1, 15, days_in(y, m)] { dates.push((y, m, d)); } } }
        for _ in 0..1500 { let y = rng.range(1, 9999) as i32; let m = rng.range(1, 12) as u32; dates.push((y, m, rng.range(1, days_in(y, m) as usize) as u32)); }
    }
    for &(y, m, d) in &dates {
        distinct.insert(fnv(&format!("d{y}-{m}-{d}")));
        let v = chrono::NaiveDate::from_ymd_opt(y, m, d);
        if v.is_none() { rep.oracle_fail("dateInvalidInHarness", vec![], &format!("{y}-{m}-{d}"), ""); continue; }
        let ser = serde_json::to_value(&Dt { v }).unwrap();
        reqs.push(format!("(date_ser (some {y} {m} {d}))")); imps.push(value_to_wire(&ser["v"]));
        let back = serde_json::from_value::<Dt>(ser).map(|x| x.v);
        if back.as_ref().ok() != Some(&v) { rep.oracle_fail("dateRoundTrip", vec![], &format!("(date {y} {m} {d})"), &format!("{back:?}")); } else { rep.bump("date_roundtrip_ok"); }
    }
    let mut dwires: Vec<i128> = vec![0, 1, 101, 131, 10101, 1231, 20240229, 20230229, 20240230, 20241301, 20240100, 20240001, 99991231, 100000101, 2621421231, 2621430101, 42949692970101, 42949672960000 + 20240101, (1i128 << 31) * 10000 + 101, ((1i128 << 32) + 2001) * 10000 + 101, u64::MAX as i128, -20240101, -1, 1 << 63];
    for &(y, m, d) in dates.iter().take(if thorough { 200_000 } else { 600 }) {
        let base = y as i128 * 10000 + m as i128 * 100 + d as i128;
        dwires.extend([base, base + 1, base + 40, base + 1300, base + (1i128 << 32) * 10000]);
    }
    for _ in 0..(if thorough { 100_000 } else { 1_000 }) { dwires.push((rng.next() >> rng.below(60)) as i128); }
    for &n in &dwires {
        let w = Wire::Int(n);
        let r = serde_json::from_str::<Dt>(&format!("{{\"v\": {}}}", w.json()));
        reqs.push(format!("(date_de {})", w.sexp()));
        imps.push(match &r { Ok(x) => format!("(ok {})", opt_date(x.v)), Err(e) => format!("(err {})", err_tag(e)) });
        if let Ok(Dt { v: Some(x) }) = r {
            use chrono::Datelike;
            let denotes = x.year() as i128 * 10000 + x.month() as i128 * 100 + x.day() as i128 == n;
            if !denotes {
                let trig = if n / 10000 >= (1i128 << 31) { vec!["dateYearAboveI32".to_string()] } else { vec![] };
                rep.oracle_fail("dateWrongValue", trig, &format!("(date_de {})", w.sexp()), &format!("wire {n} deserialises to {x}"));
            } else { rep.bump("date_safe_ok"); }
        }
    }

    // ---- emission ----
    let mut emission_cases = 0;
    let mut prev_spec: Option<serde_json::Value> = None;
    let field_sets: Vec<Vec<usize>> = vec![vec![], vec![0], vec![1], vec![2], vec![3], vec![4, 5], vec![0, 1], vec![0, 2], vec![1, 2], vec![0, 1, 2], vec![2, 3], vec![3, 2], vec![6, 2, 3], vec![3, 4, 5, 6]];
    for fs in &field_sets {
        for arr in [vec![], vec![0usize], vec![1, 2]] {
            for wh in [vec![], vec![0usize], vec![2], vec![1, 3]] {
                if !thorough && emission_cases % 2 == 1 && !wh.is_empty() && !arr.is_empty() { emission_cases += 1; continue; }
                let spec = emission_spec(fs, &arr, &wh, emission_cases % 2 == 0);
                let over_prior = emission_cases % 3 == 1 && prev_spec.is_some();
                let case = format!("(emission (fields {fs:?}) (arrays {arr:?}) (webhooks {wh:?}){})", if over_prior { " (over the previous case's crate)" } else { "" });
                // the finding trigger: an adapter-typed primitive component retained by its Webhook name, whose adapter no struct field uses
                let webhook_adapter = wh.iter().any(|k| *k < 3 && !fs.contains(k));
                check_emission(&mut rep, &case, &spec, webhook_adapter, if over_prior { prev_spec.as_ref() } else { None });
                prev_spec = Some(spec);
                emission_cases += 1;
            }
        }
    }
    rep.add("emission_cases", emission_cases as u64);
    let _ = ADAPTER_MOD;

    // ---- model ----
    let mods = model::eval(&reqs);
    for ((q, i), m) in reqs.iter().zip(imps.iter()).zip(mods.iter()) { if i != m { rep.disagree(q, i, m); } }
    rep.evaluations = reqs.len() as u64 + emission_cases as u64;
    rep.distinct_nontrivial = distinct.len() as u64;
    rep.rule = format!("wire integers: boundaries (0, +-1, i64 MIN/MAX, 2^63, u64::MAX, 2^64, powers of ten +-1) and {n_rand}+ random i64/u64 through all three real adapters (deserialise, serialise, round trip) and as numeric strings with sign/zero/space prefixes; non-integer wire forms (null, bool, array, object, floats, malformed strings); dates: {} (every valid date of years 1..9999 in the thorough tier) serialised and read back, plus YYYYMMDD-like wire integers with invalid days/months, huge and wrapping years; emission: {emission_cases} generated crates over field kinds x array positions x Webhook-retained primitive components. Distinct non-trivial = distinct integers and dates", dates.len());
    for idx in [0usize, reqs.len() / 2, reqs.len() - 1] { rep.samples.push(json!({"request": reqs[idx], "implementation": imps[idx], "model": mods[idx]})); }
    rep.write(out);
}
