//! What a harness run reports back to `check` (JSON).
use serde::Serialize;
use std::collections::BTreeMap;

#[derive(Serialize, Default, Debug, Clone)]
pub struct Disagreement {
    pub case: String,
    pub implementation: String,
    pub model: String,
}

#[derive(Serialize, Default, Debug, Clone)]
pub struct OracleFailure {
    /// canonical failure tag (panic-site tag, `diverged`, or the oracle clause that failed)
    pub tag: String,
    /// names of the trigger predicates that hold on this input
    pub triggers: Vec<String>,
    pub case: String,
    pub detail: String,
}

#[derive(Serialize, Default, Debug)]
pub struct Report {
    pub property: String,
    pub tier: String,
    pub seed: u64,
    pub evaluations: u64,
    pub distinct_nontrivial: u64,
    pub rule: String,
    pub exhaustive: bool,
    pub samples: Vec<serde_json::Value>,
    pub histogram: BTreeMap<String, u64>,
    pub disagreements_total: u64,
    pub disagreements: Vec<Disagreement>,
    pub oracle_failures_total: u64,
    pub oracle_failures: Vec<OracleFailure>,
    pub notes: Vec<String>,
}

impl Report {
    pub fn new(property: &str, tier: &str, seed: u64) -> Report {
        Report { property: property.into(), tier: tier.into(), seed, ..Default::default() }
    }
    pub fn bump(&mut self, key: &str) { *self.histogram.entry(key.to_string()).or_insert(0) += 1; }
    pub fn add(&mut self, key: &str, n: u64) { *self.histogram.entry(key.to_string()).or_insert(0) += n; }
    pub fn disagree(&mut self, case: &str, implementation: &str, model: &str) {
        self.disagreements_total += 1;
        if self.disagreements.len() < 25 {
            self.disagreements.push(Disagreement { case: case.into(), implementation: implementation.into(), model: model.into() });
        }
    }
    pub fn oracle_fail(&mut self, tag: &str, triggers: Vec<String>, case: &str, detail: &str) {
        self.oracle_failures_total += 1;
        // keep one representative per (tag, triggers) plus a few extras
        let n_same = self.oracle_failures.iter().filter(|f| f.tag == tag && f.triggers == triggers).count();
        if n_same < 3 && self.oracle_failures.len() < 200 {
            self.oracle_failures.push(OracleFailure { tag: tag.into(), triggers, case: case.into(), detail: detail.into() });
        }
    }
    pub fn write(&self, path: &str) {
        std::fs::write(path, serde_json::to_string_pretty(self).unwrap()).expect("write report");
    }
}
