//! Compiling and running generated crates against the stand-in dependencies under `/verif/standins`
//! (plus the real serde, serde_json, chrono and tokio from the offline cargo cache).
//! All crates of one run are members of one scratch workspace, built by one `cargo` invocation with
//! `--keep-going`; compiler messages are attributed to their member and target from cargo's JSON stream.
use crate::pipeline::{scratch_root, Tree};
use serde_json::Value;
use std::collections::BTreeMap;
use std::path::{Path, PathBuf};
use std::process::{Command, Stdio};

pub struct Member {
    /// directory / package name (`c<i>`)
    pub pkg: String,
    /// library name (`Config::package_name`)
    pub lib: String,
    pub tree: Tree,
    /// extra example programs written by the harness (stem, source), e.g. the serde probe
    pub extra_examples: Vec<(String, String)>,
}

#[derive(Default, Debug, Clone)]
pub struct MemberResult {
    pub lib_errors: Vec<String>,
    /// example stem -> compile errors
    pub example_errors: BTreeMap<String, Vec<String>>,
    /// example stems that were produced as binaries
    pub built_examples: Vec<String>,
}

/// The scratch workspace lives at a fixed place per stage and tier (under the harness's own build output), so that
/// cargo sees the same package ids on every run and overwrites its artifacts instead of accumulating new ones.
pub fn workspace_dir(tag: &str) -> PathBuf { let _ = scratch_root(); PathBuf::from(concat!(env!("CARGO_MANIFEST_DIR"), "/target")).join(format!("ws-{tag}")) }

fn dir_size(p: &Path) -> u64 {
    let mut n = 0;
    if let Ok(rd) = std::fs::read_dir(p) { for e in rd.flatten() { let q = e.path(); if q.is_dir() { n += dir_size(&q); } else if let Ok(m) = e.metadata() { n += m.len(); } } }
    n
}

pub fn example_stems(tree: &Tree) -> Vec<String> {
    tree.keys().filter_map(|p| p.strip_prefix("examples/").and_then(|x| x.strip_suffix(".rs")).map(|x| x.to_string())).collect()
}

fn manifest(m: &Member) -> String {
    let mut s = format!("[package]\nname = \"{}\"\nversion = \"0.0.0\"\nedition = \"2021\"\npublish = false\nautoexamples = false\n[lib]\nname = \"{}\"\npath = \"src/lib.rs\"\n", m.pkg, m.lib);
    let mut stems = example_stems(&m.tree);
    for (e, _) in &m.extra_examples { stems.push(e.clone()); }
    for e in stems {
        s.push_str(&format!("[[example]]\nname = \"{}_{}\"\npath = \"examples/{}.rs\"\n", m.pkg, e, e));
    }
    s.push_str("[dependencies]\n");
    for d in ["httpclient", "httpclient_oauth2", "futures", "base64", "rust_decimal", "rust_decimal_macros"] {
        s.push_str(&format!("{d} = {{ path = \"/verif/standins/{d}\" }}\n"));
    }
    s.push_str("serde = { version = \"1\", features = [\"derive\"] }\nserde_json = \"1\"\nchrono = { version = \"0.4.38\", features = [\"serde\"] }\ntokio = { version = \"1.35.1\", features = [\"macros\", \"rt-multi-thread\"] }\n");
    s
}

/// Writes the workspace and builds it. `build_examples`: also compile (and link) the example programs.
/// Members whose libraries have the same name (same service name) are built in different rounds: cargo lifts
/// `lib<name>.rlib` into one directory per target dir, and two members lifting the same file name in one
/// invocation can be mixed up.
pub fn build(tag: &str, members: &[Member], build_examples: bool) -> Result<(PathBuf, BTreeMap<String, MemberResult>), String> {
    let ws = workspace_dir(tag);
    let _ = std::fs::remove_dir_all(&ws);
    std::fs::create_dir_all(&ws).map_err(|e| e.to_string())?;
    // keep the cargo target directory bounded: example binaries of earlier runs pile up under other names
    if dir_size(&target_dir(tag)) > 3_000_000_000 { let _ = std::fs::remove_dir_all(target_dir(tag)); }
    let _ = std::fs::remove_dir_all(target_dir(tag).join("debug/examples"));
    for m in members {
        let d = ws.join(&m.pkg);
        crate::pipeline::write_tree(&d, &m.tree);
        std::fs::create_dir_all(d.join("examples")).ok();
        for (e, src) in &m.extra_examples { std::fs::write(d.join("examples").join(format!("{e}.rs")), src).map_err(|e| e.to_string())?; }
        std::fs::write(d.join("Cargo.toml"), manifest(m)).map_err(|e| e.to_string())?;
    }
    let _ = std::fs::copy("/repo/Cargo.lock", ws.join("Cargo.lock"));
    let mut rounds: Vec<Vec<&Member>> = vec![];
    for m in members {
        match rounds.iter_mut().find(|r| !r.iter().any(|x| x.lib == m.lib)) { Some(r) => r.push(m), None => rounds.push(vec![m]) }
    }
    let mut res: BTreeMap<String, MemberResult> = members.iter().map(|m| (m.pkg.clone(), MemberResult::default())).collect();
    for round in &rounds {
        let names: Vec<String> = round.iter().map(|m| format!("\"{}\"", m.pkg)).collect();
        std::fs::write(ws.join("Cargo.toml"), format!("[workspace]\nmembers = [{}]\nresolver = \"2\"\n[profile.dev]\ndebug = false\nopt-level = 0\nincremental = false\n", names.join(", "))).map_err(|e| e.to_string())?;
        build_round(tag, &ws, round, members, build_examples, &mut res)?;
    }
    Ok((ws, res))
}

fn build_round(tag: &str, ws: &Path, round: &[&Member], members: &[Member], build_examples: bool, res: &mut BTreeMap<String, MemberResult>) -> Result<(), String> {
    let target = target_dir(tag);
    let mut args = vec![if build_examples { "build" } else { "check" }, "--offline", "--workspace", "--lib", "--keep-going", "--message-format=json"];
    if build_examples { args.push("--examples"); }
    let run = || Command::new("cargo").args(&args).current_dir(ws)
        .env("CARGO_TARGET_DIR", &target).env("CARGO_NET_OFFLINE", "true").env("RUSTFLAGS", "-Awarnings")
        .stdin(Stdio::null()).output().map_err(|e| format!("cargo: {e}"));
    let mut out = run()?;
    let mut saw_any = false;
    // a second pass when cargo left a target unattempted without reporting an error for it (an interrupted or
    // partially scheduled build must not be mistaken for a property of the generated code)
    for pass in 0..2 {
        if pass == 1 {
            let incomplete = build_examples && round.iter().any(|m| { let r = &res[&m.pkg]; r.lib_errors.is_empty() && example_stems(&m.tree).iter().chain(m.extra_examples.iter().map(|e| &e.0)).any(|e| !r.built_examples.contains(e) && !r.example_errors.contains_key(e)) });
            if !incomplete { break; }
            out = run()?;
            for m in round { *res.get_mut(&m.pkg).unwrap() = MemberResult::default(); }
        }
        let stdout = String::from_utf8_lossy(&out.stdout).to_string();
        for line in stdout.lines() {
            let Ok(v) = serde_json::from_str::<Value>(line) else { continue };
            saw_any = true;
            let reason = v["reason"].as_str().unwrap_or("");
            let pkg = member_of(&v["package_id"].as_str().unwrap_or(""), members);
            let Some(pkg) = pkg else { continue };
            let kind = v["target"]["kind"][0].as_str().unwrap_or("");
            let tname = v["target"]["name"].as_str().unwrap_or("").to_string();
            let r = res.get_mut(&pkg).unwrap();
            if reason == "compiler-message" && v["message"]["level"].as_str() == Some("error") {
                let text = v["message"]["rendered"].as_str().unwrap_or("").lines().take(6).collect::<Vec<_>>().join("\n");
                if kind == "example" { r.example_errors.entry(tname.strip_prefix(&format!("{pkg}_")).unwrap_or(&tname).to_string()).or_default().push(text); }
                else { r.lib_errors.push(text); }
            }
            if reason == "compiler-artifact" && kind == "example" && v["executable"].is_string() {
                r.built_examples.push(tname.strip_prefix(&format!("{pkg}_")).unwrap_or(&tname).to_string());
            }
        }
    }
    if !saw_any && !out.status.success() {
        return Err(format!("cargo produced no messages: {}", String::from_utf8_lossy(&out.stderr).chars().take(2000).collect::<String>()));
    }
    // a failure cargo reports without a compiler message (manifest / resolution problems) must not pass silently
    let stderr = String::from_utf8_lossy(&out.stderr);
    if !out.status.success() && round.iter().all(|m| { let r = &res[&m.pkg]; r.lib_errors.is_empty() && r.example_errors.is_empty() }) {
        return Err(format!("cargo failed without compiler errors: {}", stderr.chars().take(2000).collect::<String>()));
    }
    Ok(())
}

pub fn target_dir(tag: &str) -> PathBuf { PathBuf::from(concat!(env!("CARGO_MANIFEST_DIR"), "/target")).join(format!("gencrates-{tag}")) }

fn member_of(package_id: &str, members: &[Member]) -> Option<String> {
    // package ids look like `path+file:///…/ws-x/c12#0.0.0` (or the older `c12 0.0.0 (path+file://…)`)
    for m in members {
        if package_id.contains(&format!("/{}#", m.pkg)) || package_id.starts_with(&format!("{} ", m.pkg)) || package_id.ends_with(&format!("/{}", m.pkg)) || package_id.contains(&format!("/{})", m.pkg)) { return Some(m.pkg.clone()); }
    }
    None
}

pub struct RunOut { pub status: String, pub stdout: String, pub stderr: String }

/// Runs a built example with the given environment and standard input; kills it after `secs`.
pub fn run_example(tag: &str, pkg: &str, stem: &str, env: &[(String, String)], stdin: &str, secs: u64) -> RunOut {
    use std::io::Write;
    let exe = target_dir(tag).join("debug/examples").join(format!("{pkg}_{stem}"));
    let mut cmd = Command::new(&exe);
    cmd.env_clear().env("PATH", "/usr/bin:/bin");
    for (k, v) in env { cmd.env(k, v); }
    let child = cmd.stdin(Stdio::piped()).stdout(Stdio::piped()).stderr(Stdio::piped()).spawn();
    let Ok(mut child) = child else { return RunOut { status: "spawn-failed".into(), stdout: String::new(), stderr: format!("{exe:?}") } };
    let mut si = child.stdin.take().unwrap();
    let data = stdin.to_string();
    let writer = std::thread::spawn(move || { let _ = si.write_all(data.as_bytes()); });
    let pid = child.id();
    let done = std::sync::Arc::new(std::sync::atomic::AtomicBool::new(false));
    let d2 = done.clone();
    let killer = std::thread::spawn(move || {
        let t0 = std::time::Instant::now();
        while t0.elapsed().as_secs() < secs { if d2.load(std::sync::atomic::Ordering::SeqCst) { return false; } std::thread::sleep(std::time::Duration::from_millis(20)); }
        let _ = Command::new("kill").arg("-9").arg(pid.to_string()).status();
        true
    });
    let out = child.wait_with_output();
    done.store(true, std::sync::atomic::Ordering::SeqCst);
    let killed = killer.join().unwrap_or(false);
    let _ = writer.join();
    match out {
        Ok(o) => {
            use std::os::unix::process::ExitStatusExt;
            let status = if killed { "timeout".to_string() } else if let Some(s) = o.status.signal() { format!("signal {s}") } else { format!("exit {}", o.status.code().unwrap_or(-1)) };
            RunOut { status, stdout: String::from_utf8_lossy(&o.stdout).to_string(), stderr: String::from_utf8_lossy(&o.stderr).to_string() }
        }
        Err(e) => RunOut { status: "wait-failed".into(), stdout: String::new(), stderr: e.to_string() },
    }
}

/// names of the environment variables a generated `lib.rs` reads
pub fn env_vars_of(lib_rs: &str) -> Vec<String> {
    let re = regex::Regex::new(r#"std\s*::\s*env\s*::\s*var\s*\(\s*"([^"]+)"\s*\)"#).unwrap();
    let mut v: Vec<String> = re.captures_iter(lib_rs).map(|c| c[1].to_string()).collect();
    v.sort();
    v.dedup();
    v
}

pub fn cleanup(tag: &str) { let _ = std::fs::remove_dir_all(workspace_dir(tag)); }

#[allow(dead_code)]
pub fn exists(p: &Path) -> bool { p.exists() }
