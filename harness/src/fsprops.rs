//! C10, C11, C12 — marker handling, cleanup, idempotence and crash convergence.
//! Correspondence: the Lean `Fs` model (fed with the fresh code of each generation as its abstract
//! code function) predicts the tree the real tool leaves; oracles check the properties on the real trees.
use crate::model;
use crate::pipeline::*;
use crate::report::Report;
use crate::rng::Rng;
use crate::sexp::{self, quote, Sexp};
use crate::util::*;
use std::collections::{BTreeMap, BTreeSet};
use std::path::PathBuf;

pub const STATIC: &str = "libninja: static";
pub const AFTER: &str = "libninja: after";
pub const DHC: &str = "default_http_client";

#[derive(Clone)]
pub enum CodeSpec { Plain(String), Lib(String, String) }

#[derive(Clone)]
pub struct Prepared {
    pub label: String,
    pub spec_path: PathBuf,
    pub spec: openapiv3::OpenAPI,
    pub cfg: Cfg,
    pub outs: BTreeMap<String, CodeSpec>,
}

fn find(hay: &[u8], needle: &[u8]) -> Option<usize> {
    if needle.is_empty() { return Some(0); }
    hay.windows(needle.len()).position(|w| w == needle)
}
fn has(hay: &[u8], needle: &str) -> bool { find(hay, needle.as_bytes()).is_some() }

pub fn prepare(label: &str, spec_text: &str, cfg: Cfg) -> Result<Prepared, String> {
    let spec = parse_spec(spec_text, false)?;
    let spec_path = scratch_root().join(format!("{label}.yaml"));
    std::fs::write(&spec_path, spec_text).unwrap();
    let d = fresh_dir("fresh");
    generate(&spec, &cfg, &d)?;
    let fresh = read_tree(&d);
    let _ = std::fs::remove_dir_all(&d);
    // lib.rs variant without the generated default_http_client
    let d2 = fresh_dir("sup");
    let prefix = format!("// hand-written {DHC}\n// {AFTER}");
    std::fs::create_dir_all(d2.join("src")).unwrap();
    std::fs::write(d2.join("src/lib.rs"), &prefix).unwrap();
    generate(&spec, &cfg, &d2)?;
    let sup_all = String::from_utf8(std::fs::read(d2.join("src/lib.rs")).unwrap()).map_err(|e| e.to_string())?;
    let _ = std::fs::remove_dir_all(&d2);
    let sup = sup_all.strip_prefix(&format!("{prefix}\n")).ok_or("unexpected lib.rs prefix handling")?.to_string();
    let mut outs = BTreeMap::new();
    for (p, b) in fresh {
        let s = String::from_utf8(b).map_err(|e| e.to_string())?;
        if p == "src/lib.rs" { outs.insert(p, CodeSpec::Lib(s, sup.clone())); } else { outs.insert(p, CodeSpec::Plain(s)); }
    }
    Ok(Prepared { label: label.into(), spec_path, spec, cfg, outs })
}

fn content_sexp(b: &[u8]) -> String {
    match std::str::from_utf8(b) {
        Ok(s) => format!("(text {})", quote(s)),
        Err(_) => format!("(binary {})", b.iter().map(|x| x.to_string()).collect::<Vec<_>>().join(" ")),
    }
}
pub fn tree_sexp(t: &Tree) -> String {
    let mut o = String::from("(tree");
    for (p, b) in t { o.push_str(&format!(" ({} {})", quote(p), content_sexp(b))); }
    o.push(')');
    o
}
fn outs_sexp(p: &Prepared) -> String {
    let mut o = String::from("(outs");
    for (path, cs) in &p.outs {
        match cs {
            CodeSpec::Plain(c) => o.push_str(&format!(" ({} (plain {}))", quote(path), quote(c))),
            CodeSpec::Lib(f, s) => o.push_str(&format!(" ({} (lib {} {}))", quote(path), quote(f), quote(s))),
        }
    }
    o.push(')');
    o
}
fn parse_tree(line: &str) -> Option<Tree> {
    let s = sexp::parse(line)?;
    let l = s.as_list()?;
    if l.first()?.as_atom()? != "tree" { return None; }
    let mut t = Tree::new();
    for e in &l[1..] {
        let e = e.as_list()?;
        let p = e[0].as_str()?.to_string();
        let c = e[1].as_list()?;
        match c[0].as_atom()? {
            "text" => { t.insert(p, c[1].as_str()?.as_bytes().to_vec()); }
            "binary" => { t.insert(p, c[1..].iter().filter_map(|x| x.as_atom()?.parse::<u8>().ok()).collect()); }
            _ => return None,
        }
    }
    Some(t)
}

fn in_scope(p: &str) -> bool {
    (p.starts_with("src/") || p.starts_with("examples/")) && std::path::Path::new(p).extension().map(|e| e == "rs").unwrap_or(false)
}

// ---- prior tree generation ---------------------------------------------------------------------

const EXTRA_PATHS: &[&str] = &[
    "src/extra.rs", "src/other/util.rs", "src/other/deep/x.rs", "src/model/zz_old.rs", "src/request/old_op.rs",
    "examples/custom.rs", "examples/data.json", "examples/nested/more.rs", "src/notes.txt", "src/model/readme.md", "tests/it.rs",
    "benches/b.rs", "Cargo.toml", "README.md", "build.rs", "src/x.rs.bak", "src/.rs", "src/noext", "srcx/a.rs",
    "src/serde.rs", "src/model/owner.rs", "src/request/get_owner.rs", "examples/get_owner.rs", "lib.rs", "src/lib.rs.orig",
    // the pre-directory module layout, and siblings of generated files under another extension
    "src/model.rs", "src/request.rs", "src/model/owner.tmp", "src/lib.tmp", "src/request/mod.tmp", "examples/get_owner.tmp", "src/model/mod.rs.tmp",
];

fn gen_content(rng: &mut Rng, hist: &mut Report) -> Vec<u8> {
    let heads = ["", "use foo::bar;\nfn hand() {}\n", "// c\r\n", "#![allow(dead_code)]\npub fn default_http_client() -> Client { todo!() }\n", "mod x;\n\n\n", "// caf\u{e9} \u{1F600}\n", "// \u{130}smail \u{130}nan wrote this\n", "// HAUPTSTRA\u{1E9E}E 1, \u{212A}elvin\n"];
    let tails = ["", "\nfn old() {}\n", " trailing on same line\nmore\n", "\r\nold\r\n", "\n", " */ fn x() {}"];
    let head = *rng.pick(&heads);
    let tail = *rng.pick(&tails);
    let long: String = (0..40).map(|i| format!("// licence line {i}\n")).collect();
    let kind = rng.below(18);
    // a directive that straddles a multiple of 8 KiB (readers that work in blocks)
    let boundary_pad = |rng: &mut Rng| -> String { let k = 1 + rng.below(2); let j = 1 + rng.below(15); format!("/*{}*/", "x".repeat(8192 * k - j - 4)) };
    let (name, body): (&str, String) = match kind {
        0 | 1 => ("plain", format!("{head}fn plain() {{}}{tail}")),
        2 => ("static_top", format!("// {STATIC}\n{head}{tail}")),
        3 => ("static_mid", format!("{head}/* {STATIC} */{tail}")),
        4 => ("static_eof", format!("{head}{tail}// {STATIC}")),
        5 => ("after_line", format!("{head}// {AFTER}\n{tail}")),
        6 => ("after_mid", format!("{head}/* {AFTER}{tail}")),
        7 => ("after_eof", format!("{head}// {AFTER}")),
        8 => ("static_then_after", format!("// {STATIC}\n{head}// {AFTER}\n{tail}")),
        9 => ("after_then_static", format!("{head}// {AFTER}\n// {STATIC}\n{tail}")),
        10 => ("after_twice", format!("{head}// {AFTER}\nmid\n// {AFTER}\n{tail}")),
        11 => ("static_deep", format!("{long}{head}// {STATIC}\n{tail}")),
        12 => ("after_deep", format!("{long}{head}// {AFTER}\n{tail}")),
        13 => ("static_after_code", format!("{head}fn a() {{}}\n{long}/* {STATIC} */")),
        14 => ("empty", String::new()),
        15 => { let pad = boundary_pad(rng); ("static_at_block_boundary", format!("{pad}{STATIC}\n{tail}")) }
        16 => { let pad = boundary_pad(rng); ("after_at_block_boundary", format!("{pad}{AFTER}\n{tail}")) }
        // the text after the directive is much longer than anything the generator will put there
        _ => ("after_long_tail", format!("{head}// {AFTER}\n{}{tail}", long.repeat(30))),
    };
    let mut bytes = body.into_bytes();
    // occasionally make the file invalid UTF-8
    if rng.chance(1, 14) {
        bytes.push(0xff);
        bytes.push(0xfe);
        hist.bump(&format!("content:{name}+nonutf8"));
    } else {
        hist.bump(&format!("content:{name}"));
    }
    bytes
}

fn gen_prior(rng: &mut Rng, gens: &[&Prepared], hist: &mut Report) -> Tree {
    let mut t = Tree::new();
    let mut generated: Vec<&String> = gens.iter().flat_map(|g| g.outs.keys()).collect();
    generated.sort();
    generated.dedup();
    let n_gen = rng.below(generated.len().min(8) + 1);
    for _ in 0..n_gen {
        let p = (*rng.pick(&generated)).clone();
        // now and then the file is what a generation puts there, up to its trailing blanks (a checkout that strips or
        // adds final newlines, a run that died one byte before the end)
        if rng.chance(1, 8) {
            let text = gens.iter().find_map(|g| g.outs.get(&p)).map(|c| match c { CodeSpec::Plain(s) => s.clone(), CodeSpec::Lib(a, _) => a.clone() });
            if let Some(text) = text {
                let v = match rng.below(3) { 0 => text.trim_end().to_string(), 1 => format!("{}\n\n", text.trim_end()), _ => format!("{} \n", text.trim_end()) };
                hist.bump("content:generated_up_to_trailing_blanks");
                t.insert(p, v.into_bytes());
                continue;
            }
        }
        t.insert(p, gen_content(rng, hist));
    }
    let n_extra = rng.below(7);
    for _ in 0..n_extra {
        let p = rng.pick(EXTRA_PATHS).to_string();
        t.insert(p, gen_content(rng, hist));
    }
    // a file cannot also be a directory of another entry
    let keys: Vec<String> = t.keys().cloned().collect();
    for k in &keys { if keys.iter().any(|o| o.starts_with(&format!("{k}/"))) { t.remove(k); } }
    t
}

// ---- one case --------------------------------------------------------------------------------

struct StepTrees { trees: Vec<Tree> } // trees[0] = prior, trees[i] = after generation i

fn run_real(prior: &Tree, gens: &[&Prepared]) -> Result<StepTrees, String> {
    let d = fresh_dir("case");
    write_tree(&d, prior);
    let mut trees = vec![prior.clone()];
    for g in gens {
        if let Err(e) = generate(&g.spec, &g.cfg, &d) {
            let _ = std::fs::remove_dir_all(&d);
            return Err(e);
        }
        trees.push(read_tree(&d));
    }
    let _ = std::fs::remove_dir_all(&d);
    Ok(StepTrees { trees })
}

fn run_request(prior: &Tree, gens: &[&Prepared]) -> String {
    format!("(run {} (gens {}))", tree_sexp(prior), gens.iter().map(|g| outs_sexp(g)).collect::<Vec<_>>().join(" "))
}

fn text_of(b: &[u8]) -> Option<&str> { std::str::from_utf8(b).ok() }

fn describe(prior: &Tree, gens: &[&Prepared]) -> String {
    // replayable description of a case (trees are small)
    format!("(case (gens {}) {})", gens.iter().map(|g| g.label.clone()).collect::<Vec<_>>().join(" "), tree_sexp(prior))
}

fn marker_free(g: &Prepared) -> bool {
    g.outs.values().all(|c| match c {
        CodeSpec::Plain(s) => !s.contains(STATIC) && !s.contains(AFTER),
        CodeSpec::Lib(a, b) => !a.contains(STATIC) && !a.contains(AFTER) && !b.contains(STATIC) && !b.contains(AFTER),
    })
}

fn oracle_c10(rep: &mut Report, case: &str, st: &StepTrees) {
    let prior = &st.trees[0];
    for (p, b) in prior {
        if !has(b, STATIC) { continue; }
        rep.bump("c10_static_files_checked");
        for (i, t) in st.trees.iter().enumerate().skip(1) {
            let trig = if text_of(b).is_none() { vec!["nonUtf8StaticFile".to_string()] } else { vec![] };
            match t.get(p) {
                None => { rep.oracle_fail("staticDeleted", trig, case, &format!("{p} deleted by generation {i}")); break; }
                Some(x) if x != b => { rep.oracle_fail("staticModified", trig, case, &format!("{p} modified by generation {i}")); break; }
                _ => {}
            }
        }
    }
}

fn oracle_c11(rep: &mut Report, case: &str, st: &StepTrees, gens: &[&Prepared]) {
    for (i, g) in gens.iter().enumerate() {
        let before = &st.trees[i];
        let after = &st.trees[i + 1];
        for (p, cs) in &g.outs {
            let Some(b) = before.get(p) else { continue };
            let Some(t) = text_of(b) else { continue };
            if t.contains(STATIC) { continue; }
            let Some(pos) = t.find(AFTER) else { continue };
            rep.bump("c11_after_files_checked");
            let pre = &t[..pos];
            let code = match cs {
                CodeSpec::Plain(c) => c.clone(),
                CodeSpec::Lib(full, sup) => if pre.contains(DHC) { rep.bump("c11_lib_suppressed"); sup.clone() } else { full.clone() },
            };
            let expect = format!("{pre}{AFTER}\n{code}");
            match after.get(p) {
                Some(x) if x.as_slice() == expect.as_bytes() => {}
                Some(x) => {
                    let got = String::from_utf8_lossy(x);
                    let tag = if !got.starts_with(&format!("{pre}{AFTER}")) { "afterPrefixLost" } else { "afterRestNotFresh" };
                    rep.oracle_fail(tag, vec![], case, &format!("{p} after generation {}: expected prefix+directive+newline+fresh code", i + 1));
                }
                None => rep.oracle_fail("afterFileDeleted", vec![], case, &format!("{p} missing after generation {}", i + 1)),
            }
            // the hand-written default_http_client suppresses the generated one
            if let CodeSpec::Lib(full, sup) = cs {
                if !full.contains("fn default_http_client") || sup.contains("fn default_http_client") {
                    rep.oracle_fail("libSuppressionWrong", vec![], case, "full lib.rs must define default_http_client, the suppressed variant must not");
                }
            }
        }
    }
}

fn oracle_c12(rep: &mut Report, case: &str, st: &StepTrees, gens: &[&Prepared]) {
    for (i, g) in gens.iter().enumerate() {
        let before = &st.trees[i];
        let after = &st.trees[i + 1];
        // exactness inside cleanup's scope
        let mut expect: BTreeSet<&String> = g.outs.keys().filter(|p| in_scope(p)).collect();
        let mut nonutf8_static = false;
        for (p, b) in before {
            if in_scope(p) && has(b, STATIC) {
                expect.insert(p);
                if text_of(b).is_none() && !g.outs.contains_key(p) { nonutf8_static = true; }
            }
        }
        let got: BTreeSet<&String> = after.keys().filter(|p| in_scope(p)).collect();
        if expect != got {
            let trig = if nonutf8_static { vec!["nonUtf8StaticFile".to_string()] } else { vec![] };
            let diff: Vec<_> = expect.symmetric_difference(&got).take(5).collect();
            rep.oracle_fail("cleanupInexact", trig, case, &format!("generation {}: .rs files under src/ and examples/ differ from outputs + static files at {diff:?}", i + 1));
        } else { rep.bump("c12_exact_ok"); }
        // confinement: nothing outside the scope is created, changed or removed (generated paths are all in scope)
        let out_b: BTreeMap<&String, &Vec<u8>> = before.iter().filter(|(p, _)| !in_scope(p)).collect();
        let out_a: BTreeMap<&String, &Vec<u8>> = after.iter().filter(|(p, _)| !in_scope(p)).collect();
        if out_b != out_a {
            rep.oracle_fail("confinementBroken", vec![], case, &format!("generation {}: a file outside src/**.rs, examples/**.rs was created, changed or removed", i + 1));
        } else { rep.bump("c12_confined_ok"); }
        if let Some(p) = g.outs.keys().find(|p| !in_scope(p)) {
            rep.oracle_fail("generatedOutOfScope", vec![], case, &format!("generated path {p} is not a .rs file under src/ or examples/"));
        }
        // convergence of content: a generated path whose prior file carried no directive holds exactly the fresh code afterwards,
        // whatever was there before (longer, shorter, torn)
        for (p, cs) in &g.outs {
            let marked = before.get(p).map(|b| has(b, STATIC) || has(b, AFTER)).unwrap_or(false);
            if marked { continue; }
            let fresh = match cs { CodeSpec::Plain(c) => c, CodeSpec::Lib(full, _) => full };
            match after.get(p) {
                Some(x) if x.as_slice() == fresh.as_bytes() => rep.bump("c12_overwrite_fresh_ok"),
                _ => rep.oracle_fail("overwriteNotFresh", vec![], case, &format!("generation {}: {p} does not hold exactly the freshly generated code", i + 1)),
            }
        }
    }
}

/// Re-run the last generation on its own result: must change nothing.
fn oracle_idempotent(rep: &mut Report, case: &str, st: &StepTrees, gens: &[&Prepared]) {
    let last = gens[gens.len() - 1];
    let fin = st.trees.last().unwrap();
    let trig = if marker_free(last) { vec![] } else { vec!["generatedCodeContainsDirective".to_string()] };
    match run_real(fin, &[last]) {
        Ok(st2) => {
            if st2.trees[1] != *fin { rep.oracle_fail("notIdempotent", trig, case, "running the same generation again changed the tree"); } else { rep.bump("c12_idempotent_ok"); }
        }
        Err(e) => rep.oracle_fail("panic", vec![], case, &e),
    }
}

struct CrashOutcome { reqs: Vec<String>, imps: Vec<String> }

/// Crash the single generation `g` on `prior` at every write index / sampled byte offsets and during
/// cleanup; re-run on the wreck; compare with the uninterrupted result.
fn crash_cases(rep: &mut Report, rng: &mut Rng, case: &str, prior: &Tree, g: &Prepared, offsets: usize, fixed: Option<Vec<String>>) -> CrashOutcome {
    let mut out = CrashOutcome { reqs: vec![], imps: vec![] };
    let Ok(base) = run_real(prior, &[g]) else { return out };
    let uninterrupted = &base.trees[1];
    let n_writes = g.outs.len();
    let mut plans: Vec<String> = Vec::new();
    for k in 0..n_writes {
        plans.push(format!("{k}:pre"));
        plans.push(format!("{k}:0"));
        for _ in 0..offsets { plans.push(format!("{k}:{}", rng.below(6000))); }
        plans.push(format!("{k}:1"));
    }
    for j in 0..4 { plans.push(format!("rm:{j}")); }
    // sample to keep quick runs quick
    let max_plans = if offsets > 2 { plans.len() } else { 24 };
    while plans.len() > max_plans { let i = rng.below(plans.len()); plans.swap_remove(i); }
    if let Some(f) = fixed { plans = f; }
    for plan in plans {
        let d = fresh_dir("crash");
        write_tree(&d, prior);
        let status = generate_with_crash(&g.spec_path, &g.cfg, &d, &plan);
        let wreck = read_tree(&d);
        let crashed = status.starts_with("signal");
        rep.bump(if crashed { "crash_runs_aborted" } else { "crash_runs_completed" });
        // 1. the model's notion of crash state covers the real wreck
        out.reqs.push(format!("(crashok {} {} {})", tree_sexp(prior), tree_sexp(&wreck), outs_sexp(g)));
        out.imps.push("true".into());
        // 2. re-run on the wreck
        let rerun = generate(&g.spec, &g.cfg, &d);
        let after = read_tree(&d);
        let _ = std::fs::remove_dir_all(&d);
        out.reqs.push(run_request(&wreck, &[g]));
        out.imps.push(tree_sexp(&after));
        if let Err(e) = rerun { rep.oracle_fail("panic", vec![], case, &e); continue; }
        if after != *uninterrupted {
            // which trigger? an after-marked file whose prefix did not survive the crash
            let mut trig = vec![];
            for (p, b) in prior {
                if let Some(t) = text_of(b) {
                    if !t.contains(STATIC) && g.outs.contains_key(p) {
                        if let Some(pos) = t.find(AFTER) {
                            let keep = &t.as_bytes()[..pos + AFTER.len()];
                            if !wreck.get(p).map(|w| w.starts_with(keep)).unwrap_or(false) { trig.push("afterFileCrashInsidePrefix".to_string()); break; }
                        }
                    }
                }
            }
            if !marker_free(g) { trig.push("generatedCodeContainsDirective".to_string()); }
            rep.oracle_fail("crashDiverges", trig, &format!("(crash {plan} {case})"), &format!("re-running after a crash at {plan} ({status}) does not give the uninterrupted tree"));
        } else { rep.bump("crash_converged"); }
    }
    out
}

fn project(prop: &str, prior: &Tree, gens: &[&Prepared], t: &Tree) -> Tree {
    match prop {
        "C10" => t.iter().filter(|(p, _)| prior.get(*p).map(|b| has(b, STATIC)).unwrap_or(false)).map(|(p, b)| (p.clone(), b.clone())).collect(),
        "C11" => t.iter().filter(|(p, _)| gens.iter().any(|g| g.outs.contains_key(*p)) && prior.get(*p).map(|b| has(b, AFTER)).unwrap_or(false)).map(|(p, b)| (p.clone(), b.clone())).collect(),
        _ => t.clone(),
    }
}

pub fn run(prop: &str, tier: &str, seed: u64, out: &str) {
    silence_panics();
    let mut rep = Report::new(prop, tier, seed);
    let thorough = tier == "thorough";
    let specs_dir = concat!(env!("CARGO_MANIFEST_DIR"), "/specs");
    let rd = |f: &str| std::fs::read_to_string(format!("{specs_dir}/{f}")).expect(f);
    let mut prepared: Vec<Prepared> = Vec::new();
    let mut cfg_noex = Cfg::new("Pet Store"); cfg_noex.examples = false;
    let mut cfg_der = Cfg::new("petstore"); cfg_der.derives = vec!["PartialEq".into()];
    let mut list: Vec<(&str, String, Cfg)> = vec![
        ("pets1", rd("pets1.yaml"), Cfg::new("PetStore")),
        ("pets1_noex", rd("pets1.yaml"), cfg_noex),
        ("pets2", rd("pets2.yaml"), cfg_der),
        ("tiny", rd("tiny.yaml"), Cfg::new("Tiny")),
    ];
    if thorough {
        list.push(("basic", std::fs::read_to_string("/repo/test_specs/basic.yaml").unwrap_or_default(), Cfg::new("Basic")));
        list.push(("deepl", std::fs::read_to_string("/repo/test_specs/deepl.yaml").unwrap_or_default(), Cfg::new("Deepl")));
    }
    for (label, text, cfg) in list {
        match prepare(label, &text, cfg) {
            Ok(p) => prepared.push(p),
            Err(e) => rep.oracle_fail("panic", vec![], &format!("(prepare {label})"), &e),
        }
    }
    if prepared.is_empty() { rep.write(out); return; }
    for g in &prepared { if !marker_free(g) { rep.notes.push(format!("generated code of {} contains a directive", g.label)); } }

    let n_cases = if thorough { 4000 } else { 300 };
    let rng0 = Rng::new(seed);
    let mut reqs: Vec<String> = Vec::new();
    let mut imps: Vec<String> = Vec::new();
    let mut projs: Vec<(Tree, Vec<usize>)> = Vec::new(); // prior tree and gen indices per request (None for crash requests)
    let mut kinds: Vec<u8> = Vec::new(); // 0 = run request (projectable), 1 = raw compare
    let mut distinct = BTreeSet::new();
    let mut nontrivial = 0u64;
    // corpus first: the witnesses of the recorded findings and hand-picked marker placements
    let mut corpus: Vec<(Tree, Vec<usize>, Option<Vec<String>>)> = Vec::new();
    {
        let b = |s: &str| s.as_bytes().to_vec();
        let mut nonutf8 = b("// libninja: static\nfn keep() {}\n"); nonutf8.push(0xff);
        let mut t = Tree::new();
        t.insert("src/model/pet.rs".into(), nonutf8.clone());
        t.insert("src/extra.rs".into(), nonutf8.clone());
        t.insert("examples/keep.rs".into(), b("fn main() {} // libninja: static"));
        corpus.push((t, vec![0], None));
        let mut t = Tree::new();
        t.insert("src/model/mod.rs".into(), b("// mine\n// libninja: after\nold"));
        t.insert("src/lib.rs".into(), b("pub fn default_http_client() -> Client { Client::new() }\n// libninja: after\nold"));
        t.insert("src/stale.rs".into(), b("fn stale() {}"));
        corpus.push((t, vec![3], Some(vec!["0:0".into(), "0:12".into(), "0:pre".into(), "2:0".into(), "rm:0".into()])));
        let mut t = Tree::new();
        t.insert("src/request/get_pet.rs".into(), b("use x; /* libninja: after */ tail\r\n// libninja: after\n"));
        t.insert("README.md".into(), b("libninja: static"));
        t.insert("src/notes.txt".into(), b("libninja: after"));
        corpus.push((t, vec![0, 2, 1], None));
    }
    let n_corpus = corpus.len();
    rep.add("corpus", n_corpus as u64);
    for i in 0..(n_cases + n_corpus) {
        let mut rng = rng0.fork(i as u64);
        let (prior, idx, fixed_plans) = if i < n_corpus {
            corpus[i].clone()
        } else {
            let k = rng.range(1, 3);
            let big = thorough && rng.chance(1, 10);
            let idx: Vec<usize> = (0..k).map(|_| rng.below(prepared.len().min(if big { 6 } else { 4 }))).collect();
            let gens: Vec<&Prepared> = idx.iter().map(|&j| &prepared[j]).collect();
            (gen_prior(&mut rng, &gens, &mut rep), idx, None)
        };
        let k = idx.len();
        let gens: Vec<&Prepared> = idx.iter().map(|&j| &prepared[j.min(prepared.len() - 1)]).collect();
        let case = describe(&prior, &gens);
        rep.bump(&format!("generations:{k}"));
        let st = match run_real(&prior, &gens) {
            Ok(s) => s,
            Err(e) => { rep.oracle_fail("panic", vec![], &case, &e); continue; }
        };
        if distinct.insert(fnv(&case)) {
            // non-trivial: the prior tree has at least one marked file or a stale .rs file in scope
            if prior.iter().any(|(p, b)| has(b, STATIC) || has(b, AFTER) || (in_scope(p) && !gens.last().unwrap().outs.contains_key(p))) { nontrivial += 1; }
        }
        reqs.push(run_request(&prior, &gens));
        imps.push(tree_sexp(st.trees.last().unwrap()));
        projs.push((prior.clone(), idx.clone()));
        kinds.push(0);
        match prop {
            "C10" => oracle_c10(&mut rep, &case, &st),
            "C11" => oracle_c11(&mut rep, &case, &st, &gens),
            _ => {
                oracle_c12(&mut rep, &case, &st, &gens);
                oracle_idempotent(&mut rep, &case, &st, &gens);
                let crash_every = if thorough { 20 } else { 25 };
                if i % crash_every == 0 || fixed_plans.is_some() {
                    let g = gens[0];
                    if g.outs.len() <= 40 {
                        let co = crash_cases(&mut rep, &mut rng, &describe(&prior, &[g]), &prior, g, if thorough { 5 } else { 2 }, fixed_plans.clone());
                        for (q, im) in co.reqs.into_iter().zip(co.imps.into_iter()) {
                            reqs.push(q); imps.push(im); projs.push((Tree::new(), vec![])); kinds.push(1);
                        }
                    }
                }
            }
        }
    }
    // ---- model ----
    let mods = model::eval(&reqs);
    for (((q, im), m), (kind, (prior, idx))) in reqs.iter().zip(imps.iter()).zip(mods.iter()).zip(kinds.iter().zip(projs.iter())) {
        if im == m { continue; }
        if *kind == 0 {
            let gens: Vec<&Prepared> = idx.iter().map(|&j| &prepared[j]).collect();
            match (parse_tree(im), parse_tree(m)) {
                (Some(a), Some(b)) => {
                    let pa = project(prop, prior, &gens, &a);
                    let pb = project(prop, prior, &gens, &b);
                    if pa != pb {
                        let short = describe(prior, &gens);
                        rep.disagree(&short, &tree_sexp(&pa), &tree_sexp(&pb));
                    } else { rep.bump("disagreement_outside_projection"); }
                }
                _ => rep.disagree(&q.chars().take(2000).collect::<String>(), &im.chars().take(2000).collect::<String>(), &m.chars().take(2000).collect::<String>()),
            }
        } else {
            let lim = if rep.disagreements.len() < 3 { usize::MAX } else { 4000 };
            rep.disagree(&q.chars().take(lim).collect::<String>(), &im.chars().take(2000).collect::<String>(), &m.chars().take(2000).collect::<String>());
        }
    }
    rep.evaluations = reqs.len() as u64;
    rep.distinct_nontrivial = nontrivial;
    rep.rule = format!("{n_cases} cases: a random prior tree (generated paths and {} non-generated paths over root/src/src/model/src/request/src/other/examples/tests/benches x .rs/other extensions x plain/static/after/both/empty/non-UTF-8 contents, marker at top, mid-line, end of file, CRLF) x 1..3 generations drawn from {} prepared (spec, config) pairs, run through the real generate_rust_library and through the Lean Fs model fed with each generation's fresh code; for C12 also idempotence re-runs and real aborts through the cfg(libninja_verif) hook at every write index / sampled byte offsets / during cleanup. Non-trivial = distinct case whose prior tree holds a marked file or a stale in-scope .rs file", EXTRA_PATHS.len(), prepared.len());
    if !reqs.is_empty() {
        rep.samples.push(serde_json::json!({"request": reqs[0].chars().take(1500).collect::<String>(), "implementation": imps[0].chars().take(800).collect::<String>(), "model": mods[0].chars().take(800).collect::<String>()}));
    }
    rep.write(out);
}
