use std::panic::{catch_unwind, AssertUnwindSafe};

/// Run `f`, mapping a panic to its message.
pub fn catch<T>(f: impl FnOnce() -> T) -> Result<T, String> {
    match catch_unwind(AssertUnwindSafe(f)) {
        Ok(v) => Ok(v),
        Err(e) => {
            let msg = if let Some(s) = e.downcast_ref::<&str>() {
                s.to_string()
            } else if let Some(s) = e.downcast_ref::<String>() {
                s.clone()
            } else {
                "<non-string panic>".to_string()
            };
            Err(msg)
        }
    }
}

pub fn silence_panics() {
    std::panic::set_hook(Box::new(|_| {}));
}

pub const NAME_ALPHABET: &str = "ABCDEFGHIJKLMNOPQRSTUVWXYZabcdefghijklmnopqrstuvwxyz0123456789_.- /:@'+";

pub fn in_name_domain(s: &str) -> bool {
    !s.is_empty() && s.chars().all(|c| NAME_ALPHABET.contains(c)) && s.chars().any(|c| c.is_ascii_alphanumeric())
}

/// The words syn 2.0.77 refuses as `Ident` (besides `_`).
pub const KEYWORDS: &[&str] = &[
    "abstract", "as", "async", "await", "become", "box", "break", "const", "continue", "crate", "do", "dyn",
    "else", "enum", "extern", "false", "final", "fn", "for", "if", "impl", "in", "let", "loop", "macro", "match",
    "mod", "move", "mut", "override", "priv", "pub", "ref", "return", "Self", "self", "static", "struct", "super",
    "trait", "true", "try", "type", "typeof", "unsafe", "unsized", "virtual", "where", "while", "yield", "use",
];
/// Weak / edition keywords and other words worth trying; legal identifiers for syn.
pub const WEAK_KEYWORDS: &[&str] = &["union", "auto", "default", "macro_rules", "raw", "safe", "gen", "static_", "dyn_", "r#fn", "catch"];

pub const DICTIONARY: &[&str] = &[
    "id", "user", "userId", "user_id", "UserID", "HTTPServer", "v1", "v1Id", "x2y", "2fa", "3DSecure", "a1B2",
    "body", "Webhook", "Required", "bearer", "bearer_auth", "beta", "production", "development", "sandbox", "default",
    "page_size", "pageSize", "page-size", "Page Size", "items", "addresses", "status", "news", "Item", "Response",
    "client", "params", "args", "r", "res", "url", "item", "unwrapped", "authentication", "middleware", "OAuth2", "NoAuth",
    "String", "Vec", "Option", "Box", "Some", "None", "Ok", "Err", "Result", "Default", "Clone", "Debug", "Serialize", "Deserialize",
    "SdAddress.contractor1099", "get-phone-checks-v0.1", "meta/root", "+1", "-1", "x-api-key", "X-API-Key", "api_key", "apiKey",
];

pub fn fnv(s: &str) -> u64 {
    let mut h: u64 = 0xcbf29ce484222325;
    for b in s.as_bytes() {
        h ^= *b as u64;
        h = h.wrapping_mul(0x100000001b3);
    }
    h
}
