//! Dumps of the *parsed* OpenAPI document and of the real HirSpec as s-expressions
//! (the formats read / written by LnModel/SpecIO.lean).
use crate::sexp::quote;
use openapiv3 as oa;
use openapiv3::{OpenAPI, RefOr, Schema, SchemaKind, Type};

fn b(x: bool) -> &'static str { if x { "true" } else { "false" } }

fn opt(tag: &str, v: &Option<String>) -> String {
    match v { Some(s) => format!("({tag} {})", quote(s)), None => format!("(no{tag})") }
}

pub fn sref(r: &RefOr<Schema>) -> String {
    match r {
        RefOr::Reference { reference } => format!("(ref {})", quote(reference)),
        RefOr::Item(s) => schema(s),
    }
}

fn props(p: &oa::RefOrMap<Schema>) -> String {
    let mut o = String::from("(props");
    for (k, v) in p { o.push_str(&format!(" ({} {})", quote(k), sref(v))); }
    o.push(')');
    o
}
fn req(r: &[String]) -> String {
    let mut o = String::from("(req");
    for k in r { o.push(' '); o.push_str(&quote(k)); }
    o.push(')');
    o
}

pub fn schema(s: &Schema) -> String {
    let ext = &s.data.extensions;
    let naz = ext.get("x-null-as-zero").and_then(|v| v.as_bool()).unwrap_or(false);
    let xf = ext.get("x-format").and_then(|v| v.as_str()).map(|s| s.to_string());
    let mut rename = String::from("(rename");
    if let Some(m) = ext.get("x-rename").and_then(|v| v.as_object()) {
        for (k, v) in m { if let Some(a) = v.as_str() { rename.push_str(&format!(" ({} {})", quote(k), quote(a))); } }
    }
    rename.push(')');
    let kind = match &s.kind {
        SchemaKind::Type(Type::String(st)) => {
            let mut e = String::from("(");
            for (i, v) in st.enumeration.iter().enumerate() { if i > 0 { e.push(' '); } e.push_str(&quote(v)); }
            e.push(')');
            format!("(str {} {e})", quote(st.format.as_str()))
        }
        SchemaKind::Type(Type::Number(_)) => "(num)".into(),
        SchemaKind::Type(Type::Integer(_)) => "(int)".into(),
        SchemaKind::Type(Type::Boolean {}) => "(bool)".into(),
        SchemaKind::Type(Type::Object(o)) => {
            let addl = match &o.additional_properties {
                None => "absent".to_string(),
                Some(oa::AdditionalProperties::Any(x)) => format!("(any {})", b(*x)),
                Some(oa::AdditionalProperties::Schema(r)) => sref(r),
            };
            format!("(obj {} {} (addl {addl}))", props(&o.properties), req(&o.required))
        }
        SchemaKind::Type(Type::Array(a)) => match &a.items { Some(i) => format!("(arr {})", sref(i)), None => "(arr)".into() },
        SchemaKind::AllOf { all_of } => format!("(allof{})", all_of.iter().map(|r| format!(" {}", sref(r))).collect::<String>()),
        SchemaKind::OneOf { .. } => "(oneof)".into(),
        SchemaKind::AnyOf { .. } => "(anyof)".into(),
        SchemaKind::Not { .. } => "(not)".into(),
        SchemaKind::Any(a) => format!("(anyk {} {})", props(&a.properties), req(&a.required)),
    };
    format!("(s {} {} (ext {} {} {rename}) {kind})", b(s.data.nullable), opt("desc", &s.data.description), b(naz), opt("xformat", &xf))
}

fn param(p: &RefOr<oa::Parameter>) -> String {
    match p {
        RefOr::Reference { reference } => format!("(ref {})", quote(reference)),
        RefOr::Item(p) => {
            let loc = match p.kind { oa::ParameterKind::Query { .. } => "query", oa::ParameterKind::Header { .. } => "header", oa::ParameterKind::Path { .. } => "path", oa::ParameterKind::Cookie { .. } => "cookie" };
            let sch = match p.data.schema() { Some(r) => sref(r), None => "(noschema)".into() };
            format!("(p {} {loc} {} {sch})", quote(&p.data.name), b(p.data.required))
        }
    }
}

fn response(r: &RefOr<oa::Response>) -> String {
    match r {
        RefOr::Reference { reference } => format!("(ref {})", quote(reference)),
        RefOr::Item(r) => match r.content.get("application/json").and_then(|m| m.schema.as_ref()) { Some(s) => format!("(resp {})", sref(s)), None => "(resp)".into() },
    }
}

fn body(r: &RefOr<oa::RequestBody>) -> String {
    match r {
        RefOr::Reference { reference } => format!("(ref {})", quote(reference)),
        RefOr::Item(r) => match r.content.get("application/json").and_then(|m| m.schema.as_ref()) { Some(s) => format!("(body {})", sref(s)), None => "(body)".into() },
    }
}

fn operation(method: &str, op: &oa::Operation) -> String {
    let mut rs = String::from("(responses");
    for (code, r) in &op.responses.responses {
        let c = match code { oa::StatusCode::Code(n) => n.to_string(), oa::StatusCode::Range(n) => format!("range{n}") };
        rs.push_str(&format!(" ({c} {})", response(r)));
    }
    if let Some(d) = &op.responses.default { rs.push_str(&format!(" (default {})", response(d))); }
    rs.push(')');
    format!("(op {} {} {} {} {} (params{}) {} {rs})", quote(method), opt("id", &op.operation_id), opt("summary", &op.summary), opt("desc", &op.description),
        opt("extdocs", &op.external_docs.as_ref().map(|e| e.url.clone())),
        op.parameters.iter().map(|p| format!(" {}", param(p))).collect::<String>(),
        match &op.request_body { Some(bd) => body(bd), None => "(nobody)".into() })
}

pub fn spec(s: &OpenAPI) -> String {
    let mut o = String::from("(spec (servers");
    for sv in &s.servers {
        match &sv.description { Some(d) => o.push_str(&format!(" (server {} {})", quote(&sv.url), quote(d))), None => o.push_str(&format!(" (server {})", quote(&sv.url))) }
    }
    o.push_str(") (security");
    for r in &s.security { o.push_str(&format!(" (req{})", r.keys().map(|k| format!(" {}", quote(k))).collect::<String>())); }
    o.push_str(") (schemes");
    for (n, sc) in &s.components.security_schemes {
        let v = match sc {
            RefOr::Reference { reference } => format!("(ref {})", quote(reference)),
            RefOr::Item(oa::SecurityScheme::APIKey { location, name, .. }) => format!("(apikey {} {})", match location { oa::APIKeyLocation::Query => "query", oa::APIKeyLocation::Header => "header", oa::APIKeyLocation::Cookie => "cookie" }, quote(name)),
            RefOr::Item(oa::SecurityScheme::HTTP { scheme, .. }) => format!("(http {})", quote(scheme)),
            RefOr::Item(oa::SecurityScheme::OAuth2 { flows, .. }) => match &flows.authorization_code {
                Some(f) => format!("(oauth2 {} {} {} (scopes{}))", quote(&f.authorization_url), quote(&f.token_url), opt("refresh", &f.refresh_url), f.scopes.iter().map(|(k, v)| format!(" ({} {})", quote(k), quote(v))).collect::<String>()),
                None => "(oauth2none)".into(),
            },
            RefOr::Item(oa::SecurityScheme::OpenIDConnect { .. }) => "(openid)".into(),
        };
        o.push_str(&format!(" ({} {v})", quote(n)));
    }
    o.push_str(&format!(") {} (components", opt("extdocs", &s.external_docs.as_ref().map(|e| e.url.clone()))));
    for (n, r) in &s.components.schemas { o.push_str(&format!(" ({} {})", quote(n), sref(r))); }
    o.push_str(") (cparams");
    for (n, r) in &s.components.parameters { o.push_str(&format!(" ({} {})", quote(n), param(r))); }
    o.push_str(") (cresponses");
    for (n, r) in &s.components.responses { o.push_str(&format!(" ({} {})", quote(n), response(r))); }
    o.push_str(") (cbodies");
    for (n, r) in &s.components.request_bodies { o.push_str(&format!(" ({} {})", quote(n), body(r))); }
    o.push_str(") (paths");
    for (t, item) in s.paths.iter() {
        let Some(item) = item.as_item() else { continue };
        o.push_str(&format!(" (path {} (params{}) (ops{}))", quote(t), item.parameters.iter().map(|p| format!(" {}", param(p))).collect::<String>(),
            item.iter().map(|(m, op)| format!(" {}", operation(m, op))).collect::<String>()));
    }
    o.push_str("))");
    o
}

// ---- HIR ------------------------------------------------------------------------------------

use mir::{DateSerialization, IntegerSerialization, Ty};

pub fn ty(t: &Ty) -> String {
    match t {
        Ty::String => "string".into(),
        Ty::Integer { ser: IntegerSerialization::Simple } => "(integer simple)".into(),
        Ty::Integer { ser: IntegerSerialization::String } => "(integer string)".into(),
        Ty::Integer { ser: IntegerSerialization::NullAsZero } => "(integer nullAsZero)".into(),
        Ty::Float => "float".into(),
        Ty::Boolean => "boolean".into(),
        Ty::Array(t) => format!("(array {})", ty(t)),
        Ty::HashMap(t) => format!("(map {})", ty(t)),
        Ty::Model(n) => format!("(model {})", quote(n)),
        Ty::Unit => "unit".into(),
        Ty::Date { ser: DateSerialization::Iso8601 } => "(date iso8601)".into(),
        Ty::Date { ser: DateSerialization::Integer } => "(date integer)".into(),
        Ty::DateTime => "datetime".into(),
        Ty::Currency { .. } => "currency".into(),
        Ty::Any(_) => "any".into(),
    }
}

fn doc(d: &Option<mir::Doc>) -> String { match d { Some(d) => format!("(doc {})", quote(&d.0)), None => "(nodoc)".into() } }

fn field(f: &hir::HirField) -> String { format!("(f {} {} {} {})", ty(&f.ty), b(f.optional), b(f.flatten), doc(&f.doc)) }

pub fn record(r: &hir::Record) -> String {
    match r {
        hir::Record::Struct(s) => format!("(struct {} {} {} (fields{}))", quote(&s.name), b(s.nullable), doc(&s.docs), s.fields.iter().map(|(k, f)| format!(" ({} {})", quote(k), field(f))).collect::<String>()),
        hir::Record::NewType(n) => format!("(newtype {} {} (fields{}))", quote(&n.name), doc(&n.doc), n.fields.iter().map(|f| format!(" {}", field(f))).collect::<String>()),
        hir::Record::TypeAlias(n, f) => format!("(alias {} {})", quote(n), field(f)),
        hir::Record::Enum(e) => format!("(enum {} {} (variants{}))", quote(&e.name), doc(&e.doc), e.variants.iter().map(|v| format!(" ({} {})", quote(&v.value), match &v.alias { Some(a) => format!("(alias {})", quote(a)), None => "(noalias)".into() })).collect::<String>()),
    }
}

pub fn loc(l: &hir::Location) -> &'static str {
    match l { hir::Location::Path => "path", hir::Location::Body => "body", hir::Location::Query => "query", hir::Location::Header => "header", hir::Location::Cookie => "cookie" }
}

pub fn operation_hir(o: &hir::Operation) -> String {
    format!("(op {} {} {} {} {} (params{}))", quote(&o.name), quote(&o.method), quote(&o.path), doc(&o.doc), ty(&o.ret),
        o.parameters.iter().map(|p| format!(" (p {} {} {} {})", quote(&p.name), ty(&p.ty), loc(&p.location), b(p.optional))).collect::<String>())
}

fn auth_loc(l: &hir::AuthLocation) -> String {
    match l {
        hir::AuthLocation::Header { key } => format!("(header {})", quote(key)),
        hir::AuthLocation::Basic => "basic".into(),
        hir::AuthLocation::Bearer => "bearer".into(),
        hir::AuthLocation::Token => "token".into(),
        hir::AuthLocation::Query { key } => format!("(query {})", quote(key)),
        hir::AuthLocation::Cookie { key } => format!("(cookie {})", quote(key)),
    }
}

pub fn auth(a: &hir::AuthStrategy) -> String {
    match a {
        hir::AuthStrategy::Token(t) => format!("(token {} (fields{}))", quote(&t.name), t.fields.iter().map(|f| format!(" ({} {})", quote(&f.name), auth_loc(&f.location))).collect::<String>()),
        hir::AuthStrategy::OAuth2(o) => format!("(oauth2 {} {} {} (scopes{}))", quote(&o.auth_url), quote(&o.exchange_url), quote(&o.refresh_url), o.scopes.iter().map(|(k, v)| format!(" ({} {})", quote(k), quote(v))).collect::<String>()),
        hir::AuthStrategy::NoAuth => "(noauth)".into(),
    }
}

pub fn hir_spec(h: &hir::HirSpec) -> String {
    format!("(hir (schemas{}) (ops{}) (servers{}) (security{}) {})",
        h.schemas.iter().map(|(k, r)| format!(" ({} {})", quote(k), record(r))).collect::<String>(),
        h.operations.iter().map(|o| format!(" {}", operation_hir(o))).collect::<String>(),
        h.servers.iter().map(|(k, u)| format!(" ({} {})", quote(k), quote(u))).collect::<String>(),
        h.security.iter().map(|a| format!(" {}", auth(a))).collect::<String>(),
        match &h.api_docs_url { Some(u) => format!("(docs {})", quote(u)), None => "(nodocs)".into() })
}
