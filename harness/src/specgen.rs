//! Structured random OpenAPI documents in the supported domain D, built from libninja's own
//! vocabulary (see DESIGN.md 3.2). Every choice comes from one PRNG so a case replays from (seed, index).
use crate::rng::Rng;
use serde_json::{json, Map, Value};

pub const SCHEMA_NAMES: &[&str] = &[
    "Pet", "Owner", "Order", "Item", "Items", "Tag", "Tags", "Status", "Address", "Addresses", "Category", "Event", "EvtWebhook",
    "Node", "Tree", "Money", "Id", "Ids", "Error", "ListPetsResponse", "GetPetResponse", "PetItem", "V1Thing", "HTTPConfig", "Type", "Self",
    "Box", "Option", "Class", "Glass", "Policies", "Meta", "APIKeys", "ApiKey", "URLs", "Url", "LineItems", "LineItem",
];
pub const PROP_NAMES: &[&str] = &[
    "id", "name", "tag", "status", "owner", "items", "tags", "createdAt", "created_at", "page-size", "pageSize", "type", "self", "fn", "ref",
    "match", "2fa", "3d_secure", "X-Request-Id", "x.y", "a b", "user:id", "value", "amount", "body", "client", "params", "async", "r",
    "url", "limit", "offset", "q", "sort", "children", "parent", "meta", "data", "v1Id", "HTTPCode", "e-mail",
];
pub const ENUM_VALUES: &[&str] = &["available", "pending", "sold", "A", "b", "in-progress", "2xx", "3D", "self", "type", "+1", "-1", "a.b", "x y", "UPPER_CASE", "Self", "done"];
pub const DESCS: &[&str] = &[
    "A simple description.", "  padded  ", "line one\nline two", "with \"quotes\" and \\backslash\\", "ends with */ comment", "{braces} and {}", "\n\nblank lines around\n\n",
    "crlf\r\nline", "caf\u{e9} \u{1F600} unicode", "next\u{85}line separator", "a pair {\"name\" : \"rex\"} with spaced colons", "", "See <https://example.com>.", "tab\there", "`code` and *emphasis*",
    "\"active\" while listed, otherwise \"archived\"", "'single' quoted 'ends'", "/// looks like a doc comment", "#[attr] and #![inner]", "trailing backslash \\",
    "/* block */ comment", "r#\"raw\"#", "\u{a0}non-breaking space around\u{a0}", "  \t mixed whitespace \n ",
];

#[derive(Clone, Debug, Default)]
pub struct GenOpts {
    pub max_schemas: usize,
    pub max_paths: usize,
    /// include features known (or suspected) to hit recorded findings: keyword operation ids, dotted paths, ...
    pub risky: bool,
    pub docs: bool,
    pub security: bool,
    pub servers: bool,
}

impl GenOpts {
    pub fn clean() -> GenOpts { GenOpts { max_schemas: 7, max_paths: 4, risky: false, docs: true, security: true, servers: true } }
}

pub struct SpecGen<'a> {
    pub rng: &'a mut Rng,
    pub opts: GenOpts,
    names: Vec<String>,
    kinds: Vec<&'static str>, // per component: object enum map array prim alias allof union any
    pub features: Vec<String>,
    /// allOf components whose own properties must not repeat a property of the objects they extend (one scope, D)
    pending_allof: Vec<String>,
    used_keyword_ids: Vec<String>,
    prev_ids: Vec<String>,
    nullable_aliases: Vec<String>,
}

fn r(name: &str) -> Value { json!({"$ref": format!("#/components/schemas/{name}")}) }

impl<'a> SpecGen<'a> {
    pub fn new(rng: &'a mut Rng, opts: GenOpts) -> Self { SpecGen { rng, opts, names: vec![], kinds: vec![], features: vec![], pending_allof: vec![], used_keyword_ids: vec![], prev_ids: vec![], nullable_aliases: vec![] } }

    fn feat(&mut self, f: &str) { if !self.features.iter().any(|x| x == f) { self.features.push(f.to_string()); } }

    fn desc(&mut self, s: &mut Value) {
        if self.opts.docs && self.rng.chance(1, 3) { s["description"] = json!(*self.rng.pick(DESCS)); self.feat("description"); }
    }

    fn primitive(&mut self) -> Value {
        match self.rng.below(14) {
            0 | 1 => json!({"type": "string"}),
            2 => json!({"type": "string", "format": "date"}),
            3 => json!({"type": "string", "format": "date-time"}),
            4 => json!({"type": "string", "format": "decimal"}),
            5 => json!({"type": "string", "format": "integer"}),
            6 => json!({"type": "string", "format": "uuid"}),
            7 | 8 => json!({"type": "integer"}),
            9 => json!({"type": "integer", "x-null-as-zero": true}),
            10 => if self.names.len() % 3 == 2 { json!({"type": "integer", "x-format": "date", "x-null-as-zero": true}) } else { json!({"type": "integer", "x-format": "date"}) },
            11 => json!({"type": "number"}),
            12 => json!({"type": "integer", "format": "int32"}),
            _ => json!({"type": "boolean"}),
        }
    }

    /// names of components that an array item / single-member allOf may point at without
    /// creating a cycle made only of array / alias hops
    fn solid_targets(&self) -> Vec<String> {
        self.names.iter().zip(self.kinds.iter()).filter(|(_, k)| !matches!(**k, "array" | "alias" | "pending")).map(|(n, _)| n.clone()).collect()
    }

    fn any_ref(&mut self) -> Option<Value> {
        if self.names.is_empty() { return None; }
        let n = self.rng.pick(&self.names).clone();
        Some(r(&n))
    }

    /// a component that describes objects: the only satisfiable `$ref` member of an allOf that also has properties
    fn object_ref(&mut self) -> Option<Value> {
        let t: Vec<String> = self.names.iter().zip(self.kinds.iter()).filter(|(_, k)| matches!(**k, "object" | "allof")).map(|(n, _)| n.clone()).collect();
        if t.is_empty() { return None; }
        let n: String = self.rng.pick(&t[..]).clone();
        Some(r(&n))
    }

    fn object_ref_or_solid(&mut self) -> Option<Value> { self.solid_ref() }

    fn is_object_ref(&self, x: &Value) -> bool {
        x["$ref"].as_str().and_then(|r| r.rsplit('/').next()).map(|n| self.names.iter().zip(self.kinds.iter()).any(|(m, k)| m == n && matches!(*k, "object" | "allof"))).unwrap_or(false)
    }

    fn solid_ref(&mut self) -> Option<Value> {
        let t = self.solid_targets();
        if t.is_empty() { return None; }
        let n: String = self.rng.pick(&t[..]).clone();
        Some(r(&n))
    }

    /// a schema for a property / parameter / item position
    pub fn schema(&mut self, depth: usize) -> Value {
        let k = self.rng.below(if depth >= 2 { 8 } else { 16 });
        let mut s = match k {
            0..=4 => self.primitive(),
            5 | 6 => self.any_ref().unwrap_or_else(|| json!({"type": "string"})),
            7 => { self.feat("inline_enum"); json!({"type": "string", "enum": ["a", "b"]}) }
            8 | 9 => {
                self.feat("array");
                let mut items = if self.rng.chance(1, 2) { self.solid_ref().unwrap_or_else(|| self.primitive()) } else { self.schema(depth + 1) };
                // a list of a nullable alias component (the alias must stay what the list holds)
                if (self.names.len() + depth) % 2 == 0 { if let Some(a) = self.nullable_aliases.first().cloned() { items = r(&a); self.feat("array_of_nullable_alias"); } }
                json!({"type": "array", "items": items})
            }
            10 => { self.feat("inline_object"); self.object(depth + 1, false) }
            11 => {
                self.feat("inline_map");
                let mut v = if self.rng.chance(1, 3) { json!(true) } else { self.schema(depth + 1) };
                if (self.names.len() + depth) % 2 == 1 { if let Some(a) = self.nullable_aliases.first().cloned() { v = r(&a); self.feat("map_of_nullable_alias"); } }
                json!({"type": "object", "additionalProperties": v})
            }
            12 => { self.feat("allof1"); let t = if self.rng.chance(1, 3) { self.any_ref() } else { self.object_ref_or_solid() }; match t {
                Some(_) if (self.names.len() + depth) % 5 == 4 => { self.feat("allof1_inline_primitive"); json!({"allOf": [{"type": "string", "format": "date"}]}) }
                Some(x) => if (self.names.len() + depth) % 3 == 1 && self.is_object_ref(&x) { self.feat("allof_ref_plus_inline_properties"); json!({"allOf": [x, {"type": "object", "properties": {"zz_extra_note": {"type": "string"}}, "required": ["zz_extra_note"]}]}) } else { json!({"allOf": [x]}) },
                None => json!({"type": "string"}) } }
            13 => { self.feat("oneof"); match (self.names.len() + depth) % 3 {
                // a union with a single member is still a union (no draw from the random stream)
                1 => { self.feat("oneof_single_member"); json!({"oneOf": [{"type": "string"}]}) }
                2 => { self.feat("anyof_single_member"); json!({"anyOf": [{"type": "integer"}]}) }
                _ => json!({"oneOf": [{"type": "string"}, {"type": "integer"}]}) } }
            14 => { self.feat("freeform"); json!({"type": "object"}) }
            _ => { self.feat("notype"); json!({}) }
        };
        if s.get("$ref").is_none() {
            if self.rng.chance(1, 6) { s["nullable"] = json!(true); self.feat("nullable"); }
            self.desc(&mut s);
        }
        s
    }

    fn prop_names(&mut self, n: usize) -> Vec<String> {
        // distinct after dropping non-alphanumerics and case folding (D)
        let mut out: Vec<String> = vec![];
        let mut seen: Vec<String> = vec![];
        let mut tries = 0;
        while out.len() < n && tries < 50 {
            tries += 1;
            let p = self.rng.pick(PROP_NAMES).to_string();
            let fold: String = p.chars().filter(|c| c.is_ascii_alphanumeric()).collect::<String>().to_lowercase();
            if seen.contains(&fold) { continue; }
            seen.push(fold);
            out.push(p);
        }
        out
    }

    pub fn object(&mut self, depth: usize, allow_empty: bool) -> Value {
        let n = self.rng.range(if allow_empty { 0 } else { 1 }, 5);
        let names = self.prop_names(n);
        let mut props = Map::new();
        let mut required = vec![];
        for p in names {
            let mut s = self.schema(depth);
            let is_required = self.rng.chance(1, 2);
            if is_required { required.push(json!(p.clone())); }
            // a required member that also declares a `default:` stays required (decided without drawing from the
            // generator's random stream, so that the documents of earlier runs are otherwise unchanged)
            if is_required && (p.len() + props.len() + self.names.len() + depth) % 3 == 0 {
                let plain = s.as_object().map_or(false, |m| m.len() == 1);
                let d = match s.get("type").and_then(|t| t.as_str()) { Some("string") => Some(json!("USD")), Some("integer") => Some(json!(1)), Some("boolean") => Some(json!(true)), Some("number") => Some(json!(1.5)), _ => None };
                if let (true, Some(d)) = (plain, d) { s["default"] = d; self.feat("required_member_with_default"); }
            }
            props.insert(p, s);
        }
        let n_props = props.len();
        let mut o = json!({"type": "object", "properties": props});
        if !required.is_empty() || self.rng.chance(1, 4) { o["required"] = Value::Array(required); }
        // declared properties AND typed additional properties: still a struct of the declared members
        if n_props >= 2 && (n_props + self.names.len() + depth) % 4 == 0 { o["additionalProperties"] = json!({"type": "string"}); self.feat("object_with_properties_and_additional"); }
        o
    }

    fn component(&mut self, name: &str) -> (Value, &'static str) {
        let k = self.rng.below(20);
        let (mut s, kind): (Value, &'static str) = match k {
            0..=7 => (self.object(0, true), "object"),
            8 | 9 => {
                let n = self.rng.range(1, 5);
                let mut vals: Vec<&str> = vec![];
                for _ in 0..n { let v = *self.rng.pick(ENUM_VALUES); if !vals.iter().any(|x| x.to_lowercase().replace(|c: char| !c.is_ascii_alphanumeric(), "") == v.to_lowercase().replace(|c: char| !c.is_ascii_alphanumeric(), "")) { vals.push(v); } }
                let mut e = json!({"type": "string", "enum": vals});
                if self.rng.chance(1, 4) { e["x-rename"] = json!({vals[0]: "Renamed"}); self.feat("x-rename"); }
                (e, "enum")
            }
            10 => { let v = if self.rng.chance(1, 4) { json!(true) } else { self.schema(1) }; (json!({"type": "object", "additionalProperties": v}), "map") }
            11 | 12 => {
                // array component: items by $ref to a solid component or a primitive (inline object items are a recorded finding)
                let mut items = if self.rng.chance(2, 3) { self.solid_ref().unwrap_or_else(|| self.primitive()) } else { self.primitive() };
                // a list of a model that is declared later: the model may in turn hold this list (recursion through a list component)
                if self.rng.chance(1, 5) {
                    let later: Vec<String> = self.names.iter().zip(self.kinds.iter()).filter(|(_, k)| **k == "pending").map(|(n, _)| n.clone()).filter(|n| n != name).collect();
                    if !later.is_empty() { let n: String = self.rng.pick(&later[..]).clone(); items = r(&n); self.feat("array_component_of_later_schema"); }
                }
                if self.opts.risky && self.rng.chance(1, 8) { items = r(name); self.feat("array_component_of_itself"); }
                self.feat("array_component");
                (json!({"type": "array", "items": items}), "array")
            }
            13 | 14 => { self.feat("primitive_component"); (self.primitive(), "prim") }
            15 => match { let earlier: Vec<String> = self.names.iter().zip(self.kinds.iter()).filter(|(_, k)| **k == "alias").map(|(n, _)| n.clone()).collect(); if !earlier.is_empty() && self.rng.chance(1, 2) { let n: String = self.rng.pick(&earlier[..]).clone(); self.feat("alias_of_alias"); Some(r(&n)) } else if self.rng.chance(1, 3) { let enums: Vec<String> = self.names.iter().zip(self.kinds.iter()).filter(|(_, k)| **k == "enum").map(|(n, _)| n.clone()).collect(); if enums.is_empty() { self.solid_ref() } else { let n: String = self.rng.pick(&enums[..]).clone(); self.feat("alias_of_enum"); Some(r(&n)) } } else { self.solid_ref() } } {
                Some(t) => { self.feat("alias_component"); let mut a = if self.names.len() % 3 == 2 { self.feat("alias_with_description_member"); json!({"allOf": [t, {"description": "the documented-reference idiom"}]}) } else { json!({"allOf": [t]}) }; if self.rng.chance(1, 2) { a["nullable"] = json!(true); self.feat("nullable_alias"); if self.is_object_ref(&a["allOf"][0]) { self.nullable_aliases.insert(0, name.to_string()); self.feat("nullable_alias_of_a_model"); } else { self.nullable_aliases.push(name.to_string()); } } (a, "alias") }
                None => (self.object(0, false), "object"),
            },
            16 | 17 => {
                self.feat("allof_component");
                let mut members = vec![];
                if let Some(t) = self.object_ref() { members.push(t); }
                if self.rng.chance(1, 2) { if let Some(t) = self.object_ref() { if !members.contains(&t) { members.push(t); } } }
                let mut o = self.object(1, false);
                o.as_object_mut().unwrap().remove("type");
                members.push(o);
                self.pending_allof.push(name.to_string());
                (json!({"allOf": members}), "allof")
            }
            18 => { self.feat("union_component"); (json!({"oneOf": [{"type": "string"}, {"type": "number"}]}), "union") }
            _ => { self.feat("any_component"); let mut o = self.object(1, false); o.as_object_mut().unwrap().remove("type"); (o, "any") }
        };
        let _ = name;
        // a component may itself be declared nullable (an object that an allOf extends, an enum, a list)
        if matches!(kind, "object" | "enum" | "array" | "map") && self.rng.chance(1, 8) { s["nullable"] = json!(true); self.feat("nullable_component"); }
        self.desc(&mut s);
        (s, kind)
    }

    fn param(&mut self, name: &str, loc: &str, required: bool) -> Value {
        let schema = match self.rng.below(8) {
            0..=3 => self.primitive(),
            4 => { let p = self.primitive(); json!({"type": "array", "items": p}) }
            5 => json!({"type": "array", "items": {"type": "string"}}),
            6 => {
                // $ref to an enum or primitive component, if any
                let cands: Vec<String> = self.names.iter().zip(self.kinds.iter()).filter(|(_, k)| matches!(**k, "enum" | "prim")).map(|(n, _)| n.clone()).collect();
                if cands.is_empty() { json!({"type": "string"}) } else { let n: String = self.rng.pick(&cands[..]).clone(); r(&n) }
            }
            _ => json!({"type": "string"}),
        };
        let schema = if loc == "path" { json!({"type": if self.rng.chance(1, 3) { "integer" } else { "string" }}) } else { schema };
        json!({"name": name, "in": loc, "required": required, "schema": schema})
    }

    fn response_schema(&mut self) -> Option<Value> {
        match self.rng.below(10) {
            0 => None,
            1..=4 => self.any_ref().or_else(|| Some(json!({"type": "string"}))),
            5 => { let it = self.solid_ref().unwrap_or_else(|| json!({"type": "string"})); Some(json!({"type": "array", "items": it})) }
            6 => { self.feat("inline_response_object"); Some(self.object(1, false)) }
            7 => Some(self.primitive()),
            8 => Some(json!({"type": "object"})),
            _ => { let it = self.primitive(); Some(json!({"type": "array", "items": it})) }
        }
    }

    fn operation(&mut self, verb: &str, path: &str, idx: usize, path_params: &[String], shared: &[String]) -> Value {
        let mut op = Map::new();
        if !self.rng.chance(1, 8) {
            let stem = ["list", "get", "create", "delete", "update", "search", "sync"][self.rng.below(7)];
            let id = match self.rng.below(6) {
                0 => format!("{stem}Thing{idx}"),
                1 => format!("{stem}_thing_{idx}"),
                2 => format!("{stem}-thing-{idx}"),
                3 => format!("things.{stem}{idx}"),
                4 => format!("{}Thing{idx}", stem.to_uppercase()),
                _ => format!("{stem}Thing{idx}V2"),
            };
            let mut id = id;
            if self.opts.risky && self.rng.chance(1, 4) {
                // identifiers the domain explicitly includes: leading digits and Rust keywords
                let kw = ["type", "match", "async", "self", "Self", "crate", "fn", "move", "ref", "box", "try", "union", "dyn"];
                id = match self.rng.below(4) {
                    0 => format!("2fa-{stem}-{idx}"),
                    1 => format!("3DSecure{idx}"),
                    2 => format!("{idx}{stem}"),
                    _ => { let k = kw[idx % kw.len()]; if self.used_keyword_ids.iter().any(|x| x.eq_ignore_ascii_case(k)) { format!("{k}_{idx}") } else { self.used_keyword_ids.push(k.to_string()); k.to_string() } }
                };
                self.feat("risky_operation_id");
            }
            // an id that extends an earlier one by a word the generator itself appends to names (no rng draw: the
            // choice is a function of the position, so that the rest of the document is as before)
            if !self.prev_ids.is_empty() && (idx + self.names.len()) % 4 == 3 && !self.features.iter().any(|f| f == "operation_id_extends_another") {
                let suffix = ["Request", "Required", "Response", "_request", "Item"][(idx + self.names.len() / 4) % 5];
                id = format!("{}{suffix}", self.prev_ids[0]);
                self.feat("operation_id_extends_another");
            }
            self.prev_ids.push(id.clone());
            op.insert("operationId".into(), json!(id));
        } else { self.feat("no_operation_id"); }
        if self.opts.docs {
            if self.rng.chance(1, 2) { op.insert("summary".into(), json!(*self.rng.pick(DESCS))); }
            if self.rng.chance(1, 2) { op.insert("description".into(), json!(*self.rng.pick(DESCS))); }
            if self.rng.chance(1, 5) { op.insert("externalDocs".into(), json!({"url": "https://docs.example.com/op"})); }
            if self.rng.chance(1, 10) { op.insert("summary".into(), json!("same text")); op.insert("description".into(), json!("same text")); }
            // summary and description are the same text written as block scalars (surrounding blanks and a final line end)
            if idx % 5 == 3 { op.insert("summary".into(), json!("  the same block text \n")); op.insert("description".into(), json!("  the same block text \n")); self.feat("summary_equals_description_with_blanks"); }
            // a description that begins with the words of the summary and goes on (position-determined, no rng draw)
            if idx % 3 == 1 {
                if let (Some(su), Some(_)) = (op.get("summary").and_then(|x| x.as_str()).map(|x| x.to_string()), op.get("description")) {
                    op.insert("description".into(), json!(format!("{su} that the caller may see. A second sentence follows.")));
                    self.feat("description_extends_summary");
                }
            }
        }
        let mut params = vec![];
        for p in path_params { if !shared.contains(p) { params.push(self.param(p, "path", true)); } }
        let n_extra = self.rng.below(5);
        let names = self.prop_names(n_extra);
        let mut last_ref: Option<Value> = None;
        for n in names {
            // `body` is the name libninja gives to an array / free-form request body
            if path_params.contains(&n) || n == "body" { continue; }
            let loc = ["query", "query", "header", "cookie"][self.rng.below(4)];
            let required = self.rng.chance(1, 3);
            let mut p = self.param(&n, loc, required);
            // the same component is often the type of several inputs of one operation
            if let Some(r) = &last_ref { if self.rng.chance(1, 4) { p["schema"] = r.clone(); self.feat("two_inputs_of_one_component"); } }
            if p["schema"].get("$ref").is_some() { last_ref = Some(p["schema"].clone()); }
            params.push(p);
        }
        if !params.is_empty() { op.insert("parameters".into(), Value::Array(params)); }
        if matches!(verb, "post" | "put" | "patch") || self.rng.chance(1, 10) {
            let body_schema = match self.rng.below(8) {
                0 | 1 => self.any_ref().unwrap_or_else(|| json!({"type": "object"})),
                2 | 3 => self.object(1, false),
                4 => { let it = self.schema(1); json!({"type": "array", "items": it}) }
                5 => json!({"type": "object"}),
                6 => { let mut ms = vec![]; if let Some(t) = self.object_ref() { ms.push(t); } let mut o = self.object(1, false); o.as_object_mut().unwrap().remove("type"); ms.push(o); self.feat("allof_body"); json!({"allOf": ms}) }
                _ => self.object(1, false),
            };
            // parameters and body members are separate scopes in OpenAPI: a body member may be named like a
            // parameter (`PUT /widgets/{id}` with `id` in the body). Names that differ but fold to the same
            // Rust identifier across the two scopes are avoided (the struct would get two equal fields).
            let mut body_schema = body_schema;
            let fold = |s: &str| s.chars().filter(|c| c.is_ascii_alphanumeric()).collect::<String>().to_lowercase();
            let mut taken: Vec<String> = op.get("parameters").and_then(|p| p.as_array()).map(|a| a.iter().filter_map(|p| p["name"].as_str().map(|x| x.to_string())).collect()).unwrap_or_default();
            for p in path_params { taken.push(p.clone()); }
            fn strip(v: &mut Value, taken: &[String], fold: &dyn Fn(&str) -> String) {
                if let Some(props) = v.get_mut("properties").and_then(|p| p.as_object_mut()) { props.retain(|k, _| !taken.iter().any(|t| t != k && fold(t) == fold(k))); }
                if let Some(ms) = v.get_mut("allOf").and_then(|a| a.as_array_mut()) { for m in ms { strip(m, taken, fold); } }
            }
            strip(&mut body_schema, &taken, &fold);
            if self.rng.chance(1, 6) && !taken.is_empty() && body_schema.get("properties").is_some() {
                let n = self.rng.pick(&taken[..]).clone();
                body_schema["properties"][&n] = json!({"type": "string"});
                self.feat("body_member_named_like_parameter");
            }
            if idx % 4 == 2 {
                // the body is also offered in another JSON dialect, listed first; the client speaks application/json
                let mut content = Map::new();
                content.insert("application/merge-patch+json".into(), json!({"schema": {"type": "array", "items": {"type": "object"}}}));
                content.insert("application/json".into(), json!({"schema": body_schema}));
                op.insert("requestBody".into(), json!({"content": content}));
                self.feat("body_with_second_media_type");
            } else {
                op.insert("requestBody".into(), json!({"content": {"application/json": {"schema": body_schema}}}));
            }
            self.feat("body");
        }
        let mut responses = Map::new();
        let success = ["200", "201", "202", "204", "302"][self.rng.below(5)];
        let mut mk = |g: &mut SpecGen, with_body: bool| -> Value {
            let mut resp = json!({"description": "response"});
            if with_body { if let Some(s) = g.response_schema() {
                if g.names.len() % 4 == 3 {
                    let mut content = Map::new();
                    content.insert("application/json-patch+json".into(), json!({"schema": {"type": "array", "items": {"type": "integer"}}}));
                    content.insert("application/json".into(), json!({"schema": s}));
                    resp["content"] = Value::Object(content);
                    g.feat("response_with_second_media_type");
                } else { resp["content"] = json!({"application/json": {"schema": s}}); }
            } }
            resp
        };
        let has_body = success != "204";
        responses.insert(success.into(), mk(self, has_body));
        if self.rng.chance(1, 4) { let other = ["200", "201", "202", "204", "302"][self.rng.below(5)]; if !responses.contains_key(other) { responses.insert(other.into(), mk(self, true)); self.feat("two_success_codes"); } }
        if self.rng.chance(1, 3) { responses.insert("404".into(), json!({"description": "missing"})); }
        if self.rng.chance(1, 4) { responses.insert("default".into(), json!({"description": "error", "content": {"application/json": {"schema": {"type": "object"}}}})); }
        op.insert("responses".into(), Value::Object(responses));
        // an operation-level server override is not a server of the document (no draw from the random stream)
        if (idx + path.len() + verb.len()) % 4 == 0 { op.insert("servers".into(), json!([{"url": "https://upload.example.com/v1", "description": "uploads only"}])); self.feat("operation_level_server"); }
        Value::Object(op)
    }

    pub fn spec(&mut self) -> Value {
        let n = self.rng.below(self.opts.max_schemas + 1);
        let mut pool: Vec<&str> = SCHEMA_NAMES.to_vec();
        // reserve names first so that references can point forward
        for _ in 0..n {
            if pool.is_empty() { break; }
            let i = self.rng.below(pool.len());
            let cand = pool.swap_remove(i);
            if self.names.iter().any(|x| x.to_lowercase() == cand.to_lowercase()) { continue; }
            self.names.push(cand.to_string());
            self.kinds.push("pending");
        }
        let mut schemas = Map::new();
        for i in 0..self.names.len() {
            let name = self.names[i].clone();
            // decide kind first so `solid_targets` sees it: generate, then record
            let (s, kind) = self.component(&name);
            self.kinds[i] = kind;
            schemas.insert(name, s);
        }
        // the merged members of an allOf form one scope: an inline member does not repeat a name of an extended object
        fn all_props(schemas: &Map<String, Value>, s: &Value, depth: usize, out: &mut Vec<String>) {
            if depth > 8 { return; }
            if let Some(rf) = s["$ref"].as_str() { if let Some(t) = schemas.get(rf.rsplit('/').next().unwrap_or("")) { all_props(schemas, t, depth + 1, out); } return; }
            if let Some(p) = s["properties"].as_object() { out.extend(p.keys().cloned()); }
            if let Some(a) = s["allOf"].as_array() { for m in a { all_props(schemas, m, depth + 1, out); } }
        }
        let fold = |s: &str| s.chars().filter(|c| c.is_ascii_alphanumeric()).collect::<String>().to_lowercase();
        for n in self.pending_allof.clone() {
            let Some(s) = schemas.get(&n).cloned() else { continue };
            let mut inherited = vec![];
            for m in s["allOf"].as_array().cloned().unwrap_or_default() { if m.get("$ref").is_some() { all_props(&schemas, &m, 0, &mut inherited); } }
            if let Some(ms) = schemas.get_mut(&n).and_then(|x| x["allOf"].as_array_mut()) {
                for m in ms {
                    if let Some(p) = m.get_mut("properties").and_then(|p| p.as_object_mut()) { p.retain(|k, _| !inherited.iter().any(|i| fold(i) == fold(k))); }
                    let keep: Vec<String> = m.get("properties").and_then(|p| p.as_object()).map(|p| p.keys().cloned().collect()).unwrap_or_default();
                    if let Some(rq) = m.get_mut("required").and_then(|r| r.as_array_mut()) { rq.retain(|x| x.as_str().map(|x| keep.iter().any(|k| k == x)).unwrap_or(false)); }
                }
            }
        }
        // paths
        let templates: &[(&str, &[&str])] = &[
            ("/pets", &[]), ("/pets/{petId}", &["petId"]), ("/owners/{ownerId}/pets/{petId}", &["ownerId", "petId"]), ("/orders", &[]),
            ("/orders/{order_id}/items", &["order_id"]), ("/search", &[]), ("/things/{thingId}/sub/{subId}/leaf", &["thingId", "subId"]), ("/status", &[]),
            // a placeholder that repeats its collection's name, next to the collection itself; templates ending in a slash; the root
            ("/user", &[]), ("/user/{user}", &["user"]), ("/gadgets/", &[]), ("/gadgets/{gadget_id}/parts/", &["gadget_id"]), ("/", &[]), ("/root", &[]),
            // placeholder names with the other characters of the name alphabet, a keyword, a leading digit
            ("/orgs/{org-id}/members", &["org-id"]), ("/files/{file.id}", &["file.id"]), ("/types/{type}", &["type"]), ("/petId/{petId}", &["petId"]), ("/codes/{2fa}/verify", &["2fa"]),
        ];
        let n_paths = self.rng.range(1, self.opts.max_paths.max(1));
        let mut paths = Map::new();
        let mut used: Vec<usize> = vec![];
        let mut op_idx = 0;
        for _ in 0..n_paths {
            let t = self.rng.below(templates.len());
            if used.contains(&t) { continue; }
            used.push(t);
            let (tpl, pps) = templates[t];
            let pps: Vec<String> = pps.iter().map(|s| s.to_string()).collect();
            let mut item = Map::new();
            let mut shared: Vec<String> = vec![];
            if !pps.is_empty() && self.rng.chance(1, 3) {
                // path-item level parameters
                let ps: Vec<Value> = pps.iter().map(|p| self.param(p, "path", true)).collect();
                shared = pps.clone();
                item.insert("parameters".into(), Value::Array(ps));
                self.feat("path_item_parameters");
            }
            let verbs = ["get", "put", "post", "delete", "patch", "head", "options", "trace"];
            let n_ops = self.rng.range(1, 3);
            let mut chosen: Vec<&str> = vec![];
            for _ in 0..n_ops { let v = *self.rng.pick(&verbs); if !chosen.contains(&v) { chosen.push(v); } }
            // sometimes a shared (path-item level) non-path parameter that an operation re-declares differently
            let mut redeclare: Option<(String, bool)> = None;
            if self.rng.chance(1, 5) {
                let n = self.prop_names(1).pop().unwrap_or_else(|| "trace".into());
                if !pps.contains(&n) {
                    let req = self.rng.chance(1, 2);
                    let p = self.param(&n, "query", req);
                    item.entry("parameters").or_insert_with(|| json!([])).as_array_mut().unwrap().push(p);
                    // … and, for some, one more shared parameter AFTER the one an operation may re-declare (so that the
                    // merge has something left to do once it has met the overridden one); no draw from the random stream
                    if (n.len() + op_idx + pps.len()) % 2 == 0 {
                        item.get_mut("parameters").unwrap().as_array_mut().unwrap().push(json!({"name": "X-Shared-Tail", "in": "header", "required": false, "schema": {"type": "string"}}));
                        self.feat("path_item_parameter_after_overridden_one");
                    }
                    redeclare = Some((n, req));
                    self.feat("path_item_shared_query_parameter");
                }
            }
            for v in chosen {
                let mut op = self.operation(v, tpl, op_idx, &pps, &shared);
                if let Some((n, req)) = &redeclare {
                    if self.rng.chance(1, 2) {
                        // the operation's own declaration wins (OpenAPI): same name and location, opposite requiredness
                        let ps = op.as_object_mut().unwrap().entry("parameters").or_insert_with(|| json!([])).as_array_mut().unwrap();
                        ps.retain(|p| p["name"] != json!(n));
                        ps.push(json!({"name": n, "in": "query", "required": !req, "schema": {"type": "integer"}}));
                        self.feat("operation_overrides_path_item_parameter");
                        // keep body members clear of the name
                        if let Some(props) = op.pointer_mut("/requestBody/content/application~1json/schema/properties").and_then(|p| p.as_object_mut()) { props.remove(n); }
                    }
                }
                op_idx += 1;
                item.insert(v.into(), op);
            }
            paths.insert(tpl.to_string(), Value::Object(item));
        }
        let mut doc = json!({"openapi": "3.0.0", "info": {"title": "generated", "version": "1"}, "paths": paths, "components": {"schemas": schemas}});
        // some parameters are declared once under components.parameters and referenced
        let mut shared_params = Map::new();
        if let Some(paths) = doc["paths"].as_object_mut() {
            for (_, item) in paths.iter_mut() {
                let Some(item) = item.as_object_mut() else { continue };
                let mut lists: Vec<&mut Value> = vec![];
                for (k, v) in item.iter_mut() {
                    if k == "parameters" { lists.push(v); } else if let Some(ps) = v.get_mut("parameters") { lists.push(ps); }
                }
                for l in lists {
                    let Some(a) = l.as_array_mut() else { continue };
                    for p in a.iter_mut() {
                        if p.get("$ref").is_some() || !self.rng.chance(1, 7) { continue; }
                        let cname = format!("P{}", shared_params.len());
                        shared_params.insert(cname.clone(), p.clone());
                        *p = json!({"$ref": format!("#/components/parameters/{cname}")});
                    }
                }
            }
        }
        if !shared_params.is_empty() { doc["components"]["parameters"] = Value::Object(shared_params); self.feat("referenced_parameter"); }
        if self.opts.servers {
            let n = [0usize, 1, 1, 2, 2, 3, 4][self.rng.below(7)];
            let descs = [Some("Production server"), Some("sandbox"), Some("Beta (unstable)"), Some("Development"), None, Some("Main"), Some("the PRODUCTION one"), Some("EU region"), Some("Production: live traffic"), Some("Test environment (sandbox)"), Some("beta/unstable"), Some("Production server (not for development use)")];
            let urls = ["https://api.example.com", "https://api.example.com/v1/", "http://localhost:8080", "https://{region}.example.com/api", "/", "https://sandbox.example.com:8443/base"];
            let mut v = vec![];
            for _ in 0..n {
                let mut s = json!({"url": *self.rng.pick(&urls)});
                if let Some(d) = *self.rng.pick(&descs) { s["description"] = json!(d); }
                // a templated server URL declares its variable, with a default: the URL is still used verbatim
                if s["url"].as_str().map_or(false, |u| u.contains("{region}")) && v.len() % 2 == 0 { s["variables"] = json!({"region": {"default": "eu", "enum": ["eu", "us"]}}); self.feat("server_variables_with_default"); }
                v.push(s);
            }
            if !v.is_empty() { doc["servers"] = Value::Array(v); }
            self.feat(&format!("servers:{n}"));
        }
        if self.opts.security {
            let n = [0usize, 0, 1, 1, 2, 3][self.rng.below(6)];
            if n > 0 {
                let pool: Vec<(&str, Value)> = vec![
                    ("apiKey", json!({"type": "apiKey", "in": "header", "name": "X-Api-Key"})),
                    ("queryKey", json!({"type": "apiKey", "in": "query", "name": "api_key"})),
                    ("cookie_auth", json!({"type": "apiKey", "in": "cookie", "name": "SESSION"})),
                    ("bearerHeader", json!({"type": "apiKey", "in": "header", "name": "Bearer"})),
                    ("bearerAuth", json!({"type": "http", "scheme": "bearer"})),
                    ("basicAuth", json!({"type": "http", "scheme": "basic"})),
                    ("oauth", json!({"type": "oauth2", "flows": {"authorizationCode": {"authorizationUrl": "https://auth.example.com/authorize", "tokenUrl": "https://auth.example.com/token", "scopes": {"read": "Read", "write": "Write"}}}})),
                    ("key2Fa", json!({"type": "apiKey", "in": "header", "name": "x-2fa-token"})),
                    ("queryBearer", json!({"type": "apiKey", "in": "query", "name": "bearer"})),
                    ("cookieBearer", json!({"type": "apiKey", "in": "cookie", "name": "bearerAuth"})),
                    ("headerBearerAuth", json!({"type": "apiKey", "in": "header", "name": "bearer-auth"})),
                    ("digestAuth", json!({"type": "http", "scheme": "digest"})),
                    ("BasicUpper", json!({"type": "http", "scheme": "Basic"})),
                ];
                let mut schemes = Map::new();
                let mut reqs = vec![];
                for _ in 0..n {
                    let (name, s) = self.rng.pick(&pool).clone();
                    if schemes.contains_key(name) { continue; }
                    schemes.insert(name.to_string(), s);
                    reqs.push(json!({name: []}));
                    self.feat(&format!("scheme:{name}"));
                }
                // the empty requirement: the API may also be called anonymously (first, last or in between)
                if self.rng.chance(1, 6) { let at = self.rng.below(reqs.len() + 1); reqs.insert(at, json!({})); self.feat("anonymous_requirement"); }
                // an operation input that happens to be named like a credential, sent elsewhere (the header key as a query input)
                if schemes.contains_key("apiKey") && self.names.len() % 2 == 0 {
                    if let Some(op) = doc["paths"].as_object_mut().and_then(|p| p.values_mut().next()).and_then(|item| item.as_object_mut()).and_then(|item| item.iter_mut().find(|(k, _)| *k != "parameters").map(|(_, v)| v)) {
                        let ps = op.as_object_mut().unwrap().entry("parameters").or_insert_with(|| json!([]));
                        if let Some(a) = ps.as_array_mut() { a.push(json!({"name": "X-Api-Key", "in": "query", "required": false, "schema": {"type": "string"}})); self.feat("input_named_like_a_credential"); }
                    }
                }
                doc["components"]["securitySchemes"] = Value::Object(schemes);
                doc["security"] = Value::Array(reqs);
            }
        }
        if self.opts.docs && self.rng.chance(1, 4) { doc["externalDocs"] = json!({"url": "https://docs.example.com"}); }
        // a notification payload nobody but a `...Webhook` component (kept for its name) refers to
        if self.names.len() % 4 == 2 && doc["components"]["schemas"].get("ZzNotifyWebhook").is_none() {
            doc["components"]["schemas"]["ZzNotifyWebhook"] = json!({"type": "object", "properties": {"payload": {"$ref": "#/components/schemas/ZzNotifyPayload"}, "sent": {"type": "string"}}});
            doc["components"]["schemas"]["ZzNotifyPayload"] = json!({"type": "object", "properties": {"kind": {"$ref": "#/components/schemas/ZzNotifyKind"}}});
            doc["components"]["schemas"]["ZzNotifyKind"] = json!({"type": "string", "enum": ["created", "deleted"]});
            self.feat("webhook_with_private_models");
        }
        // two operation ids that agree on their first seventy characters
        if self.names.len() % 5 == 3 {
            let mut n = 0;
            if let Some(paths) = doc["paths"].as_object_mut() {
                for (_, item) in paths.iter_mut() {
                    let Some(item) = item.as_object_mut() else { continue };
                    for (verb, op) in item.iter_mut() {
                        if verb == "parameters" || n >= 2 { continue; }
                        if op.get("operationId").is_some() {
                            op["operationId"] = json!(format!("listAllTheVeryLongNamedResourcesOfTheOrganizationForTheGivenProjectAndStage{}", ["Alpha", "Beta"][n]));
                            n += 1;
                        }
                    }
                }
            }
            if n > 0 { self.feat("long_operation_ids"); }
        }
        // a third of the documents reaches the code under test with request bodies and responses declared under
        // `components` and referenced (see `pipeline::wrap_refs`)
        if self.names.len() % 3 == 1 { doc["x-lnv-wrap-refs"] = json!(true); self.feat("referenced_bodies_and_responses"); }
        doc
    }
}
