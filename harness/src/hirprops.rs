//! C05, C06, C07, C08, C14, C15, C17 — properties decided on the extracted HIR (and on the emitted
//! text where the property speaks about it). One runner: generate specs, run the real extractor and
//! the Lean extractor, compare each property's projection, apply each property's oracle.
use crate::extract::real_extract;
use crate::model;
use crate::pipeline::*;
use crate::report::Report;
use crate::rng::Rng;
use crate::sexp::{self, quote, Sexp};
use crate::specgen::{GenOpts, SpecGen};
use crate::specio;
use crate::util::*;
use mir_rust::ToRustType;
use serde_json::{json, Value};
use std::collections::{BTreeMap, BTreeSet};

// ---- projections --------------------------------------------------------------------------------

#[derive(Clone, Copy)]
struct Keep { docs: bool, types: bool, flags: bool, ops: bool, schemas: bool, servers: bool, security: bool, param_shape: bool }

fn keep_for(prop: &str) -> Keep {
    let none = Keep { docs: false, types: false, flags: false, ops: false, schemas: false, servers: false, security: false, param_shape: false };
    match prop {
        "C05" => Keep { ops: true, flags: true, param_shape: true, ..none },
        "C06" => Keep { ops: true, ..none },
        "C07" => Keep { ops: true, schemas: true, types: true, param_shape: true, ..none },
        "C08" => Keep { ops: true, schemas: true, types: true, param_shape: true, ..none },
        "C14" => Keep { security: true, ..none },
        "C15" => Keep { servers: true, ..none },
        "C17" => Keep { ops: true, schemas: true, docs: true, ..none },
        "C04" => Keep { schemas: true, types: true, flags: true, ..none },
        "C03" => Keep { ops: true, param_shape: true, ..none },
        _ => Keep { docs: true, types: true, flags: true, ops: true, schemas: true, servers: true, security: true, param_shape: true },
    }
}

fn at(s: &str) -> Sexp { Sexp::atom(s) }

fn proj_field(f: &Sexp, k: Keep) -> Sexp {
    // (f ty optional flatten doc)
    let l = f.as_list().unwrap();
    Sexp::list(vec![at("f"), if k.types { l[1].clone() } else { at("_") }, if k.flags { l[2].clone() } else { at("_") }, if k.flags { l[3].clone() } else { at("_") }, if k.docs { l[4].clone() } else { at("_") }])
}

fn proj_record(r: &Sexp, k: Keep) -> Sexp {
    let l = r.as_list().unwrap();
    match l[0].as_atom().unwrap() {
        "struct" => {
            let fields = l[4].as_list().unwrap();
            let fs: Vec<Sexp> = fields[1..].iter().map(|e| { let e = e.as_list().unwrap(); Sexp::list(vec![e[0].clone(), proj_field(&e[1], k)]) }).collect();
            Sexp::list(vec![at("struct"), l[1].clone(), if k.flags { l[2].clone() } else { at("_") }, if k.docs { l[3].clone() } else { at("_") }, Sexp::tagged("fields", fs)])
        }
        "newtype" => {
            let fields = l[3].as_list().unwrap();
            Sexp::list(vec![at("newtype"), l[1].clone(), if k.docs { l[2].clone() } else { at("_") }, Sexp::tagged("fields", fields[1..].iter().map(|f| proj_field(f, k)).collect())])
        }
        "alias" => Sexp::list(vec![at("alias"), l[1].clone(), proj_field(&l[2], k)]),
        "enum" => Sexp::list(vec![at("enum"), l[1].clone(), if k.docs { l[2].clone() } else { at("_") }, if k.types { l[3].clone() } else { at("_") }]),
        _ => r.clone(),
    }
}

fn proj_op(o: &Sexp, k: Keep) -> Sexp {
    // (op name method path doc ty (params (p name ty loc optional)...))
    let l = o.as_list().unwrap();
    let params = l[6].as_list().unwrap();
    let ps: Vec<Sexp> = if k.param_shape {
        params[1..].iter().map(|p| { let p = p.as_list().unwrap(); Sexp::list(vec![at("p"), p[1].clone(), if k.types { p[2].clone() } else { at("_") }, p[3].clone(), if k.flags { p[4].clone() } else { at("_") }]) }).collect()
    } else { vec![] };
    Sexp::list(vec![at("op"), l[1].clone(), l[2].clone(), l[3].clone(), if k.docs { l[4].clone() } else { at("_") }, if k.types { l[5].clone() } else { at("_") }, Sexp::tagged("params", ps)])
}

pub fn project(prop: &str, hir: &str) -> String {
    let k = keep_for(prop);
    let Some(s) = sexp::parse(hir) else { return hir.to_string() };
    let Some(l) = s.as_list() else { return hir.to_string() };
    if l.first().and_then(|a| a.as_atom()) != Some("hir") { return hir.to_string(); }
    let schemas = l[1].as_list().unwrap();
    let ops = l[2].as_list().unwrap();
    let mut out = vec![at("hir")];
    if k.schemas { out.push(Sexp::tagged("schemas", schemas[1..].iter().map(|e| { let e = e.as_list().unwrap(); Sexp::list(vec![e[0].clone(), proj_record(&e[1], k)]) }).collect())); }
    if k.ops { out.push(Sexp::tagged("ops", ops[1..].iter().map(|o| proj_op(o, k)).collect())); }
    if k.servers { out.push(l[3].clone()); }
    if k.security { out.push(l[4].clone()); }
    if k.docs { out.push(l[5].clone()); }
    Sexp::list(out).render()
}

// ---- helpers over the OpenAPI JSON ---------------------------------------------------------------

fn schemas_of(doc: &Value) -> serde_json::Map<String, Value> { doc["components"]["schemas"].as_object().cloned().unwrap_or_default() }

fn ref_name(v: &Value) -> Option<String> { v.get("$ref").and_then(|r| r.as_str()).filter(|r| r.starts_with("#/components/schemas/")).map(|r| r.rsplit('/').next().unwrap().to_string()) }

/// "primitive" in the sense of C08: string without enum, number, integer, boolean, arrays of primitives, allOf[1] of a primitive
fn is_prim(doc: &Value, s: &Value, depth: usize) -> bool {
    if depth > 50 { return false; }
    if let Some(n) = ref_name(s) { return schemas_of(doc).get(&n).map(|t| is_prim(doc, t, depth + 1)).unwrap_or(false); }
    match s.get("type").and_then(|t| t.as_str()) {
        Some("string") => s.get("enum").is_none(),
        Some("number") | Some("integer") | Some("boolean") => true,
        Some("array") => s.get("items").map(|i| is_prim(doc, i, depth + 1)).unwrap_or(false),
        Some(_) => false,
        None => match s.get("allOf").and_then(|a| a.as_array()) { Some(a) if a.len() == 1 => is_prim(doc, &a[0], depth + 1), _ => false },
    }
}

fn collect_refs(v: &Value, out: &mut BTreeSet<String>) {
    match v {
        Value::Object(m) => {
            if let Some(n) = ref_name(v) { out.insert(n); }
            for (k, x) in m { if k != "$ref" && k != "description" && k != "example" { collect_refs(x, out); } }
        }
        Value::Array(a) => a.iter().for_each(|x| collect_refs(x, out)),
        _ => {}
    }
}

fn model_mentions(hir: &hir::HirSpec) -> (BTreeSet<String>, BTreeSet<String>) {
    let mut from_ops = BTreeSet::new();
    let mut from_schemas = BTreeSet::new();
    for o in &hir.operations {
        if let Some(n) = o.ret.inner_model() { from_ops.insert(n.clone()); }
        for p in &o.parameters { if let Some(n) = p.ty.inner_model() { from_ops.insert(n.clone()); } }
    }
    for r in hir.schemas.values() { for f in r.fields() { if let Some(n) = f.ty.inner_model() { from_schemas.insert(n.clone()); } } }
    (from_ops, from_schemas)
}

// ---- C08: exhaustive shape table -----------------------------------------------------------------

fn c08_components() -> Value {
    json!({
        "RObj": {"type": "object", "properties": {"a": {"type": "string"}}},
        "REnum": {"type": "string", "enum": ["x", "y"]},
        "RStr": {"type": "string"},
        "RDate": {"type": "string", "format": "date"},
        "RInt": {"type": "integer"},
        "RArrPrim": {"type": "array", "items": {"type": "integer"}},
        "RArrObj": {"type": "array", "items": {"$ref": "#/components/schemas/RObj"}},
        "RMap": {"type": "object", "additionalProperties": {"type": "integer"}},
        "RMapRefPrim": {"type": "object", "additionalProperties": {"$ref": "#/components/schemas/RInt"}},
        "RMapRefObj": {"type": "object", "additionalProperties": {"$ref": "#/components/schemas/RObj"}},
        "RMapRefArrPrim": {"type": "object", "additionalProperties": {"$ref": "#/components/schemas/RArrPrim"}},
        "RArrRefPrim": {"type": "array", "items": {"$ref": "#/components/schemas/RDate"}},
        "RArrRefAliasPrim": {"type": "array", "items": {"$ref": "#/components/schemas/RAliasPrim"}},
        "RAlias": {"allOf": [{"$ref": "#/components/schemas/RObj"}]},
        "RAliasPrim": {"allOf": [{"$ref": "#/components/schemas/RStr"}]},
        "ROneOf": {"oneOf": [{"type": "string"}, {"type": "integer"}]},
        "ROneOf1": {"oneOf": [{"$ref": "#/components/schemas/RObj"}]},
        "RAllOf2": {"allOf": [{"$ref": "#/components/schemas/RObj"}, {"properties": {"b": {"type": "integer"}}}]}
    })
}

fn c08_leaves() -> Vec<(String, Value)> {
    let mut v: Vec<(String, Value)> = vec![];
    for f in ["", "date", "date-time", "decimal", "integer", "uuid", "password"] {
        let mut s = json!({"type": "string"});
        if !f.is_empty() { s["format"] = json!(f); }
        v.push((format!("string:{f}"), s));
    }
    v.push(("integer".into(), json!({"type": "integer"})));
    v.push(("integer:int32".into(), json!({"type": "integer", "format": "int32"})));
    v.push(("integer:naz".into(), json!({"type": "integer", "x-null-as-zero": true})));
    v.push(("integer:naz-false".into(), json!({"type": "integer", "x-null-as-zero": false})));
    v.push(("integer:xdate".into(), json!({"type": "integer", "x-format": "date"})));
    v.push(("integer:xother".into(), json!({"type": "integer", "x-format": "time"})));
    v.push(("integer:naz+xdate".into(), json!({"type": "integer", "x-null-as-zero": true, "x-format": "date"})));
    v.push(("integer:naz-false+xdate".into(), json!({"type": "integer", "x-null-as-zero": false, "x-format": "date"})));
    v.push(("number".into(), json!({"type": "number"})));
    v.push(("number:float".into(), json!({"type": "number", "format": "float"})));
    v.push(("boolean".into(), json!({"type": "boolean"})));
    v.push(("object".into(), json!({"type": "object", "properties": {"k": {"type": "string"}}})));
    v.push(("freeform".into(), json!({"type": "object"})));
    v.push(("map:any".into(), json!({"type": "object", "additionalProperties": true})));
    v.push(("map:false".into(), json!({"type": "object", "additionalProperties": false})));
    v.push(("array:noitems".into(), json!({"type": "array"})));
    v.push(("enum".into(), json!({"type": "string", "enum": ["p", "q"]})));
    v.push(("oneOf".into(), json!({"oneOf": [{"type": "string"}, {"type": "integer"}]})));
    v.push(("anyOf".into(), json!({"anyOf": [{"type": "string"}, {"type": "integer"}]})));
    // a union with one member is still a union (only a one-member allOf is transparent)
    v.push(("oneOf1".into(), json!({"oneOf": [{"type": "string"}]})));
    v.push(("anyOf1:ref".into(), json!({"anyOf": [{"$ref": "#/components/schemas/RObj"}]})));
    v.push(("allOf2".into(), json!({"allOf": [{"$ref": "#/components/schemas/RObj"}, {"$ref": "#/components/schemas/RMap"}]})));
    v.push(("notype".into(), json!({})));
    v.push(("notype:props".into(), json!({"properties": {"z": {"type": "string"}}})));
    for n in c08_components().as_object().unwrap().keys() { v.push((format!("ref:{n}"), json!({"$ref": format!("#/components/schemas/{n}")}))); }
    v
}

fn c08_shapes(max_depth: usize) -> Vec<(String, Value)> {
    let leaves = c08_leaves();
    let mut all: Vec<(String, Value)> = leaves.clone();
    let mut prev = leaves;
    for _ in 1..max_depth {
        let mut next = vec![];
        for (n, s) in &prev {
            next.push((format!("array({n})"), json!({"type": "array", "items": s})));
            next.push((format!("map({n})"), json!({"type": "object", "additionalProperties": s})));
            next.push((format!("allOf1({n})"), json!({"allOf": [s]})));
        }
        all.extend(next.iter().cloned());
        prev = next;
    }
    all
}

fn c08_spec(shape: &Value, nullable: bool) -> Value {
    let mut sh = shape.clone();
    if nullable && sh.get("$ref").is_none() { sh["nullable"] = json!(true); }
    let mut comps = c08_components();
    comps["Holder"] = json!({"type": "object", "required": ["p"], "properties": {"p": sh.clone(), "other": {"type": "string"}}});
    json!({
        "openapi": "3.0.0", "info": {"title": "t", "version": "1"},
        "paths": {"/x": {"post": {
            "operationId": "doIt",
            "parameters": [{"name": "q", "in": "query", "required": true, "schema": sh.clone()}],
            "requestBody": {"content": {"application/json": {"schema": {"type": "object", "required": ["b"], "properties": {"b": sh.clone(), "h": {"$ref": "#/components/schemas/Holder"}}}}}},
            "responses": {"200": {"description": "ok", "content": {"application/json": {"schema": sh.clone()}}}}
        }}},
        "components": {"schemas": comps}
    })
}

fn norm_ws(s: &str) -> String { s.chars().filter(|c| !c.is_whitespace()).collect() }

fn all_tys(depth: usize) -> Vec<mir::Ty> {
    use mir::{DateSerialization as D, DecimalSerialization, IntegerSerialization as I, Ty};
    let leaves = vec![Ty::String, Ty::Integer { ser: I::Simple }, Ty::Integer { ser: I::String }, Ty::Integer { ser: I::NullAsZero }, Ty::Float, Ty::Boolean,
        Ty::Model("Pet".into()), Ty::Model("self".into()), Ty::Model("2fa_code".into()), Ty::Model("pet.store/item".into()), Ty::Unit, Ty::Date { ser: D::Iso8601 }, Ty::Date { ser: D::Integer },
        Ty::DateTime, Ty::Currency { ser: DecimalSerialization::String }, Ty::Any(None)];
    let mut all = leaves.clone();
    let mut prev = leaves;
    for _ in 1..depth {
        let mut next = vec![];
        for t in &prev { next.push(Ty::Array(Box::new(t.clone()))); next.push(Ty::HashMap(Box::new(t.clone()))); }
        all.extend(next.iter().cloned());
        prev = next;
    }
    all
}

/// documented rule for the result of an operation, on the JSON document (independent of the model)
fn first_present_response<'a>(op: &'a Value) -> Option<&'a Value> {
    for c in ["200", "201", "202", "204", "302"] { if let Some(r) = op["responses"].get(c) { return Some(r); } }
    None
}

// ---- the runner ---------------------------------------------------------------------------------

struct Case { label: String, doc: Value, features: Vec<String>, in_d: bool }

fn gen_cases(prop: &str, tier: &str, seed: u64, rep: &mut Report) -> Vec<Case> {
    if let Some(c) = crate::emitprops::only_case() { return vec![Case { label: c.label, doc: c.doc, features: c.features, in_d: true }]; }
    let thorough = tier == "thorough";
    let mut cases = vec![];
    // corpus: the bundled specs and the hand-written harness specs
    for f in ["/repo/test_specs/basic.yaml", "/repo/test_specs/deepl.yaml", "/repo/test_specs/recurly.yaml", concat!(env!("CARGO_MANIFEST_DIR"), "/specs/pets1.yaml"), concat!(env!("CARGO_MANIFEST_DIR"), "/specs/pets2.yaml")] {
        if f.ends_with("recurly.yaml") && !thorough && prop != "C07" { continue; }
        if let Ok(t) = std::fs::read_to_string(f) { if let Ok(v) = serde_yaml::from_str::<Value>(&t) { cases.push(Case { label: format!("(file {})", quote(f)), doc: v, features: vec!["bundled".into()], in_d: true }); } }
    }
    if let Ok(rd) = std::fs::read_dir(format!("/verif/corpus/{prop}")) {
        let mut files: Vec<_> = rd.flatten().map(|e| e.path()).collect();
        files.sort();
        for f in files {
            if let Ok(t) = std::fs::read_to_string(&f) { if let Ok(v) = serde_yaml::from_str::<Value>(&t) { cases.push(Case { label: format!("(corpus {})", quote(&f.to_string_lossy())), doc: v, features: vec!["corpus".into()], in_d: true }); } }
        }
    }
    rep.add("corpus", cases.len() as u64);
    if prop == "C08" {
        let shapes = c08_shapes(3);
        rep.add("c08_shapes", shapes.len() as u64);
        for (name, sh) in &shapes {
            for nullable in [false, true] {
                cases.push(Case { label: format!("(shape {} nullable={nullable})", quote(name)), doc: c08_spec(sh, nullable), features: vec![format!("shape-depth:{}", name.matches('(').count() + 1)], in_d: true });
            }
        }
        rep.exhaustive = true;
    }
    let n = match (prop, thorough) { ("C08", false) => 300, ("C08", true) => 5000, (_, false) => 1500, (_, true) => 30000 };
    let rng0 = Rng::new(seed);
    for i in 0..n {
        let mut rng = rng0.fork(i as u64);
        let mut opts = GenOpts::clean();
        if thorough && rng.chance(1, 3) { opts.max_schemas = 14; opts.max_paths = 7; }
        let mut g = SpecGen::new(&mut rng, opts);
        let doc = g.spec();
        let features = g.features.clone();
        cases.push(Case { label: format!("(generated seed={seed} index={i})"), doc, features, in_d: true });
    }
    cases
}

pub fn run(prop: &str, tier: &str, seed: u64, out: &str) {
    silence_panics();
    let mut rep = Report::new(prop, tier, seed);
    let cases = gen_cases(prop, tier, seed, &mut rep);
    let raw = prop == "C08"; // C08 speaks about extraction before tree shaking
    let mut reqs: Vec<String> = vec![];
    let mut imps: Vec<String> = vec![];
    let mut idx_of: Vec<usize> = vec![];
    let mut parsed: Vec<Option<openapiv3::OpenAPI>> = vec![];
    let mut distinct = BTreeSet::new();
    let mut nontrivial = 0u64;
    // parse + real extraction in parallel
    let results: Vec<(Option<openapiv3::OpenAPI>, Result<hir::HirSpec, String>)> = model::par_map(&cases, |c| {
        let text = serde_json::to_string(&c.doc).unwrap();
        match parse_spec(&text, true) {
            Err(e) => (None, Err(format!("parse: {e}"))),
            Ok(spec) => {
                let h = if raw {
                    match catch(|| libninja::extractor::extract_without_treeshake(&spec)) { Ok(Ok(h)) => Ok(h), Ok(Err(e)) => Err(format!("error: {e}")), Err(p) => Err(format!("panic: {p}")) }
                } else { real_extract(&spec) };
                (Some(spec), h)
            }
        }
    });
    let mut hirs: Vec<Option<hir::HirSpec>> = vec![];
    for (i, (c, (spec, h))) in cases.iter().zip(results.into_iter()).enumerate() {
        for f in &c.features { rep.bump(&format!("feature:{f}")); }
        let Some(spec) = spec else { rep.bump("rejected_by_parser"); parsed.push(None); hirs.push(None); continue; };
        let dump = specio::spec(&spec);
        if distinct.insert(fnv(&dump)) {
            // non-trivial: at least one operation and one component schema
            if !spec.paths.paths.is_empty() && !spec.components.schemas.is_empty() { nontrivial += 1; }
        }
        reqs.push(format!("({} {dump})", if raw { "extract_raw" } else { "extract" }));
        idx_of.push(i);
        match &h {
            Ok(hh) => imps.push(specio::hir_spec(hh)),
            Err(e) => {
                imps.push("(panic)".into());
                if c.in_d { rep.oracle_fail("extractPanic", panic_triggers(&c.doc, e), &case_text(c), e); }
            }
        }
        // C08 is about the types the emitted crate uses: the table after tree shaking (whose alias short-circuit
        // rewrites field types) is compared as well
        if raw {
            reqs.push(format!("(extract {dump})"));
            idx_of.push(i);
            match real_extract(&spec) { Ok(hh) => imps.push(specio::hir_spec(&hh)), Err(_) => imps.push("(panic)".into()) }
        }
        parsed.push(Some(spec));
        hirs.push(h.ok());
    }
    // ---- model ----
    let mods = model::eval(&reqs);
    // documents on which model and implementation differ: handed to the compile / run stage of the same property
    let mut focus_docs: Vec<Value> = vec![];
    for ((q, im), (m, &ci)) in reqs.iter().zip(imps.iter()).zip(mods.iter().zip(idx_of.iter())) {
        let m_panics = m.starts_with("(panic");
        let i_panics = im.starts_with("(panic");
        if m_panics || i_panics {
            if m_panics != i_panics { rep.disagree(&case_text(&cases[ci]), &im.chars().take(400).collect::<String>(), &m.chars().take(400).collect::<String>()); }
            else { rep.bump("both_panic"); }
            continue;
        }
        let (a, b) = (project(prop, im), project(prop, m));
        if a != b {
            let (x, y) = first_diff(&a, &b);
            rep.disagree(&case_text(&cases[ci]), &x, &y);
            if focus_docs.len() < 12 { focus_docs.push(cases[ci].doc.clone()); }
        } else if im != m { rep.bump("disagreement_outside_projection"); }
        let _ = q;
    }
    let _ = std::fs::write(crate::pipeline::scratch_root().join(format!("focus-docs-{prop}.json")), serde_json::to_string(&focus_docs).unwrap());
    // ---- oracles on the implementation ----
    let mut extra_reqs: Vec<String> = vec![];
    let mut extra_meta: Vec<(usize, String, String)> = vec![]; // (case, position, impl type)
    for (i, c) in cases.iter().enumerate() {
        let (Some(spec), Some(h)) = (&parsed[i], &hirs[i]) else { continue };
        match prop {
            "C08" => oracle_c08_collect(&mut rep, c, spec, h, &mut extra_reqs, &mut extra_meta, i),
            "C07" => oracle_c07(&mut rep, c, spec, h),
            "C05" => oracle_c05(&mut rep, c, spec, h),
            "C03" => oracle_c03_targets(&mut rep, c, spec, h),
            "C06" => oracle_c06(&mut rep, c, spec, h),
            "C15" => oracle_c15(&mut rep, c, spec, h),
            "C14" => oracle_c14(&mut rep, c, spec, h),
            "C17" => oracle_c17(&mut rep, c, spec, h),
            _ => {}
        }
    }
    if prop == "C08" {
        // the documented type (Lean judgement) applied to every position of the real output
        let docs = model::eval(&extra_reqs);
        for ((ci, pos, imp_ty), d) in extra_meta.iter().zip(docs.iter()) {
            if d.starts_with("(panic") { rep.bump("doc_ty_undefined"); continue; }
            if imp_ty != d {
                let c = &cases[*ci];
                let inline_map = d.contains("(map") && !imp_ty.contains("(map");
                let trig = if inline_map { vec!["inlineMapProperty".to_string()] } else { vec![] };
                rep.oracle_fail("typeNotDocumented", trig, &format!("({pos} {})", case_text(c)), &format!("implementation {imp_ty}, documented {d}"));
            } else { rep.bump("c08_positions_ok"); }
        }
        rep.add("c08_positions", extra_meta.len() as u64);
        // rendering of types: to_rust_type / to_reference_type on every Ty up to depth 3
        let tys = all_tys(3);
        let mut rq = vec![]; let mut ri = vec![];
        for t in &tys {
            let ts = specio::ty(t);
            rq.push(format!("(rust_type {ts})"));
            ri.push(match catch(|| t.to_rust_type().to_string()) { Ok(s) => format!("(ok {})", quote(&norm_ws(&s))), Err(_) => "(panic)".into() });
            rq.push(format!("(ref_type \"'a\" {ts})"));
            ri.push(match catch(|| t.to_reference_type(quote::quote!('a)).to_string()) { Ok(s) => format!("(ok {})", quote(&norm_ws(&s))), Err(_) => "(panic)".into() });
            rq.push(format!("(is_ref_type {ts})"));
            ri.push(t.is_reference_type().to_string());
            // borrowed form only for strings / lists of strings
            let owned = catch(|| norm_ws(&t.to_rust_type().to_string()));
            let borrowed = catch(|| norm_ws(&t.to_reference_type(quote::quote!()).to_string()));
            if let (Ok(o), Ok(bw)) = (owned, borrowed) {
                let stringy = o == "String" || (o.starts_with("Vec<") && o.trim_start_matches("Vec<").trim_end_matches('>') == "String");
                if o != bw && !stringy { rep.oracle_fail("borrowedFormForNonString", vec![], &format!("(ty {ts})"), &format!("{o} vs {bw}")); }
            }
        }
        let rm = model::eval(&rq);
        for ((q, i), m) in rq.iter().zip(ri.iter()).zip(rm.iter()) {
            let (i2, m2) = if i == "(panic)" { ("(panic)".to_string(), if m.starts_with("(panic") { "(panic)".to_string() } else { m.clone() }) } else { (i.clone(), m.clone()) };
            if i2 != m2 { rep.disagree(q, i, m); }
        }
        rep.add("type_renderings", rq.len() as u64);
        rep.evaluations += rq.len() as u64 + extra_reqs.len() as u64;
    }
    rep.evaluations += reqs.len() as u64;
    rep.distinct_nontrivial = nontrivial;
    rep.rule = format!("{} cases: bundled specs, corpus, {}structured random documents in D (schemas of every kind with forward/backward/self references, parameters at operation and path-item level, bodies by $ref / inline / allOf / array / free-form, 1-2 success codes, servers, security, adversarial descriptions) through the real extractor and the Lean extractor; the property's projection of the two HIRs is compared and the property's oracle is applied to the real HIR. Non-trivial = distinct document with at least one operation and one component", cases.len(), if prop == "C08" { "every schema shape of nesting depth <= 3 x nullable x 4 positions (exhaustive), " } else { "" });
    if let (Some(q), Some(i), Some(m)) = (reqs.get(3.min(reqs.len().saturating_sub(1))), imps.get(3.min(imps.len().saturating_sub(1))), mods.get(3.min(mods.len().saturating_sub(1)))) {
        rep.samples.push(json!({"request": q.chars().take(1200).collect::<String>(), "implementation": i.chars().take(600).collect::<String>(), "model": m.chars().take(600).collect::<String>()}));
    }
    rep.write(out);
}

fn case_text(c: &Case) -> String { format!("(case {} (doc {}))", c.label, quote(&serde_json::to_string(&c.doc).unwrap_or_default().chars().take(60000).collect::<String>())) }

fn first_diff(a: &str, b: &str) -> (String, String) {
    let x: Vec<char> = a.chars().collect();
    let y: Vec<char> = b.chars().collect();
    let i = x.iter().zip(y.iter()).position(|(p, q)| p != q).unwrap_or(x.len().min(y.len()));
    let lo = i.saturating_sub(200);
    (x[lo..(i + 200).min(x.len())].iter().collect(), y[lo..(i + 200).min(y.len())].iter().collect())
}

fn panic_triggers(_doc: &Value, _msg: &str) -> Vec<String> { vec![] }

// ---- C08 oracle --------------------------------------------------------------------------------

fn oracle_c08_collect(rep: &mut Report, c: &Case, spec: &openapiv3::OpenAPI, h: &hir::HirSpec, reqs: &mut Vec<String>, meta: &mut Vec<(usize, String, String)>, ci: usize) {
    let dump = specio::spec(spec);
    // property positions: every object component's own properties
    for (name, sref) in &spec.components.schemas {
        let Some(s) = sref.as_item() else { continue };
        let openapiv3::SchemaKind::Type(openapiv3::Type::Object(o)) = &s.kind else { continue };
        let Some(hir::Record::Struct(st)) = h.schemas.get(name) else { continue };
        for (pn, pref) in &o.properties {
            let Some(f) = st.fields.get(pn) else { rep.oracle_fail("fieldMissing", vec![], &case_text(c), &format!("{name}.{pn}")); continue };
            reqs.push(format!("(doc_ty {dump} {})", specio::sref(pref)));
            meta.push((ci, format!("property {name}.{pn}"), specio::ty(&f.ty)));
        }
    }
    // map and array components: the value / item type
    for (name, sref) in &spec.components.schemas {
        let Some(s) = sref.as_item() else { continue };
        match (&s.kind, h.schemas.get(name)) {
            (openapiv3::SchemaKind::Type(openapiv3::Type::Object(o)), Some(hir::Record::TypeAlias(_, f))) if o.properties.is_empty() => {
                if let Some(openapiv3::AdditionalProperties::Schema(v)) = &o.additional_properties {
                    if let mir::Ty::HashMap(inner) = &f.ty { reqs.push(format!("(doc_ty {dump} {})", specio::sref(v))); meta.push((ci, format!("map-value {name}"), specio::ty(inner))); }
                    else { rep.oracle_fail("mapComponentNotMap", vec![], &case_text(c), name); }
                }
            }
            (openapiv3::SchemaKind::Type(openapiv3::Type::Array(a)), Some(hir::Record::NewType(nt))) => {
                if let (Some(it), Some(f)) = (&a.items, nt.fields.first()) {
                    if let mir::Ty::Array(inner) = &f.ty { reqs.push(format!("(doc_ty {dump} {})", specio::sref(it))); meta.push((ci, format!("array-item {name}"), specio::ty(inner))); }
                }
            }
            (openapiv3::SchemaKind::AllOf { all_of }, Some(hir::Record::TypeAlias(_, f))) if all_of.len() == 1 => {
                reqs.push(format!("(doc_ty {dump} {})", specio::sref(&all_of[0]))); meta.push((ci, format!("alias-target {name}"), specio::ty(&f.ty)));
            }
            _ => {}
        }
    }
    // parameter, body-property and result positions
    for (path, method, op, item) in spec.operations() {
        let Some(ho) = h.operations.iter().find(|o| o.path == path && o.method == method) else { rep.oracle_fail("operationMissing", vec![], &case_text(c), &format!("{method} {path}")); continue };
        let own: Vec<String> = op.parameters.iter().filter_map(|p| p.resolve(spec).ok().map(|p| p.data.name.clone())).collect();
        for (i, p) in op.parameters.iter().chain(item.parameters.iter()).enumerate() {
            let Ok(p) = p.resolve(spec) else { continue };
            // a path-item parameter re-declared by the operation is overridden
            if i >= op.parameters.len() && own.contains(&p.data.name) { continue; }
            let Some(sch) = p.data.schema() else { continue };
            if let Some(hp) = ho.parameters.iter().find(|q| q.name == p.data.name) {
                reqs.push(format!("(doc_ty {dump} {})", specio::sref(sch)));
                meta.push((ci, format!("parameter {method} {path} {}", p.data.name), specio::ty(&hp.ty)));
            }
        }
        if let Some(openapiv3::RefOr::Item(rb)) = &op.request_body {
            if let Some(bs) = rb.content.get("application/json").and_then(|m| m.schema.as_ref()) {
                let body = bs.resolve(spec);
                if let openapiv3::SchemaKind::Type(openapiv3::Type::Object(o)) = &body.kind {
                    for (pn, pref) in &o.properties {
                        if let Some(hp) = ho.parameters.iter().find(|q| &q.name == pn && q.location == hir::Location::Body) {
                            reqs.push(format!("(doc_ty {dump} {})", specio::sref(pref)));
                            meta.push((ci, format!("body {method} {path} {pn}"), specio::ty(&hp.ty)));
                        }
                    }
                }
            }
        }
        // result: first present of 200/201/202/204/302; `$ref` or primitive / array results use the documented type
        let mut chosen = None;
        for code in [200u16, 201, 202, 204, 302] { if let Some(r) = op.responses.responses.get(&openapiv3::StatusCode::Code(code)) { chosen = Some(r); break; } }
        if let Some(openapiv3::RefOr::Item(r)) = chosen {
            match r.content.get("application/json").and_then(|m| m.schema.as_ref()) {
                None => { if !matches!(ho.ret, mir::Ty::Unit) { rep.oracle_fail("resultNotUnit", vec![], &case_text(c), &format!("{method} {path}: first present success response has no JSON body but the result is {}", specio::ty(&ho.ret))); } else { rep.bump("c08_unit_results_ok"); } }
                Some(sr) => {
                    let inline_model = matches!(sr, openapiv3::RefOr::Item(s) if !matches!(s.kind, openapiv3::SchemaKind::Type(openapiv3::Type::Array(_)))) ;
                    let d = specio::ty(&ho.ret);
                    if inline_model && d.starts_with("(model") { rep.bump("c08_inline_response_models"); }
                    else { reqs.push(format!("(doc_ty {dump} {})", specio::sref(sr))); meta.push((ci, format!("result {method} {path}"), d)); }
                }
            }
        }
    }
}

// ---- C07 oracle --------------------------------------------------------------------------------

fn oracle_c07(rep: &mut Report, c: &Case, spec: &openapiv3::OpenAPI, h: &hir::HirSpec) {
    let case = case_text(c);
    // 1. closure: every mentioned model is present
    let (from_ops, from_schemas) = model_mentions(h);
    for n in from_ops.iter().chain(from_schemas.iter()) {
        if !h.schemas.contains_key(n) {
            let arr_inline = c.doc["components"]["schemas"].get(n).map(|s| s["type"] == "array" && s["items"].get("$ref").is_none() && s["items"].is_object()).unwrap_or(false);
            let trig = if arr_inline { vec!["arrayComponentInlineItemsReferenced".to_string()] } else { vec![] };
            rep.oracle_fail("danglingModel", trig, &case, &format!("model {n} is mentioned but absent from the schema table"));
        }
    }
    rep.bump("c07_closure_checked");
    // 2. reachability on the document: components referenced from operations, closed under member references
    let doc = &c.doc;
    let comps = schemas_of(doc);
    let mut reach: BTreeSet<String> = BTreeSet::new();
    // References are followed where the documented type mapping (C08) yields a model: through `$ref`
    // to a non-primitive, arrays, maps and single-member allOf; an inline object is a JSON value and
    // carries no model. The body schema itself is flattened into inputs; only the first present success
    // response is the result.
    fn typed_refs(doc: &Value, comps: &serde_json::Map<String, Value>, s: &Value, out: &mut BTreeSet<String>, depth: usize) {
        if depth > 30 { return; }
        if let Some(n) = ref_name(s) {
            if let Some(t) = comps.get(&n) { if is_prim(doc, t, 0) { typed_refs(doc, comps, t, out, depth + 1); } else { out.insert(n); } }
            return;
        }
        match s.get("type").and_then(|t| t.as_str()) {
            Some("array") => { if let Some(i) = s.get("items") { typed_refs(doc, comps, i, out, depth + 1); } }
            Some("object") => {
                let no_props = s.get("properties").and_then(|p| p.as_object()).map(|p| p.is_empty()).unwrap_or(true);
                if no_props { if let Some(a) = s.get("additionalProperties") { if a.is_object() { typed_refs(doc, comps, a, out, depth + 1); } } }
            }
            Some(_) => {}
            None => { if let Some(a) = s.get("allOf").and_then(|a| a.as_array()) { if a.len() == 1 { typed_refs(doc, comps, &a[0], out, depth + 1); } } }
        }
    }
    /// the model mentions of the record a schema is extracted into (struct fields, alias / newtype target)
    fn record_refs(doc: &Value, comps: &serde_json::Map<String, Value>, s: &Value, out: &mut BTreeSet<String>) {
        match s.get("type").and_then(|t| t.as_str()) {
            Some("object") => {
                let props = s.get("properties").and_then(|p| p.as_object()).cloned().unwrap_or_default();
                if props.is_empty() { if let Some(a) = s.get("additionalProperties") { if a.is_object() { typed_refs(doc, comps, a, out, 0); } } }
                for p in props.values() { typed_refs(doc, comps, p, out, 0); }
            }
            Some("array") => { if let Some(i) = s.get("items") { if i.get("$ref").is_some() { typed_refs(doc, comps, s, out, 0); } else if i.is_object() { record_refs(doc, comps, i, out); } } }
            Some(_) => {}
            None => {
                if let Some(a) = s.get("allOf").and_then(|a| a.as_array()) {
                    let eff: usize = a.iter().map(|m| if m.get("$ref").is_some() { 1 } else { m.get("properties").and_then(|p| p.as_object()).map(|p| p.len()).unwrap_or(0) }).sum();
                    if eff == 1 { if let Some(m) = a.first() { typed_refs(doc, comps, m, out, 0); } }
                    else { for m in a { if m.get("$ref").is_some() { typed_refs(doc, comps, m, out, 0); } else if let Some(ps) = m.get("properties").and_then(|p| p.as_object()) { for p in ps.values() { typed_refs(doc, comps, p, out, 0); } } } }
                }
            }
        }
    }
    // properties of a (possibly allOf-composed) body; a name declared by two members counts once (first wins)
    fn body_props(doc_comps: &serde_json::Map<String, Value>, s: &Value, out: &mut Vec<(String, Value)>, depth: usize) {
        if depth > 20 { return; }
        let s = match ref_name(s) { Some(n) => doc_comps.get(&n).cloned().unwrap_or(Value::Null), None => s.clone() };
        if s.get("allOf").is_some() && s.get("type").is_none() { for m in s["allOf"].as_array().cloned().unwrap_or_default() { body_props(doc_comps, &m, out, depth + 1); } }
        else if let Some(ps) = s.get("properties").and_then(|p| p.as_object()) { for (k, v) in ps { if !out.iter().any(|(n, _)| n == k) { out.push((k.clone(), v.clone())); } } }
    }
    if let Some(paths) = doc["paths"].as_object() {
        for item in paths.values() {
            let Some(item) = item.as_object() else { continue };
            let resolve_param = |p: &Value| -> Value { match p.get("$ref").and_then(|r| r.as_str()) { Some(r) => doc["components"]["parameters"].get(r.rsplit('/').next().unwrap()).cloned().unwrap_or(Value::Null), None => p.clone() } };
            for (verb, op) in item {
                if !["get", "put", "post", "delete", "options", "head", "patch", "trace"].contains(&verb.as_str()) { continue; }
                let own: Vec<Value> = op.get("parameters").and_then(|p| p.as_array()).map(|a| a.iter().map(|p| resolve_param(p)).collect()).unwrap_or_default();
                let shared: Vec<Value> = item.get("parameters").and_then(|p| p.as_array()).map(|a| a.iter().map(|p| resolve_param(p)).collect()).unwrap_or_default();
                for p in own.iter().chain(shared.iter().filter(|sp| !own.iter().any(|o| o["name"] == sp["name"]))) {
                    if let Some(sc) = p.get("schema") { typed_refs(doc, &comps, sc, &mut reach, 0); }
                }
                if let Some(bs) = op["requestBody"]["content"]["application/json"].get("schema") {
                    let b = match ref_name(bs) { Some(n) => comps.get(&n).cloned().unwrap_or(Value::Null), None => bs.clone() };
                    if b["type"] == "array" { if let Some(i) = b.get("items") { typed_refs(doc, &comps, i, &mut reach, 0); } }
                    else {
                        // a body member whose name is taken by a parameter is outside D (one scope per operation)
                        let taken: Vec<String> = own.iter().chain(shared.iter()).filter_map(|p| p["name"].as_str().map(|s| s.to_string())).collect();
                        let mut ps = vec![]; body_props(&comps, bs, &mut ps, 0);
                        for (n, p) in ps { if !taken.contains(&n) { typed_refs(doc, &comps, &p, &mut reach, 0); } }
                    }
                }
                if let Some(r) = first_present_response(op) {
                    if let Some(sc) = r["content"]["application/json"].get("schema") {
                        if sc.get("$ref").is_some() || is_prim(doc, sc, 0) || sc["type"] == "array" { typed_refs(doc, &comps, sc, &mut reach, 0); } else { record_refs(doc, &comps, sc, &mut reach); }
                    }
                }
            }
        }
    }
    let mut via: BTreeMap<String, String> = reach.iter().map(|n| (n.clone(), "an operation".to_string())).collect();
    let mut frontier: Vec<String> = reach.iter().cloned().collect();
    while let Some(n) = frontier.pop() {
        if let Some(s) = comps.get(&n) {
            let mut more = BTreeSet::new();
            record_refs(doc, &comps, s, &mut more);
            for m in more { if reach.insert(m.clone()) { via.insert(m.clone(), n.clone()); frontier.push(m); } }
        }
    }
    // what treeshake may legitimately inline away: optional aliases (nullable allOf[1] to a model) that end up unmentioned
    for n in &reach {
        let Some(s) = comps.get(n) else { continue };
        if is_prim(doc, s, 0) { continue; } // `$ref` to a primitive is the primitive, no model
        if h.schemas.contains_key(n) { continue; }
        let nullable_alias = s.get("nullable") == Some(&json!(true)) && s.get("allOf").and_then(|a| a.as_array()).map(|a| a.iter().map(|m| if m.get("$ref").is_some() { 1 } else { m.get("properties").and_then(|p| p.as_object()).map(|p| p.len()).unwrap_or(0) }).sum::<usize>() == 1).unwrap_or(false);
        if nullable_alias && !from_ops.contains(n) && !from_schemas.contains(n) { rep.bump("c07_inlined_nullable_alias"); continue; }
        // reachable only through a primitive-resolved position? e.g. referenced only from a component that is itself unreachable
        let arr_inline = s["type"] == "array" && s["items"].get("$ref").is_none() && s["items"].is_object();
        rep.oracle_fail("reachableRemoved", if arr_inline { vec!["arrayComponentInlineItemsReferenced".to_string()] } else { vec![] }, &case, &format!("component {n} is referenced from operations (directly or through members; via {}) but was pruned", via.get(n).cloned().unwrap_or_default()));
    }
    // the recorded clash: an operation whose first success response is an inline object gets the schema name `<Operation>Response`
    let invented_response_names: BTreeSet<String> = spec.operations().filter_map(|(path, method, op, _)| {
        let ho = h.operations.iter().find(|o| o.path == path && o.method == method)?;
        let inline = ["200", "201", "202", "204", "302"].iter().find_map(|c| doc["paths"][path][method]["responses"].get(*c)).map(|r| { let sc = &r["content"]["application/json"]["schema"]; sc.is_object() && sc.get("$ref").is_none() }).unwrap_or(false);
        let _ = op;
        if inline { Some(format!("{}Response", ho.name)) } else { None }
    }).collect();
    // 3a. a retained object component still is that component: a struct with exactly its declared properties
    for (n, s) in &comps {
        if s["type"] != json!("object") || s.get("allOf").is_some() { continue; }
        let Some(props) = s["properties"].as_object() else { continue };
        if props.is_empty() { continue; }
        let Some(r) = h.schemas.get(n) else { continue };
        let want: BTreeSet<&String> = props.keys().collect();
        let ok = match r { hir::Record::Struct(st) => st.fields.keys().collect::<BTreeSet<_>>() == want, _ => false };
        if !ok {
            let clash = invented_response_names.contains(n);
            rep.oracle_fail("componentReplaced", if clash { vec!["inlineResponseNameClash".to_string()] } else { vec![] }, &case, &format!("component {n} declares properties {:?} but the schema of that name is {}", want, specio::record(r)));
        }
    }
    // 3. invented names never replace a component: compare with the extraction of the components alone
    let mut only = doc.clone();
    only["paths"] = json!({});
    if let Ok(s2) = parse_spec(&serde_json::to_string(&only).unwrap(), true) {
        if let (Ok(Ok(t0)), Ok(Ok(t1))) = (catch(|| libninja::extractor::extract_without_treeshake(&s2)), catch(|| libninja::extractor::extract_without_treeshake(spec))) {
            for (n, r0) in &t0.schemas {
                if !comps.contains_key(n) { continue; }
                match t1.schemas.get(n) {
                    Some(r1) if specio::record(r1) == specio::record(r0) => {}
                    other => {
                        let clash = invented_response_names.contains(n);
                        rep.oracle_fail("componentReplaced", if clash { vec!["inlineResponseNameClash".to_string()] } else { vec![] }, &case, &format!("component {n}: extracted alone {} but with operations {}", specio::record(r0), other.map(specio::record).unwrap_or("absent".into())));
                    }
                }
            }
        }
    }
}

pub fn count_operations(doc: &Value) -> usize {
    doc["paths"].as_object().map(|p| p.values().map(|item| ["get", "put", "post", "delete", "options", "head", "patch", "trace"].iter().filter(|m| item.get(**m).is_some()).count()).sum()).unwrap_or(0)
}

// ---- C03, extraction half: every (path, verb) of the document is an operation with exactly that verb and path template,
// and every declared non-body input keeps its exact name and location
fn oracle_c03_targets(rep: &mut Report, c: &Case, spec: &openapiv3::OpenAPI, h: &hir::HirSpec) {
    let case = case_text(c);
    for (path, method, op, item) in spec.operations() {
        let Some(ho) = h.operations.iter().find(|o| o.path == path && o.method == method) else {
            rep.oracle_fail("operationTargetChanged", vec![], &case, &format!("{method} {path}: no operation of the interface has this verb and path template (paths: {:?})", h.operations.iter().map(|o| format!("{} {}", o.method, o.path)).collect::<Vec<_>>()));
            continue;
        };
        let Some(decl) = declared_inputs(spec, op, item) else { continue };
        for (n, l, _) in &decl {
            if l == "body" { continue; }
            if !ho.parameters.iter().any(|p| &p.name == n && specio::loc(&p.location) == l) && !decl.iter().any(|(m, k, _)| m == n && k != l) {
                rep.oracle_fail("inputNameOrLocationChanged", vec![], &case, &format!("{method} {path}: declared {l} input {n} is not an input of the operation under that name and location"));
            }
        }
        rep.bump("c03_operations_checked");
    }
}

// ---- C05 oracle --------------------------------------------------------------------------------

/// declared inputs of an operation, from the OpenAPI meaning: (name, location, required)
pub fn declared_inputs(spec: &openapiv3::OpenAPI, op: &openapiv3::Operation, item: &openapiv3::PathItem) -> Option<Vec<(String, String, bool)>> {
    let mut out: Vec<(String, String, bool)> = vec![];
    let mut add = |p: &openapiv3::Parameter, out: &mut Vec<(String, String, bool)>| {
        let loc = match p.kind { openapiv3::ParameterKind::Query { .. } => "query", openapiv3::ParameterKind::Header { .. } => "header", openapiv3::ParameterKind::Path { .. } => "path", openapiv3::ParameterKind::Cookie { .. } => "cookie" };
        if !out.iter().any(|(n, l, _)| n == &p.data.name && l == loc) { out.push((p.data.name.clone(), loc.to_string(), p.data.required || loc == "path")); }
    };
    for p in &op.parameters { add(p.resolve(spec).ok()?, &mut out); }
    for p in &item.parameters { add(p.resolve(spec).ok()?, &mut out); }
    if let Some(rb) = &op.request_body {
        let rb = rb.resolve(spec).ok()?;
        if let Some(bs) = rb.content.get("application/json").and_then(|m| m.schema.as_ref()) {
            let body = bs.resolve(spec);
            match &body.kind {
                openapiv3::SchemaKind::Type(openapiv3::Type::Array(_)) => out.push(("body".into(), "body".into(), true)),
                _ => {
                    let props: Vec<_> = body.properties_iter(spec).collect();
                    // a property declared by two allOf members is outside D (names are distinct within a scope)
                    let mut names: Vec<&String> = props.iter().map(|(n, _)| *n).collect();
                    names.sort();
                    let n0 = names.len();
                    names.dedup();
                    if names.len() != n0 { return None; }
                    if props.is_empty() { out.push(("body".into(), "body".into(), true)); }
                    else {
                        // required = listed in the declaring object's `required` and not nullable
                        fn declaring_required(spec: &openapiv3::OpenAPI, s: &openapiv3::Schema, name: &str) -> bool {
                            match &s.kind {
                                openapiv3::SchemaKind::AllOf { all_of } => all_of.iter().any(|m| { let m = m.resolve(spec); m.get_properties().map(|p| p.contains_key(name)).unwrap_or(false) && declaring_required(spec, m, name) || matches!(m.kind, openapiv3::SchemaKind::AllOf { .. }) && declaring_required(spec, m, name) }),
                                _ => s.get_required().map(|r| r.iter().any(|x| x == name)).unwrap_or(false),
                            }
                        }
                        for (n, r) in props {
                            let ps = r.resolve(spec);
                            let required = declaring_required(spec, body, n) && !ps.nullable;
                            if !out.iter().any(|(m, l, _)| m == n && l == "body") { out.push((n.clone(), "body".into(), required)); }
                        }
                    }
                }
            }
        }
    }
    Some(out)
}

fn oracle_c05(rep: &mut Report, c: &Case, spec: &openapiv3::OpenAPI, h: &hir::HirSpec) {
    let case = case_text(c);
    for (path, method, op, item) in spec.operations() {
        let Some(ho) = h.operations.iter().find(|o| o.path == path && o.method == method) else { continue };
        let Some(decl) = declared_inputs(spec, op, item) else { continue };
        // parameters are one scope, body members another (D): within a scope names are distinct after folding;
        // across the two, names that differ but fold alike give two equal struct fields (a C02 matter) and are skipped here
        let fold = |s: &str| s.chars().filter(|c| c.is_ascii_alphanumeric()).collect::<String>().to_lowercase();
        let clash = decl.iter().enumerate().any(|(i, (n, l, _))| decl.iter().skip(i + 1).any(|(m, k, _)| fold(n) == fold(m) && (n != m || (l == "body") == (k == "body"))));
        if clash { rep.bump("c05_outside_D_input_names_clash"); continue; }
        rep.bump("c05_operations_checked");
        let body_is_allof = op.request_body.as_ref().and_then(|b| b.as_item()).and_then(|b| b.content.get("application/json")).and_then(|m| m.schema.as_ref()).map(|s| matches!(s.resolve(spec).kind, openapiv3::SchemaKind::AllOf { .. })).unwrap_or(false);
        for (n, l, required) in &decl {
            let hits: Vec<_> = ho.parameters.iter().filter(|p| &p.name == n && specio::loc(&p.location) == l).collect();
            if hits.len() != 1 {
                // recorded finding: a body member named like a parameter is dropped (the parameter is kept)
                let shadowed = hits.is_empty() && l == "body" && decl.iter().any(|(m, k, _)| m == n && k != "body") && ho.parameters.iter().any(|p| &p.name == n && p.location != hir::Location::Body);
                if shadowed { rep.oracle_fail("bodyMemberShadowed", vec!["bodyNonBodyNameClash".to_string()], &case, &format!("{method} {path}: body member {n} is dropped because a parameter has the same name")); }
                else { rep.oracle_fail(if hits.is_empty() { "inputDropped" } else { "inputDuplicated" }, vec![], &case, &format!("{method} {path}: declared input {n} in {l} appears {} times in the generated interface", hits.len())); }
                continue;
            }
            if hits[0].optional == *required {
                let mut trig = vec![];
                if l == "path" { trig.push("pathParamNotRequired".to_string()); }
                if l == "body" && body_is_allof { trig.push("allOfBodyRequired".to_string()); }
                rep.oracle_fail("requirednessFlipped", trig, &case, &format!("{method} {path}: input {n} in {l} is {} in the spec but {} in the interface", if *required { "required" } else { "optional" }, if hits[0].optional { "a setter" } else { "mandatory" }));
            }
        }
        for p in &ho.parameters {
            if !decl.iter().any(|(n, l, _)| n == &p.name && l == specio::loc(&p.location)) { rep.oracle_fail("inputInvented", vec![], &case, &format!("{method} {path}: interface input {} in {} is not declared", p.name, specio::loc(&p.location))); }
        }
        // > 3 required inputs <=> required-arguments struct
        let n_req = ho.parameters.iter().filter(|p| !p.optional).count();
        if ho.use_required_struct(hir::Language::Rust) != (n_req > 3) { rep.oracle_fail("requiredStructRule", vec![], &case, &format!("{method} {path}: {n_req} required inputs but use_required_struct = {}", ho.use_required_struct(hir::Language::Rust))); }
    }
}

// ---- C06 oracle --------------------------------------------------------------------------------

/// the documented rule for the name of an operation without operationId: verb, the non-placeholder segments
/// joined by `_`, and `_by_<last placeholder>` (with the previous segment's name stripped from its front)
pub fn documented_synth_name(method: &str, path: &str) -> String {
    let names: Vec<&str> = path.split('/').filter(|s| !s.starts_with('{')).collect();
    let last_group = path.split('/').filter(|s| s.starts_with('{') && s.len() >= 2).last().map(|s| {
        let mut param = &s[1..s.len() - 1];
        if let Some(name) = names.last() { if param.starts_with(name) && param.len() > name.len() { param = &param[name.len() + 1..]; } }
        format!("_by_{param}")
    }).unwrap_or_default();
    format!("{method}{}{last_group}", names.join("_"))
}

/// the recorded C06 finding: two operations without operationId whose *documented* names already coincide
/// (after the case conversion every name goes through)
pub fn documented_synth_clash(doc: &Value) -> bool {
    use convert_case::{Case, Casing};
    let mut seen = BTreeSet::new();
    let Some(paths) = doc["paths"].as_object() else { return false };
    for (path, item) in paths {
        for m in ["get", "put", "post", "delete", "options", "head", "patch", "trace"] {
            let Some(op) = item.get(m) else { continue };
            if op.get("operationId").is_some() { continue; }
            let n: String = documented_synth_name(m, path).to_case(Case::Pascal).to_case(Case::Snake);
            if !seen.insert(n) { return true; }
        }
    }
    false
}

fn oracle_c06(rep: &mut Report, c: &Case, spec: &openapiv3::OpenAPI, h: &hir::HirSpec) {
    use mir_rust::ToRustIdent;
    let case = case_text(c);
    let n_ops = spec.operations().count();
    if h.operations.len() != n_ops { rep.oracle_fail("operationCount", vec![], &case, &format!("{} operations in the document, {} in the HIR", n_ops, h.operations.len())); }
    let mut seen: BTreeMap<String, String> = BTreeMap::new();
    for o in &h.operations {
        let keys = [("method", catch(|| o.name.to_rust_ident().0)), ("struct", catch(|| o.request_struct_name().to_rust_struct().0)), ("file", Ok(o.file_name()))];
        for (kind, k) in keys {
            let Ok(k) = k else { rep.oracle_fail("namePanic", vec![], &case, &format!("{} {}", o.method, o.path)); continue };
            let key = format!("{kind}:{k}");
            let me = format!("{} {}", o.method, o.path);
            if let Some(other) = seen.insert(key.clone(), me.clone()) {
                if other != me {
                    // trigger: both names were synthesised from verb and path (no operationId)
                    let synth = |who: &str| { let mut it = who.splitn(2, ' '); let (m, p) = (it.next().unwrap_or(""), it.next().unwrap_or("")); spec.operations().any(|(pp, mm, op, _)| pp == p && mm == m && op.operation_id.is_none()) };
                    let trig = if synth(&other) && synth(&me) && documented_synth_clash(&c.doc) { vec!["synthNameCollision".to_string()] } else { vec![] };
                    rep.oracle_fail("nameCollision", trig, &case, &format!("{key} is produced by both `{other}` and `{me}`"));
                }
            }
        }
    }
    rep.bump("c06_specs_checked");
}

// ---- C15 oracle --------------------------------------------------------------------------------

fn oracle_c15(rep: &mut Report, c: &Case, spec: &openapiv3::OpenAPI, h: &hir::HirSpec) {
    let case = case_text(c);
    let n = spec.servers.len();
    rep.bump(&format!("c15_servers:{}", n.min(4)));
    let strat = h.server_strategy();
    match (n, &strat) {
        (0, hir::ServerStrategy::BaseUrl) => {}
        (1, hir::ServerStrategy::Single(u)) if *u == spec.servers[0].url => {}
        (k, hir::ServerStrategy::Env) if k >= 2 => {}
        _ => {
            let kw = ["beta", "production", "development", "sandbox"];
            let mut trig = vec![];
            if n >= 2 {
                let ks: Vec<Option<&str>> = spec.servers.iter().map(|s| s.description.as_ref().and_then(|d| kw.iter().find(|k| d.to_lowercase().contains(**k)).copied())).collect();
                // the recorded behaviour: one description without a keyword empties the server table, and the client falls back to <SERVICE>_BASE_URL
                if ks.iter().any(|k| k.is_none()) { if matches!(strat, hir::ServerStrategy::BaseUrl) { trig.push("serversWithoutKeywords".to_string()); } }
                else { let set: BTreeSet<_> = ks.iter().collect(); if set.len() < ks.len() { trig.push("serversSharingKeyword".to_string()); } }
            }
            let got = match strat { hir::ServerStrategy::BaseUrl => "<SERVICE>_BASE_URL".to_string(), hir::ServerStrategy::Single(u) => format!("literal {u}"), hir::ServerStrategy::Env => "<SERVICE>_ENV".to_string() };
            rep.oracle_fail("serverStrategy", trig, &case, &format!("{n} servers declared, base URL comes from {got}"));
        }
    }
}

// ---- C14 oracle (extraction part) ----------------------------------------------------------------

fn oracle_c14(rep: &mut Report, c: &Case, spec: &openapiv3::OpenAPI, h: &hir::HirSpec) {
    let case = case_text(c);
    let mut expected = 0;
    for req in &spec.security {
        let Some((name, _)) = req.iter().next() else { expected += 1; continue };
        let Some(openapiv3::RefOr::Item(s)) = spec.components.security_schemes.get(name) else { continue };
        match s {
            openapiv3::SecurityScheme::APIKey { location, name: key, .. } => {
                expected += 1;
                let found = h.security.iter().find_map(|a| if let hir::AuthStrategy::Token(t) = a { if &t.name == name { Some(t) } else { None } } else { None });
                let Some(t) = found else { rep.oracle_fail("schemeMissing", vec![], &case, name); continue };
                let ok = match (&t.fields[0].location, location) {
                    (hir::AuthLocation::Header { key: k }, openapiv3::APIKeyLocation::Header) => k == key,
                    (hir::AuthLocation::Bearer, openapiv3::APIKeyLocation::Header) => ["bearer", "bearer_auth"].contains(&convert_case::Casing::to_case(key, convert_case::Case::Snake).as_str()),
                    (hir::AuthLocation::Query { key: k }, openapiv3::APIKeyLocation::Query) => k == key,
                    (hir::AuthLocation::Cookie { key: k }, openapiv3::APIKeyLocation::Cookie) => k == key,
                    _ => false,
                };
                if !ok { rep.oracle_fail("credentialMisplaced", vec![], &case, &format!("apiKey scheme {name} ({key}) extracted as {:?}", t.fields[0].location)); } else { rep.bump("c14_apikey_ok"); }
            }
            openapiv3::SecurityScheme::HTTP { scheme, .. } => {
                expected += 1;
                let found = h.security.iter().find_map(|a| if let hir::AuthStrategy::Token(t) = a { if &t.name == name { Some(t) } else { None } } else { None });
                let Some(t) = found else { rep.oracle_fail("schemeMissing", vec![], &case, name); continue };
                let want_basic = scheme.eq_ignore_ascii_case("basic");
                let ok = match &t.fields[0].location { hir::AuthLocation::Basic => want_basic, hir::AuthLocation::Bearer => !want_basic, _ => false };
                if !ok { rep.oracle_fail("credentialMisplaced", if want_basic { vec!["httpBasicScheme".to_string()] } else { vec![] }, &case, &format!("http scheme {name} ({scheme}) extracted as {:?}", t.fields[0].location)); } else { rep.bump("c14_http_ok"); }
            }
            openapiv3::SecurityScheme::OAuth2 { flows, .. } => { if flows.authorization_code.is_some() { expected += 1; if !h.security.iter().any(|a| matches!(a, hir::AuthStrategy::OAuth2(_))) { rep.oracle_fail("schemeMissing", vec![], &case, name); } else { rep.bump("c14_oauth2_ok"); } } }
            _ => {}
        }
    }
    if expected != h.security.len() { rep.oracle_fail("strategyCount", vec![], &case, &format!("{expected} supported requirements, {} strategies", h.security.len())); }
    // `from_env` builds the credential of the FIRST strategy: the strategies keep the order of declaration
    let mut first: Option<String> = None;
    for req in &spec.security {
        let Some((name, _)) = req.iter().next() else { first = Some("(anonymous)".into()); break };
        let Some(openapiv3::RefOr::Item(s)) = spec.components.security_schemes.get(name) else { continue };
        match s {
            openapiv3::SecurityScheme::APIKey { .. } | openapiv3::SecurityScheme::HTTP { .. } => { first = Some(format!("token {name}")); break }
            openapiv3::SecurityScheme::OAuth2 { flows, .. } => { if flows.authorization_code.is_some() { first = Some("oauth2".into()); break } }
            _ => {}
        }
    }
    if expected == h.security.len() {
        let got = h.security.first().map(|a| match a { hir::AuthStrategy::Token(t) => format!("token {}", t.name), hir::AuthStrategy::OAuth2(_) => "oauth2".to_string(), hir::AuthStrategy::NoAuth => "(anonymous)".to_string() });
        if got != first { rep.oracle_fail("firstStrategyNotFirstDeclared", vec![], &case, &format!("first declared requirement: {first:?}, first strategy (the one from_env builds): {got:?}")); } else if first.is_some() { rep.bump("c14_first_strategy_ok"); }
    }
}

// ---- C17 oracle (extraction part) ----------------------------------------------------------------

fn oracle_c17(rep: &mut Report, c: &Case, spec: &openapiv3::OpenAPI, h: &hir::HirSpec) {
    let case = case_text(c);
    for (path, method, op, _) in spec.operations() {
        let Some(ho) = h.operations.iter().find(|o| o.path == path && o.method == method) else { continue };
        let mut pieces: Vec<String> = vec![];
        if let Some(s) = &op.summary { if !s.is_empty() { pieces.push(s.clone()); } }
        if let Some(d) = &op.description { if !d.is_empty() && Some(d) != pieces.first() { pieces.push(d.clone()); } }
        if let Some(e) = &op.external_docs { pieces.push(format!("See endpoint docs at <{}>.", e.url)); }
        let want = if pieces.is_empty() { None } else { Some(pieces.join("\n\n")) };
        let got = ho.doc.as_ref().map(|d| d.0.clone());
        // verbatim up to surrounding whitespace
        if want.as_ref().map(|s| s.trim().to_string()) != got.as_ref().map(|s| s.trim().to_string()) { rep.oracle_fail("operationDoc", vec![], &case, &format!("{method} {path}: expected {want:?}, got {got:?}")); } else { rep.bump("c17_operation_docs_ok"); }
    }
    for (name, sref) in &spec.components.schemas {
        let Some(s) = sref.as_item() else { continue };
        let Some(r) = h.schemas.get(name) else { continue };
        let want = s.description.as_ref().map(|d| d.trim().to_string());
        let (got, kind) = match r {
            hir::Record::Struct(st) => (st.docs.as_ref().map(|d| d.0.trim().to_string()), "struct"),
            hir::Record::Enum(e) => (e.doc.as_ref().map(|d| d.0.trim().to_string()), "enum"),
            hir::Record::NewType(n) => (n.doc.as_ref().map(|d| d.0.trim().to_string()), "newtype"),
            hir::Record::TypeAlias(_, _) => (None, "alias"),
        };
        if kind == "alias" { if want.is_some() { rep.oracle_fail("schemaDoc", vec!["aliasDescriptionDropped".to_string()], &case, &format!("{name} is emitted as a type alias and its description {want:?} is dropped")); } continue; }
        if want != got { rep.oracle_fail("schemaDoc", vec![], &case, &format!("{name} ({kind}): expected {want:?}, got {got:?}")); } else { rep.bump("c17_schema_docs_ok"); }
        if let (openapiv3::SchemaKind::Type(openapiv3::Type::Object(o)), hir::Record::Struct(st)) = (&s.kind, r) {
            for (pn, pref) in &o.properties {
                let ps = pref.resolve(spec);
                let want = ps.description.as_ref().map(|d| d.trim().to_string());
                let got = st.fields.get(pn).and_then(|f| f.doc.as_ref().map(|d| d.0.trim().to_string()));
                if st.fields.contains_key(pn) && want != got { rep.oracle_fail("fieldDoc", vec![], &case, &format!("{name}.{pn}: expected {want:?}, got {got:?}")); } else { rep.bump("c17_field_docs_ok"); }
            }
        }
    }
}
