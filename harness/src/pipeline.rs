//! Running the real generator in-process (and in a child process for crash injection).
use crate::util::catch;
use convert_case::{Case, Casing};
use openapiv3::{OpenAPI, VersionedOpenAPI};
use std::collections::BTreeMap;
use std::path::{Path, PathBuf};

#[derive(Clone, Debug)]
pub struct Cfg {
    pub name: String,
    pub derives: Vec<String>,
    pub examples: bool,
}

impl Cfg {
    pub fn new(name: &str) -> Cfg { Cfg { name: name.into(), derives: vec![], examples: true } }
}

/// Mirrors `libninja::command::generate::read_spec` for in-memory text.
/// Documents marked `x-lnv-wrap-refs` are handed to the code under test (and to the model) with every second
/// request body and success response moved to `components.requestBodies` / `components.responses` and referenced;
/// the oracles keep reading the document as generated (the two spellings mean the same).
pub fn wrap_refs(doc: &mut serde_json::Value) {
    use serde_json::json;
    if doc.get("x-lnv-wrap-refs").is_none() { return; }
    let mut bodies = serde_json::Map::new();
    let mut responses = serde_json::Map::new();
    let mut k = 0usize;
    if let Some(paths) = doc["paths"].as_object_mut() {
        for (_, item) in paths.iter_mut() {
            let Some(item) = item.as_object_mut() else { continue };
            for (verb, op) in item.iter_mut() {
                if verb == "parameters" { continue; }
                k += 1;
                if k % 2 == 0 { continue; }
                if let Some(rb) = op.get_mut("requestBody") {
                    if rb.get("$ref").is_none() { let n = format!("Body{k}"); bodies.insert(n.clone(), rb.clone()); *rb = json!({"$ref": format!("#/components/requestBodies/{n}")}); }
                }
                if let Some(rs) = op.get_mut("responses").and_then(|r| r.as_object_mut()) {
                    for (code, r) in rs.iter_mut() {
                        if r.get("$ref").is_none() && code != "default" { let n = format!("Response{k}x{code}"); responses.insert(n.clone(), r.clone()); *r = json!({"$ref": format!("#/components/responses/{n}")}); }
                    }
                }
            }
        }
    }
    if !bodies.is_empty() { doc["components"]["requestBodies"] = serde_json::Value::Object(bodies); }
    if !responses.is_empty() { doc["components"]["responses"] = serde_json::Value::Object(responses); }
}

pub fn parse_spec(text: &str, json: bool) -> Result<OpenAPI, String> {
    if json && text.contains("x-lnv-wrap-refs") {
        let mut d: serde_json::Value = serde_json::from_str(text).map_err(|e| e.to_string())?;
        wrap_refs(&mut d);
        let v: VersionedOpenAPI = serde_json::from_value(d).map_err(|e| e.to_string())?;
        return Ok(v.upgrade());
    }
    let v: VersionedOpenAPI = if json {
        serde_json::from_str(text).map_err(|e| e.to_string())?
    } else {
        serde_yaml::from_str(text).map_err(|e| e.to_string())?
    };
    Ok(v.upgrade())
}

/// Mirrors `Generate::run`: extract, build the config, generate. Panics are returned as `Err`.
pub fn generate(spec: &OpenAPI, cfg: &Cfg, dest: &Path) -> Result<(), String> {
    let dest = dest.to_path_buf();
    let cfg = cfg.clone();
    let r = catch(move || {
        let hir = libninja::extractor::extract_spec(spec).map_err(|e| format!("error: {e}"))?;
        let config = hir::Config {
            name: cfg.name.to_case(Case::Pascal),
            dest,
            derives: cfg.derives.clone(),
            build_examples: cfg.examples,
            ormlite: false,
        };
        codegen_rust::generate_rust_library(hir, config).map_err(|e| format!("error: {e}"))
    });
    match r {
        Ok(Ok(())) => Ok(()),
        Ok(Err(e)) => Err(e),
        Err(p) => Err(format!("panic: {p}")),
    }
}

pub type Tree = BTreeMap<String, Vec<u8>>;

pub fn read_tree(root: &Path) -> Tree {
    fn walk(root: &Path, dir: &Path, out: &mut Tree) {
        let Ok(rd) = std::fs::read_dir(dir) else { return };
        for e in rd.flatten() {
            let p = e.path();
            if p.is_dir() {
                walk(root, &p, out);
            } else {
                let rel = p.strip_prefix(root).unwrap().to_string_lossy().to_string();
                out.insert(rel, std::fs::read(&p).unwrap_or_default());
            }
        }
    }
    let mut t = Tree::new();
    walk(root, root, &mut t);
    t
}

pub fn write_tree(root: &Path, t: &Tree) {
    for (rel, bytes) in t {
        let p = root.join(rel);
        if let Some(d) = p.parent() { std::fs::create_dir_all(d).unwrap(); }
        std::fs::write(&p, bytes).unwrap();
    }
}

pub fn scratch_root() -> PathBuf {
    let p = std::env::var("LNV_SCRATCH").map(PathBuf::from).unwrap_or_else(|_| PathBuf::from(format!("/tmp/lnv-{}", std::process::id())));
    std::fs::create_dir_all(&p).unwrap();
    p
}

static COUNTER: std::sync::atomic::AtomicUsize = std::sync::atomic::AtomicUsize::new(0);

/// A fresh empty directory under the scratch root.
pub fn fresh_dir(tag: &str) -> PathBuf {
    let n = COUNTER.fetch_add(1, std::sync::atomic::Ordering::SeqCst);
    let p = scratch_root().join(format!("{tag}-{n}"));
    let _ = std::fs::remove_dir_all(&p);
    std::fs::create_dir_all(&p).unwrap();
    p
}

/// Entry point of the child process used for crash injection: `lnv child-gen <spec> <dest> <name> <examples>`
pub fn child_gen(args: &[String]) -> i32 {
    let text = std::fs::read_to_string(&args[0]).expect("spec");
    let spec = parse_spec(&text, args[0].ends_with(".json")).expect("parse");
    let derives: Vec<String> = args.get(4).map(|d| d.split('\u{1f}').filter(|x| !x.is_empty()).map(|x| x.to_string()).collect()).unwrap_or_default();
    let cfg = Cfg { name: args[2].clone(), derives, examples: args[3] == "true" };
    match generate(&spec, &cfg, Path::new(&args[1])) {
        Ok(()) => 0,
        Err(e) => { eprintln!("{e}"); 3 }
    }
}

/// Run a generation in a child process with a crash plan; returns the exit status description.
pub fn generate_with_crash(spec_path: &Path, cfg: &Cfg, dest: &Path, plan: &str) -> String {
    let exe = std::env::current_exe().unwrap();
    let out = std::process::Command::new(exe)
        .arg("child-gen").arg(spec_path).arg(dest).arg(&cfg.name).arg(cfg.examples.to_string()).arg(cfg.derives.join("\u{1f}"))
        .env("LIBNINJA_VERIF_CRASH", plan)
        .stdout(std::process::Stdio::null())
        .stderr(std::process::Stdio::null())
        .status()
        .expect("spawn child");
    use std::os::unix::process::ExitStatusExt;
    if let Some(sig) = out.signal() { format!("signal {sig}") } else { format!("exit {}", out.code().unwrap_or(-1)) }
}

/// Runs one generation in a child process (so that a stack overflow, abort or hang of the generator is an
/// observation and not the end of the harness). Returns `Ok(())` when the child exits 0 or with an ordinary
/// error / caught panic (those are reproduced in-process afterwards), `Err(status)` for a signal or timeout.
pub fn generation_survives(doc_json: &str, cfg: &Cfg, secs: u64) -> Result<(), String> {
    let dir = fresh_dir("child");
    let spec = dir.join("spec.json");
    std::fs::write(&spec, doc_json).map_err(|e| e.to_string())?;
    let exe = std::env::current_exe().unwrap();
    let mut child = std::process::Command::new(exe)
        .arg("child-gen").arg(&spec).arg(dir.join("out")).arg(&cfg.name).arg(cfg.examples.to_string()).arg(cfg.derives.join("\u{1f}"))
        .stdout(std::process::Stdio::null()).stderr(std::process::Stdio::null()).spawn().map_err(|e| e.to_string())?;
    let t0 = std::time::Instant::now();
    let status = loop {
        match child.try_wait() {
            Ok(Some(st)) => break Some(st),
            Ok(None) => {
                if t0.elapsed().as_secs() >= secs { let _ = child.kill(); let _ = child.wait(); break None; }
                std::thread::sleep(std::time::Duration::from_millis(5));
            }
            Err(e) => { let _ = std::fs::remove_dir_all(&dir); return Err(e.to_string()); }
        }
    };
    let _ = std::fs::remove_dir_all(&dir);
    use std::os::unix::process::ExitStatusExt;
    match status {
        None => Err(format!("timeout after {secs}s")),
        Some(st) => match st.signal() { Some(sig) => Err(format!("killed by signal {sig} (stack overflow / abort)")), None => Ok(()) },
    }
}

#[derive(clap::Parser)]
struct Cli {
    #[command(flatten)]
    generate: libninja::command::Generate,
}

/// `lnv child-cli <libninja gen arguments>`: the real `Generate::run` (argument parsing, `read_spec` by file
/// extension, extraction, generation) in this process; exit status 0 on success, 3 on a reported error.
/// A panic unwinds to the default handler (exit status 101), a stack overflow kills the process with a signal.
pub fn child_cli(args: &[String]) -> i32 {
    use clap::Parser;
    let mut argv = vec!["libninja-gen".to_string()];
    argv.extend(args.iter().cloned());
    let cli = match Cli::try_parse_from(argv) { Ok(c) => c, Err(e) => { eprintln!("{e}"); return 2; } };
    match cli.generate.run() {
        Ok(()) => 0,
        Err(e) => { eprintln!("error: {e}"); 3 }
    }
}

pub struct CliRun { pub status: String, pub stderr: String }

/// Runs `child-cli` in a child process with a working directory and a timeout.
pub fn run_cli(cwd: &Path, spec: &str, dest: &str, cfg: &Cfg, secs: u64) -> CliRun { run_cli_env(cwd, spec, dest, cfg, secs, &[]) }

/// the same with extra environment variables (the crash hook's plan)
pub fn run_cli_env(cwd: &Path, spec: &str, dest: &str, cfg: &Cfg, secs: u64, env: &[(&str, String)]) -> CliRun {
    let exe = std::env::current_exe().unwrap();
    // `LNV_ULIMIT_F=<blocks>`: the child runs under a file-size limit, so that it is killed by the operating system
    // in the middle of whatever way of writing files the code under test uses (a real fault, not the hook's simulation)
    let mut cmd = match env.iter().find(|(k, _)| *k == "LNV_ULIMIT_F") {
        Some((_, n)) => { let mut c = std::process::Command::new("sh"); c.arg("-c").arg(format!("ulimit -f {n}; exec \"$0\" \"$@\"")).arg(&exe); c }
        None => std::process::Command::new(&exe),
    };
    for (k, v) in env { if *k != "LNV_ULIMIT_F" { cmd.env(k, v); } }
    if cfg.examples {
        // the command line as the `libninja gen` binary receives it (`--examples` is a set-true flag whose default is true)
        cmd.arg("child-cli").arg("--output-dir").arg(dest);
        for d in &cfg.derives { cmd.arg(format!("--derive={d}")); }
        cmd.arg("--").arg(&cfg.name).arg(spec);
    } else {
        // examples off is only reachable through the library API: the harness's mirror of `Generate::run`
        cmd.arg("child-gen").arg(spec).arg(dest).arg(&cfg.name).arg("false").arg(cfg.derives.join("\u{1f}"));
    }
    let errf = fresh_dir("clierr").join("stderr");
    let child = cmd.current_dir(cwd).stdout(std::process::Stdio::null()).stderr(std::fs::File::create(&errf).unwrap()).spawn();
    let Ok(mut child) = child else { return CliRun { status: "spawn-failed".into(), stderr: String::new() } };
    let t0 = std::time::Instant::now();
    let status = loop {
        match child.try_wait() {
            Ok(Some(st)) => break Some(st),
            Ok(None) => { if t0.elapsed().as_secs() >= secs { let _ = child.kill(); let _ = child.wait(); break None; } std::thread::sleep(std::time::Duration::from_millis(5)); }
            Err(_) => break None,
        }
    };
    let stderr = std::fs::read_to_string(&errf).unwrap_or_default();
    let _ = std::fs::remove_dir_all(errf.parent().unwrap());
    use std::os::unix::process::ExitStatusExt;
    let status = match status { None => "timeout".to_string(), Some(st) => match st.signal() { Some(sig) => format!("signal {sig}"), None => format!("exit {}", st.code().unwrap_or(-1)) } };
    // keep the tail: the panic message is printed last
    let tail: String = { let n = stderr.len(); let mut i = n.saturating_sub(1500); while i < n && !stderr.is_char_boundary(i) { i += 1; } stderr[i..].to_string() };
    CliRun { status, stderr: tail }
}
