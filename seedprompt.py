#!/usr/bin/env python3
"""seedprompt.py <property id>: the brief given to an independent agent that produces seeded changes for one
property in its own scratch worktree (/tmp/seed/<id>). The agent sees only the text of the property and the one-line
summaries of the changes stored in earlier rounds; it never sees /verif."""
import glob
import json
import sys

pid = sys.argv[1]
for line in open('/verif/properties.jsonl'):
    p = json.loads(line)
    if p['id'] == pid:
        break
d = f"/tmp/seed/{pid}"
print(f"""You are working in a scratch git worktree of the Rust project kurtbuilds/libninja (an OpenAPI-to-Rust client library generator: it extracts an OpenAPI spec into a HIR, lowers it to a MIR of classes/functions, and emits formatted Rust source). The worktree is at {d} (its own `target/` directory is cold: the first cargo build takes a couple of minutes). Work ONLY inside {d}. Do not read, list or touch /verif or /repo or any other /tmp/seed/* directory.

Here is a semantic property the project is supposed to satisfy:

TITLE: {p['title']}
STATEMENT: {p['statement']}
SCOPE (what it quantifies over): {p['quantifier']['text']}

TASK. Produce TWO different, independent, realistic changes to the project's source code (the kind of bug a maintainer could plausibly introduce: a refactoring slip, an off-by-one, a wrong condition, a missed case, a reordered step, two sites that each look fine alone but disagree) such that, for EACH change on its own:
  1. the project still compiles,
  2. the existing test suite still passes: `cd {d} && CARGO_NET_OFFLINE=true cargo test --workspace --no-fail-fast --offline` (note: the test `basic::test_generate_example` in the libninja crate ALREADY FAILS on the unchanged tree because of a missing network dependency; ignore that one test; every other test must still pass),
  3. the property above is broken, but only for something specific: an unusual input, a particular multi-step sequence of operations, a particular prior state of the output directory, a crash/fault at a particular point, or two cooperating code sites - NOT something that ordinary use of the tool on a typical spec would expose at once.
Prefer small changes (1-15 lines) in the code that implements the property. The two changes should differ in mechanism (not two variants of the same edit).

DELIVERABLES, for each change X in {{a, b}}, under {d}/seed/X/ :
  - patch.diff : `git diff` of the source change only (must apply with `git apply` to a clean checkout of this worktree's HEAD). Do not include the demonstration in the patch.
  - a demonstration: a test file or small program plus a script `run.sh` (run from {d}) that exits non-zero / fails WITH the change applied and exits zero / passes WITHOUT it. It may be a Rust integration test you add under a crate's tests/ directory, an example binary, or a shell script that runs `cargo run -p libninja -- gen ...` on a spec you write and inspects the output. Keep it offline (no network; the sandbox has none: always pass --offline to cargo and set CARGO_NET_OFFLINE=true). The generated client crates cannot be compiled here (their dependencies such as httpclient are not available offline), so demonstrate by inspecting generated source text / files, or by calling the project's library functions directly.
  - meta.json : {{"property": "{pid}", "summary": "<one sentence: what the change does>", "needs_to_manifest": "<what specific input/sequence/state is needed>", "how_to_run": "<exact commands>", "files_changed": [..]}}
Verify both directions yourself (demo passes on the clean tree, fails with the patch; full test suite passes with the patch apart from the one known failure). When finished, leave the worktree's tracked source files CLEAN (run `git checkout -- .` so that no patch remains applied; untracked files under seed/ stay). Do not commit anything.

In your final answer, give for each change: the summary, what it needs to manifest, and confirmation of what you ran and observed. Useful CLI: `cargo run -q -p libninja --offline -- gen --output-dir <dir> <ServiceName> <spec.yaml>` (`--examples` is a plain set-true flag). Sample specs are in {d}/test_specs/.

ADDITIONAL NOTES. Everything must run offline. Stay inside the property's stated scope: the change must break the property on an input / sequence that the SCOPE text covers (names are pairwise distinct within one scope after case folding; a half-written tree left by a crash is not a generated crate). Earlier rounds for this property already used the mechanisms summarised below; please find DIFFERENT ones (different code sites or different kinds of slip):""")
for m in sorted(glob.glob(f'/verif/seeded/{pid}-*/meta.json')):
    try:
        print(" - " + json.load(open(m)).get('summary', '')[:220])
    except Exception:
        pass
