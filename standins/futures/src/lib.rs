//! Stand-in for `futures`: only `future::BoxFuture`, with the real crate's definition.
pub mod future {
    pub type BoxFuture<'a, T> = std::pin::Pin<Box<dyn std::future::Future<Output = T> + Send + 'a>>;
}
