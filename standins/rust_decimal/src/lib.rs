//! Stand-in for `rust_decimal` (with its `serde-with-str` feature): a decimal kept as its canonical
//! text (sign, digits, optional fraction), the traits the generated code relies on, and the
//! `serde::str` / `serde::str_option` adapters (decimal <-> JSON string).
use std::fmt;
use std::str::FromStr;

#[derive(Clone, Debug, Default, PartialEq, Eq, Hash, PartialOrd, Ord)]
pub struct Decimal(String);

#[derive(Debug, Clone, PartialEq)]
pub struct Error(pub String);
impl fmt::Display for Error { fn fmt(&self, f: &mut fmt::Formatter<'_>) -> fmt::Result { write!(f, "{}", self.0) } }
impl std::error::Error for Error {}

impl Decimal {
    pub fn from_str_exact(s: &str) -> Result<Decimal, Error> {
        let t = s.strip_prefix('-').or_else(|| s.strip_prefix('+')).unwrap_or(s);
        let (i, f) = t.split_once('.').unwrap_or((t, ""));
        let digits = |x: &str| x.bytes().all(|b| b.is_ascii_digit());
        if (i.is_empty() && f.is_empty()) || !digits(i) || !digits(f) || (t.contains('.') && f.is_empty() && i.is_empty()) || i.len() + f.len() > 28 {
            return Err(Error(format!("Invalid decimal: {s}")));
        }
        let i = i.trim_start_matches('0');
        let i = if i.is_empty() { "0" } else { i };
        let neg = s.starts_with('-') && (i != "0" || f.bytes().any(|b| b != b'0'));
        Ok(Decimal(format!("{}{}{}{}", if neg { "-" } else { "" }, i, if f.is_empty() { "" } else { "." }, f)))
    }
}
impl FromStr for Decimal { type Err = Error; fn from_str(s: &str) -> Result<Self, Error> { Decimal::from_str_exact(s) } }
impl fmt::Display for Decimal { fn fmt(&self, f: &mut fmt::Formatter<'_>) -> fmt::Result { write!(f, "{}", if self.0.is_empty() { "0" } else { &self.0 }) } }

impl ::serde::Serialize for Decimal {
    fn serialize<S: ::serde::Serializer>(&self, s: S) -> Result<S::Ok, S::Error> { s.serialize_str(&self.to_string()) }
}
impl<'de> ::serde::Deserialize<'de> for Decimal {
    fn deserialize<D: ::serde::Deserializer<'de>>(d: D) -> Result<Self, D::Error> { serde::str::deserialize(d) }
}

pub mod serde {
    pub mod str {
        use crate::Decimal;
        use ::serde::Deserialize;
        pub fn serialize<S: ::serde::Serializer>(v: &Decimal, s: S) -> Result<S::Ok, S::Error> { s.serialize_str(&v.to_string()) }
        pub fn deserialize<'de, D: ::serde::Deserializer<'de>>(d: D) -> Result<Decimal, D::Error> {
            let s = String::deserialize(d)?;
            s.parse().map_err(::serde::de::Error::custom)
        }
    }
    pub mod str_option {
        use crate::Decimal;
        use ::serde::Deserialize;
        pub fn serialize<S: ::serde::Serializer>(v: &Option<Decimal>, s: S) -> Result<S::Ok, S::Error> {
            match v { Some(v) => s.serialize_str(&v.to_string()), None => s.serialize_none() }
        }
        pub fn deserialize<'de, D: ::serde::Deserializer<'de>>(d: D) -> Result<Option<Decimal>, D::Error> {
            match Option::<String>::deserialize(d)? { Some(s) => s.parse().map(Some).map_err(::serde::de::Error::custom), None => Ok(None) }
        }
    }
}
