//! Stand-in for `httpclient_oauth2`: the flow description and a bearer middleware that decorates the
//! recorded request with `Authorization: Bearer <access token>`.
#[derive(Debug, Clone)]
pub struct OAuth2Flow {
    pub client_id: String,
    pub client_secret: String,
    pub init_endpoint: String,
    pub exchange_endpoint: String,
    pub refresh_endpoint: String,
    pub redirect_uri: String,
}
#[derive(Debug, Clone)]
pub struct OAuth2 { pub access: String, pub refresh: String }
impl OAuth2Flow {
    pub fn bearer_middleware(&self, access: String, refresh: String) -> OAuth2 { OAuth2 { access, refresh } }
}
impl httpclient::Middleware for OAuth2 {
    fn decorate(&self, request: &mut httpclient::Recorded) { request.headers.push(("Authorization".to_string(), format!("Bearer {}", self.access))); }
}
